package main

import (
	"go/token"
	"go/types"
	"strings"

	"golang.org/x/tools/go/ssa"
)

func init() {
	register(&propDef{
		ID:      "C19",
		Level:   "other",
		Explain: "Static wiring proof for the upstream time limits: (F1) the package variable transports are built from is assigned, in its setter, a value derived from the setter's parameter; (F2) in NewTransport each http.Transport / net.Dialer limit field is stored the matching config.Proxy field of that variable (pairing table); (F3) main calls the setter with config.Load's result before any server or table watcher starts; (F4) every transport the HTTP proxy can use (default, insecure, per-route) is a transport.NewTransport result and ServeHTTP selects per-route > skip-verify > default; (F5) the reverse proxy's ErrorHandler is fabio's and maps net.Error timeouts to 504. Decided on all paths and call sites of the type-checked program. (D1) no context deadline is attached to the proxied HTTP request (it would outlive the response headers and cut slow bodies); (T4) no http.Transport sets MaxConnsPerHost (queueing inside net/http is covered by no timeout); Not decided: that net/http enforces the limits within the configured time (timing, delegated to net/http).",
		Run:     runC19,
		Trusted: []string{"net/http.Transport honours ResponseHeaderTimeout/IdleConnTimeout/MaxIdleConnsPerHost/Dial; net.Dialer honours Timeout/KeepAlive",
			"httputil.ReverseProxy calls ErrorHandler on RoundTrip errors"},
		Mutants: []mutant{
			{Name: "connection cap queues requests", File: "transport/transport.go", Old: "\t\tMaxIdleConnsPerHost:   cfg.Proxy.MaxConn,\n", New: "\t\tMaxIdleConnsPerHost:   cfg.Proxy.MaxConn,\n\t\tMaxConnsPerHost:       cfg.Proxy.MaxConn,\n", Expect: "C19.T4"},
			{Name: "deadline on the whole upstream exchange", File: "proxy/http_proxy.go", Old: "\t\th = newHTTPProxy(targetURL, tr, p.Config.GlobalFlushInterval)\n", New: "\t\th = newHTTPProxy(targetURL, tr, p.Config.GlobalFlushInterval)\n\t\tif d := p.Config.ResponseHeaderTimeout; d > 0 {\n\t\t\tctx, cancel := context.WithTimeout(r.Context(), p.Config.DialTimeout+d)\n\t\t\tdefer cancel()\n\t\t\tr = r.WithContext(ctx)\n\t\t}\n", Expect: "C19.D1", More: []repl{{"import (\n", "import (\n\t\"context\"\n"}}},
			{Name: "benign: request context wrapped without a deadline", File: "proxy/http_proxy.go", Old: "\t\th = newHTTPProxy(targetURL, tr, p.Config.GlobalFlushInterval)\n", New: "\t\th = newHTTPProxy(targetURL, tr, p.Config.GlobalFlushInterval)\n\t\tctx, cancel := context.WithCancel(r.Context())\n\t\tdefer cancel()\n\t\tr = r.WithContext(ctx)\n", Expect: "", More: []repl{{"import (\n", "import (\n\t\"context\"\n"}}},

			{Name: "self-assignment in SetConfig", File: "transport/transport.go", Old: "func SetConfig(c *config.Config) {\n\tcfg = c", New: "func SetConfig(cfg *config.Config) {\n\tcfg = cfg", Expect: "C19.F1"},
			{Name: "IdleConnTimeout from KeepAliveTimeout", File: "transport/transport.go", Old: "IdleConnTimeout:       cfg.Proxy.IdleConnTimeout", New: "IdleConnTimeout:       cfg.Proxy.KeepAliveTimeout", Expect: "C19.F2"},
			{Name: "dial timeout dropped", File: "transport/transport.go", Old: "Timeout:   cfg.Proxy.DialTimeout,", New: "", Expect: "C19.F2"},
			{Name: "response header timeout constant", File: "transport/transport.go", Old: "ResponseHeaderTimeout: cfg.Proxy.ResponseHeaderTimeout", New: "ResponseHeaderTimeout: 0", Expect: "C19.F2"},
			{Name: "SetConfig after startServers", File: "main.go", Old: "\ttransport.SetConfig(cfg)\n", New: "", Expect: "C19.F3"},
			{Name: "DefaultTransport in main.newHTTPProxy", File: "main.go", Old: "Transport:         transport.NewTransport(nil),", New: "Transport:         http.DefaultTransport,", Expect: "C19.F4"},
			{Name: "ignore per-route transport", File: "proxy/http_proxy.go", Old: "if t.Transport != nil {\n\t\ttr = t.Transport\n\t} else if", New: "if", Expect: "C19.F4"},
			{Name: "drop ErrorHandler", File: "proxy/http_handler.go", Old: "ErrorHandler:  httpProxyErrorHandler,", New: "", Expect: "C19.F5"},
			{Name: "502 on timeout", File: "proxy/http_handler.go", Old: "statusCode = http.StatusGatewayTimeout", New: "statusCode = http.StatusBadGateway", Expect: "C19.F5"},
			{Name: "deadline errors classified as client disconnects before the timeout test", File: "proxy/http_handler.go", Old: "\tif e, ok := err.(net.Error); ok {", New: "\tif err == context.DeadlineExceeded {\n\t\tstatusCode = StatusClientClosedRequest\n\t} else if e, ok := err.(net.Error); ok {", Expect: "C19.F5"},
			{Name: "benign: canceled tested before the timeout", File: "proxy/http_handler.go", Old: "\tif e, ok := err.(net.Error); ok {", New: "\tif err == context.Canceled {\n\t\tstatusCode = StatusClientClosedRequest\n\t} else if e, ok := err.(net.Error); ok {", Expect: ""},
			{Name: "benign: local alias for cfg.Proxy", File: "transport/transport.go", Old: "\treturn &http.Transport{", New: "\tp := cfg.Proxy\n\t_ = p\n\treturn &http.Transport{", Expect: ""},
		},
	})
}

// transportCfgGlobal finds the package-level *config.Config variable NewTransport reads.
func transportCfgGlobal(c *Ctx, newT *ssa.Function) *ssa.Global {
	var g *ssa.Global
	eachInstr(newT, func(i ssa.Instruction) {
		if u, ok := i.(*ssa.UnOp); ok && u.Op == token.MUL {
			if gl, ok := u.X.(*ssa.Global); ok && namedIs(gl.Type().(*types.Pointer).Elem(), "config.Config") {
				g = gl
			}
		}
	})
	return g
}

func runC19(c *Ctx) {
	runC19D1(c)
	runC19T4(c)
	newT := c.fn("transport", "NewTransport")
	if !c.need("C19.F2", newT, "transport.NewTransport") {
		return
	}
	g := transportCfgGlobal(c, newT)
	if g == nil {
		c.undecided("C19.F1", "anchor|transport config variable", "NewTransport does not read a package-level *config.Config variable")
		return
	}
	gname := "transport." + g.Name()

	// F1: a setter stores a parameter-derived value into the variable.
	sp := c.spkg("transport")
	nSetters := 0
	for _, m := range sp.Members {
		f, ok := m.(*ssa.Function)
		if !ok || f.Name() == "init" || len(f.Blocks) == 0 {
			continue
		}
		hasCfgParam := false
		for _, p := range f.Params {
			if namedIs(p.Type(), "config.Config") {
				hasCfgParam = true
			}
		}
		if !hasCfgParam || f == newT {
			continue
		}
		nSetters++
		stored := false
		var pos token.Pos = f.Pos()
		for _, fn := range withAnon(f) {
			eachInstr(fn, func(i ssa.Instruction) {
				if st, ok := i.(*ssa.Store); ok && st.Addr == g {
					pos = st.Pos()
					if derives(st.Val, func(v ssa.Value) bool { p, ok := v.(*ssa.Parameter); return ok && namedIs(p.Type(), "config.Config") }) {
						stored = true
					}
				}
			})
		}
		c.check("C19.F1", fnKey(f)+"|store "+gname, pos, stored,
			"setter must assign the package variable "+gname+" (read by NewTransport) a value derived from its *config.Config parameter; no such store exists in the function body (a parameter shadowing the variable makes `cfg = cfg` a self-assignment) => every transport is built from the zero config, i.e. without limits")
	}
	c.atLeast("C19.F1", "setter of "+gname+" taking *config.Config", nSetters, 1)

	// F2: pairing table transport field <- config.Proxy field
	pair := map[string]string{
		"ResponseHeaderTimeout": "ResponseHeaderTimeout",
		"IdleConnTimeout":       "IdleConnTimeout",
		"MaxIdleConnsPerHost":   "MaxConn",
	}
	dialPair := map[string]string{"Timeout": "DialTimeout", "KeepAlive": "KeepAliveTimeout"}
	trs := allocsOf(newT, "http.Transport")
	if len(trs) != 1 {
		c.undecided("C19.F2", "anchor|http.Transport literal in NewTransport", "expected exactly one http.Transport literal")
		return
	}
	// the literal must be what is returned
	eachInstr(newT, func(i ssa.Instruction) {
		if r, ok := i.(*ssa.Return); ok {
			c.check("C19.F2", "transport.NewTransport|return", r.Pos(), len(r.Results) == 1 && derives(r.Results[0], func(v ssa.Value) bool { return v == trs[0] }),
				"NewTransport must return the transport literal whose fields are wired to the configuration")
		}
	})
	fs := fieldStores(trs[0])
	wantPath := func(field string) string { return gname + ".Proxy." + field }
	checkField := func(stores []*ssa.Store, owner, field, cfgField string) {
		key := "transport.NewTransport|" + owner + "." + field
		if len(stores) == 0 {
			c.check("C19.F2", key, newT.Pos(), false, owner+"."+field+" is never set: the configured proxy."+strings.ToLower(cfgField)+" cannot take effect")
			return
		}
		for _, st := range stores {
			got := accessPath(st.Val)
			ok := got == wantPath(cfgField) || derivesPath(st.Val, wantPath(cfgField))
			c.check("C19.F2", key, st.Pos(), ok, owner+"."+field+" must be loaded from "+wantPath(cfgField)+", got "+got)
		}
	}
	for tf, cf := range pair {
		checkField(fs[tf], "http.Transport", tf, cf)
	}
	// dialer: Dial or DialContext must be a bound method of a net.Dialer literal
	dialStores := append(append([]*ssa.Store{}, fs["Dial"]...), fs["DialContext"]...)
	if len(dialStores) == 0 {
		c.check("C19.F2", "transport.NewTransport|http.Transport.Dial", newT.Pos(), false, "no Dial/DialContext set: dial timeout and keep-alive cannot take effect")
	}
	for _, st := range dialStores {
		var dialer ssa.Value
		if mc, ok := st.Val.(*ssa.MakeClosure); ok && len(mc.Bindings) == 1 {
			if fn, ok := mc.Fn.(*ssa.Function); ok && strings.HasPrefix(fn.Name(), "Dial") && namedIs(mc.Bindings[0].Type(), "net.Dialer") {
				dialer = mc.Bindings[0]
			}
		}
		if dialer == nil {
			c.check("C19.F2", "transport.NewTransport|http.Transport.Dial", st.Pos(), false, "Dial must be the Dial/DialContext method of a net.Dialer literal carrying the configured limits")
			continue
		}
		c.check("C19.F2", "transport.NewTransport|http.Transport.Dial", st.Pos(), true, "bound method of a net.Dialer literal")
		ds := fieldStores(dialer)
		for df, cf := range dialPair {
			checkField(ds[df], "net.Dialer", df, cf)
		}
	}
	if sts := fs["TLSClientConfig"]; len(sts) == 0 {
		c.check("C19.F2", "transport.NewTransport|http.Transport.TLSClientConfig", newT.Pos(), false, "TLSClientConfig not set from the parameter")
	} else {
		for _, st := range sts {
			_, isParam := st.Val.(*ssa.Parameter)
			c.check("C19.F2", "transport.NewTransport|http.Transport.TLSClientConfig", st.Pos(), isParam, "TLSClientConfig must be the tlscfg parameter")
		}
	}

	runC19F3(c)
	runC19F4(c, newT)
	runC19F5(c)
	runC19F5b(c)
}

// derivesPath: the stored value is a conversion/arith-free derivation of a load with the given access path.
func derivesPath(v ssa.Value, path string) bool {
	switch x := v.(type) {
	case *ssa.Convert:
		return derivesPath(x.X, path)
	case *ssa.ChangeType:
		return derivesPath(x.X, path)
	case *ssa.Phi:
		if len(x.Edges) == 0 {
			return false
		}
		for _, e := range x.Edges {
			if !derivesPath(e, path) {
				return false
			}
		}
		return true
	}
	return accessPath(v) == path
}

func runC19F3(c *Ctx) {
	mainFn := c.fn("main", "main")
	if !c.need("C19.F3", mainFn, "main.main") {
		return
	}
	var setCalls []ssa.Instruction
	eachInstr(mainFn, func(i ssa.Instruction) {
		if cc := callCommon(i); cc != nil {
			if sc := cc.StaticCallee(); sc != nil && sc.Pkg != nil && sc.Pkg.Pkg.Path() == repoMod+"/transport" && sc != c.fn("transport", "NewTransport") {
				for _, a := range cc.Args {
					if namedIs(a.Type(), "config.Config") {
						setCalls = append(setCalls, i)
					}
				}
			}
		}
	})
	if len(setCalls) == 0 {
		c.check("C19.F3", "main.main|call transport setter", mainFn.Pos(), false, "main never hands the loaded configuration to package transport: all transports are built from the zero config")
		return
	}
	set := setCalls[0]
	cc := callCommon(set)
	fromLoad := derives(cc.Args[0], func(v ssa.Value) bool { _, ok := isCallTo(v, repoMod+"/config.Load"); return ok })
	c.check("C19.F3", "main.main|setter argument", set.Pos(), fromLoad, "the configuration given to the transport setter must be config.Load's result")
	// must dominate everything that builds transports: startServers, go watchBackend, startAdmin
	n := 0
	eachInstr(mainFn, func(i ssa.Instruction) {
		cc := callCommon(i)
		if cc == nil {
			return
		}
		sc := cc.StaticCallee()
		if sc == nil || !isRepoFn(sc) {
			return
		}
		// does the callee (transitively) reach NewTransport?
		if c.reach(sc)[c.fn("transport", "NewTransport")] {
			n++
			c.check("C19.F3", "main.main|"+fnKey(sc)+" after setter", i.Pos(), dominatesInstr(set, i),
				fnKey(sc)+" (which can build transports) must run after the transport configuration is set; otherwise transports are built with zero limits")
		}
	})
	c.atLeast("C19.F3", "calls in main that reach transport.NewTransport", n, 2)
}

func runC19F4(c *Ctx, newT *ssa.Function) {
	isNewT := func(v ssa.Value) bool {
		call, ok := v.(*ssa.Call)
		return ok && call.Call.StaticCallee() == newT
	}
	// every store to HTTPProxy.Transport / InsecureTransport / Target.Transport in non-test repo code
	n := 0
	for _, f := range c.AllFns {
		eachInstr(f, func(i ssa.Instruction) {
			st, ok := i.(*ssa.Store)
			if !ok {
				return
			}
			fa, ok := st.Addr.(*ssa.FieldAddr)
			if !ok {
				return
			}
			fname := fieldName(fa.X.Type(), fa.Field)
			owner := ""
			switch {
			case namedIs(fa.X.Type(), "proxy.HTTPProxy") && (fname == "Transport" || fname == "InsecureTransport"):
				owner = "proxy.HTTPProxy"
			case namedIs(fa.X.Type(), "route.Target") && fname == "Transport":
				owner = "route.Target"
			default:
				return
			}
			n++
			v := st.Val
			if mi, ok := v.(*ssa.MakeInterface); ok {
				v = mi.X
			}
			c.check("C19.F4", fnKey(f)+"|"+owner+"."+fname, st.Pos(), isNewT(v),
				owner+"."+fname+" must be a transport.NewTransport result so that the configured limits apply; got "+accessPath(st.Val))
		})
	}
	c.atLeast("C19.F4", "stores to HTTPProxy.Transport/InsecureTransport/Target.Transport", n, 3)

	// selection order in ServeHTTP
	serve := c.method("proxy", "HTTPProxy", "ServeHTTP")
	if !c.need("C19.F4", serve, "proxy.HTTPProxy.ServeHTTP") {
		return
	}
	nSel := 0
	eachInstr(serve, func(i ssa.Instruction) {
		call, ok := i.(*ssa.Call)
		if !ok {
			return
		}
		sc := call.Call.StaticCallee()
		if sc == nil || sc.Name() != "newHTTPProxy" || len(call.Call.Args) < 2 {
			return
		}
		nSel++
		tr := call.Call.Args[1]
		key := "proxy.(*HTTPProxy).ServeHTTP|transport selection"
		defs := defsOf(tr)
		if len(defs) < 2 {
			c.check("C19.F4", key, call.Pos(), false, "the transport passed to the reverse proxy must be selected among per-route, skip-verify and default transports; got a single value "+accessPath(tr))
			return
		}
		var sawRoute, sawInsecure, sawDefault bool
		for _, d := range defs {
			dv := stripIface(d.Val)
			facts := factsAt(d.Block)
			isRouteTr := func(v ssa.Value) bool { _, ok := fieldOf(stripIface(v), "route.Target", "Transport"); return ok }
			isF := func(v ssa.Value, typ, field string) bool { _, ok := fieldOf(stripIface(v), typ, field); return ok }
			switch {
			case isRouteTr(dv):
				// must be guarded by t.Transport != nil
				for _, f := range facts {
					if nn, ok := nilFact(f, isRouteTr); ok && nn {
						sawRoute = true
					}
				}
			case isF(dv, "proxy.HTTPProxy", "InsecureTransport"):
				guard, notRoute := false, false
				for _, f := range facts {
					if isF(f.Cond, "route.Target", "TLSSkipVerify") && f.Truth {
						guard = true
					}
					if nn, ok := nilFact(f, isRouteTr); ok && !nn {
						notRoute = true
					}
				}
				sawInsecure = guard && notRoute
			case isF(dv, "proxy.HTTPProxy", "Transport"):
				sawDefault = true
			}
		}
		c.check("C19.F4", key, call.Pos(), sawRoute && sawInsecure && sawDefault,
			"transport selection must be: per-route transport when t.Transport != nil, else insecure transport when t.TLSSkipVerify, else default")
	})
	c.atLeast("C19.F4", "newHTTPProxy calls in ServeHTTP", nSel, 1)
}

func stripIface(v ssa.Value) ssa.Value {
	for {
		switch x := v.(type) {
		case *ssa.MakeInterface:
			v = x.X
		case *ssa.ChangeInterface:
			v = x.X
		default:
			return v
		}
	}
}

func runC19F5(c *Ctx) {
	// every httputil.ReverseProxy literal in package proxy sets ErrorHandler to a repo function
	n := 0
	var handlers []*ssa.Function
	for _, f := range c.AllFns {
		if f.Pkg == nil || f.Pkg != c.spkg("proxy") {
			continue
		}
		for _, a := range allocsOf(f, "httputil.ReverseProxy") {
			n++
			fs := fieldStores(a)
			ok := false
			for _, st := range fs["ErrorHandler"] {
				if h, isFn := st.Val.(*ssa.Function); isFn && isRepoFn(h) {
					ok = true
					handlers = append(handlers, h)
				} else if mc, isMC := st.Val.(*ssa.MakeClosure); isMC {
					ok = true
					handlers = append(handlers, mc.Fn.(*ssa.Function))
				}
			}
			c.check("C19.F5", fnKey(f)+"|ReverseProxy.ErrorHandler", a.Pos(), ok, "the reverse proxy must use fabio's error handler; without it every upstream timeout is answered 502 instead of 504")
			// Transport = parameter (also C07.D1)
			okT := false
			for _, st := range fs["Transport"] {
				if _, isP := stripIface(st.Val).(*ssa.Parameter); isP {
					okT = true
				}
			}
			c.check("C19.F5", fnKey(f)+"|ReverseProxy.Transport", a.Pos(), okT, "the reverse proxy's Transport must be the transport selected by ServeHTTP (the tr parameter)")
		}
	}
	c.atLeast("C19.F5", "httputil.ReverseProxy literals in package proxy", n, 1)
	for _, h := range handlers {
		// WriteHeader argument must be 504 on the edge where (net.Error).Timeout() is true
		found := false
		eachInstr(h, func(i ssa.Instruction) {
			cc := callCommon(i)
			if cc == nil || !cc.IsInvoke() || cc.Method.Name() != "WriteHeader" || len(cc.Args) != 1 {
				return
			}
			phi, ok := cc.Args[0].(*ssa.Phi)
			if !ok {
				return
			}
			for k, e := range phi.Edges {
				if n, ok := constInt(e); ok && n == 504 {
					for _, f := range factsAt(phi.Block().Preds[k]) {
						if call, ok := f.Cond.(*ssa.Call); ok && f.Truth && call.Call.IsInvoke() && call.Call.Method.Name() == "Timeout" && typeStr(call.Call.Value.Type()) == "net.Error" {
							found = true
						}
					}
				}
			}
		})
		c.check("C19.F5", fnKey(h)+"|timeout => 504", h.Pos(), found, "the error handler must answer 504 Gateway Timeout on the edge where the error is a net.Error with Timeout() == true")
	}
}
