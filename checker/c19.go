package main

import (
	"go/token"
	"go/types"
	"os"
	"strings"

	"golang.org/x/tools/go/ssa"
)

func init() {
	register(&propDef{
		ID:      "C19",
		Level:   "other",
		Explain: "Static wiring proof for the upstream time limits, decided on value ORIGINS (c19_flow.go: where a value comes from, as access paths through helpers, parameters, locals, struct copies, closures and atomic cells, with the branch conditions under which each origin is selected; a value that only passes through a field of a small struct built for the purpose, is put there by a method or constructor, or is produced behind an interface of the repository is followed to where it was taken from) so that it does not depend on how the code is cut into functions and types or spelled: (F2) every http.Transport that transport.NewTransport returns is built for the call, and each limit field (ResponseHeaderTimeout, IdleConnTimeout, MaxIdleConnsPerHost; Timeout and KeepAlive of the net.Dialer whose Dial/DialContext it uses) holds, unmodified, the matching config.Proxy field read from a package-level configuration variable (pairing table); (F1) every store into that variable - or into an object on the way to it, as when the setter replaces the whole factory - outside package initialisation assigns the matching part of a configuration parameter (or of config.Load's result); a program without such a store is reported at the functions that take a configuration; (F3) the program hands config.Load's result to the setter, and in main.main nothing that can reach NewTransport (call, go, callback) is started on a path on which the store has not been executed (helpers that set it on all their paths count; a callee that orders the two itself counts); (F4) every value stored into the default / skip-verify transport of the proxy and the per-route transport of a target (known by name, or - for a place with another name - by the way the selection uses it) is a NewTransport result or was read from one of these places, and the Transport of every httputil.ReverseProxy is selected per-route (when non-nil) > skip-verify (when the target says so) > default, nothing else; (F5) every reverse proxy has fabio's ErrorHandler and a Transport, and wherever the handler (or a helper) writes the status, 504 is selected on the edge where the error says Timeout(), no other test of the error except nil / sentinels disjoint from timeouts having to fail first. (D1) no context deadline is attached to the proxied HTTP request (it would outlive the response headers and cut slow bodies); (T4) no http.Transport sets MaxConnsPerHost (queueing inside net/http is covered by no timeout); Not decided: that net/http enforces the limits within the configured time (timing, delegated to net/http).",
		Run:     runC19,
		Trusted: []string{"net/http.Transport honours ResponseHeaderTimeout/IdleConnTimeout/MaxIdleConnsPerHost/Dial; net.Dialer honours Timeout/KeepAlive",
			"httputil.ReverseProxy calls ErrorHandler on RoundTrip errors"},
		Mutants: c19devFilter(append([]mutant{
			{Name: "connection cap queues requests", File: "transport/transport.go", Old: "\t\tMaxIdleConnsPerHost:   cfg.Proxy.MaxConn,\n", New: "\t\tMaxIdleConnsPerHost:   cfg.Proxy.MaxConn,\n\t\tMaxConnsPerHost:       cfg.Proxy.MaxConn,\n", Expect: "C19.T4"},
			{Name: "deadline on the whole upstream exchange", File: "proxy/http_proxy.go", Old: "\t\th = newHTTPProxy(targetURL, tr, p.Config.GlobalFlushInterval)\n", New: "\t\th = newHTTPProxy(targetURL, tr, p.Config.GlobalFlushInterval)\n\t\tif d := p.Config.ResponseHeaderTimeout; d > 0 {\n\t\t\tctx, cancel := context.WithTimeout(r.Context(), p.Config.DialTimeout+d)\n\t\t\tdefer cancel()\n\t\t\tr = r.WithContext(ctx)\n\t\t}\n", Expect: "C19.D1", More: []repl{{"import (\n", "import (\n\t\"context\"\n"}}},
			{Name: "benign: request context wrapped without a deadline", File: "proxy/http_proxy.go", Old: "\t\th = newHTTPProxy(targetURL, tr, p.Config.GlobalFlushInterval)\n", New: "\t\th = newHTTPProxy(targetURL, tr, p.Config.GlobalFlushInterval)\n\t\tctx, cancel := context.WithCancel(r.Context())\n\t\tdefer cancel()\n\t\tr = r.WithContext(ctx)\n", Expect: "", More: []repl{{"import (\n", "import (\n\t\"context\"\n"}}},

			{Name: "self-assignment in SetConfig", File: "transport/transport.go", Old: "func SetConfig(c *config.Config) {\n\tcfg = c", New: "func SetConfig(cfg *config.Config) {\n\tcfg = cfg", Expect: "C19.F1"},
			{Name: "IdleConnTimeout from KeepAliveTimeout", File: "transport/transport.go", Old: "IdleConnTimeout:       cfg.Proxy.IdleConnTimeout", New: "IdleConnTimeout:       cfg.Proxy.KeepAliveTimeout", Expect: "C19.F2"},
			{Name: "dial timeout dropped", File: "transport/transport.go", Old: "Timeout:   cfg.Proxy.DialTimeout,", New: "", Expect: "C19.F2"},
			{Name: "response header timeout constant", File: "transport/transport.go", Old: "ResponseHeaderTimeout: cfg.Proxy.ResponseHeaderTimeout", New: "ResponseHeaderTimeout: 0", Expect: "C19.F2"},
			{Name: "SetConfig after startServers", File: "main.go", Old: "\ttransport.SetConfig(cfg)\n", New: "", Expect: "C19.F3"},
			{Name: "DefaultTransport in main.newHTTPProxy", File: "main.go", Old: "Transport:         transport.NewTransport(nil),", New: "Transport:         http.DefaultTransport,", Expect: "C19.F4"},
			{Name: "ignore per-route transport", File: "proxy/http_proxy.go", Old: "if t.Transport != nil {\n\t\ttr = t.Transport\n\t} else if", New: "if", Expect: "C19.F4"},
			{Name: "drop ErrorHandler", File: "proxy/http_handler.go", Old: "ErrorHandler:  httpProxyErrorHandler,", New: "", Expect: "C19.F5"},
			{Name: "502 on timeout", File: "proxy/http_handler.go", Old: "statusCode = http.StatusGatewayTimeout", New: "statusCode = http.StatusBadGateway", Expect: "C19.F5"},
			{Name: "deadline errors classified as client disconnects before the timeout test", File: "proxy/http_handler.go", Old: "\tif e, ok := err.(net.Error); ok {", New: "\tif err == context.DeadlineExceeded {\n\t\tstatusCode = StatusClientClosedRequest\n\t} else if e, ok := err.(net.Error); ok {", Expect: "C19.F5"},
			{Name: "benign: canceled tested before the timeout", File: "proxy/http_handler.go", Old: "\tif e, ok := err.(net.Error); ok {", New: "\tif err == context.Canceled {\n\t\tstatusCode = StatusClientClosedRequest\n\t} else if e, ok := err.(net.Error); ok {", Expect: ""},
			{Name: "benign: local alias for cfg.Proxy", File: "transport/transport.go", Old: "\treturn &http.Transport{", New: "\tp := cfg.Proxy\n\t_ = p\n\treturn &http.Transport{", Expect: ""},
		}, append(append(c19moreMutants(), c19round2Mutants()...), c19round3Mutants()...)...)),
	})
}

// c19devFilter: development aid - C19_MUTANT=<substring> restricts `verifcheck mutants C19` to the mutants whose name
// contains it.
func c19devFilter(ms []mutant) []mutant {
	want := os.Getenv("C19_MUTANT")
	if want == "" {
		return ms
	}
	var keep []mutant
	for _, m := range ms {
		if strings.Contains(m.Name, want) {
			keep = append(keep, m)
		}
	}
	return keep
}

func runC19(c *Ctx) {
	c19index(c)
	runC19D1(c)
	runC19T4(c)
	runC19F5(c)
	newT := c19findNewTransport(c)
	if !c.need("C19.F2", newT, "transport.NewTransport") {
		return
	}
	reqs := runC19F2(c, newT)
	stores := runC19F1(c, newT, reqs)
	runC19F3(c, newT, reqs, stores)
	runC19F4(c, newT)
}

// c19findNewTransport: transport.NewTransport (exported API, named by the property); when no function of that name
// exists (renamed, moved to another package), the exported function of the repository that returns *http.Transport
// and is not a wrapper around another such function - provided there is exactly one.
func c19findNewTransport(c *Ctx) *ssa.Function {
	if f := c.fn("transport", "NewTransport"); f != nil {
		return f
	}
	var cands []*ssa.Function
	for _, f := range c.AllFns {
		if f.Parent() != nil || f.Signature.Recv() != nil || !token.IsExported(f.Name()) || isInitFn(f) {
			continue
		}
		if res := f.Signature.Results(); res.Len() == 1 && namedIs(res.At(0).Type(), "net/http.Transport") {
			cands = append(cands, f)
		}
	}
	var inner []*ssa.Function
	for _, f := range cands {
		wraps := false
		for _, g := range c.region(f) {
			for _, h := range cands {
				wraps = wraps || (g == h && g != f)
			}
		}
		if !wraps {
			inner = append(inner, f)
		}
	}
	if len(inner) == 1 {
		return inner[0]
	}
	return nil
}

// c19cfgType: t (through pointers) is a configuration struct of package config; rel is its position inside
// config.Config ([] for config.Config itself, [Proxy] for config.Proxy).
func c19cfgType(t types.Type) (rel []string, ok bool) {
	switch {
	case t == nil:
		return nil, false
	case namedIs(t, repoMod+"/config.Config"):
		return []string{}, true
	case namedIs(t, repoMod+"/config.Proxy"):
		return []string{"Proxy"}, true
	}
	return nil, false
}

func c19eq(a, b []string) bool {
	return strings.Join(a, ".") == strings.Join(b, ".") && len(a) == len(b)
}

// c19cfgReq: a variable the transports read their limits from, and the part of config.Config it has to hold.
type c19cfgReq struct {
	key  string   // "transport.cfg"
	want []string // position inside config.Config the variable must hold: [] / [Proxy] / [Proxy DialTimeout]
	root *ssa.Global
	path []string // the fields that lead from the global to the variable (empty when the variable is the global itself)
}

// prefix: the key of the memory root.path[:j] (j == len(path): the variable itself).
func (q c19cfgReq) prefix(j int) string { return c19org{root: q.root, fields: q.path[:j]}.key() }

// c19fieldType: the type of field `field` of struct type t (through pointers); nil when there is none.
func c19fieldType(t types.Type, field string) types.Type {
	for t != nil {
		t = types.Unalias(t)
		if p, ok := t.Underlying().(*types.Pointer); ok {
			t = p.Elem()
			continue
		}
		break
	}
	if t == nil {
		return nil
	}
	if st, ok := t.Underlying().(*types.Struct); ok {
		for k := 0; k < st.NumFields(); k++ {
			if st.Field(k).Name() == field {
				return st.Field(k).Type()
			}
		}
	}
	return nil
}

// c19aliasStores: the stores into fields of the object built at alloc a (named type typ), made directly or through a
// pointer that resolves to a (a helper filling the object in).
func c19aliasStores(c *Ctx, fl *c19flow, a *ssa.Alloc, typ string) map[string][]*ssa.Store {
	out := fieldStores(a)
	for _, f := range c.AllFns {
		eachInstr(f, func(i ssa.Instruction) {
			st, ok := i.(*ssa.Store)
			if !ok {
				return
			}
			fa, ok := st.Addr.(*ssa.FieldAddr)
			if !ok || fa.X == a || !namedIs(fa.X.Type(), typ) {
				return
			}
			for _, o := range fl.origins(fa.X) {
				if o.root == a && len(o.fields) == 0 {
					name := fieldName(fa.X.Type(), fa.Field)
					out[name] = append(out[name], st)
					return
				}
			}
		})
	}
	return out
}

// F2: every transport NewTransport returns is an http.Transport built for the call whose limit fields hold the
// matching field of the package's configuration variable.
func runC19F2(c *Ctx, newT *ssa.Function) []c19cfgReq {
	fl := &c19flow{stopParam: func(p *ssa.Parameter) bool { return p.Parent() == newT }}
	var trs []*ssa.Alloc
	eachInstr(newT, func(i ssa.Instruction) {
		r, ok := i.(*ssa.Return)
		if !ok {
			return
		}
		good := len(r.Results) == 1
		if good {
			orgs := fl.origins(r.Results[0])
			good = len(orgs) > 0
			for _, o := range orgs {
				a, isA := o.root.(*ssa.Alloc)
				if !isA || len(o.fields) != 0 || !namedIs(a.Type(), "net/http.Transport") {
					good = false
					continue
				}
				dup := false
				for _, t := range trs {
					dup = dup || t == a
				}
				if !dup {
					trs = append(trs, a)
				}
			}
		}
		c.check("C19.F2", "transport.NewTransport|return", r.Pos(), good,
			"NewTransport must return an http.Transport built for this call (literal or field-by-field, possibly in a helper) so that its limit fields can be traced to the configuration")
	})
	if len(trs) == 0 {
		c.undecided("C19.F2", "anchor|http.Transport built by NewTransport", "no http.Transport construction reaches NewTransport's result")
		return nil
	}

	var reqs []c19cfgReq
	addReq := func(q c19cfgReq) {
		for _, x := range reqs {
			if x.key == q.key && c19eq(x.want, q.want) {
				return
			}
		}
		reqs = append(reqs, q)
	}
	// read: the origin must be <configuration variable>.<rest> with rest leading to config.Proxy.<cfgField>
	read := func(o c19org, cfgField string) (c19cfgReq, bool) {
		g, ok := o.root.(*ssa.Global)
		if !ok {
			return c19cfgReq{}, false
		}
		for k := 0; k <= len(o.fields); k++ {
			rel, isCfg := c19cfgType(o.types[k])
			if !isCfg {
				continue
			}
			if !c19eq(append(append([]string{}, rel...), o.fields[k:]...), []string{"Proxy", cfgField}) {
				return c19cfgReq{}, false
			}
			q := c19cfgReq{key: c19org{root: g, fields: o.fields[:k]}.key(), want: rel, root: g, path: append([]string{}, o.fields[:k]...)}
			return q, true
		}
		// a scalar variable: its setter has to fill it from config.Proxy.<cfgField> (decided by F1)
		q := c19cfgReq{key: o.key(), want: []string{"Proxy", cfgField}, root: g, path: append([]string{}, o.fields...)}
		return q, true
	}
	checkLimit := func(at token.Pos, stores []*ssa.Store, owner, field, cfgField string) {
		key := "transport.NewTransport|" + owner + "." + field
		if len(stores) == 0 {
			c.check("C19.F2", key, at, false, owner+"."+field+" is never set: the configured proxy."+strings.ToLower(cfgField)+" cannot take effect")
			return
		}
		for _, st := range stores {
			orgs := fl.origins(st.Val)
			ok, got := len(orgs) > 0, ""
			for _, o := range orgs {
				if q, good := read(o, cfgField); good {
					addReq(q)
				} else {
					ok, got = false, o.key()
				}
			}
			c.check("C19.F2", key, st.Pos(), ok, owner+"."+field+" must hold (unmodified) the field Proxy."+cfgField+" of the package's configuration variable; got "+got)
		}
	}
	pair := [][2]string{{"ResponseHeaderTimeout", "ResponseHeaderTimeout"}, {"IdleConnTimeout", "IdleConnTimeout"}, {"MaxIdleConnsPerHost", "MaxConn"}}
	dialPair := [][2]string{{"Timeout", "DialTimeout"}, {"KeepAlive", "KeepAliveTimeout"}}
	for _, tr := range trs {
		fs := c19aliasStores(c, fl, tr, "net/http.Transport")
		for _, p := range pair {
			checkLimit(tr.Pos(), fs[p[0]], "http.Transport", p[0], p[1])
		}
		// Dial / DialContext must end in the Dial method of a net.Dialer built for this transport
		dialStores := append(append([]*ssa.Store{}, fs["Dial"]...), fs["DialContext"]...)
		if len(dialStores) == 0 {
			c.check("C19.F2", "transport.NewTransport|http.Transport.Dial", tr.Pos(), false, "no Dial/DialContext set: dial timeout and keep-alive cannot take effect")
		}
		for _, st := range dialStores {
			dialers, ok := c19dialers(fl, st.Val)
			c.check("C19.F2", "transport.NewTransport|http.Transport.Dial", st.Pos(), ok && len(dialers) > 0,
				"Dial must be (or only call) the Dial/DialContext method of a net.Dialer built for this transport and carrying the configured limits")
			for _, d := range dialers {
				ds := c19aliasStores(c, fl, d, "net.Dialer")
				for _, p := range dialPair {
					checkLimit(d.Pos(), ds[p[0]], "net.Dialer", p[0], p[1])
				}
			}
		}
		if sts := fs["TLSClientConfig"]; len(sts) == 0 {
			c.check("C19.F2", "transport.NewTransport|http.Transport.TLSClientConfig", tr.Pos(), false, "TLSClientConfig not set from the parameter")
		} else {
			for _, st := range sts {
				orgs := fl.origins(st.Val)
				ok := len(orgs) > 0
				for len(orgs) == 1 { // tlscfg.Clone() is as good as tlscfg
					call, isCall := orgs[0].root.(*ssa.Call)
					if !isCall || calleeName(&call.Call) != "(*crypto/tls.Config).Clone" || len(orgs[0].fields) != 0 {
						break
					}
					orgs = fl.origins(call.Call.Args[0])
				}
				// the caller's TLS settings must arrive: the *tls.Config parameter itself, or - when NewTransport takes
				// the settings apart (server name, skip-verify flag) - a tls.Config built for the call from its parameters
				var tlsParam *ssa.Parameter
				for _, p := range newT.Params {
					if namedIs(p.Type(), "crypto/tls.Config") {
						tlsParam = p
					}
				}
				fromParam := false
				for _, o := range orgs {
					switch x := o.root.(type) {
					case *ssa.Parameter:
						if x.Parent() != newT || len(o.fields) != 0 {
							ok = false
						}
						fromParam = true
					case *ssa.Alloc:
						if len(o.fields) != 0 || !namedIs(x.Type(), "crypto/tls.Config") {
							ok = false
							break
						}
						if tlsParam != nil { // a default for a nil parameter only
							isNil := false
							for _, f := range o.facts {
								if nn, known := nilFact(f, func(v ssa.Value) bool { return v == ssa.Value(tlsParam) }); known && !nn {
									isNil = true
								}
							}
							ok = ok && isNil
							break
						}
						for _, sts := range fieldStores(x) {
							for _, fst := range sts {
								for _, fo := range fl.origins(fst.Val) {
									if p, isP := fo.root.(*ssa.Parameter); isP && p.Parent() == newT {
										fromParam = true
									}
								}
							}
						}
					case *ssa.Const: // no TLS settings asked for on this path
						if !x.IsNil() || tlsParam != nil {
							ok = false
						}
					default:
						ok = false
					}
				}
				c.check("C19.F2", "transport.NewTransport|http.Transport.TLSClientConfig", st.Pos(), ok && fromParam, "TLSClientConfig must be NewTransport's TLS configuration parameter (or a tls.Config built for the call from its parameters)")
			}
		}
	}
	return reqs
}

// c19dialers resolves the value of http.Transport.Dial/DialContext to the net.Dialer objects whose Dial it is: a bound
// method value d.Dial, or a closure / named function whose connections all come from d.Dial / d.DialContext.
func c19dialers(fl *c19flow, v ssa.Value) ([]*ssa.Alloc, bool) {
	var out []*ssa.Alloc
	ok := true
	recv := func(x ssa.Value) {
		orgs := fl.origins(x)
		if len(orgs) == 0 {
			ok = false
		}
		for _, o := range orgs {
			a, isA := o.root.(*ssa.Alloc)
			if !isA || len(o.fields) != 0 || !namedIs(a.Type(), "net.Dialer") {
				ok = false
				continue
			}
			out = append(out, a)
		}
	}
	isDial := func(n string) bool {
		return n == "(*net.Dialer).Dial" || n == "(*net.Dialer).DialContext"
	}
	orgs := fl.origins(v)
	if len(orgs) == 0 {
		return nil, false
	}
	for _, o := range orgs {
		var fn *ssa.Function
		switch x := o.root.(type) {
		case *ssa.MakeClosure:
			fn, _ = x.Fn.(*ssa.Function)
			if fn != nil && fn.Synthetic != "" && len(x.Bindings) == 1 && isDial(funcName(unwrap(fn))) {
				recv(x.Bindings[0]) // d.Dial as a method value
				continue
			}
		case *ssa.Function:
			fn = x
		}
		if fn == nil || len(o.fields) != 0 || !isRepoFn(fn) || len(fn.Blocks) == 0 {
			ok = false
			continue
		}
		// a hand-written dial function: every connection it returns must come from a net.Dialer's Dial
		n := 0
		eachInstr(fn, func(i ssa.Instruction) {
			call, isCall := i.(*ssa.Call)
			if !isCall {
				return
			}
			name := calleeName(&call.Call)
			switch {
			case isDial(name) && len(call.Call.Args) > 0:
				n++
				recv(call.Call.Args[0])
			case strings.HasPrefix(name, "net.Dial") || strings.HasPrefix(name, "crypto/tls.Dial"):
				ok = false // a dial that bypasses the configured dialer
			}
		})
		if n == 0 {
			ok = false
		}
	}
	return out, ok
}

func c19isConfigLoad(f *ssa.Function) bool { return f != nil && funcName(f) == repoMod+"/config.Load" }

// c19nilParamFact: among the facts is "a configuration parameter is nil".
func c19nilParamFact(facts []Fact) bool {
	for _, f := range facts {
		nn, ok := nilFact(f, func(v ssa.Value) bool {
			p, isP := v.(*ssa.Parameter)
			if !isP {
				return false
			}
			_, isCfg := c19cfgType(p.Type())
			return isCfg
		})
		if ok && !nn {
			return true
		}
	}
	return false
}

// F1: every store into a configuration variable (outside package initialisation) assigns the matching part of a
// *config.Config / config.Proxy parameter. Returns the stores (the "setter" landmarks of F3).
func runC19F1(c *Ctx, newT *ssa.Function, reqs []c19cfgReq) map[ssa.Instruction]bool {
	stores := map[ssa.Instruction]bool{}
	if len(reqs) == 0 {
		c.undecided("C19.F1", "anchor|transport config variable", "the limits of the transports NewTransport builds are not read from a package-level configuration variable")
		return stores
	}
	addrFl := &c19flow{}
	valFl := &c19flow{stopParam: c19apiParam, opaque: c19isConfigLoad}
	inNewT := map[*ssa.Function]bool{}
	for _, f := range c.region(newT) {
		inNewT[f] = true
	}
	for _, q := range reqs {
		n := 0
		for _, f := range c.AllFns {
			root := f
			for root.Parent() != nil {
				root = root.Parent()
			}
			if isInitFn(root) {
				continue
			}
			eachInstr(f, func(i ssa.Instruction) {
				var addr ssa.Value
				var vals []ssa.Value
				if st, ok := i.(*ssa.Store); ok {
					addr, vals = st.Addr, []ssa.Value{st.Val}
				} else if cc := callCommon(i); cc != nil {
					kind, cell, val, ok := atomicOp(cc)
					if !ok || val == nil || (kind != "store" && kind != "swap" && kind != "cas") {
						return
					}
					addr, vals = cell, publishedValue(val)
				} else {
					return
				}
				// the store writes the variable itself or an object on the way to it (`std = &factory{cfg: c}` for the
				// variable std.cfg): j = how much of the path the target covers; the rest is selected from the value
				j := -1
				switch a := addr.(type) {
				case *ssa.Global:
					if a != q.root {
						return
					}
					j = 0
				case *ssa.UnOp: // `*cfg = *c`: the object the (pointer) variable designates is overwritten as a whole
					if g, isG := a.X.(*ssa.Global); !isG || a.Op != token.MUL || g != q.root {
						return
					}
					j = 0
				case *ssa.FieldAddr:
					fname := fieldName(a.X.Type(), a.Field)
					var keys []string
					for jj := len(q.path); jj >= 1 && j < 0; jj-- { // cheap pre-filter before resolving the address
						if q.path[jj-1] != fname {
							continue
						}
						if keys == nil {
							keys = c19addrKeys(addrFl, addr)
						}
						for _, k := range keys {
							if k == q.prefix(jj) {
								j = jj
							}
						}
					}
				}
				if j < 0 {
					return
				}
				n++
				stores[i] = true
				ok, got := true, ""
				for _, v := range vals {
					orgs := valFl.origins(v)
					if j < len(q.path) {
						var sub []c19org
						for _, o := range orgs {
							os, t := []c19org{o}, o.types[len(o.types)-1]
							for k := j; k < len(q.path) && len(os) > 0; k++ {
								ft := c19fieldType(t, q.path[k])
								if ft == nil {
									os = nil // a value without that field (nil, another type behind an interface)
									ok, got = false, o.key()
									break
								}
								os, t = valFl.sel(os, t, q.path[k], ft), ft
							}
							sub = append(sub, os...)
						}
						orgs = sub
					}
					if len(orgs) == 0 {
						ok = false
					}
					nParam := 0
					for _, o := range orgs {
						rel, isCfg := []string(nil), false
						switch x := o.root.(type) {
						case *ssa.Parameter:
							rel, isCfg = c19cfgType(x.Type())
						case *ssa.Call: // the setter was inlined into the function that loads the configuration
							if o.idx == 0 && c19isConfigLoad(x.Call.StaticCallee()) {
								rel, isCfg = c19cfgType(x.Call.Signature().Results().At(0).Type())
							}
						case *ssa.Alloc: // `if c == nil { c = &config.Config{} }`: a default for a missing configuration
							if len(o.fields) == 0 && c19nilParamFact(o.facts) {
								continue
							}
						}
						if !isCfg || !c19eq(append(append([]string{}, rel...), o.fields...), q.want) {
							ok, got = false, o.key()
						} else {
							nParam++
						}
					}
					ok = ok && nParam > 0
				}
				what := "config.Config"
				if len(q.want) > 0 {
					what += "." + strings.Join(q.want, ".")
				}
				c.check("C19.F1", fnKey(f)+"|store "+q.key, i.Pos(), ok,
					"the variable "+q.key+" (read by NewTransport) must be assigned "+what+" of the configuration handed to the setter; got "+got+" => transports are built from something else than the loaded configuration")
			})
		}
		if n > 0 {
			continue
		}
		// no store at all: name the functions that look like the setter (they take a configuration and are not part of NewTransport)
		cands := 0
		for _, f := range c.AllFns {
			if f.Parent() != nil || rootPkg(f) != q.root.Pkg || inNewT[f] || isInitFn(f) {
				continue
			}
			takesCfg := false
			for _, p := range f.Params {
				if _, ok := c19cfgType(p.Type()); ok {
					takesCfg = true
				}
			}
			if !takesCfg {
				continue
			}
			cands++
			c.check("C19.F1", fnKey(f)+"|store "+q.key, f.Pos(), false,
				"setter must assign the package variable "+q.key+" (read by NewTransport) a value derived from its configuration parameter; no such store exists in the program (a parameter shadowing the variable makes `cfg = cfg` a self-assignment) => every transport is built from the zero config, i.e. without limits")
		}
		c.atLeast("C19.F1", "store into "+q.key+" outside package initialisation", cands, 1)
	}
	return stores
}

// F3: the program's entry hands config.Load's result to the setter before anything that can build a transport runs.
func runC19F3(c *Ctx, newT *ssa.Function, reqs []c19cfgReq, stores map[ssa.Instruction]bool) {
	mainFn := c.fn("main", "main")
	if !c.need("C19.F3", mainFn, "main.main") {
		return
	}
	// the landmark "the configuration is set": the stores found by F1; when F1 found none (reported there), the calls
	// that hand a configuration to the transports' package stand in, so that the ordering is still decided
	tpkgs := map[*ssa.Package]bool{rootPkg(newT): true} // the packages that own the configuration variables
	for _, q := range reqs {
		tpkgs[q.root.Pkg] = true
	}
	inNewT := map[*ssa.Function]bool{}
	for _, f := range c.region(newT) {
		inNewT[f] = true
	}
	isStore := func(i ssa.Instruction) bool {
		if len(stores) > 0 {
			return stores[i]
		}
		cc := callCommon(i)
		if cc == nil || tpkgs[rootPkg(i.Parent())] {
			return false
		}
		sc := cc.StaticCallee()
		if sc == nil || !tpkgs[rootPkg(sc)] || inNewT[sc] {
			return false
		}
		for _, a := range cc.Args {
			if _, ok := c19cfgType(a.Type()); ok {
				return true
			}
		}
		return false
	}
	// setter calls: calls from outside the variable's package to a function of that package that may perform the store
	loadFl := &c19flow{opaque: c19isConfigLoad}
	nSet := 0
	for _, f := range c.AllFns {
		if tpkgs[rootPkg(f)] {
			continue
		}
		eachInstr(f, func(i ssa.Instruction) {
			if stores[i] {
				nSet++ // the variable is assigned directly from outside its package (value checked by F1)
				return
			}
			cc := callCommon(i)
			if cc == nil {
				return
			}
			sc := cc.StaticCallee()
			if sc == nil || !tpkgs[rootPkg(sc)] || !(isStore(i) || mayExec(sc, isStore, 0)) {
				return
			}
			nSet++
			for _, a := range cc.Args {
				rel, isCfg := c19cfgType(a.Type())
				if !isCfg {
					continue
				}
				orgs := loadFl.origins(a)
				ok, got := len(orgs) > 0, ""
				for _, o := range orgs {
					call, isCall := o.root.(*ssa.Call)
					if !isCall || o.idx != 0 || calleeName(&call.Call) != repoMod+"/config.Load" || !c19eq(o.fields, rel) {
						ok, got = false, o.key()
					}
				}
				c.check("C19.F3", fnKey(f)+"|setter argument", i.Pos(), ok, "the configuration given to the transport setter must be config.Load's result; got "+got)
			}
		})
	}
	if nSet == 0 {
		c.check("C19.F3", "main.main|call transport setter", mainFn.Pos(), false, "the program never hands the loaded configuration to package transport: all transports are built from the zero config")
		return
	}
	// ordering: nothing that can build a transport is started before the configuration is stored
	builds := func(f *ssa.Function) bool {
		f = unwrap(f)
		return f == newT || (isRepoFn(f) && c.reach(f)[newT])
	}
	launches := func(i ssa.Instruction) (callee *ssa.Function, yes bool) {
		cc := callCommon(i)
		if cc == nil {
			return nil, false
		}
		if sc := cc.StaticCallee(); sc != nil && isRepoFn(sc) && builds(sc) {
			return unwrap(sc), true
		}
		for _, a := range cc.Args { // a callback handed over may run from here on
			for _, g := range funcsOf(a) {
				if isRepoFn(g) && builds(g) {
					return nil, true
				}
			}
		}
		return nil, false
	}
	memo := map[*ssa.Function]bool{}
	var ordered func(f *ssa.Function, depth int) bool
	before := func(f *ssa.Function, i ssa.Instruction, depth int) bool {
		if !c19entryPathAvoiding(f, i, isStore) {
			return true // the setter has run on every path to i
		}
		if c19setByHelperUnlessNil(f, i, isStore) {
			return true
		}
		g, _ := launches(i)
		return g != nil && g != newT && len(g.Blocks) > 0 && depth < 4 && ordered(g, depth+1)
	}
	ordered = func(f *ssa.Function, depth int) bool {
		if v, ok := memo[f]; ok {
			return v
		}
		memo[f] = true // recursion: assume ordered
		res := true
		eachInstr(f, func(i ssa.Instruction) {
			if _, yes := launches(i); yes && res && !before(f, i, depth) {
				res = false
			}
		})
		memo[f] = res
		return res
	}
	n := 0
	eachInstr(mainFn, func(i ssa.Instruction) {
		g, yes := launches(i)
		if !yes {
			return
		}
		n++
		name := "a callback"
		if g != nil {
			name = fnKey(g)
		}
		c.check("C19.F3", "main.main|"+name+" after setter", i.Pos(), before(mainFn, i, 0),
			name+" (which can build transports) must run after the transport configuration is set; otherwise transports are built with zero limits")
	})
	c.atLeast("C19.F3", "calls in main that reach transport.NewTransport", n, 1)
}

// c19transportRole classifies a struct field as one of the three places a transport of the HTTP proxy is kept: the
// default and the skip-verify transport of the proxy (fields Transport / InsecureTransport of a struct of package
// proxy) and the per-route transport (field Transport of a struct of package route).
func c19transportRole(pkg, field string) string {
	switch {
	case pkg == repoMod+"/proxy" && field == "Transport":
		return "default"
	case pkg == repoMod+"/proxy" && field == "InsecureTransport":
		return "insecure"
	case pkg == repoMod+"/route" && field == "Transport":
		return "route"
	}
	return ""
}

// c19routeField: v is (a load of) field `field` of a struct of package route.
func c19routeField(v ssa.Value, field string) bool {
	v = stripIface(v)
	if u, isU := v.(*ssa.UnOp); isU && u.Op == token.MUL {
		v = u.X
	}
	var owner types.Type
	var idx int
	switch x := v.(type) {
	case *ssa.FieldAddr:
		owner, idx = x.X.Type(), x.Field
	case *ssa.Field:
		owner, idx = x.X.Type(), x.Field
	default:
		return false
	}
	pkg, _ := c19named(owner)
	return pkg == repoMod+"/route" && fieldName(owner, idx) == field
}

// c19routeFieldVal: v is field `field` of a struct of package route, read directly or carried to this place (a local,
// a parameter of a helper, a field of a small struct built for the purpose): every origin of v is such a field.
func c19routeFieldVal(v ssa.Value, fields ...string) bool {
	has := func(f string) bool {
		for _, x := range fields {
			if x == f {
				return true
			}
		}
		return false
	}
	for _, f := range fields {
		if c19routeField(v, f) {
			return true
		}
	}
	orgs := (&c19flow{}).origins(v)
	for _, o := range orgs {
		pkg, _, f := o.lastField()
		if pkg != repoMod+"/route" || !has(f) || len(o.fields) == 0 || o.fields[len(o.fields)-1] != f {
			return false
		}
	}
	return len(orgs) > 0
}

// c19setByHelperUnlessNil: i is dominated by a call of a helper that sets the configuration on every path except
// those on which it returns nil (`cfg := loadConfig(); if cfg == nil { return }`), and i executes only when that
// result is not nil.
func c19setByHelperUnlessNil(f *ssa.Function, i ssa.Instruction, isStore func(ssa.Instruction) bool) bool {
	found := false
	eachInstr(f, func(s ssa.Instruction) {
		call, ok := s.(*ssa.Call)
		if !ok || found || s == i || !dominatesInstr(s, i) {
			return
		}
		h := call.Call.StaticCallee()
		if h == nil || !isRepoFn(h) || len(h.Blocks) == 0 || !mayExec(h, isStore, 0) {
			return
		}
		// the returns of h reachable without setting the configuration
		avoid := liftMust(isStore, 1)
		var rets []*ssa.Return
		seen := map[*ssa.BasicBlock]bool{h.Blocks[0]: true}
		stack := []*ssa.BasicBlock{h.Blocks[0]}
		for len(stack) > 0 {
			b := stack[len(stack)-1]
			stack = stack[:len(stack)-1]
			blocked := false
			for _, in := range b.Instrs {
				if avoid(in) {
					blocked = true
					break
				}
				if r, isR := in.(*ssa.Return); isR {
					rets = append(rets, r)
				}
			}
			if blocked {
				continue
			}
			for _, nb := range b.Succs {
				if !seen[nb] {
					seen[nb] = true
					stack = append(stack, nb)
				}
			}
		}
		for k := 0; k < h.Signature.Results().Len(); k++ {
			// on every return that skips the setter, result k is nil, or the same boolean constant (`return nil, false`)
			allNil, allBool, boolVal := len(rets) > 0, len(rets) > 0, false
			for n, r := range rets {
				allNil = allNil && k < len(r.Results) && isNilConst(r.Results[k])
				b, isB := false, false
				if k < len(r.Results) {
					b, isB = constBool(r.Results[k])
				}
				allBool = allBool && isB && (n == 0 || b == boolVal)
				boolVal = b
			}
			if !allNil && !allBool {
				continue
			}
			var isRes func(v ssa.Value) bool
			isRes = func(v ssa.Value) bool {
				if u, isU := v.(*ssa.UnOp); isU && u.Op == token.MUL { // a variable captured by a closure lives in a cell
					if a, isA := u.X.(*ssa.Alloc); isA {
						n, all := 0, true
						for _, ref := range *a.Referrers() {
							if st, isSt := ref.(*ssa.Store); isSt && st.Addr == a {
								n++
								all = all && isRes(st.Val)
							}
						}
						return n > 0 && all
					}
				}
				if h.Signature.Results().Len() == 1 {
					return v == ssa.Value(call)
				}
				e, isE := v.(*ssa.Extract)
				return isE && e.Tuple == ssa.Value(call) && e.Index == k
			}
			if allNil && knownNonNil(i.Block(), isRes) {
				found = true
			}
			if allBool && !allNil {
				for _, ft := range factsAt(i.Block()) {
					if isRes(ft.Cond) && ft.Truth == !boolVal {
						found = true
					}
				}
			}
		}
	})
	return found
}

// F4: every transport the HTTP proxy can use is a NewTransport result, and the reverse proxy is given the per-route
// transport when there is one, else the skip-verify transport when the target asks for it, else the default.
func runC19F4(c *Ctx, newT *ssa.Function) {
	// (1) selection: the origins of the Transport of every reverse proxy the HTTP proxy builds. The three places are
	// known by name (c19transportRole); a place with another name (field renamed, pools moved into a struct of their
	// own) gets its role from the way it is selected: a field of a struct of package route is the per-route transport,
	// the place used when the target says TLSSkipVerify is the skip-verify transport, the one used otherwise the default.
	derived := map[string]string{} // "pkg.Type.field" -> role
	roleOf := func(pkg, typ, field string) string {
		if r := c19transportRole(pkg, field); r != "" {
			return r
		}
		return derived[pkg+"."+typ+"."+field]
	}
	// placeOf: the origin is a read of a transport-typed field of a repository struct (not a carrier).
	placeOf := func(o c19org) (pkg, typ, field string, ok bool) {
		pkg, typ, field = o.lastField()
		if field == "" || len(o.fields) == 0 || o.fields[len(o.fields)-1] != field || !strings.HasPrefix(pkg, repoMod) {
			return pkg, typ, field, false
		}
		for k := len(o.via) - 1; k >= 0; k-- {
			if v := o.via[k]; !v.carried {
				ft := c19fieldType(v.owner, field)
				return pkg, typ, field, ft != nil && (namedIs(ft, "net/http.Transport") || typeStr(ft) == "net/http.RoundTripper")
			}
		}
		return pkg, typ, field, false
	}
	sel := &c19flow{}
	nSel := 0
	for _, site := range c19reverseProxies(c) {
		for _, st := range site.fields["Transport"] {
			nSel++
			key := fnKey(st.Parent()) + "|transport selection"
			orgs := sel.origins(st.Val)
			routeNames := []string{"Transport"}
			for _, o := range orgs {
				if pkg, _, field, ok := placeOf(o); ok && pkg == repoMod+"/route" && field != "Transport" {
					routeNames = append(routeNames, field)
				}
			}
			isRouteTr := func(v ssa.Value) bool { return c19routeFieldVal(v, routeNames...) }
			var sawRoute, sawInsecure, sawDefault bool
			other := ""
			usedAs := map[string]map[string]bool{} // derived place -> roles it is used in
			for _, o := range orgs {
				facts := c19expand(o.facts)
				guard, notRoute, isRoute := false, false, false
				for _, f := range facts {
					if c19routeFieldVal(f.Cond, "TLSSkipVerify") && f.Truth {
						guard = true
					}
					if nn, ok := nilFact(f, isRouteTr); ok {
						notRoute = notRoute || !nn
						isRoute = isRoute || nn
					}
				}
				pkg, typ, field := o.lastField()
				role := c19transportRole(pkg, field)
				if role == "" {
					if _, _, _, ok := placeOf(o); ok {
						switch {
						case pkg == repoMod+"/route":
							role = "route"
						case guard && notRoute:
							role = "insecure"
						default:
							role = "default"
						}
						k := pkg + "." + typ + "." + field
						if usedAs[k] == nil {
							usedAs[k] = map[string]bool{}
						}
						usedAs[k][role] = true
						derived[k] = role
					}
				}
				switch role {
				case "route":
					sawRoute = sawRoute || isRoute
				case "insecure":
					sawInsecure = sawInsecure || (guard && notRoute)
				case "default":
					sawDefault = true
				default:
					if k, isK := o.root.(*ssa.Const); !isK || !k.IsNil() {
						other = o.key()
					}
				}
			}
			for k, rs := range usedAs {
				if len(rs) > 1 { // one pool for skip-verify targets and for the others: the selection is not a selection
					sawInsecure = false
					derived[k] = "default"
				}
			}
			c.check("C19.F4", key, st.Pos(), sawRoute && sawInsecure && sawDefault,
				"transport selection must be: per-route transport when t.Transport != nil, else insecure transport when t.TLSSkipVerify, else default")
			c.check("C19.F4", key+"|only configured transports", st.Pos(), other == "",
				"the reverse proxy can be given a transport that is none of the three built by transport.NewTransport: "+other)
		}
	}
	c.atLeast("C19.F4", "transports handed to a reverse proxy", nSel, 1)

	// (2) what is kept in the three places
	fl := &c19flow{opaque: func(f *ssa.Function) bool { return f == newT }}
	roles := map[string]int{}
	for _, f := range c.AllFns {
		eachInstr(f, func(i ssa.Instruction) {
			st, ok := i.(*ssa.Store)
			if !ok {
				return
			}
			fa, ok := st.Addr.(*ssa.FieldAddr)
			if !ok {
				return
			}
			fname := fieldName(fa.X.Type(), fa.Field)
			pkg, tname := c19named(fa.X.Type())
			role := roleOf(pkg, tname, fname)
			if role == "" || isNilConst(stripIface(st.Val)) { // nil = "no transport of its own": selection falls through
				return
			}
			owner := pkg[strings.LastIndex(pkg, "/")+1:] + "." + tname
			orgs := fl.origins(st.Val)
			ok, got := len(orgs) > 0, ""
			built := false
			for _, o := range orgs {
				if call, isCall := o.root.(*ssa.Call); isCall && call.Call.StaticCallee() == newT && len(o.fields) == 0 {
					built = true
					continue
				}
				// a transport taken from one of the three places (a small struct that carries the selected transport to
				// where the reverse proxy is built may itself have a field called Transport): what is stored THERE is
				// checked by this rule, so by induction the value is a NewTransport result
				if fp, ft, ff := o.lastField(); len(o.fields) > 0 && o.fields[len(o.fields)-1] == ff && roleOf(fp, ft, ff) != "" {
					continue
				}
				ok, got = false, o.key()
			}
			if built || !ok {
				roles[role]++ // the vacuity guard counts the places that are filled with a transport built here
			}
			c.check("C19.F4", fnKey(f)+"|"+owner+"."+fname, st.Pos(), ok,
				owner+"."+fname+" must be a transport.NewTransport result so that the configured limits apply; got "+got)
		})
	}
	for _, role := range []string{"default", "insecure", "route"} {
		c.atLeast("C19.F4", "stores of the "+role+" transport of the HTTP proxy", roles[role], 1)
	}
}

// c19rp is one construction of an httputil.ReverseProxy (a literal, a new(T) filled in, or a constructor result that
// is filled in) with the stores into its fields.
type c19rp struct {
	base   ssa.Value
	fn     *ssa.Function
	fields map[string][]*ssa.Store
}

func c19reverseProxies(c *Ctx) []c19rp {
	var out []c19rp
	idx := map[ssa.Value]int{}
	get := func(base ssa.Value, fn *ssa.Function) *c19rp {
		if k, ok := idx[base]; ok {
			return &out[k]
		}
		idx[base] = len(out)
		out = append(out, c19rp{base: base, fn: fn, fields: map[string][]*ssa.Store{}})
		return &out[len(out)-1]
	}
	for _, f := range c.AllFns {
		ff := f
		eachInstr(f, func(i ssa.Instruction) {
			switch x := i.(type) {
			case *ssa.Alloc:
				if namedIs(x.Type(), "net/http/httputil.ReverseProxy") {
					get(x, ff)
				}
			case *ssa.Call:
				if sc := x.Call.StaticCallee(); sc != nil && !isRepoFn(sc) && namedIs(x.Type(), "net/http/httputil.ReverseProxy") {
					get(x, ff)
				}
			case *ssa.Store:
				if fa, ok := x.Addr.(*ssa.FieldAddr); ok && namedIs(fa.X.Type(), "net/http/httputil.ReverseProxy") {
					base := fa.X
					if u, isU := base.(*ssa.UnOp); isU && u.Op == token.MUL { // a local pointer variable that escaped
						if ds := defsOf(u); len(ds) == 1 && ds[0].Val != base {
							base = ds[0].Val
						}
					}
					rp := get(base, ff)
					name := fieldName(fa.X.Type(), fa.Field)
					rp.fields[name] = append(rp.fields[name], x)
				}
			}
		})
	}
	return out
}

// c19funcsOf: funcsOf, also for a function value that reaches this place through a field of a struct built for the
// purpose, a parameter or a helper result.
func c19funcsOf(v ssa.Value) []*ssa.Function {
	out := funcsOf(v)
	if len(out) > 0 {
		return out
	}
	for _, o := range (&c19flow{}).origins(v) {
		if len(o.fields) != 0 {
			return nil // one origin is not visible: the set would be incomplete
		}
		switch o.root.(type) {
		case *ssa.Function, *ssa.MakeClosure:
			out = append(out, funcsOf(o.root)...)
		default:
			return nil
		}
	}
	return out
}

func stripIface(v ssa.Value) ssa.Value {
	for {
		switch x := v.(type) {
		case *ssa.MakeInterface:
			v = x.X
		case *ssa.ChangeInterface:
			v = x.X
		default:
			return v
		}
	}
}

// F5: every reverse proxy uses fabio's error handler and a selected transport, and the handler writes 504 on the
// edge where the error says Timeout(), that test coming before any other classification of the error.
func runC19F5(c *Ctx) {
	n := 0
	var handlers []*ssa.Function
	for _, site := range c19reverseProxies(c) {
		n++
		ok := false
		for _, st := range site.fields["ErrorHandler"] {
			for _, h := range c19funcsOf(st.Val) {
				if isRepoFn(h) && len(h.Blocks) > 0 {
					ok = true
					dup := false
					for _, x := range handlers {
						dup = dup || x == h
					}
					if !dup {
						handlers = append(handlers, h)
					}
				}
			}
		}
		c.check("C19.F5", fnKey(site.fn)+"|ReverseProxy.ErrorHandler", site.base.Pos(), ok, "the reverse proxy must use fabio's error handler; without it every upstream timeout is answered 502 instead of 504")
		c.check("C19.F5", fnKey(site.fn)+"|ReverseProxy.Transport", site.base.Pos(), len(site.fields["Transport"]) > 0, "the reverse proxy's Transport must be the transport selected for the target (unset means http.DefaultTransport, which has none of the configured limits)")
	}
	c.atLeast("C19.F5", "httputil.ReverseProxy constructions", n, 1)
	for _, h := range handlers {
		runC19F5handler(c, h)
	}
}
