package main

import (
	"go/types"
	"strings"

	"golang.org/x/tools/go/ssa"
)

// callGraph is the checker's own repo-level call graph (DESIGN §3 E1):
// static callees; interface invokes -> every repo method implementing the
// interface method, plus address-taken repo funcs with the method's signature
// (adapter idiom, http.HandlerFunc); dynamic calls of func values -> every
// address-taken repo function/closure with an identical signature; function
// values passed to non-repo code are treated as called by the passing function
// (callback rule).
type callGraph struct {
	out       map[*ssa.Function][]*ssa.Function
	addrTaken map[*ssa.Function]bool
	bySig     map[string][]*ssa.Function
}

func sigKey(s *types.Signature) string {
	// receiver-less, parameter-name-independent signature string
	var b strings.Builder
	b.WriteString("func(")
	for i := 0; i < s.Params().Len(); i++ {
		if i > 0 {
			b.WriteString(",")
		}
		if s.Variadic() && i == s.Params().Len()-1 {
			b.WriteString("...")
		}
		b.WriteString(types.TypeString(s.Params().At(i).Type(), nil))
	}
	b.WriteString(")(")
	for i := 0; i < s.Results().Len(); i++ {
		if i > 0 {
			b.WriteString(",")
		}
		b.WriteString(types.TypeString(s.Results().At(i).Type(), nil))
	}
	b.WriteString(")")
	return b.String()
}

func (c *Ctx) callgraph() *callGraph {
	if c.cg != nil {
		return c.cg
	}
	g := &callGraph{out: map[*ssa.Function][]*ssa.Function{}, addrTaken: map[*ssa.Function]bool{}, bySig: map[string][]*ssa.Function{}}
	c.cg = g

	// address-taken functions: used as a value anywhere except in callee position
	noteVal := func(v ssa.Value) {
		switch x := v.(type) {
		case *ssa.Function:
			if isRepoFn(x) {
				g.addrTaken[x] = true
			}
		case *ssa.MakeClosure:
			if f, ok := x.Fn.(*ssa.Function); ok {
				g.addrTaken[f] = true
			}
		}
	}
	scan := append([]*ssa.Function{}, c.AllFns...)
	for _, sp := range c.spkgs {
		if initFn := sp.Func("init"); initFn != nil && len(initFn.Blocks) > 0 {
			scan = append(scan, initFn) // synthetic package initialisers: registries of function values live here
		}
	}
	for _, f := range scan {
		eachInstr(f, func(i ssa.Instruction) {
			cc := callCommon(i)
			for _, op := range i.Operands(nil) {
				if op == nil || *op == nil {
					continue
				}
				if cc != nil && !cc.IsInvoke() && *op == cc.Value {
					// callee position: a closure made and called directly is not "taken"
					if mc, ok := cc.Value.(*ssa.MakeClosure); ok {
						_ = mc
					}
					continue
				}
				noteVal(*op)
			}
			if mc, ok := i.(*ssa.MakeClosure); ok {
				// a MakeClosure instruction whose value is only ever called is
				// still handled by the static-callee case below
				_ = mc
			}
		})
	}
	// bound method values ($bound wrappers) — treat the underlying method as taken
	for fn := range allBoundTargets(c) {
		g.addrTaken[fn] = true
	}
	for f := range g.addrTaken {
		k := sigKey(f.Signature)
		g.bySig[k] = append(g.bySig[k], f)
	}

	// concrete repo methods by name
	methodsByName := map[string][]*ssa.Function{}
	for _, f := range c.AllFns {
		if f.Signature.Recv() != nil {
			methodsByName[f.Name()] = append(methodsByName[f.Name()], f)
		}
	}

	for _, f := range c.AllFns {
		seen := map[*ssa.Function]bool{}
		add := func(t *ssa.Function) {
			if t != nil && !seen[t] && len(t.Blocks) > 0 {
				seen[t] = true
				g.out[f] = append(g.out[f], t)
			}
		}
		eachInstr(f, func(i ssa.Instruction) {
			cc := callCommon(i)
			if cc != nil {
				if cc.IsInvoke() {
					iface, _ := cc.Value.Type().Underlying().(*types.Interface)
					for _, m := range methodsByName[cc.Method.Name()] {
						recv := m.Signature.Recv().Type()
						if iface != nil && (types.Implements(recv, iface) || types.Implements(types.NewPointer(recv), iface)) {
							add(m)
						}
					}
					// adapter idiom: only http.HandlerFunc-style adapters of non-repo
					// interfaces are modelled (a blanket rule would make every func()
					// closure a callee of every no-arg interface method)
					if ms, ok := cc.Method.Type().(*types.Signature); ok && cc.Method.Name() == "ServeHTTP" {
						for _, t := range g.bySig[sigKey(ms)] {
							add(t)
						}
					}
				} else if sc := cc.StaticCallee(); sc != nil {
					add(unwrap(sc))
				} else {
					for _, t := range g.funcValueTargets(cc.Value) {
						add(t)
					}
				}
			}
			// callback rule: function values handed to non-repo callees, stored
			// into non-repo struct fields, or converted to non-repo adapter types
			// are considered callable from here.
			for _, op := range i.Operands(nil) {
				if op == nil || *op == nil {
					continue
				}
				if cc != nil && !cc.IsInvoke() && *op == cc.Value {
					continue
				}
				switch x := (*op).(type) {
				case *ssa.Function:
					if isRepoFn(x) {
						add(unwrap(x))
					}
				case *ssa.MakeClosure:
					if fn, ok := x.Fn.(*ssa.Function); ok {
						add(unwrap(fn))
					}
				}
			}
		})
	}
	return g
}

// funcValueTargets resolves a called function value. Where every origin of the value is visible — a closure or
// function made in this function, or the result of a call into a library (context.WithTimeout's cancel; functions
// passed INTO a library are handled by the callback rule at the passing site) — the answer is exact; otherwise all
// address-taken repository functions of the same signature.
func (g *callGraph) funcValueTargets(v ssa.Value) []*ssa.Function {
	var out []*ssa.Function
	exact := true
	seen := map[ssa.Value]bool{}
	var walk func(x ssa.Value)
	walk = func(x ssa.Value) {
		if seen[x] || !exact {
			return
		}
		seen[x] = true
		switch y := x.(type) {
		case *ssa.Function:
			out = append(out, unwrap(y))
		case *ssa.MakeClosure:
			if fn, ok := y.Fn.(*ssa.Function); ok {
				out = append(out, unwrap(fn))
			}
		case *ssa.Phi:
			for _, e := range y.Edges {
				walk(e)
			}
		case *ssa.ChangeType:
			walk(y.X)
		case *ssa.Extract:
			walk(y.Tuple)
		case *ssa.Call:
			if sc := y.Call.StaticCallee(); sc != nil && !isRepoFn(sc) && sc.Pkg != nil {
				return // made by a library: not a repository function
			}
			exact = false
		case *ssa.Const:
			// nil function value: no target
		default:
			exact = false
		}
	}
	walk(v)
	if exact {
		return out
	}
	if s, ok := v.Type().Underlying().(*types.Signature); ok {
		return g.bySig[sigKey(s)]
	}
	return nil
}

// unwrap maps $bound/$thunk wrappers to the declared method.
func unwrap(f *ssa.Function) *ssa.Function {
	isWrapper := strings.HasPrefix(f.Synthetic, "bound method wrapper") || strings.HasPrefix(f.Synthetic, "wrapper for") || strings.HasPrefix(f.Synthetic, "thunk for")
	if isWrapper && len(f.Blocks) > 0 { // not: package initialisers, generic instances, range-over-func bodies
		for _, b := range f.Blocks {
			for _, i := range b.Instrs {
				if cc := callCommon(i); cc != nil {
					if sc := cc.StaticCallee(); sc != nil && sc.Synthetic == "" {
						return sc
					}
				}
			}
		}
	}
	return f
}

func allBoundTargets(c *Ctx) map[*ssa.Function]bool {
	out := map[*ssa.Function]bool{}
	for _, f := range c.AllFns {
		eachInstr(f, func(i ssa.Instruction) {
			for _, op := range i.Operands(nil) {
				if op == nil || *op == nil {
					continue
				}
				if mc, ok := (*op).(*ssa.MakeClosure); ok {
					if fn, ok := mc.Fn.(*ssa.Function); ok && fn.Synthetic != "" {
						if t := unwrap(fn); t != fn && isRepoFn(t) {
							out[t] = true
						}
					}
				}
			}
		})
	}
	return out
}

// reach returns all repo functions reachable from roots in the checker's call graph.
func (c *Ctx) reach(roots ...*ssa.Function) map[*ssa.Function]bool {
	g := c.callgraph()
	seen := map[*ssa.Function]bool{}
	var stack []*ssa.Function
	for _, r := range roots {
		if r != nil {
			stack = append(stack, r)
		}
	}
	for len(stack) > 0 {
		f := stack[len(stack)-1]
		stack = stack[:len(stack)-1]
		if seen[f] {
			continue
		}
		seen[f] = true
		stack = append(stack, g.out[f]...)
	}
	return seen
}

// callPath returns one call path root -> target (for diagnostics).
func (c *Ctx) callPath(root, target *ssa.Function) []*ssa.Function {
	g := c.callgraph()
	prev := map[*ssa.Function]*ssa.Function{root: nil}
	queue := []*ssa.Function{root}
	for len(queue) > 0 {
		f := queue[0]
		queue = queue[1:]
		if f == target {
			var path []*ssa.Function
			for x := target; x != nil; x = prev[x] {
				path = append([]*ssa.Function{x}, path...)
			}
			return path
		}
		for _, t := range g.out[f] {
			if _, ok := prev[t]; !ok {
				prev[t] = f
				queue = append(queue, t)
			}
		}
	}
	return nil
}

// servingRoots discovers per-request entry points by role: methods implementing
// net/http.Handler or proxy/tcp.Handler, and repo functions with the handler
// signatures that are address-taken (http.HandlerFunc adapters, grpc
// interceptors/directors, tls GetCertificate, tcpproxy matchers).
func (c *Ctx) servingRoots() []*ssa.Function {
	g := c.callgraph()
	var roots []*ssa.Function
	seen := map[*ssa.Function]bool{}
	add := func(f *ssa.Function) {
		if f != nil && !seen[f] {
			seen[f] = true
			roots = append(roots, f)
		}
	}
	for _, f := range c.AllFns {
		if f.Signature.Recv() != nil {
			switch f.Name() {
			case "ServeHTTP":
				if f.Signature.Params().Len() == 2 {
					add(f)
				}
			case "ServeTCP":
				add(f)
			case "TagConn", "TagRPC", "HandleRPC", "HandleConn":
				add(f)
			}
		}
	}
	// address-taken functions with serving signatures
	for f := range g.addrTaken {
		s := f.Signature
		ps := s.Params()
		switch {
		case ps.Len() == 2 && typeStr(ps.At(0).Type()) == "net/http.ResponseWriter" && typeStr(ps.At(1).Type()) == "*net/http.Request":
			add(f)
		case ps.Len() == 1 && typeStr(ps.At(0).Type()) == "*net/http.Request":
			add(f) // Lookup closures, Director
		case ps.Len() == 1 && typeStr(ps.At(0).Type()) == "*crypto/tls.ClientHelloInfo":
			add(f)
		case ps.Len() == 4 && typeStr(ps.At(1).Type()) == "google.golang.org/grpc.ServerStream":
			add(f)
		case ps.Len() == 2 && typeStr(ps.At(0).Type()) == "context.Context" && typeStr(ps.At(1).Type()) == "string":
			add(f) // grpc director, tcpproxy matcher
		case ps.Len() == 1 && typeStr(ps.At(0).Type()) == "string" && s.Results().Len() == 1 && namedIs(s.Results().At(0).Type(), "route.Target"):
			add(f) // host lookup closures
		case ps.Len() == 1 && typeStr(ps.At(0).Type()) == "net.Conn":
			add(f)
		}
	}
	return roots
}
