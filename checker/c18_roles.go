package main

// Role and region helpers of C18: the rules name WHAT a site does (invokes Server.Shutdown, empties the registry of
// running servers, closes the elements of the listener collection, releases a mutex ...) and look for it in a region,
// never in a function of a fixed unexported name.

import (
	"go/token"
	"go/types"
	"strings"

	"golang.org/x/tools/go/ssa"
)

// c18ServerIface: the interface of package proxy every running server implements. Resolved by its (exported) name
// Server, otherwise by role: the interface of package proxy that has a method Shutdown(context.Context).
func c18ServerIface(c *Ctx) (*types.Named, *types.Interface) {
	sp := c.spkg("proxy")
	if sp == nil {
		return nil, nil
	}
	hasShutdown := func(it *types.Interface) bool {
		for i := 0; i < it.NumMethods(); i++ {
			m := it.Method(i)
			sig := m.Type().(*types.Signature)
			if m.Name() == "Shutdown" && sig.Params().Len() == 1 && typeStr(sig.Params().At(0).Type()) == "context.Context" {
				return true
			}
		}
		return false
	}
	if t := sp.Type("Server"); t != nil {
		if n, ok := t.Type().(*types.Named); ok {
			if it, ok := n.Underlying().(*types.Interface); ok && hasShutdown(it) {
				return n, it
			}
		}
	}
	var names []string
	for name := range sp.Members {
		names = append(names, name)
	}
	sortStrings(names)
	for _, name := range names {
		t, ok := sp.Members[name].(*ssa.Type)
		if !ok {
			continue
		}
		n, ok := t.Type().(*types.Named)
		if !ok {
			continue
		}
		if it, ok := n.Underlying().(*types.Interface); ok && hasShutdown(it) {
			return n, it
		}
	}
	return nil, nil
}

func sortStrings(s []string) {
	for i := 1; i < len(s); i++ {
		for j := i; j > 0 && s[j] < s[j-1]; j-- {
			s[j], s[j-1] = s[j-1], s[j]
		}
	}
}

// c18IsServer: t is the proxy.Server interface type (or an alias of it).
func c18IsServer(t types.Type, srv *types.Named) bool {
	if srv == nil {
		return namedIs(t, "proxy.Server")
	}
	return types.Identical(types.Unalias(t), srv)
}

// c18Reg: the registry of running servers of package proxy, by role: the memory cells of type map[K]Server that live
// in a package-level variable of package proxy - the variable itself (`var servers map[string]Server`), or a field of a
// package-level struct / of a struct type of package proxy (a registry wrapped into a small type with its mutex).
type c18Reg struct {
	srv *types.Named
	n   int // cells found by declaration
}

func (r *c18Reg) isMap(t types.Type) bool {
	m, ok := t.Underlying().(*types.Map)
	if !ok {
		return false
	}
	// the server itself, or a small record around it (`map[string]*entry` with `entry{srv Server; ln net.Listener}`)
	e := m.Elem()
	if c18IsServer(e, r.srv) {
		return true
	}
	if p, isPtr := e.Underlying().(*types.Pointer); isPtr {
		e = p.Elem()
	}
	if st, isStruct := e.Underlying().(*types.Struct); isStruct {
		for i := 0; i < st.NumFields(); i++ {
			if c18IsServer(st.Field(i).Type(), r.srv) {
				return true
			}
		}
	}
	return false
}

func c18Registries(c *Ctx, srv *types.Named) *c18Reg {
	r := &c18Reg{srv: srv}
	sp := c.spkg("proxy")
	if sp == nil {
		return r
	}
	for _, m := range sp.Members {
		switch x := m.(type) {
		case *ssa.Global:
			if p, ok := x.Type().(*types.Pointer); ok && r.isMap(p.Elem()) {
				r.n++
			}
		case *ssa.Type:
			if st, ok := x.Type().Underlying().(*types.Struct); ok {
				for i := 0; i < st.NumFields(); i++ {
					if r.isMap(st.Field(i).Type()) {
						r.n++
					}
				}
			}
		}
	}
	return r
}

// addr: v is the address of a registry cell.
func (r *c18Reg) addr(v ssa.Value) bool {
	p, ok := v.Type().(*types.Pointer)
	if !ok || !r.isMap(p.Elem()) {
		return false
	}
	switch x := v.(type) {
	case *ssa.Global:
		return x.Pkg != nil && strings.HasSuffix(x.Pkg.Pkg.Path(), "/proxy")
	case *ssa.FieldAddr:
		return true
	}
	return false
}

// load: v is a load of a registry cell.
func (r *c18Reg) load(v ssa.Value) bool {
	switch x := v.(type) {
	case *ssa.UnOp:
		return x.Op == token.MUL && r.addr(x.X)
	case *ssa.Field:
		return r.isMap(x.Type())
	}
	return false
}

// from: v is (derived from) a load of a registry cell.
func (r *c18Reg) from(v ssa.Value) bool {
	return derives(v, func(x ssa.Value) bool { return r.load(x) })
}

// c18SyncRegion: f and the repository functions it runs synchronously - the callees of call and defer instructions
// (an immediately invoked closure, a local closure variable, a callback parameter resolved to what the caller on this
// path passed, a method behind a small interface whose concrete type is visible), not the targets of go statements.
// Not limited to one package.
func c18SyncRegion(f *ssa.Function, depth int) []*ssa.Function {
	var out []*ssa.Function
	seen := map[*ssa.Function]bool{}
	if f == nil || len(f.Blocks) == 0 || !isRepoFn(f) {
		return nil
	}
	c18EachFrame(f, depth, false, func(fr *c18Frame) bool {
		if seen[fr.fn] {
			return c18Contextual(fr.fn)
		}
		seen[fr.fn] = true
		out = append(out, fr.fn)
		return true
	})
	return out
}

// c18EntryReaches: is there a path from the entry of target's function to target on which no instruction satisfies
// avoid? (avoid is taken as given: lift it before if helpers are to count.)
func c18EntryReaches(target ssa.Instruction, avoid func(ssa.Instruction) bool) bool {
	f := target.Parent()
	if f == nil || len(f.Blocks) == 0 {
		return false
	}
	seen := map[*ssa.BasicBlock]bool{f.Blocks[0]: true}
	stack := []*ssa.BasicBlock{f.Blocks[0]}
	for len(stack) > 0 {
		b := stack[len(stack)-1]
		stack = stack[:len(stack)-1]
		blocked := false
		for _, in := range b.Instrs {
			if in == target {
				return true
			}
			if avoid != nil && avoid(in) {
				blocked = true
				break
			}
		}
		if blocked {
			continue
		}
		for _, s := range b.Succs {
			if !seen[s] {
				seen[s] = true
				stack = append(stack, s)
			}
		}
	}
	return false
}

// c18PrecededBy: on every way to instruction i some instruction satisfying pred has been executed: on every path from
// the entry of i's function (a helper that does it on all its paths counts), or - when i sits in a helper or closure
// that is only called statically - before every one of its call sites (a go statement is a call site: what precedes
// the go precedes the goroutine).
func c18PrecededBy(i ssa.Instruction, pred func(ssa.Instruction) bool, depth int) bool {
	if !c18EntryReaches(i, liftMust(pred, 1)) {
		return true
	}
	f := i.Parent()
	if depth >= 3 || f == nil || !c18OnlyStatic(f) {
		return false
	}
	sites := gSites[f]
	if len(sites) == 0 {
		return false
	}
	for _, s := range sites {
		if s.Parent() == f || !c18PrecededBy(s, pred, depth+1) {
			return false
		}
	}
	return true
}

// c18FollowedBy: on every path from instruction i to a return of its function some instruction satisfying pred is
// executed (helpers that do it on all their paths count), or - when i sits in a helper that is only called
// statically - the same holds after every one of its (synchronous) call sites.
func c18FollowedBy(i ssa.Instruction, pred func(ssa.Instruction) bool, depth int) bool {
	if _, open := exitReachableAvoiding(i, pred); !open {
		return true
	}
	f := i.Parent()
	if depth >= 3 || f == nil || !c18OnlyStatic(f) {
		return false
	}
	sites := gSites[f]
	if len(sites) == 0 {
		return false
	}
	for _, s := range sites {
		if _, isCall := s.(*ssa.Call); !isCall || s.Parent() == f || !c18FollowedBy(s, pred, depth+1) {
			return false
		}
	}
	return true
}

// c18MayFollow: on some path after instruction i an instruction satisfying pred (directly or inside a helper) is
// executed - in i's function, or after a call site of the helper i sits in.
func c18MayFollow(i ssa.Instruction, pred func(ssa.Instruction) bool, depth int) bool {
	f := i.Parent()
	if f == nil {
		return false
	}
	lifted := c18LiftMay(pred)
	hit := false
	eachInstr(f, func(w ssa.Instruction) {
		if !hit && w != i && lifted(w) && pathAvoiding(i, w, nil) {
			hit = true
		}
	})
	if hit || depth >= 2 || !c18OnlyStatic(f) {
		return hit
	}
	for _, s := range gSites[f] {
		if _, isCall := s.(*ssa.Call); isCall && s.Parent() != f && c18MayFollow(s, pred, depth+1) {
			return true
		}
	}
	return false
}

// c18OnlyStatic: every call of fn is one of its static call sites (gSites). The shared onlyStaticallyCalled answers
// false for every closure (making a closure counts as taking its address there); here a closure qualifies when each
// of its values is used only as the callee of a call, go or defer.
func c18OnlyStatic(fn *ssa.Function) bool {
	if fn.Parent() == nil {
		return onlyStaticallyCalled(fn)
	}
	ok, found := true, false
	eachInstr(fn.Parent(), func(i ssa.Instruction) {
		mc, is := i.(*ssa.MakeClosure)
		if !is || mc.Fn != fn {
			return
		}
		found = true
		for _, r := range *mc.Referrers() {
			cc := callCommon(r)
			if cc == nil || cc.IsInvoke() || cc.Value != mc {
				ok = false
				continue
			}
			for _, a := range cc.Args {
				if a == mc {
					ok = false
				}
			}
		}
	})
	return ok && found
}

// c18Targets: the repository functions a call/go/defer instruction may run: its static callee, or what its function
// value may denote (c18FuncsOf) - a closure, a named function, a method value, a local closure variable captured by the
// calling closure (`leave := func() {...}` called from the handler closure), a callback parameter (what the static call
// sites of the function pass), a function kept in a struct field.
func c18Targets(cc *ssa.CallCommon) []*ssa.Function {
	if cc == nil || cc.IsInvoke() {
		return nil
	}
	if sc := cc.StaticCallee(); sc != nil {
		if isRepoFn(sc) && len(unwrap(sc).Blocks) > 0 {
			return []*ssa.Function{unwrap(sc)}
		}
		return nil
	}
	if _, isB := cc.Value.(*ssa.Builtin); isB {
		return nil
	}
	return c18FuncsOf(cc.Value)
}

// c18MayExec: some instruction of fn, or of a repository function it may run synchronously (c18Targets of its calls and
// deferred calls, depth-bounded), satisfies pred. Like the shared mayExec, which follows static callees only.
func c18MayExec(fn *ssa.Function, pred func(ssa.Instruction) bool, depth int) bool {
	seen := map[*ssa.Function]bool{}
	var walk func(f *ssa.Function, d int) bool
	walk = func(f *ssa.Function, d int) bool {
		if f == nil || len(f.Blocks) == 0 || d > 3 || seen[f] {
			return false
		}
		seen[f] = true
		hit := false
		eachInstr(f, func(i ssa.Instruction) {
			if hit {
				return
			}
			if pred(i) {
				hit = true
				return
			}
			if _, isGo := i.(*ssa.Go); isGo {
				return
			}
			for _, g := range c18Targets(callCommon(i)) {
				if walk(g, d+1) {
					hit = true
					return
				}
			}
		})
		return hit
	}
	return walk(fn, depth)
}

// c18LiftMay: the instruction satisfies pred, or is a synchronous call of a repository function that may.
func c18LiftMay(pred func(ssa.Instruction) bool) func(ssa.Instruction) bool {
	return func(i ssa.Instruction) bool {
		if pred(i) {
			return true
		}
		call, ok := i.(*ssa.Call)
		if !ok {
			return false
		}
		for _, g := range c18Targets(&call.Call) {
			if c18MayExec(g, pred, 1) {
				return true
			}
		}
		return false
	}
}

// c18Region: the shared region (same-package helpers, closures, functions used as values) extended by what the calls
// of its functions may run through captured closure variables.
func c18Region(c *Ctx, roots ...*ssa.Function) []*ssa.Function {
	out := c.region(roots...)
	in := map[*ssa.Function]bool{}
	for _, f := range out {
		in[f] = true
	}
	for round := 0; round < 3; round++ {
		var more []*ssa.Function
		eachInstrOf(out, func(f *ssa.Function, i ssa.Instruction) {
			for _, g := range c18Targets(callCommon(i)) {
				if !in[g] && rootPkg(g) == rootPkg(f) && !containsFn(more, g) {
					more = append(more, g)
				}
			}
		})
		if len(more) == 0 {
			break
		}
		for _, g := range c.region(more...) {
			if !in[g] {
				in[g] = true
				out = append(out, g)
			}
		}
	}
	return out
}

func containsFn(fs []*ssa.Function, f *ssa.Function) bool {
	for _, x := range fs {
		if x == f {
			return true
		}
	}
	return false
}

// c18IsCtx: t is context.Context.
func c18IsCtx(t types.Type) bool { return typeStr(t) == "context.Context" }

// c18DeadlineChan: ch is a channel that becomes ready when a deadline passes or a context ends: ctx.Done() of a
// context.Context, time.After(d), the C of a time.Timer / time.Ticker.
func c18DeadlineChan(ch ssa.Value) bool {
	return derives(ch, func(v ssa.Value) bool {
		if call, ok := v.(*ssa.Call); ok {
			if call.Call.IsInvoke() && call.Call.Method.Name() == "Done" && c18IsCtx(call.Call.Value.Type()) {
				return true
			}
			if n := calleeName(&call.Call); n == "time.After" || n == "time.Tick" {
				return true
			}
		}
		if _, ok := fieldOf(v, "time.Timer", "C"); ok {
			return true
		}
		if _, ok := fieldOf(v, "time.Ticker", "C"); ok {
			return true
		}
		return false
	})
}

// c18Wait describes an instruction that blocks on channels: a plain receive or a blocking select.
type c18Wait struct {
	Instr    ssa.Instruction
	Chans    []ssa.Value // channels received from
	Deadline bool        // one of them is a deadline / context channel
	Single   bool        // exactly one way out (plain receive or one-case select)
}

// c18WaitOf classifies i as a blocking wait on channels.
func c18WaitOf(i ssa.Instruction) (c18Wait, bool) {
	switch x := i.(type) {
	case *ssa.UnOp:
		if x.Op != token.ARROW {
			return c18Wait{}, false
		}
		return c18Wait{Instr: i, Chans: []ssa.Value{x.X}, Deadline: c18DeadlineChan(x.X), Single: true}, true
	case *ssa.Select:
		if !x.Blocking {
			return c18Wait{}, false
		}
		w := c18Wait{Instr: i, Single: len(x.States) == 1}
		for _, st := range x.States {
			if st.Dir != types.RecvOnly {
				continue
			}
			w.Chans = append(w.Chans, st.Chan)
			if c18DeadlineChan(st.Chan) {
				w.Deadline = true
			}
		}
		return w, len(w.Chans) > 0
	}
	return c18Wait{}, false
}

// c18ChanRoots: the make(chan) instructions a channel value may come from (through helper results, parameters,
// captured variables).
func c18ChanRoots(ch ssa.Value) map[*ssa.MakeChan]bool {
	out := map[*ssa.MakeChan]bool{}
	c18Derives(ch, func(v ssa.Value) bool {
		if mc, ok := v.(*ssa.MakeChan); ok {
			out[mc] = true
		}
		return false
	})
	return out
}

// c18MutexKey names a mutex independently of the local names through which it is reached: a package variable by its
// name, a field by the type that holds it ("proxy/tcp.Server.mu"), anything else by its type.
func c18MutexKey(v ssa.Value) string {
	switch x := v.(type) {
	case *ssa.Global:
		return x.Pkg.Pkg.Name() + "." + x.Name()
	case *ssa.FieldAddr:
		return c18MutexKey(x.X) + "." + fieldName(x.X.Type(), x.Field)
	case *ssa.Field:
		return c18MutexKey(x.X) + "." + fieldName(x.X.Type(), x.Field)
	case *ssa.UnOp:
		if x.Op == token.MUL {
			return c18MutexKey(x.X)
		}
	case *ssa.ChangeType:
		return c18MutexKey(x.X)
	}
	t := v.Type()
	for {
		p, ok := t.(*types.Pointer)
		if !ok {
			break
		}
		t = p.Elem()
	}
	return strings.TrimPrefix(typeStr(t), repoMod+"/")
}

// c18LockOp classifies a call/defer as an operation on a mutex: kind as lockCallKind, key by c18MutexKey.
func c18LockOp(i ssa.Instruction) (key, kind string) {
	_, kind = lockCallKind(i)
	if kind == "" {
		return "", ""
	}
	cc := callCommon(i)
	if len(cc.Args) > 0 {
		key = c18MutexKey(cc.Args[0])
	}
	return key, kind
}

// c18ElemFieldVars: the struct fields declared in package pkg whose type is a collection (slice, array, map key or
// value, channel, nested collections, a pointer to one) of the named type elem ("net.Listener") or of a concrete type
// that implements it: the role "the listeners / the connections the server tracks". The field may sit in the server
// type itself or in a small type the server delegates the bookkeeping to.
func c18ElemFieldVars(c *Ctx, pkg, elem string) map[*types.Var]bool {
	out := map[*types.Var]bool{}
	sp := c.spkg(pkg)
	if sp == nil {
		return out
	}
	// the element interface itself, to recognise collections of a concrete type that implements it ([]*conn)
	var iface *types.Interface
	if pp := c.ppkg(pkg); pp != nil && pp.Types != nil {
		if k := strings.LastIndex(elem, "."); k > 0 {
			for _, imp := range pp.Types.Imports() {
				if imp.Path() == elem[:k] {
					if o := imp.Scope().Lookup(elem[k+1:]); o != nil {
						iface, _ = o.Type().Underlying().(*types.Interface)
					}
				}
			}
		}
	}
	is := func(t types.Type) bool {
		if namedIs(t, elem) {
			return true
		}
		if iface == nil {
			return false
		}
		if _, isPtr := t.(*types.Pointer); !isPtr && !types.IsInterface(t) {
			return types.Implements(t, iface) || types.Implements(types.NewPointer(t), iface)
		}
		return types.Implements(t, iface)
	}
	var holds func(t types.Type, d int) bool
	holds = func(t types.Type, d int) bool {
		if d > 3 {
			return false
		}
		switch x := t.Underlying().(type) {
		case *types.Slice:
			return is(x.Elem()) || holds(x.Elem(), d+1)
		case *types.Array:
			return is(x.Elem()) || holds(x.Elem(), d+1)
		case *types.Chan:
			return is(x.Elem())
		case *types.Map:
			return is(x.Key()) || is(x.Elem()) || holds(x.Elem(), d+1)
		case *types.Pointer:
			if _, isStruct := x.Elem().Underlying().(*types.Struct); !isStruct {
				return holds(x.Elem(), d+1)
			}
		}
		return false
	}
	for _, m := range sp.Members {
		t, ok := m.(*ssa.Type)
		if !ok {
			continue
		}
		st, ok := t.Type().Underlying().(*types.Struct)
		if !ok {
			continue
		}
		for i := 0; i < st.NumFields(); i++ {
			if holds(st.Field(i).Type(), 0) {
				out[st.Field(i)] = true
			}
		}
	}
	return out
}

// c18FromFields: v derives from (the elements of) one of the given collection fields: an index of the loaded slice,
// the key / value delivered by ranging over the loaded map, also through a helper that returns the collection or is
// handed it.
func c18FromFields(v ssa.Value, fields map[*types.Var]bool) bool {
	return derives(v, func(x ssa.Value) bool {
		if _, isAddr := x.(*ssa.FieldAddr); isAddr {
			return fields[c18FieldVarOf(x)]
		}
		fv := c18FieldVarOf(x)
		return fv != nil && fields[fv]
	})
}

// c18IsClose: i calls a method Close on some value; returns the receiver.
func c18IsClose(i ssa.Instruction) (ssa.Value, bool) {
	cc := callCommon(i)
	if cc == nil {
		return nil, false
	}
	if cc.IsInvoke() {
		if cc.Method.Name() == "Close" {
			return cc.Value, true
		}
		return nil, false
	}
	if sc := cc.StaticCallee(); sc != nil && sc.Name() == "Close" && sc.Signature.Recv() != nil && len(cc.Args) > 0 {
		return cc.Args[0], true
	}
	return nil, false
}
