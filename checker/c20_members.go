package main

// C20.P3 prover: members of structs kept in local variables and in tables of structs.
//
//	for _, u := range []struct{ name string; unit time.Duration; digits int }{{"$response_time_ms", time.Millisecond, 3}, ...} {
//		fields[u.name] = elapsed(u.unit, u.digits)
//	}
//
// A table-driven registration reads its numbers (and the field names, see C20.F1) from the members of the elements of a
// slice literal, through a copy in the loop variable. c20memberWalk collects every value that is ever written to one
// member of the struct stored at an address: for a local struct its member assignments and what is copied into it as a
// whole; for an element of a table every element of that table (a local array / slice literal, also when it is the
// initial value of a package-level variable), with the same two kinds of writes. It gives up (the member is unknown) as
// soon as an address goes anywhere it cannot follow. A member that may be read before it is assigned also holds zero.

import (
	"go/token"
	"go/types"

	"golang.org/x/tools/go/ssa"
)

type c20memberWalk struct {
	p     *c20prover
	field int
	val   func(v ssa.Value, at *ssa.Store) // a value written to the member
	zero  func()                           // the member may hold its zero value
	busy  map[ssa.Value]bool
	ok    bool
}

// memberAt: the interval of the integer member `field` of the struct stored at addr.
func (p *c20prover) memberAt(addr ssa.Value, field int, depth int) (c20iv, bool) {
	pt, ok := addr.Type().Underlying().(*types.Pointer)
	if !ok {
		return c20iv{}, false
	}
	st, ok := pt.Elem().Underlying().(*types.Struct)
	if !ok || field >= st.NumFields() {
		return c20iv{}, false
	}
	if _, isInt := c20typeRange(st.Field(field).Type()); !isInt {
		return c20iv{}, false
	}
	r := c20empty
	w := &c20memberWalk{p: p, field: field, busy: map[ssa.Value]bool{}, ok: true}
	w.val = func(v ssa.Value, at *ssa.Store) { r = r.union(p.storedAt(v, at)) }
	w.zero = func() { r = r.union(c20pt(0)) }
	w.at(addr, depth)
	if !w.ok {
		return c20iv{}, false
	}
	if r.empty() {
		r = c20pt(0)
	}
	return r, true
}

// c20MemberStrings: the constant strings ever written to the string member `field` of the struct stored at addr
// (ok == false: some write is not a constant, or the struct cannot be followed).
func c20MemberStrings(p *c20prover, addr ssa.Value, field int) ([]string, bool) {
	var out []string
	w := &c20memberWalk{p: p, field: field, busy: map[ssa.Value]bool{}, ok: true}
	w.val = func(v ssa.Value, at *ssa.Store) {
		if s, isS := constString(v); isS {
			out = append(out, s)
		} else {
			w.ok = false
		}
	}
	w.zero = func() {}
	w.at(addr, 0)
	return out, w.ok
}

// at: the struct stored at addr.
func (w *c20memberWalk) at(addr ssa.Value, depth int) {
	if !w.ok {
		return
	}
	if depth > 5 {
		w.ok = false
		return
	}
	if w.busy[addr] {
		return
	}
	w.busy[addr] = true
	switch a := addr.(type) {
	case *ssa.Alloc:
		if !w.initialised(a, a, a.Block()) {
			w.zero()
		}
		w.cell(a, depth)
	case *ssa.IndexAddr:
		w.table(a, depth)
	default:
		w.ok = false
	}
}

// value: a struct VALUE that is copied somewhere as a whole.
func (w *c20memberWalk) value(v ssa.Value, depth int) {
	switch x := v.(type) {
	case *ssa.UnOp:
		if x.Op == token.MUL {
			w.at(x.X, depth+1)
			return
		}
	case *ssa.Const:
		w.zero() // the zero struct
		return
	case *ssa.Phi:
		for _, e := range x.Edges {
			w.value(e, depth+1)
		}
		return
	}
	w.ok = false
}

// cell: the writes to one struct variable (a local, or one element of a table).
func (w *c20memberWalk) cell(cell ssa.Value, depth int) {
	refs := cell.Referrers()
	if refs == nil {
		w.ok = false
		return
	}
	for _, r := range *refs {
		if !w.ok {
			return
		}
		switch y := r.(type) {
		case *ssa.FieldAddr:
			if y.X != cell {
				w.ok = false
				return
			}
			for _, r2 := range *y.Referrers() {
				switch z := r2.(type) {
				case *ssa.Store:
					if z.Addr != y {
						w.ok = false // the member's address is stored somewhere
						return
					}
					if y.Field == w.field {
						w.val(z.Val, z)
					}
				case *ssa.UnOp:
					if z.Op != token.MUL {
						w.ok = false
					}
				case *ssa.DebugRef:
				default:
					if y.Field == w.field {
						w.ok = false // the member's address goes elsewhere
					}
				}
			}
		case *ssa.Store:
			if y.Addr != cell {
				w.ok = false // the variable's address is stored somewhere
				return
			}
			w.value(y.Val, depth)
		case *ssa.UnOp:
			if y.Op != token.MUL {
				w.ok = false
			}
		case *ssa.DebugRef:
		default:
			w.ok = false
		}
	}
}

// initialised: in block blk (where the variable / the table is created) the member of cell is assigned - directly or by
// a copy of a whole struct - before anything reads it. root is the allocation the scan starts after.
func (w *c20memberWalk) initialised(root *ssa.Alloc, cell ssa.Value, blk *ssa.BasicBlock) bool {
	if blk == nil {
		return false
	}
	started := false
	var member *ssa.FieldAddr
	for _, in := range blk.Instrs {
		if in == ssa.Instruction(root) {
			started = true
			continue
		}
		if !started {
			continue
		}
		if fa, ok := in.(*ssa.FieldAddr); ok && fa.X == cell {
			if fa.Field == w.field {
				member = fa
			}
			continue
		}
		switch x := in.(type) {
		case *ssa.Store:
			if x.Addr == cell || (member != nil && x.Addr == ssa.Value(member)) {
				return true
			}
		case *ssa.UnOp:
			if x.Op == token.MUL && (x.X == cell || (member != nil && x.X == ssa.Value(member))) {
				return false // read first
			}
		}
	}
	return false
}

// table: every element of the table that elem is an element of.
func (w *c20memberWalk) table(elem *ssa.IndexAddr, depth int) {
	// the allocations behind the indexed value
	var roots []*ssa.Alloc
	var globals []*ssa.Global
	seenG := map[*ssa.Global]bool{}
	var back func(v ssa.Value, d int)
	back = func(v ssa.Value, d int) {
		if !w.ok {
			return
		}
		if d > 5 {
			w.ok = false
			return
		}
		switch x := v.(type) {
		case *ssa.Slice:
			back(x.X, d+1)
		case *ssa.Alloc:
			if _, isArr := x.Type().(*types.Pointer).Elem().Underlying().(*types.Array); !isArr {
				w.ok = false
				return
			}
			roots = append(roots, x)
		case *ssa.UnOp:
			g, isG := x.X.(*ssa.Global)
			if x.Op != token.MUL || !isG {
				w.ok = false
				return
			}
			if seenG[g] {
				return
			}
			seenG[g] = true
			globals = append(globals, g)
			for _, in := range w.p.globalUses(g) {
				switch y := in.(type) {
				case *ssa.UnOp:
					if y.Op != token.MUL || y.X != g {
						w.ok = false
					}
				case *ssa.Store:
					if y.Addr != g {
						w.ok = false
						return
					}
					if isNilConst(y.Val) {
						continue
					}
					back(y.Val, d+1)
				case *ssa.DebugRef:
				default:
					w.ok = false // the variable's address is taken
				}
			}
		default:
			w.ok = false
		}
	}
	back(elem.X, 0)
	if !w.ok || len(roots) == 0 {
		w.ok = false
		return
	}
	// every element address of these tables: through the array, through slices of it, through loads of the package-level
	// variables it is assigned to
	var cells []*ssa.IndexAddr
	seen := map[ssa.Value]bool{}
	var fwd func(v ssa.Value, d int)
	fwd = func(v ssa.Value, d int) {
		if !w.ok || seen[v] {
			return
		}
		seen[v] = true
		refs := v.Referrers()
		if refs == nil || d > 6 {
			w.ok = false
			return
		}
		for _, r := range *refs {
			switch y := r.(type) {
			case *ssa.IndexAddr:
				if y.X != v {
					w.ok = false
					return
				}
				cells = append(cells, y)
			case *ssa.Slice:
				if y.X != v {
					w.ok = false
					return
				}
				fwd(y, d+1)
			case *ssa.Call:
				if n := calleeName(&y.Call); n != "builtin.len" && n != "builtin.cap" {
					w.ok = false
					return
				}
			case *ssa.Range, *ssa.DebugRef:
			case *ssa.UnOp:
				if y.Op != token.MUL {
					w.ok = false
					return
				}
			case *ssa.Store:
				g, isG := y.Addr.(*ssa.Global)
				if !isG || y.Val != v || !seenG[g] {
					// assigned to a variable we did not come from: follow that variable too
					if isG && y.Val == v {
						seenG[g] = true
						globals = append(globals, g)
						for _, in := range w.p.globalUses(g) {
							switch z := in.(type) {
							case *ssa.UnOp:
								if z.Op != token.MUL || z.X != g {
									w.ok = false
								}
							case *ssa.Store:
								if z.Addr != g {
									w.ok = false
								} else if !isNilConst(z.Val) {
									back(z.Val, 0)
								}
							case *ssa.DebugRef:
							default:
								w.ok = false
							}
						}
						continue
					}
					w.ok = false
					return
				}
			default:
				w.ok = false
				return
			}
		}
	}
	for k := 0; k < len(roots); k++ { // roots may grow while variables are followed
		fwd(roots[k], 0)
	}
	for k := 0; k < len(globals); k++ {
		for _, in := range w.p.globalUses(globals[k]) {
			if ld, ok := in.(*ssa.UnOp); ok && ld.Op == token.MUL {
				fwd(ld, 0)
			}
		}
	}
	if !w.ok {
		return
	}
	// is every element assigned where the table is created, before anything can read it? (a literal assigns the elements
	// one by one, with constant indices, before the array is sliced or indexed with a variable)
	for _, root := range roots {
		n := root.Type().(*types.Pointer).Elem().Underlying().(*types.Array).Len()
		firstOther := len(root.Block().Instrs)
		for _, r := range *root.Referrers() {
			if r.Block() != root.Block() {
				continue
			}
			other := true
			if ia, isIA := r.(*ssa.IndexAddr); isIA {
				if _, isK := constInt(ia.Index); isK {
					other = false
				}
			}
			if _, isD := r.(*ssa.DebugRef); isD {
				other = false
			}
			if other {
				if k := instrIndex(r); k < firstOther {
					firstOther = k
				}
			}
		}
		done := map[int64]bool{}
		for _, c := range cells {
			if c.X != ssa.Value(root) || c.Block() != root.Block() {
				continue
			}
			k, isK := constInt(c.Index)
			if !isK || !w.initialised(root, c, root.Block()) {
				continue
			}
			// the assignment comes before the first other access
			before := false
			for _, in := range root.Block().Instrs[:firstOther] {
				if st, isSt := in.(*ssa.Store); isSt {
					if st.Addr == ssa.Value(c) {
						before = true
					}
					if fa, isFA := st.Addr.(*ssa.FieldAddr); isFA && fa.X == ssa.Value(c) && fa.Field == w.field {
						before = true
					}
				}
			}
			if before {
				done[k] = true
			}
		}
		if int64(len(done)) < n {
			w.zero()
		}
	}
	for _, c := range cells {
		w.cell(c, depth)
	}
}
