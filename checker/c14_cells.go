package main

// Local variables that live in cells (hardening round 3): a variable captured by a closure - in particular by the body
// of a range-over-func loop, which go/ssa compiles to a closure - is an *ssa.Alloc in its function and an *ssa.FreeVar
// in the closure. The helpers here see both sides.

import (
	"go/token"

	"golang.org/x/tools/go/ssa"
)

// c14cellAliases: the cell and the free variables through which closures (transitively) see it.
func c14cellAliases(cell *ssa.Alloc) []ssa.Value {
	out := []ssa.Value{cell}
	for k := 0; k < len(out) && len(out) < 16; k++ {
		refs := out[k].Referrers()
		if refs == nil {
			continue
		}
		for _, r := range *refs {
			mc, ok := r.(*ssa.MakeClosure)
			if !ok {
				continue
			}
			fn, ok := mc.Fn.(*ssa.Function)
			if !ok {
				continue
			}
			for j, b := range mc.Bindings {
				if b == out[k] && j < len(fn.FreeVars) {
					out = append(out, fn.FreeVars[j])
				}
			}
		}
	}
	return out
}

// c14cellStores: the assignments to the variable, in its function and in the closures that capture it.
func c14cellStores(cell *ssa.Alloc) []*ssa.Store {
	var out []*ssa.Store
	for _, al := range c14cellAliases(cell) {
		if al.Referrers() == nil {
			continue
		}
		for _, r := range *al.Referrers() {
			if st, ok := r.(*ssa.Store); ok && st.Addr == al {
				out = append(out, st)
			}
		}
	}
	return out
}

// c14cellMapUpdated: the map kept in the variable is filled through some load of the variable.
func c14cellMapUpdated(cell *ssa.Alloc) bool {
	for _, al := range c14cellAliases(cell) {
		if al.Referrers() == nil {
			continue
		}
		for _, r := range *al.Referrers() {
			ld, ok := r.(*ssa.UnOp)
			if !ok || ld.Op != token.MUL || ld.Referrers() == nil {
				continue
			}
			for _, u := range *ld.Referrers() {
				if mu, ok := u.(*ssa.MapUpdate); ok && mu.Map == ld {
					return true
				}
			}
		}
	}
	return false
}

// c14placeOf: an address as (root variable, field path); ok only for a local variable or a field (of a field ...) of one.
func c14placeOf(addr ssa.Value) (root *ssa.Alloc, path string, ok bool) {
	for d := 0; d < 6; d++ {
		switch x := addr.(type) {
		case *ssa.Alloc:
			return x, path, true
		case *ssa.FieldAddr:
			path = "." + fieldName(x.X.Type(), x.Field) + path
			addr = x.X
		default:
			return nil, "", false
		}
	}
	return nil, "", false
}

// c14sameCellLoad: p and q load the same place of the same local variable (the variable itself or a field of it), and
// the variable is assigned only before both loads: every store into it (whole or by field) dominates both loads and
// cannot be reached again from them, closures that capture it only read it, and its address goes nowhere else. Two such
// loads yield the same value even when neither dominates the other (the arms of an if / else).
func c14sameCellLoad(p, q ssa.Value) bool {
	p, q = c14stripConv(p), c14stripConv(q)
	lp, ok1 := p.(*ssa.UnOp)
	lq, ok2 := q.(*ssa.UnOp)
	if !ok1 || !ok2 || lp.Op != token.MUL || lq.Op != token.MUL || lp.Parent() != lq.Parent() {
		return false
	}
	rp, pp, ok1 := c14placeOf(lp.X)
	rq, pq, ok2 := c14placeOf(lq.X)
	if !ok1 || !ok2 || rp != rq || pp != pq {
		return false
	}
	okAll := true
	var visit func(addr ssa.Value, inClosure bool, d int)
	visit = func(addr ssa.Value, inClosure bool, d int) {
		if !okAll || addr.Referrers() == nil || d > 6 {
			okAll = okAll && d <= 6
			return
		}
		for _, r := range *addr.Referrers() {
			switch y := r.(type) {
			case *ssa.DebugRef:
			case *ssa.UnOp:
				if y.Op != token.MUL {
					okAll = false
				}
			case *ssa.FieldAddr:
				visit(y, inClosure, d+1)
			case *ssa.Store:
				if y.Addr != addr || inClosure {
					okAll = false // the address is stored somewhere, or a closure assigns the variable
					return
				}
				if !dominatesInstr(y, lp) || !dominatesInstr(y, lq) || canReach(lp, y) || canReach(lq, y) {
					okAll = false
				}
			case *ssa.MakeClosure:
				fn, isFn := y.Fn.(*ssa.Function)
				if !isFn {
					okAll = false
					return
				}
				for j, b := range y.Bindings {
					if b == addr && j < len(fn.FreeVars) {
						visit(fn.FreeVars[j], true, d+1)
					}
				}
			default:
				okAll = false // passed to a call, compared, converted ...: someone else may write through it
			}
		}
	}
	visit(rp, false, 0)
	return okAll
}
