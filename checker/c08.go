package main

import (
	"fmt"
	"go/token"
	"os"
	"sort"
	"strings"

	"golang.org/x/tools/go/ssa"
)

func init() {
	register(&propDef{
		ID:      "C08",
		Level:   "other",
		Explain: "Forwarding-header rules. Sites are found by ROLE in the region of HTTPProxy.ServeHTTP (ServeHTTP, the helpers of package proxy and its sub-packages it calls, their closures), not by function name: a header write is a Set/Add/Del of http.Header on a value that is Request.Header (or a copy / helper parameter passed it), keyed by a constant or by a field of config.Proxy; keys, values and guarding conditions that reach a helper as parameters (setIfAbsent(h, key, value), a bool isTLS) are evaluated per call site; small carrier types of package proxy (a struct carrying the peer address, the host, a secure / websocket flag, the connection state, the header map or a header name from one step to the next) are followed field-sensitively by type and field (every store to that field; for a negative verdict no instance built without it); a write in a loop over a table of {key, value} rows (a slice / array literal of structs or [2]string, grown with append, merged, returned by a helper or handed to the looping helper, or a map literal ranged over) is instantiated per row, its value taken from the same row; text assembled in a strings.Builder derives from what is written into it. (A1) the authoritative headers (configured client-IP header, configured TLS header) are written with Set, under no condition that depends on a header the client sent (conditions under which the request is not forwarded at all do not count), with a value derived only from RemoteAddr / r.TLS / configuration; the TLS header is Set on the r.TLS != nil edge and Del'd on the other edge or unconditionally in front of the Set (exhaustive); (A2) the default-if-absent headers (X-Real-Ip, X-Forwarded-Proto/-Port/-Host) are written only where Get(sameKey) == \"\" is known and their values derive from the connection (net.SplitHostPort of RemoteAddr) or the request's Host (net.SplitHostPort of Request.Host for the port); (O1) in no function of the region can a store to r.Host (direct or inside a helper) be followed by the derivation of X-Forwarded-Host/-Port/Forwarded (direct or inside a helper): they must describe the host the client asked for, also for host= routes; (X1) every test of the Upgrade header in package proxy compares against the same constant set (==, switch, slices.Contains, a predicate on the value), the X-Forwarded-For write is control dependent on the Upgrade header, and every production of the ws/wss scheme (returned, merged, stored, concatenated, or looked up in a package-level table) is control dependent on it - in the producing function or, for a connScheme(websocket, secure bool) that is told, through what every caller passes - or at least its function goes through such a test; (X2) the value Set as X-Forwarded-For ends with the peer (last operand of the concatenation / strings.Join(append(prior, peer)) / Sprintf / helper result); (S1) Strict-Transport-Security is written only where r.TLS != nil is known, on the response; (R1) the request-id header is Set from the generator under no client-dependent condition; (P1) nothing in package proxy separates host and port of Request.Host / RemoteAddr with a bare ':' search (IPv6 literals) - net.SplitHostPort is used; (X3) the X-Forwarded-For write and the choice of the raw tunnel (code that hijacks the connection, found by role) are control dependent on the same request header (Upgrade only); (A3) the for= element fabio itself puts into Forwarded (\"for=\"+x, Sprintf(\"for=%s\"), else the whole value written) derives from RemoteAddr and from no client header. Not decided: the textual format of Forwarded and of the port/protocol values (string contents).",
		Run:     runC08,
		Trusted: []string{"net/http sets Request.RemoteAddr to the peer's ip:port and Request.TLS iff the connection used TLS", "httputil.ReverseProxy appends the peer address to X-Forwarded-For for non-upgrade requests"},
		Mutants: []mutant{

			{Name: "Add instead of Set for the client-IP header", File: "proxy/http_headers.go", Old: "r.Header.Set(cfg.ClientIPHeader, remoteIP)", New: "r.Header.Add(cfg.ClientIPHeader, remoteIP)", Expect: "C08.A1"},
			{Name: "client-IP header only when absent", File: "proxy/http_headers.go", Old: "\t\tcfg.ClientIPHeader != \"X-Real-Ip\" {", New: "\t\tcfg.ClientIPHeader != \"X-Real-Ip\" && r.Header.Get(cfg.ClientIPHeader) == \"\" {", Expect: "C08.A1"},
			{Name: "client-IP header from X-Real-Ip", File: "proxy/http_headers.go", Old: "r.Header.Set(cfg.ClientIPHeader, remoteIP)", New: "r.Header.Set(cfg.ClientIPHeader, r.Header.Get(\"X-Real-Ip\"))", Expect: "C08.A1"},
			{Name: "drop the Del on the non-TLS edge", File: "proxy/http_headers.go", Old: "\t\t} else {\n\t\t\tr.Header.Del(cfg.TLSHeader)\n\t\t}", New: "\t\t}", Expect: "C08.A1"},
			{Name: "X-Real-Ip overwritten", File: "proxy/http_headers.go", Old: "\tif r.Header.Get(\"X-Real-Ip\") == \"\" {\n\t\tr.Header.Set(\"X-Real-Ip\", remoteIP)\n\t}", New: "\tr.Header.Set(\"X-Real-Ip\", remoteIP)", Expect: "C08.A2"},
			{Name: "X-Forwarded-Host from the target", File: "proxy/http_headers.go", Old: "r.Header.Set(\"X-Forwarded-Host\", r.Host)", New: "r.Header.Set(\"X-Forwarded-Host\", r.URL.Host)", Expect: "C08.A2"},
			{Name: "Host rewrite before addHeaders again", File: "proxy/http_proxy.go", Old: "\tif err := addHeaders(r, p.Config, t.StripPath); err != nil {", New: "\tif t.Host != \"\" && t.Host != \"dst\" {\n\t\tr.Host = t.Host\n\t}\n\tif err := addHeaders(r, p.Config, t.StripPath); err != nil {", Expect: "C08.O1"},
			{Name: "addHeaders tests only the lower-case spelling", File: "proxy/http_headers.go", Old: "\tws := isWebsocketUpgrade(r)\n\tif ws {\n\t\tclientIP := remoteIP", New: "\tws := r.Header.Get(\"Upgrade\") == \"websocket\"\n\tif ws {\n\t\tclientIP := remoteIP", Expect: "C08.X1"},
			{Name: "websocket X-Forwarded-For decided by the derived scheme", File: "proxy/http_headers.go", Old: "\tws := isWebsocketUpgrade(r)\n\tif ws {\n\t\tclientIP := remoteIP", New: "\tws := scheme(r) == \"ws\" || scheme(r) == \"wss\"\n\tif ws {\n\t\tclientIP := remoteIP", Expect: "C08.X3"},
			{Name: "Forwarded for= reuses the folded X-Forwarded-For value", File: "proxy/http_headers.go", Old: "\t\t\tr.Header.Set(\"X-Forwarded-For\", clientIP)\n", New: "\t\t\tr.Header.Set(\"X-Forwarded-For\", clientIP)\n\t\t\tremoteIP = clientIP\n", Expect: "C08.A3"},
			{Name: "peer not last in X-Forwarded-For", File: "proxy/http_headers.go", Old: "clientIP = strings.Join(prior, \", \") + \", \" + clientIP", New: "clientIP = clientIP + \", \" + strings.Join(prior, \", \")", Expect: "C08.X2"},
			{Name: "HSTS without the TLS test", File: "proxy/http_headers.go", Old: "if r.TLS != nil && cfg.STSHeader.MaxAge > 0 {", New: "if cfg.STSHeader.MaxAge > 0 {", Expect: "C08.S1"},
			{Name: "request id kept when the client sent one", File: "proxy/http_proxy.go", Old: "\tif p.Config.RequestID != \"\" {", New: "\tif p.Config.RequestID != \"\" && r.Header.Get(p.Config.RequestID) == \"\" {", Expect: "C08.R1"},
			{Name: "first-colon port split again", File: "proxy/http_headers.go", Old: "\tif _, port, err := net.SplitHostPort(r.Host); err == nil && port != \"\" {\n\t\treturn port\n\t}", New: "\tif n := strings.Index(r.Host, \":\"); n > 0 && n < len(r.Host)-1 {\n\t\treturn r.Host[n+1:]\n\t}", Expect: "C08.P1"},
			{Name: "benign: remote ip computed by the caller", File: "proxy/http_headers.go", Old: "\tif r.Header.Get(\"X-Real-Ip\") == \"\" {\n\t\tr.Header.Set(\"X-Real-Ip\", remoteIP)\n\t}", New: "\tif cur := r.Header.Get(\"X-Real-Ip\"); cur == \"\" {\n\t\tr.Header.Set(\"X-Real-Ip\", remoteIP)\n\t}", Expect: ""},
			// ---- added while hardening against behaviour-preserving refactorings (benign rewrites of shapes not in the corpus, and a break for every rewritten rule)
			{Name: "benign: TLS header in a helper taking the header map and a bool", File: "proxy/http_headers.go", Old: "\tif cfg.TLSHeader != \"\" {\n\t\tif r.TLS != nil {\n\t\t\tr.Header.Set(cfg.TLSHeader, cfg.TLSHeaderValue)\n\t\t} else {\n\t\t\tr.Header.Del(cfg.TLSHeader)\n\t\t}\n\t}\n\n\treturn nil\n}\n", New: "\tmarkTLS(r.Header, r.TLS != nil, cfg.TLSHeader, cfg.TLSHeaderValue)\n\n\treturn nil\n}\n\nfunc markTLS(h http.Header, secure bool, name, value string) {\n\tswitch {\n\tcase name == \"\":\n\tcase secure:\n\t\th.Set(name, value)\n\tdefault:\n\t\th.Del(name)\n\t}\n}\n", Expect: ""},
			{Name: "TLS helper told 'secure' from X-Forwarded-Proto", File: "proxy/http_headers.go", Old: "\tif cfg.TLSHeader != \"\" {\n\t\tif r.TLS != nil {\n\t\t\tr.Header.Set(cfg.TLSHeader, cfg.TLSHeaderValue)\n\t\t} else {\n\t\t\tr.Header.Del(cfg.TLSHeader)\n\t\t}\n\t}\n\n\treturn nil\n}\n", New: "\tmarkTLS(r.Header, r.TLS != nil || r.Header.Get(\"X-Forwarded-Proto\") == \"https\", cfg.TLSHeader, cfg.TLSHeaderValue)\n\n\treturn nil\n}\n\nfunc markTLS(h http.Header, secure bool, name, value string) {\n\tswitch {\n\tcase name == \"\":\n\tcase secure:\n\t\th.Set(name, value)\n\tdefault:\n\t\th.Del(name)\n\t}\n}\n", Expect: "C08.A1"},
			{Name: "benign: TLS header deleted first, Set on the TLS edge", File: "proxy/http_headers.go", Old: "\tif cfg.TLSHeader != \"\" {\n\t\tif r.TLS != nil {\n\t\t\tr.Header.Set(cfg.TLSHeader, cfg.TLSHeaderValue)\n\t\t} else {\n\t\t\tr.Header.Del(cfg.TLSHeader)\n\t\t}\n\t}\n\n\treturn nil\n}\n", New: "\tif cfg.TLSHeader != \"\" {\n\t\tr.Header.Del(cfg.TLSHeader)\n\t\tif r.TLS != nil {\n\t\t\tr.Header.Set(cfg.TLSHeader, cfg.TLSHeaderValue)\n\t\t}\n\t}\n\n\treturn nil\n}\n", Expect: ""},
			{Name: "TLS header deleted after the Set", File: "proxy/http_headers.go", Old: "\tif cfg.TLSHeader != \"\" {\n\t\tif r.TLS != nil {\n\t\t\tr.Header.Set(cfg.TLSHeader, cfg.TLSHeaderValue)\n\t\t} else {\n\t\t\tr.Header.Del(cfg.TLSHeader)\n\t\t}\n\t}\n\n\treturn nil\n}\n", New: "\tif cfg.TLSHeader != \"\" {\n\t\tif r.TLS != nil {\n\t\t\tr.Header.Set(cfg.TLSHeader, cfg.TLSHeaderValue)\n\t\t}\n\t\tr.Header.Del(cfg.TLSHeader)\n\t}\n\n\treturn nil\n}\n", Expect: "C08.A1"},
			{Name: "TLS header value taken from the client", File: "proxy/http_headers.go", Old: "r.Header.Set(cfg.TLSHeader, cfg.TLSHeaderValue)", New: "r.Header.Set(cfg.TLSHeader, r.Header.Get(\"X-Forwarded-Proto\"))", Expect: "C08.A1"},
			{Name: "benign: defaults through a generic setIfAbsent(h, key, value) helper", File: "proxy/http_headers.go", Old: "\tif r.Header.Get(\"X-Real-Ip\") == \"\" {\n\t\tr.Header.Set(\"X-Real-Ip\", remoteIP)\n\t}\n", New: "\tsetIfAbsent(r.Header, \"X-Real-Ip\", remoteIP)\n", Expect: "", More: []repl{{"\tif r.Header.Get(\"X-Forwarded-Port\") == \"\" {\n\t\tr.Header.Set(\"X-Forwarded-Port\", localPort(r))\n\t}\n", "\tsetIfAbsent(r.Header, \"X-Forwarded-Port\", localPort(r))\n"}, {"\tif r.Header.Get(\"X-Forwarded-Host\") == \"\" && r.Host != \"\" {\n\t\tr.Header.Set(\"X-Forwarded-Host\", r.Host)\n\t}\n", "\tif r.Host != \"\" {\n\t\tsetIfAbsent(r.Header, \"X-Forwarded-Host\", r.Host)\n\t}\n"}, {"var tlsver = map[uint16]string{", "func setIfAbsent(h http.Header, key, value string) {\n\tif h.Get(key) != \"\" {\n\t\treturn\n\t}\n\th.Set(key, value)\n}\n\nvar tlsver = map[uint16]string{"}}},
			{Name: "setIfAbsent helper: X-Forwarded-Host from the upstream URL", File: "proxy/http_headers.go", Old: "\tif r.Header.Get(\"X-Real-Ip\") == \"\" {\n\t\tr.Header.Set(\"X-Real-Ip\", remoteIP)\n\t}\n", New: "\tsetIfAbsent(r.Header, \"X-Real-Ip\", remoteIP)\n", Expect: "C08.A2", More: []repl{{"\tif r.Header.Get(\"X-Forwarded-Port\") == \"\" {\n\t\tr.Header.Set(\"X-Forwarded-Port\", localPort(r))\n\t}\n", "\tsetIfAbsent(r.Header, \"X-Forwarded-Port\", localPort(r))\n"}, {"\tif r.Header.Get(\"X-Forwarded-Host\") == \"\" && r.Host != \"\" {\n\t\tr.Header.Set(\"X-Forwarded-Host\", r.Host)\n\t}\n", "\tif r.Host != \"\" {\n\t\tsetIfAbsent(r.Header, \"X-Forwarded-Host\", r.URL.Host)\n\t}\n"}, {"var tlsver = map[uint16]string{", "func setIfAbsent(h http.Header, key, value string) {\n\tif h.Get(key) != \"\" {\n\t\treturn\n\t}\n\th.Set(key, value)\n}\n\nvar tlsver = map[uint16]string{"}}},
			{Name: "setIfAbsent helper that overwrites", File: "proxy/http_headers.go", Old: "\tif r.Header.Get(\"X-Real-Ip\") == \"\" {\n\t\tr.Header.Set(\"X-Real-Ip\", remoteIP)\n\t}\n", New: "\tsetIfAbsent(r.Header, \"X-Real-Ip\", remoteIP)\n", Expect: "C08.A2", More: []repl{{"\tif r.Header.Get(\"X-Forwarded-Port\") == \"\" {\n\t\tr.Header.Set(\"X-Forwarded-Port\", localPort(r))\n\t}\n", "\tsetIfAbsent(r.Header, \"X-Forwarded-Port\", localPort(r))\n"}, {"\tif r.Header.Get(\"X-Forwarded-Host\") == \"\" && r.Host != \"\" {\n\t\tr.Header.Set(\"X-Forwarded-Host\", r.Host)\n\t}\n", "\tif r.Host != \"\" {\n\t\tsetIfAbsent(r.Header, \"X-Forwarded-Host\", r.Host)\n\t}\n"}, {"var tlsver = map[uint16]string{", "func setIfAbsent(h http.Header, key, value string) {\n\th.Set(key, value)\n}\n\nvar tlsver = map[uint16]string{"}}},
			{Name: "setIfAbsent helper tests another header than it writes", File: "proxy/http_headers.go", Old: "\tif r.Header.Get(\"X-Real-Ip\") == \"\" {\n\t\tr.Header.Set(\"X-Real-Ip\", remoteIP)\n\t}\n", New: "\tsetIfAbsent(r.Header, \"X-Real-Ip\", remoteIP)\n", Expect: "C08.A2", More: []repl{{"\tif r.Header.Get(\"X-Forwarded-Port\") == \"\" {\n\t\tr.Header.Set(\"X-Forwarded-Port\", localPort(r))\n\t}\n", "\tsetIfAbsent(r.Header, \"X-Forwarded-Port\", localPort(r))\n"}, {"var tlsver = map[uint16]string{", "func setIfAbsent(h http.Header, key, value string) {\n\tif h.Get(\"X-Forwarded-For\") != \"\" {\n\t\treturn\n\t}\n\th.Set(key, value)\n}\n\nvar tlsver = map[uint16]string{"}}},
			{Name: "benign: absent test spelled len(Get(k)) == 0 with a guard clause order", File: "proxy/http_headers.go", Old: "\tif r.Header.Get(\"X-Forwarded-Port\") == \"\" {\n\t\tr.Header.Set(\"X-Forwarded-Port\", localPort(r))\n\t}\n", New: "\tif len(r.Header.Get(\"X-Forwarded-Port\")) == 0 {\n\t\tr.Header.Set(\"X-Forwarded-Port\", localPort(r))\n\t}\n", Expect: ""},
			{Name: "X-Forwarded-Port from the upstream URL", File: "proxy/http_headers.go", Old: "r.Header.Set(\"X-Forwarded-Port\", localPort(r))", New: "r.Header.Set(\"X-Forwarded-Port\", r.URL.Port())", Expect: "C08.A2"},
			{Name: "benign: localPort renamed", File: "proxy/http_headers.go", Old: "localPort(", New: "portOfRequest(", Expect: "", All: true},
			{Name: "benign: localPort inlined into a local variable with a guard", File: "proxy/http_headers.go", Old: "\tif r.Header.Get(\"X-Forwarded-Port\") == \"\" {\n\t\tr.Header.Set(\"X-Forwarded-Port\", localPort(r))\n\t}\n", New: "\tif r.Header.Get(\"X-Forwarded-Port\") == \"\" {\n\t\tport := localPort(r)\n\t\tr.Header.Set(\"X-Forwarded-Port\", port)\n\t}\n", Expect: ""},
			{Name: "benign: Host rewrite extracted into a helper", File: "proxy/http_proxy.go", Old: "\tif t.Host == \"dst\" {\n\t\tr.Host = targetURL.Host\n\t} else if t.Host != \"\" {\n\t\tr.Host = t.Host\n\t}\n", New: "\trewriteHost(r, t, targetURL)\n", Expect: "", More: []repl{{"func key(code int) string {", "func rewriteHost(r *http.Request, t *route.Target, targetURL *url.URL) {\n\tswitch t.Host {\n\tcase \"\":\n\tcase \"dst\":\n\t\tr.Host = targetURL.Host\n\tdefault:\n\t\tr.Host = t.Host\n\t}\n}\n\nfunc key(code int) string {"}}},
			{Name: "Host rewrite helper called before the headers are derived", File: "proxy/http_proxy.go", Old: "\tif t.Host == \"dst\" {\n\t\tr.Host = targetURL.Host\n\t} else if t.Host != \"\" {\n\t\tr.Host = t.Host\n\t}\n", New: "", Expect: "C08.O1", More: []repl{{"\tif err := addHeaders(r, p.Config, t.StripPath); err != nil {", "\trewriteHost(r, t, targetURL)\n\tif err := addHeaders(r, p.Config, t.StripPath); err != nil {"}, {"func key(code int) string {", "func rewriteHost(r *http.Request, t *route.Target, targetURL *url.URL) {\n\tswitch t.Host {\n\tcase \"\":\n\tcase \"dst\":\n\t\tr.Host = targetURL.Host\n\tdefault:\n\t\tr.Host = t.Host\n\t}\n}\n\nfunc key(code int) string {"}}},
			{Name: "benign: addHeaders body moved into a differently named function", File: "proxy/http_headers.go", Old: "func addHeaders(r *http.Request, cfg config.Proxy, stripPath string) error {\n\tremoteIP, _, err :=", New: "func addHeaders(r *http.Request, cfg config.Proxy, stripPath string) error {\n\treturn deriveForwarding(r, cfg, stripPath)\n}\n\nfunc deriveForwarding(r *http.Request, cfg config.Proxy, stripPath string) error {\n\tremoteIP, _, err :=", Expect: ""},
			{Name: "benign: Upgrade test as slices.Contains", File: "proxy/http_headers.go", Old: "return upgrade == \"websocket\" || upgrade == \"Websocket\"", New: "return slices.Contains([]string{\"websocket\", \"Websocket\"}, upgrade)", Expect: "", More: []repl{{"\t\"net/http\"\n\t\"strings\"", "\t\"net/http\"\n\t\"slices\"\n\t\"strings\""}}},
			{Name: "benign: Upgrade test as a switch", File: "proxy/http_headers.go", Old: "\tupgrade := r.Header.Get(\"Upgrade\")\n\treturn upgrade == \"websocket\" || upgrade == \"Websocket\"", New: "\tswitch r.Header.Get(\"Upgrade\") {\n\tcase \"websocket\", \"Websocket\":\n\t\treturn true\n\t}\n\treturn false", Expect: ""},
			{Name: "benign: Upgrade test through a predicate on the value", File: "proxy/http_headers.go", Old: "\treturn upgrade == \"websocket\" || upgrade == \"Websocket\"\n}", New: "\treturn isWS(upgrade)\n}\n\nfunc isWS(v string) bool {\n\treturn v == \"websocket\" || v == \"Websocket\"\n}", Expect: ""},
			{Name: "tunnel decided by a case-insensitive test of its own", File: "proxy/http_proxy.go", Old: "\tcase isWebsocketUpgrade(r):", New: "\tcase strings.EqualFold(r.Header.Get(\"Upgrade\"), \"websocket\"):", Expect: "C08.X1"},
			{Name: "tunnel accepts a third spelling", File: "proxy/http_proxy.go", Old: "\tcase isWebsocketUpgrade(r):", New: "\tcase r.Header.Get(\"Upgrade\") == \"websocket\" || r.Header.Get(\"Upgrade\") == \"Websocket\" || r.Header.Get(\"Upgrade\") == \"WebSocket\":", Expect: "C08.X1"},
			{Name: "benign: X-Forwarded-For built with strings.Join(append(prior, peer))", File: "proxy/http_headers.go", Old: "\t\tif len(prior) > 0 {\n\t\t\tclientIP = strings.Join(prior, \", \") + \", \" + clientIP\n\t\t}\n", New: "\t\tif len(prior) > 0 {\n\t\t\tclientIP = strings.Join(append(prior, clientIP), \", \")\n\t\t}\n", Expect: ""},
			{Name: "peer first in strings.Join(append(...))", File: "proxy/http_headers.go", Old: "\t\tif len(prior) > 0 {\n\t\t\tclientIP = strings.Join(prior, \", \") + \", \" + clientIP\n\t\t}\n", New: "\t\tif len(prior) > 0 {\n\t\t\tclientIP = strings.Join(append([]string{clientIP}, prior...), \", \")\n\t\t}\n", Expect: "C08.X2"},
			{Name: "benign: X-Forwarded-For value built by a helper", File: "proxy/http_headers.go", Old: "\t\tif len(prior) > 0 {\n\t\t\tclientIP = strings.Join(prior, \", \") + \", \" + clientIP\n\t\t}\n", New: "\t\tclientIP = appendPeer(prior, clientIP)\n", Expect: "", More: []repl{{"var tlsver = map[uint16]string{", "func appendPeer(prior []string, peer string) string {\n\tif len(prior) == 0 {\n\t\treturn peer\n\t}\n\treturn strings.Join(prior, \", \") + \", \" + peer\n}\n\nvar tlsver = map[uint16]string{"}}},
			{Name: "helper puts the peer first", File: "proxy/http_headers.go", Old: "\t\tif len(prior) > 0 {\n\t\t\tclientIP = strings.Join(prior, \", \") + \", \" + clientIP\n\t\t}\n", New: "\t\tclientIP = appendPeer(prior, clientIP)\n", Expect: "C08.X2", More: []repl{{"var tlsver = map[uint16]string{", "func appendPeer(prior []string, peer string) string {\n\tif len(prior) == 0 {\n\t\treturn peer\n\t}\n\treturn peer + \", \" + strings.Join(prior, \", \")\n}\n\nvar tlsver = map[uint16]string{"}}},
			{Name: "benign: for= element built with fmt.Sprintf", File: "proxy/http_headers.go", Old: "fwd = \"for=\" + remoteIP + \"; proto=\" + proto", New: "fwd = fmt.Sprintf(\"for=%s; proto=%s\", remoteIP, proto)", Expect: "", More: []repl{{"\t\"errors\"\n\t\"net\"", "\t\"errors\"\n\t\"fmt\"\n\t\"net\""}}},
			{Name: "Sprintf for= from X-Real-Ip", File: "proxy/http_headers.go", Old: "fwd = \"for=\" + remoteIP + \"; proto=\" + proto", New: "fwd = fmt.Sprintf(\"for=%s; proto=%s\", r.Header.Get(\"X-Real-Ip\"), proto)", Expect: "C08.A3", More: []repl{{"\t\"errors\"\n\t\"net\"", "\t\"errors\"\n\t\"fmt\"\n\t\"net\""}}},
			{Name: "benign: Forwarded value built by a helper", File: "proxy/http_headers.go", Old: "\tif fwd == \"\" {\n\t\tfwd = \"for=\" + remoteIP + \"; proto=\" + proto\n\t}\n", New: "\tif fwd == \"\" {\n\t\tfwd = forwardedFor(remoteIP, proto)\n\t}\n", Expect: "", More: []repl{{"var tlsver = map[uint16]string{", "func forwardedFor(peer, proto string) string {\n\treturn \"for=\" + peer + \"; proto=\" + proto\n}\n\nvar tlsver = map[uint16]string{"}}},
			{Name: "Forwarded helper is passed the first X-Forwarded-For entry", File: "proxy/http_headers.go", Old: "\tif fwd == \"\" {\n\t\tfwd = \"for=\" + remoteIP + \"; proto=\" + proto\n\t}\n", New: "\tif fwd == \"\" {\n\t\tfwd = forwardedFor(strings.Split(r.Header.Get(\"X-Forwarded-For\"), \",\")[0], proto)\n\t}\n", Expect: "C08.A3", More: []repl{{"var tlsver = map[uint16]string{", "func forwardedFor(peer, proto string) string {\n\treturn \"for=\" + peer + \"; proto=\" + proto\n}\n\nvar tlsver = map[uint16]string{"}}},
			{Name: "benign: peer address computed by a helper", File: "proxy/http_headers.go", Old: "\tremoteIP, _, err := net.SplitHostPort(r.RemoteAddr)\n", New: "\tremoteIP, err := peerIP(r)\n", Expect: "", More: []repl{{"var tlsver = map[uint16]string{", "func peerIP(r *http.Request) (string, error) {\n\thost, _, err := net.SplitHostPort(r.RemoteAddr)\n\treturn host, err\n}\n\nvar tlsver = map[uint16]string{"}}},
			{Name: "benign: client-IP header in a helper with a switch guard", File: "proxy/http_headers.go", Old: "\tif cfg.ClientIPHeader != \"\" &&\n\t\tcfg.ClientIPHeader != \"X-Forwarded-For\" &&\n\t\tcfg.ClientIPHeader != \"X-Real-Ip\" {\n\t\tr.Header.Set(cfg.ClientIPHeader, remoteIP)\n\t}\n", New: "\tsetClientIP(r, cfg.ClientIPHeader, remoteIP)\n", Expect: "", More: []repl{{"var tlsver = map[uint16]string{", "func setClientIP(r *http.Request, name, ip string) {\n\tswitch name {\n\tcase \"\", \"X-Forwarded-For\", \"X-Real-Ip\":\n\t\treturn\n\t}\n\tr.Header.Set(name, ip)\n}\n\nvar tlsver = map[uint16]string{"}}},
			{Name: "client-IP helper keeps what the client sent", File: "proxy/http_headers.go", Old: "\tif cfg.ClientIPHeader != \"\" &&\n\t\tcfg.ClientIPHeader != \"X-Forwarded-For\" &&\n\t\tcfg.ClientIPHeader != \"X-Real-Ip\" {\n\t\tr.Header.Set(cfg.ClientIPHeader, remoteIP)\n\t}\n", New: "\tsetClientIP(r, cfg.ClientIPHeader, remoteIP)\n", Expect: "C08.A1", More: []repl{{"var tlsver = map[uint16]string{", "func setClientIP(r *http.Request, name, ip string) {\n\tswitch name {\n\tcase \"\", \"X-Forwarded-For\", \"X-Real-Ip\":\n\t\treturn\n\t}\n\tif len(r.Header.Values(name)) > 0 {\n\t\treturn\n\t}\n\tr.Header.Set(name, ip)\n}\n\nvar tlsver = map[uint16]string{"}}},
			{Name: "client-IP helper is passed the X-Forwarded-For value", File: "proxy/http_headers.go", Old: "\tif cfg.ClientIPHeader != \"\" &&\n\t\tcfg.ClientIPHeader != \"X-Forwarded-For\" &&\n\t\tcfg.ClientIPHeader != \"X-Real-Ip\" {\n\t\tr.Header.Set(cfg.ClientIPHeader, remoteIP)\n\t}\n", New: "\tsetClientIP(r, cfg.ClientIPHeader, r.Header.Get(\"X-Forwarded-For\"))\n", Expect: "C08.A1", More: []repl{{"var tlsver = map[uint16]string{", "func setClientIP(r *http.Request, name, ip string) {\n\tswitch name {\n\tcase \"\", \"X-Forwarded-For\", \"X-Real-Ip\":\n\t\treturn\n\t}\n\tr.Header.Set(name, ip)\n}\n\nvar tlsver = map[uint16]string{"}}},
			{Name: "benign: request id set by a method with a guard clause", File: "proxy/http_proxy.go", Old: "\tif p.Config.RequestID != \"\" {\n\t\tid := p.UUID\n\t\tif id == nil {\n\t\t\tid = uuid.NewUUID\n\t\t}\n\t\tr.Header.Set(p.Config.RequestID, id())\n\t}\n", New: "\tp.tagRequest(r)\n", Expect: "", More: []repl{{"func key(code int) string {", "func (p *HTTPProxy) tagRequest(r *http.Request) {\n\tname := p.Config.RequestID\n\tif name == \"\" {\n\t\treturn\n\t}\n\tid := p.UUID\n\tif id == nil {\n\t\tid = uuid.NewUUID\n\t}\n\tr.Header.Set(name, id())\n}\n\nfunc key(code int) string {"}}},
			{Name: "request-id method keeps a client-supplied id", File: "proxy/http_proxy.go", Old: "\tif p.Config.RequestID != \"\" {\n\t\tid := p.UUID\n\t\tif id == nil {\n\t\t\tid = uuid.NewUUID\n\t\t}\n\t\tr.Header.Set(p.Config.RequestID, id())\n\t}\n", New: "\tp.tagRequest(r)\n", Expect: "C08.R1", More: []repl{{"func key(code int) string {", "func (p *HTTPProxy) tagRequest(r *http.Request) {\n\tname := p.Config.RequestID\n\tif name == \"\" || r.Header.Get(name) != \"\" {\n\t\treturn\n\t}\n\tid := p.UUID\n\tif id == nil {\n\t\tid = uuid.NewUUID\n\t}\n\tr.Header.Set(name, id())\n}\n\nfunc key(code int) string {"}}},
			{Name: "benign: HSTS written by a helper called on the TLS edge", File: "proxy/http_headers.go", Old: "\tif r.TLS != nil && cfg.STSHeader.MaxAge > 0 {\n\t\tsts := \"max-age=\" + i32toa(int32(cfg.STSHeader.MaxAge))\n\t\tif cfg.STSHeader.Subdomains {\n\t\t\tsts += \"; includeSubdomains\"\n\t\t}\n\t\tif cfg.STSHeader.Preload {\n\t\t\tsts += \"; preload\"\n\t\t}\n\t\tw.Header().Set(\"Strict-Transport-Security\", sts)\n\t}\n", New: "\tif r.TLS != nil {\n\t\tsetHSTS(w.Header(), cfg.STSHeader)\n\t}\n", Expect: "", More: []repl{{"var tlsver = map[uint16]string{", "func setHSTS(h http.Header, cfg config.STSHeader) {\n\tif cfg.MaxAge <= 0 {\n\t\treturn\n\t}\n\tsts := \"max-age=\" + i32toa(int32(cfg.MaxAge))\n\tif cfg.Subdomains {\n\t\tsts += \"; includeSubdomains\"\n\t}\n\tif cfg.Preload {\n\t\tsts += \"; preload\"\n\t}\n\th.Set(\"Strict-Transport-Security\", sts)\n}\n\nvar tlsver = map[uint16]string{"}}},
			{Name: "benign: HSTS helper is passed a bool", File: "proxy/http_headers.go", Old: "\tif r.TLS != nil && cfg.STSHeader.MaxAge > 0 {\n\t\tsts := \"max-age=\" + i32toa(int32(cfg.STSHeader.MaxAge))\n\t\tif cfg.STSHeader.Subdomains {\n\t\t\tsts += \"; includeSubdomains\"\n\t\t}\n\t\tif cfg.STSHeader.Preload {\n\t\t\tsts += \"; preload\"\n\t\t}\n\t\tw.Header().Set(\"Strict-Transport-Security\", sts)\n\t}\n", New: "\tsetHSTS(w.Header(), r.TLS != nil, cfg.STSHeader)\n", Expect: "", More: []repl{{"var tlsver = map[uint16]string{", "func setHSTS(h http.Header, secure bool, cfg config.STSHeader) {\n\tif !secure || cfg.MaxAge <= 0 {\n\t\treturn\n\t}\n\tsts := \"max-age=\" + i32toa(int32(cfg.MaxAge))\n\tif cfg.Subdomains {\n\t\tsts += \"; includeSubdomains\"\n\t}\n\tif cfg.Preload {\n\t\tsts += \"; preload\"\n\t}\n\th.Set(\"Strict-Transport-Security\", sts)\n}\n\nvar tlsver = map[uint16]string{"}}},
			{Name: "HSTS helper called when the derived scheme is https", File: "proxy/http_headers.go", Old: "\tif r.TLS != nil && cfg.STSHeader.MaxAge > 0 {\n\t\tsts := \"max-age=\" + i32toa(int32(cfg.STSHeader.MaxAge))\n\t\tif cfg.STSHeader.Subdomains {\n\t\t\tsts += \"; includeSubdomains\"\n\t\t}\n\t\tif cfg.STSHeader.Preload {\n\t\t\tsts += \"; preload\"\n\t\t}\n\t\tw.Header().Set(\"Strict-Transport-Security\", sts)\n\t}\n", New: "\tif r.TLS != nil || scheme(r) == \"https\" {\n\t\tsetHSTS(w.Header(), cfg.STSHeader)\n\t}\n", Expect: "C08.S1", More: []repl{{"var tlsver = map[uint16]string{", "func setHSTS(h http.Header, cfg config.STSHeader) {\n\tif cfg.MaxAge <= 0 {\n\t\treturn\n\t}\n\tsts := \"max-age=\" + i32toa(int32(cfg.MaxAge))\n\tif cfg.Subdomains {\n\t\tsts += \"; includeSubdomains\"\n\t}\n\tif cfg.Preload {\n\t\tsts += \"; preload\"\n\t}\n\th.Set(\"Strict-Transport-Security\", sts)\n}\n\nvar tlsver = map[uint16]string{"}}},
			{Name: "benign: handler selection extracted into a method", File: "proxy/http_proxy.go", Old: "\tvar h http.Handler\n\tswitch {\n\tcase isWebsocketUpgrade(r):\n\t\tr.URL = targetURL\n\t\tif targetURL.Scheme == \"https\" || targetURL.Scheme == \"wss\" {\n\t\t\th = newWSHandler(targetURL.Host, func(network, address string) (net.Conn, error) {\n\t\t\t\treturn tls.Dial(network, address, tr.(*http.Transport).TLSClientConfig)\n\t\t\t}, p.Stats.WSConn)\n\t\t} else {\n\t\t\th = newWSHandler(targetURL.Host, net.Dial, p.Stats.WSConn)\n\t\t}\n\n\tcase accept == \"text/event-stream\":\n\t\t// use the flush interval for SSE (server-sent events)\n\t\t// must be > 0s to be effective\n\t\th = newHTTPProxy(targetURL, tr, p.Config.FlushInterval)\n\n\tdefault:\n\t\th = newHTTPProxy(targetURL, tr, p.Config.GlobalFlushInterval)\n\t}\n", New: "\th := p.handlerFor(r, targetURL, tr, accept)\n", Expect: "", More: []repl{{"func key(code int) string {", "func (p *HTTPProxy) handlerFor(r *http.Request, targetURL *url.URL, tr http.RoundTripper, accept string) http.Handler {\n\tif isWebsocketUpgrade(r) {\n\t\tr.URL = targetURL\n\t\tdial := net.Dial\n\t\tif targetURL.Scheme == \"https\" || targetURL.Scheme == \"wss\" {\n\t\t\tdial = func(network, address string) (net.Conn, error) {\n\t\t\t\treturn tls.Dial(network, address, tr.(*http.Transport).TLSClientConfig)\n\t\t\t}\n\t\t}\n\t\treturn newWSHandler(targetURL.Host, dial, p.Stats.WSConn)\n\t}\n\tif accept == \"text/event-stream\" {\n\t\treturn newHTTPProxy(targetURL, tr, p.Config.FlushInterval)\n\t}\n\treturn newHTTPProxy(targetURL, tr, p.Config.GlobalFlushInterval)\n}\n\nfunc key(code int) string {"}}},
			{Name: "extracted handler selection tunnels on the derived scheme", File: "proxy/http_proxy.go", Old: "\tvar h http.Handler\n\tswitch {\n\tcase isWebsocketUpgrade(r):\n\t\tr.URL = targetURL\n\t\tif targetURL.Scheme == \"https\" || targetURL.Scheme == \"wss\" {\n\t\t\th = newWSHandler(targetURL.Host, func(network, address string) (net.Conn, error) {\n\t\t\t\treturn tls.Dial(network, address, tr.(*http.Transport).TLSClientConfig)\n\t\t\t}, p.Stats.WSConn)\n\t\t} else {\n\t\t\th = newWSHandler(targetURL.Host, net.Dial, p.Stats.WSConn)\n\t\t}\n\n\tcase accept == \"text/event-stream\":\n\t\t// use the flush interval for SSE (server-sent events)\n\t\t// must be > 0s to be effective\n\t\th = newHTTPProxy(targetURL, tr, p.Config.FlushInterval)\n\n\tdefault:\n\t\th = newHTTPProxy(targetURL, tr, p.Config.GlobalFlushInterval)\n\t}\n", New: "\th := p.handlerFor(r, targetURL, tr, accept)\n", Expect: "C08.X3", More: []repl{{"func key(code int) string {", "func (p *HTTPProxy) handlerFor(r *http.Request, targetURL *url.URL, tr http.RoundTripper, accept string) http.Handler {\n\tif s := scheme(r); s == \"ws\" || s == \"wss\" {\n\t\tr.URL = targetURL\n\t\tdial := net.Dial\n\t\tif targetURL.Scheme == \"https\" || targetURL.Scheme == \"wss\" {\n\t\t\tdial = func(network, address string) (net.Conn, error) {\n\t\t\t\treturn tls.Dial(network, address, tr.(*http.Transport).TLSClientConfig)\n\t\t\t}\n\t\t}\n\t\treturn newWSHandler(targetURL.Host, dial, p.Stats.WSConn)\n\t}\n\tif accept == \"text/event-stream\" {\n\t\treturn newHTTPProxy(targetURL, tr, p.Config.FlushInterval)\n\t}\n\treturn newHTTPProxy(targetURL, tr, p.Config.GlobalFlushInterval)\n}\n\nfunc key(code int) string {"}}},
			{Name: "benign: websocket tunnel as a handler type instead of a closure", File: "proxy/ws_handler.go", Old: "\treturn http.HandlerFunc(func(w http.ResponseWriter, r *http.Request) {\n\t\tif conn != nil {", New: "\treturn &wsTunnel{host: host, dial: dial, conn: conn}\n}\n\ntype wsTunnel struct {\n\thost string\n\tdial dialFunc\n\tconn gkm.Gauge\n}\n\nfunc (t *wsTunnel) ServeHTTP(w http.ResponseWriter, r *http.Request) {\n\thost, dial, conn := t.host, t.dial, t.conn\n\t{\n\t\tif conn != nil {", Expect: "", More: []repl{{"\t\t\tlog.Printf(\"[INFO] WS error for %s. %s\", r.URL, err)\n\t\t}\n\t})\n}", "\t\t\tlog.Printf(\"[INFO] WS error for %s. %s\", r.URL, err)\n\t\t}\n\t}\n}"}}},
			{Name: "benign: websocket flag passed to a helper that appends the peer", File: "proxy/http_headers.go", Old: "\tws := isWebsocketUpgrade(r)\n\tif ws {\n\t\tclientIP := remoteIP\n\t\t// If we aren't the first proxy retain prior\n\t\t// X-Forwarded-For information as a comma+space\n\t\t// separated list and fold multiple headers into one.\n\t\tprior, ok := r.Header[\"X-Forwarded-For\"]\n\t\tomit := ok && prior == nil // Issue 38079: nil now means don't populate the header\n\t\tif len(prior) > 0 {\n\t\t\tclientIP = strings.Join(prior, \", \") + \", \" + clientIP\n\t\t}\n\t\tif !omit {\n\t\t\tr.Header.Set(\"X-Forwarded-For\", clientIP)\n\t\t}\n\t}\n\n", New: "\tappendXFF(r.Header, isWebsocketUpgrade(r), remoteIP)\n\n", Expect: "", More: []repl{{"var tlsver = map[uint16]string{", "func appendXFF(h http.Header, ws bool, peer string) {\n\tif !ws {\n\t\treturn\n\t}\n\tprior, ok := h[\"X-Forwarded-For\"]\n\tif ok && prior == nil {\n\t\treturn\n\t}\n\tif len(prior) > 0 {\n\t\tpeer = strings.Join(prior, \", \") + \", \" + peer\n\t}\n\th.Set(\"X-Forwarded-For\", peer)\n}\n\nvar tlsver = map[uint16]string{"}}},
			{Name: "X-Forwarded-For helper is told 'websocket' from the derived scheme", File: "proxy/http_headers.go", Old: "\tws := isWebsocketUpgrade(r)\n\tif ws {\n\t\tclientIP := remoteIP\n\t\t// If we aren't the first proxy retain prior\n\t\t// X-Forwarded-For information as a comma+space\n\t\t// separated list and fold multiple headers into one.\n\t\tprior, ok := r.Header[\"X-Forwarded-For\"]\n\t\tomit := ok && prior == nil // Issue 38079: nil now means don't populate the header\n\t\tif len(prior) > 0 {\n\t\t\tclientIP = strings.Join(prior, \", \") + \", \" + clientIP\n\t\t}\n\t\tif !omit {\n\t\t\tr.Header.Set(\"X-Forwarded-For\", clientIP)\n\t\t}\n\t}\n\n", New: "\tappendXFF(r.Header, scheme(r) == \"ws\" || scheme(r) == \"wss\", remoteIP)\n\n", Expect: "C08.X3", More: []repl{{"var tlsver = map[uint16]string{", "func appendXFF(h http.Header, ws bool, peer string) {\n\tif !ws {\n\t\treturn\n\t}\n\tprior, ok := h[\"X-Forwarded-For\"]\n\tif ok && prior == nil {\n\t\treturn\n\t}\n\tif len(prior) > 0 {\n\t\tpeer = strings.Join(prior, \", \") + \", \" + peer\n\t}\n\th.Set(\"X-Forwarded-For\", peer)\n}\n\nvar tlsver = map[uint16]string{"}}},
			{Name: "benign: every constant-key Set through one set(h, key, value) helper (more than 6 callers)", File: "proxy/http_headers.go", Old: "r.Header.Set(\"X-Real-Ip\", remoteIP)", New: "set(r.Header, \"X-Real-Ip\", remoteIP)", Expect: "", More: []repl{{"r.Header.Set(\"X-Forwarded-For\", clientIP)", "set(r.Header, \"X-Forwarded-For\", clientIP)"}, {"r.Header.Set(\"X-Forwarded-Proto\", \"http\")", "set(r.Header, \"X-Forwarded-Proto\", \"http\")"}, {"r.Header.Set(\"X-Forwarded-Proto\", \"https\")", "set(r.Header, \"X-Forwarded-Proto\", \"https\")"}, {"r.Header.Set(\"X-Forwarded-Proto\", proto)", "set(r.Header, \"X-Forwarded-Proto\", proto)"}, {"r.Header.Set(\"X-Forwarded-Port\", localPort(r))", "set(r.Header, \"X-Forwarded-Port\", localPort(r))"}, {"r.Header.Set(\"X-Forwarded-Host\", r.Host)", "set(r.Header, \"X-Forwarded-Host\", r.Host)"}, {"r.Header.Set(\"X-Forwarded-Prefix\", stripPath)", "set(r.Header, \"X-Forwarded-Prefix\", stripPath)"}, {"r.Header.Set(\"Forwarded\", fwd)", "set(r.Header, \"Forwarded\", fwd)"}, {"var tlsver = map[uint16]string{", "func set(h http.Header, key, value string) {\n\th.Set(key, value)\n}\n\nvar tlsver = map[uint16]string{"}}},
			{Name: "one set() helper: X-Real-Ip written outside its absent test", File: "proxy/http_headers.go", Old: "r.Header.Set(\"X-Real-Ip\", remoteIP)", New: "set(r.Header, \"X-Real-Ip\", remoteIP)", Expect: "C08.A2", More: []repl{{"r.Header.Set(\"X-Forwarded-For\", clientIP)", "set(r.Header, \"X-Forwarded-For\", clientIP)"}, {"r.Header.Set(\"X-Forwarded-Port\", localPort(r))", "set(r.Header, \"X-Forwarded-Port\", localPort(r))"}, {"r.Header.Set(\"X-Forwarded-Host\", r.Host)", "set(r.Header, \"X-Forwarded-Host\", r.Host)"}, {"r.Header.Set(\"X-Forwarded-Prefix\", stripPath)", "set(r.Header, \"X-Forwarded-Prefix\", stripPath)\n\t\tset(r.Header, \"X-Real-Ip\", remoteIP)"}, {"r.Header.Set(\"Forwarded\", fwd)", "set(r.Header, \"Forwarded\", fwd)"}, {"var tlsver = map[uint16]string{", "func set(h http.Header, key, value string) {\n\th.Set(key, value)\n}\n\nvar tlsver = map[uint16]string{"}}},
			{Name: "benign: TLS header block as guard clauses at the end of addHeaders", File: "proxy/http_headers.go", Old: "\tif cfg.TLSHeader != \"\" {\n\t\tif r.TLS != nil {\n\t\t\tr.Header.Set(cfg.TLSHeader, cfg.TLSHeaderValue)\n\t\t} else {\n\t\t\tr.Header.Del(cfg.TLSHeader)\n\t\t}\n\t}\n\n\treturn nil\n}\n", New: "\tif cfg.TLSHeader == \"\" {\n\t\treturn nil\n\t}\n\tif r.TLS == nil {\n\t\tr.Header.Del(cfg.TLSHeader)\n\t\treturn nil\n\t}\n\tr.Header.Set(cfg.TLSHeader, cfg.TLSHeaderValue)\n\treturn nil\n}\n", Expect: ""},
			{Name: "TLS guard clauses: Del only when the client sent the header over X-Forwarded-Proto http", File: "proxy/http_headers.go", Old: "\tif cfg.TLSHeader != \"\" {\n\t\tif r.TLS != nil {\n\t\t\tr.Header.Set(cfg.TLSHeader, cfg.TLSHeaderValue)\n\t\t} else {\n\t\t\tr.Header.Del(cfg.TLSHeader)\n\t\t}\n\t}\n\n\treturn nil\n}\n", New: "\tif cfg.TLSHeader == \"\" {\n\t\treturn nil\n\t}\n\tif r.TLS == nil {\n\t\tif r.Header.Get(\"X-Forwarded-Proto\") != \"https\" {\n\t\t\tr.Header.Del(cfg.TLSHeader)\n\t\t}\n\t\treturn nil\n\t}\n\tr.Header.Set(cfg.TLSHeader, cfg.TLSHeaderValue)\n\treturn nil\n}\n", Expect: "C08.A1"},
			{Name: "benign: header derivation and Host rewrite moved together into a method", File: "proxy/http_proxy.go", Old: "\tif err := addHeaders(r, p.Config, t.StripPath); err != nil {\n\t\thttp.Error(w, \"cannot parse \"+r.RemoteAddr, http.StatusInternalServerError)\n\t\treturn\n\t}\n\n\tif err := addResponseHeaders(w, r, p.Config); err != nil {\n\t\thttp.Error(w, \"cannot add response headers\", http.StatusInternalServerError)\n\t\treturn\n\t}\n\n\t// rewrite the Host header only after the forwarding headers have\n\t// been derived from the host the client asked for\n\tif t.Host == \"dst\" {\n\t\tr.Host = targetURL.Host\n\t} else if t.Host != \"\" {\n\t\tr.Host = t.Host\n\t}\n\n", New: "\tif !p.prepare(w, r, t, targetURL) {\n\t\treturn\n\t}\n\n", Expect: "", More: []repl{{"func key(code int) string {", "func (p *HTTPProxy) prepare(w http.ResponseWriter, r *http.Request, t *route.Target, targetURL *url.URL) bool {\n\tif err := addHeaders(r, p.Config, t.StripPath); err != nil {\n\t\thttp.Error(w, \"cannot parse \"+r.RemoteAddr, http.StatusInternalServerError)\n\t\treturn false\n\t}\n\tif err := addResponseHeaders(w, r, p.Config); err != nil {\n\t\thttp.Error(w, \"cannot add response headers\", http.StatusInternalServerError)\n\t\treturn false\n\t}\n\t// rewrite the Host header only after the forwarding headers have been derived\n\tswitch {\n\tcase t.Host == \"dst\":\n\t\tr.Host = targetURL.Host\n\tcase t.Host != \"\":\n\t\tr.Host = t.Host\n\t}\n\treturn true\n}\n\nfunc key(code int) string {"}}},
			{Name: "moved together, Host rewritten first", File: "proxy/http_proxy.go", Old: "\tif err := addHeaders(r, p.Config, t.StripPath); err != nil {\n\t\thttp.Error(w, \"cannot parse \"+r.RemoteAddr, http.StatusInternalServerError)\n\t\treturn\n\t}\n\n\tif err := addResponseHeaders(w, r, p.Config); err != nil {\n\t\thttp.Error(w, \"cannot add response headers\", http.StatusInternalServerError)\n\t\treturn\n\t}\n\n\t// rewrite the Host header only after the forwarding headers have\n\t// been derived from the host the client asked for\n\tif t.Host == \"dst\" {\n\t\tr.Host = targetURL.Host\n\t} else if t.Host != \"\" {\n\t\tr.Host = t.Host\n\t}\n\n", New: "\tif !p.prepare(w, r, t, targetURL) {\n\t\treturn\n\t}\n\n", Expect: "C08.O1", More: []repl{{"func key(code int) string {", "func (p *HTTPProxy) prepare(w http.ResponseWriter, r *http.Request, t *route.Target, targetURL *url.URL) bool {\n\tif t.Host != \"\" && t.Host != \"dst\" {\n\t\tr.Host = t.Host\n\t}\n\tif err := addHeaders(r, p.Config, t.StripPath); err != nil {\n\t\thttp.Error(w, \"cannot parse \"+r.RemoteAddr, http.StatusInternalServerError)\n\t\treturn false\n\t}\n\tif err := addResponseHeaders(w, r, p.Config); err != nil {\n\t\thttp.Error(w, \"cannot add response headers\", http.StatusInternalServerError)\n\t\treturn false\n\t}\n\t// rewrite the Host header only after the forwarding headers have been derived\n\tswitch {\n\tcase t.Host == \"dst\":\n\t\tr.Host = targetURL.Host\n\tcase t.Host != \"\":\n\t\tr.Host = t.Host\n\t}\n\treturn true\n}\n\nfunc key(code int) string {"}}},
			{Name: "tunnel decided by slices.Contains over a longer list", File: "proxy/http_proxy.go", Old: "\tcase isWebsocketUpgrade(r):", New: "\tcase slices.Contains([]string{\"websocket\", \"Websocket\", \"WebSocket\"}, r.Header.Get(\"Upgrade\")):", Expect: "C08.X1", More: []repl{{"\t\"net/url\"\n\t\"strconv\"", "\t\"net/url\"\n\t\"slices\"\n\t\"strconv\""}}},
			{Name: "benign: forwarded proto mapping through a helper with a map", File: "proxy/http_headers.go", Old: "\t\tswitch proto {\n\t\tcase \"ws\":\n\t\t\tr.Header.Set(\"X-Forwarded-Proto\", \"http\")\n\t\tcase \"wss\":\n\t\t\tr.Header.Set(\"X-Forwarded-Proto\", \"https\")\n\t\tdefault:\n\t\t\tr.Header.Set(\"X-Forwarded-Proto\", proto)\n\t\t}\n", New: "\t\tr.Header.Set(\"X-Forwarded-Proto\", httpProto(proto))\n", Expect: "", More: []repl{{"var tlsver = map[uint16]string{", "var wsToHTTP = map[string]string{\"ws\": \"http\", \"wss\": \"https\"}\n\nfunc httpProto(proto string) string {\n\tif p, ok := wsToHTTP[proto]; ok {\n\t\treturn p\n\t}\n\treturn proto\n}\n\nvar tlsver = map[uint16]string{"}}},
			{Name: "benign: request header map in a local variable", File: "proxy/http_headers.go", Old: "\tremoteIP, _, err := net.SplitHostPort(r.RemoteAddr)\n", New: "\thdr := r.Header\n\tremoteIP, _, err := net.SplitHostPort(r.RemoteAddr)\n", Expect: "", More: []repl{{"\tif r.Header.Get(\"X-Real-Ip\") == \"\" {\n\t\tr.Header.Set(\"X-Real-Ip\", remoteIP)", "\tif hdr.Get(\"X-Real-Ip\") == \"\" {\n\t\thdr.Set(\"X-Real-Ip\", remoteIP)"}, {"\t\t\tr.Header.Set(cfg.TLSHeader, cfg.TLSHeaderValue)\n\t\t} else {\n\t\t\tr.Header.Del(cfg.TLSHeader)", "\t\t\thdr.Set(cfg.TLSHeader, cfg.TLSHeaderValue)\n\t\t} else {\n\t\t\thdr.Del(cfg.TLSHeader)"}}},
			{Name: "benign: TLS header cleared by a helper in front of the Set", File: "proxy/http_headers.go", Old: "\tif cfg.TLSHeader != \"\" {\n\t\tif r.TLS != nil {\n\t\t\tr.Header.Set(cfg.TLSHeader, cfg.TLSHeaderValue)\n\t\t} else {\n\t\t\tr.Header.Del(cfg.TLSHeader)\n\t\t}\n\t}\n\n\treturn nil\n}\n", New: "\tif cfg.TLSHeader != \"\" {\n\t\tclearTLSHeader(r, cfg)\n\t\tif r.TLS != nil {\n\t\t\tr.Header.Set(cfg.TLSHeader, cfg.TLSHeaderValue)\n\t\t}\n\t}\n\n\treturn nil\n}\n", Expect: "", More: []repl{{"var tlsver = map[uint16]string{", "func clearTLSHeader(r *http.Request, cfg config.Proxy) {\n\tr.Header.Del(cfg.TLSHeader)\n}\n\nvar tlsver = map[uint16]string{"}}},
			{Name: "TLS header cleared by a helper after the Set", File: "proxy/http_headers.go", Old: "\tif cfg.TLSHeader != \"\" {\n\t\tif r.TLS != nil {\n\t\t\tr.Header.Set(cfg.TLSHeader, cfg.TLSHeaderValue)\n\t\t} else {\n\t\t\tr.Header.Del(cfg.TLSHeader)\n\t\t}\n\t}\n\n\treturn nil\n}\n", New: "\tif cfg.TLSHeader != \"\" {\n\t\tif r.TLS != nil {\n\t\t\tr.Header.Set(cfg.TLSHeader, cfg.TLSHeaderValue)\n\t\t}\n\t\tclearTLSHeader(r, cfg)\n\t}\n\n\treturn nil\n}\n", Expect: "C08.A1", More: []repl{{"var tlsver = map[uint16]string{", "func clearTLSHeader(r *http.Request, cfg config.Proxy) {\n\tr.Header.Del(cfg.TLSHeader)\n}\n\nvar tlsver = map[uint16]string{"}}},
			{Name: "benign: Upgrade test through a generic headerIs(h, key, want...) predicate", File: "proxy/http_headers.go", Old: "\tupgrade := r.Header.Get(\"Upgrade\")\n\treturn upgrade == \"websocket\" || upgrade == \"Websocket\"", New: "\treturn headerIs(r.Header, \"Upgrade\", \"websocket\", \"Websocket\")", Expect: "", More: []repl{{"var tlsver = map[uint16]string{", "func headerIs(h http.Header, key string, want ...string) bool {\n\tv := h.Get(key)\n\tfor _, w := range want {\n\t\tif v == w {\n\t\t\treturn true\n\t\t}\n\t}\n\treturn false\n}\n\nvar tlsver = map[uint16]string{"}}},
			{Name: "generic predicate: scheme detection knows one spelling only", File: "proxy/http_headers.go", Old: "\tws := isWebsocketUpgrade(r)\n\tswitch {", New: "\tws := headerIs(r.Header, \"Upgrade\", \"websocket\")\n\tswitch {", Expect: "C08.X1", More: []repl{{"var tlsver = map[uint16]string{", "func headerIs(h http.Header, key string, want ...string) bool {\n\tv := h.Get(key)\n\tfor _, w := range want {\n\t\tif v == w {\n\t\t\treturn true\n\t\t}\n\t}\n\treturn false\n}\n\nvar tlsver = map[uint16]string{"}}},
		},
	})
}

// dependsOnClientHeader: the value derives from a Header.Get / Values / map lookup on the request's headers.
func dependsOnClientHeader(v ssa.Value) (string, bool) {
	key := ""
	ok := c08derives(v, func(x ssa.Value) bool {
		if call, isC := x.(*ssa.Call); isC {
			n := calleeName(&call.Call)
			if (n == "(net/http.Header).Get" || n == "(net/http.Header).Values") && len(call.Call.Args) >= 2 && c08reqHeader(call.Call.Args[0]) {
				if k, isK := constString(call.Call.Args[1]); isK {
					key = k
				} else {
					key = shortPath(call.Call.Args[1])
				}
				return true
			}
		}
		if lk, isL := x.(*ssa.Lookup); isL && c08reqHeader(lk.X) {
			key, _ = constString(lk.Index)
			return true
		}
		return false
	})
	return key, ok
}

// fromRemoteAddr: the value derives from the host part net.SplitHostPort cuts out of Request.RemoteAddr.
func fromRemoteAddr(v ssa.Value) bool {
	return c08derives(v, func(x ssa.Value) bool {
		call, ok := x.(*ssa.Call)
		if !ok || calleeName(&call.Call) != "net.SplitHostPort" || len(call.Call.Args) < 1 {
			return false
		}
		return c08derives(call.Call.Args[0], func(y ssa.Value) bool {
			_, isRA := fieldOf(y, "http.Request", "RemoteAddr")
			return isRA
		})
	})
}

// c08fromRequestHost: the value derives from Request.Host (the host the client asked for).
func c08fromRequestHost(v ssa.Value) bool {
	return c08derives(v, func(x ssa.Value) bool {
		_, ok := fieldOf(x, "http.Request", "Host")
		return ok
	})
}

// c08portOfRequestHost: the value derives from the port net.SplitHostPort cuts out of Request.Host.
func c08portOfRequestHost(v ssa.Value) bool {
	return c08derives(v, func(x ssa.Value) bool {
		call, ok := x.(*ssa.Call)
		return ok && calleeName(&call.Call) == "net.SplitHostPort" && len(call.Call.Args) >= 1 && c08fromRequestHost(call.Call.Args[0])
	})
}

func runC08(c *Ctx) {
	serve := c.method("proxy", "HTTPProxy", "ServeHTTP")
	if !c.need("C08.O1", serve, "proxy.HTTPProxy.ServeHTTP") {
		return
	}
	// everything ServeHTTP does to the request before it hands it to the upstream handler: ServeHTTP, the helpers of
	// package proxy it calls (transitively) and their closures - however the work is cut into functions
	c08setCtx(c)
	reg := c08region(c, 6, serve)
	writes := c08writes(reg)
	tlsNonNil, tlsNil := c08tlsAtom(true), c08tlsAtom(false)

	// ---- A1 client-IP header
	nIP := 0
	for _, w := range writes {
		if w.key != (c08key{"cfg", "ClientIPHeader"}) {
			continue
		}
		nIP++
		val, vctx := w.val()
		okVal := w.m == "Set" && val != nil && fromRemoteAddr(val)
		if okVal {
			if _, dep := c08clientDep(val, vctx); dep {
				okVal = false
			}
		}
		k := c08clientFacts(w.instr.Block(), w.ctx)
		c.check("C08.A1", w.where()+"|client-IP header is Set to the peer address", w.instr.Pos(), okVal,
			"the configured client-IP header is authoritative: it must be overwritten (Set, not Add) with the address taken from RemoteAddr, never with anything the client sent")
		c.check("C08.A1", w.where()+"|client-IP header written whatever the client sent", w.instr.Pos(), k == "",
			"the write depends on the client's "+k+" header: a client that sends the header itself keeps its forged value")
	}
	c.atLeast("C08.A1", "writes of the configured client-IP header", nIP, 1)

	// ---- A1 TLS header
	var tlsW []*c08write
	for _, w := range writes {
		if w.key == (c08key{"cfg", "TLSHeader"}) {
			tlsW = append(tlsW, w)
		}
	}
	nTLSSet, nTLSDel := 0, 0
	for _, w := range tlsW {
		nn := c08known(w.instr.Block(), w.ctx, tlsNonNil, 0)
		nl := c08known(w.instr.Block(), w.ctx, tlsNil, 0)
		k := c08clientFacts(w.instr.Block(), w.ctx)
		switch w.m {
		case "Set":
			val, vctx := w.val()
			isVal := false
			if f, ok := c08cfgField(val); ok && f == "TLSHeaderValue" {
				isVal = true
			} else if val != nil && c08derives(val, func(x ssa.Value) bool { f, ok := c08cfgField(x); return ok && f == "TLSHeaderValue" }) {
				_, dep := c08clientDep(val, vctx)
				isVal = !dep
			}
			ok := nn && isVal && k == ""
			if ok {
				nTLSSet++
			}
			c.check("C08.A1", w.where()+"|TLS header Set exactly on TLS connections", w.instr.Pos(), ok,
				"the configured TLS header must be Set to the configured value on the r.TLS != nil edge, whatever the client sent")
		case "Del":
			// on the r.TLS == nil edge, or unconditionally in front of the Set of the TLS edge (Del; if TLS { Set })
			beforeSet := false
			for _, s := range tlsW {
				if s.m != "Set" {
					continue
				}
				for _, pd := range w.chain() {
					for _, ps := range s.chain() {
						if pd != ps && pd.Parent() == ps.Parent() && dominatesInstr(pd, ps) && !pathAvoiding(ps, pd, nil) {
							beforeSet = true
						}
					}
				}
			}
			ok := !nn && k == "" && (nl || beforeSet)
			if ok {
				nTLSDel++
			}
			c.check("C08.A1", w.where()+"|TLS header removed on plain connections", w.instr.Pos(), ok,
				"on a plain connection a client-supplied copy of the TLS header must be deleted (r.TLS == nil edge, or before the Set of the TLS edge), whatever the client sent")
		default:
			c.check("C08.A1", w.where()+"|TLS header "+w.m, w.instr.Pos(), false, "the TLS header may only be Set or Del'd")
		}
	}
	c.check("C08.A1", "proxy|TLS header exhaustive (Set on TLS, Del otherwise)", serve.Pos(), nTLSSet >= 1 && nTLSDel >= 1,
		"both edges are needed: Header.Set when the connection used TLS, Header.Del when it did not; without the Del a client on a plain connection can claim TLS")

	// ---- A2 default-if-absent
	defaults := map[string]func(v ssa.Value) bool{
		"X-Real-Ip":         fromRemoteAddr,
		"X-Forwarded-Proto": func(v ssa.Value) bool { return true }, // protocol text: value semantics (N)
		"X-Forwarded-Port":  c08portOfRequestHost,
		"X-Forwarded-Host":  c08fromRequestHost,
	}
	seenDefault := map[string]bool{}
	for _, w := range writes {
		if w.key.kind != "const" || w.m == "Del" {
			continue
		}
		k := w.key.name
		valOK, isDefault := defaults[k]
		if !isDefault {
			continue
		}
		seenDefault[k] = true
		guard := c08known(w.instr.Block(), w.ctx, c08absentAtom(w.key, w.cc.Args[1], w.ctx), 0)
		c.check("C08.A2", w.where()+"|"+k+" supplied only when absent", w.instr.Pos(), guard && w.m == "Set",
			k+" is a default: it must be Set only on the Get(\""+k+"\") == \"\" edge so that a value from a previous proxy is kept")
		val, vctx := w.val()
		okVal := val != nil && valOK(val)
		if os.Getenv("C08_DEBUG") != "" {
			fmt.Fprintln(os.Stderr, "A2", k, "valOK", okVal)
		}
		msg := k + " must derive from the connection or from the Host the client asked for, not from the upstream URL or another header"
		if okVal && k != "X-Forwarded-Proto" {
			if d, dep := c08a2ClientDep(k, val, vctx); dep {
				okVal = false
				msg = k + " is generated by fabio to describe the client's real connection, but the value written here is also decided by request header(s) [" + d + "] that the client (or an earlier hop) controls - e.g. a default taken from the claimed scheme (X-Forwarded-Proto / Forwarded proto=) instead of r.TLS: a client on a plain connection that sends 'X-Forwarded-Proto: https' makes fabio tell the upstream " + k + " of a TLS connection; derive it from r.TLS / r.Host / RemoteAddr only"
				if os.Getenv("C08_DEBUG") != "" {
					fmt.Fprintln(os.Stderr, "A2", k, "clientDep", d)
				}
			}
		}
		c.check("C08.A2", w.where()+"|"+k+" describes the client's connection/request", w.instr.Pos(), okVal, msg)
	}
	for _, k := range []string{"X-Real-Ip", "X-Forwarded-Proto", "X-Forwarded-Port", "X-Forwarded-Host"} {
		if !seenDefault[k] {
			c.check("C08.A2", "proxy|"+k+" supplied only when absent", serve.Pos(), false, k+" is no longer supplied")
		}
	}

	runC08O1(c, serve, reg, writes)
	runC08X1(c, serve, reg, writes)
	runC08X3(c, serve, reg, writes)
	runC08A3(c, reg, writes)

	// ---- X2
	nXFF := 0
	for _, w := range writes {
		if w.key != (c08key{"const", "X-Forwarded-For"}) || w.m == "Del" {
			continue
		}
		nXFF++
		val, vctx := w.val()
		okLast := w.m == "Set" && val != nil
		if okLast {
			tails := c08tails(val, vctx, 0, map[ssa.Value]bool{})
			if len(tails) == 0 {
				okLast = false
			}
			for _, t := range tails {
				if t == nil || !fromRemoteAddr(t) {
					okLast = false
				}
			}
		}
		c.check("C08.X2", w.where()+"|websocket X-Forwarded-For ends with the peer address", w.instr.Pos(), okLast,
			"on the websocket edge X-Forwarded-For must be prior + \", \" + <peer from RemoteAddr> with the peer as the last element")
	}
	c.atLeast("C08.X2", "X-Forwarded-For writes on the request", nXFF, 1)

	// ---- S1
	// every Set/Add of Strict-Transport-Security in package proxy and its sub-packages; the key may reach a generic
	// set(h, key, value) helper as a parameter (one instance per call chain, receiver and guard resolved in that chain)
	nSTS := 0
	for _, f := range c.AllFns {
		if !c08family(c, f) {
			continue
		}
		eachInstr(f, func(i ssa.Instruction) {
			cc := callCommon(i)
			if cc == nil || cc.IsInvoke() || len(cc.Args) < 2 {
				return
			}
			if n := calleeName(cc); n != "(net/http.Header).Set" && n != "(net/http.Header).Add" {
				return
			}
			for _, ka := range c08keys(cc.Args[1], nil, 0) {
				if ka.key != (c08key{"const", "Strict-Transport-Security"}) {
					continue
				}
				nSTS++
				nn := c08known(i.Block(), ka.ctx, tlsNonNil, 0)
				recv, _ := c08arg(cc.Args[0], ka.ctx)
				onResp := !c08reqHeader(recv)
				c.check("C08.S1", fnKey(f)+"|HSTS only on TLS connections, on the response", i.Pos(), nn && onResp,
					"Strict-Transport-Security must be written to the response only on the r.TLS != nil edge (RFC 6797: never over plain HTTP)")
			}
		})
	}
	c.atLeast("C08.S1", "Strict-Transport-Security writes", nSTS, 1)

	// ---- R1
	nRID := 0
	for _, w := range writes {
		if w.key != (c08key{"cfg", "RequestID"}) {
			continue
		}
		nRID++
		k := c08clientFacts(w.instr.Block(), w.ctx)
		val, vctx := w.val()
		_, valDep := c08clientDep(val, vctx)
		c.check("C08.R1", w.where()+"|request id Set from the generator", w.instr.Pos(), w.m == "Set" && k == "" && !valDep,
			"when a request-id header is configured it must be Set unconditionally from the id generator; keeping a client-supplied id lets clients forge correlation ids")
	}
	c.atLeast("C08.R1", "request-id header writes", nRID, 1)

	// ---- P1
	nSplit := 0
	for _, f := range c.AllFns {
		if !c08family(c, f) {
			continue
		}
		eachInstr(f, func(i ssa.Instruction) {
			call, ok := i.(*ssa.Call)
			if !ok {
				return
			}
			n := calleeName(&call.Call)
			isHostish := func(v ssa.Value) bool {
				return c08derives(v, func(x ssa.Value) bool {
					if _, ok := fieldOf(x, "http.Request", "Host"); ok {
						return true
					}
					_, ok := fieldOf(x, "http.Request", "RemoteAddr")
					return ok
				})
			}
			if n == "net.SplitHostPort" && isHostish(call.Call.Args[0]) {
				nSplit++
				c.ob("C08.P1", fnKey(f)+"|host/port split with net.SplitHostPort", call.Pos(), OK, "bracket-aware")
				return
			}
			if (indexFamily[n] || splitFamily[n] > 0 || n == "strings.Cut") && len(call.Call.Args) >= 2 && isHostish(call.Call.Args[0]) {
				sep := ""
				if s, ok := constString(call.Call.Args[1]); ok {
					sep = s
				} else if k, ok := constInt(call.Call.Args[1]); ok {
					sep = string(rune(k))
				}
				if sep == ":" {
					nSplit++
					c.ob("C08.P1", fnKey(f)+"|host/port split at a bare ':'", call.Pos(), Viol,
						n+"(host, \":\") cuts an IPv6 literal in the middle: for 'Host: [::1]:8080' the port becomes ':1]:8080' (sent upstream as X-Forwarded-Port); use net.SplitHostPort like the sibling code for RemoteAddr")
				}
			}
		})
	}
	// one is enough: the two separations (peer address, local port) may share one helper
	c.atLeast("C08.P1", "host/port separations of Request.Host/RemoteAddr in package proxy", nSplit, 1)
}

// runC08O1: no store to Request.Host can be followed by the derivation of the forwarding headers that describe the
// host the client asked for. The two landmarks are found by role anywhere in ServeHTTP's region; they are ordered in
// every function in which both occur (directly or inside a helper that is called there).
func runC08O1(c *Ctx, serve *ssa.Function, reg []*ssa.Function, writes []*c08write) {
	derive := map[ssa.Instruction]bool{}
	for _, w := range writes {
		if w.key.kind == "const" && w.m != "Del" && (w.key.name == "X-Forwarded-Host" || w.key.name == "X-Forwarded-Port" || w.key.name == "Forwarded") {
			derive[w.outer()] = true
		}
	}
	isD := func(i ssa.Instruction) bool { return derive[i] }
	isH := func(i ssa.Instruction) bool {
		st, ok := i.(*ssa.Store)
		if !ok {
			return false
		}
		_, isHost := fieldOf(st.Addr, "http.Request", "Host")
		return isHost
	}
	mayD, mayH := liftMay(isD), liftMay(isH)
	nHost, nMeet := 0, 0
	for _, f := range reg {
		var hs, ds []ssa.Instruction
		eachInstr(f, func(i ssa.Instruction) {
			if _, isGo := i.(*ssa.Go); isGo {
				return
			}
			if isH(i) {
				nHost++
			}
			if mayH(i) {
				hs = append(hs, i)
			}
			if mayD(i) {
				ds = append(ds, i)
			}
		})
		if len(hs) == 0 || len(ds) == 0 {
			continue
		}
		for _, h := range hs {
			bad, met := false, false
			for _, d := range ds {
				if d == h {
					continue // one helper does both: ordered inside that helper
				}
				met = true
				if pathAvoiding(h, d, nil) {
					bad = true
				}
			}
			if !met {
				continue
			}
			nMeet++
			c.check("C08.O1", fnKey(f)+"|r.Host rewritten only after the forwarding headers are derived", h.Pos(), !bad,
				"a store to r.Host reaches the derivation of the forwarding headers: for routes with the host option X-Forwarded-Host, X-Forwarded-Port and Forwarded then describe the upstream, not the host the client asked for")
		}
	}
	c.atLeast("C08.O1", "writes of X-Forwarded-Host/-Port/Forwarded reachable from ServeHTTP", len(derive), 1)
	c.atLeast("C08.O1", "stores to r.Host reachable from ServeHTTP", nHost, 1)
	c.atLeast("C08.O1", "functions in which the r.Host rewrite and the header derivation can be ordered", nMeet, 1)
}

// c08upgradeConsts: the constant set a value read from the Upgrade header is compared against.
func c08upgradeConsts(call *ssa.Call, ctx c08ctx) string {
	var consts []string
	// an operand of a comparison: a constant, or a helper parameter that is passed one in this context
	constOf := func(v ssa.Value) (string, bool) {
		r, _ := c08arg(v, ctx)
		return constString(r)
	}
	// an operand that is an element of a list (for _, w := range want { v == w }): the list's constants
	elemsOf := func(v ssa.Value) []string {
		u, ok := v.(*ssa.UnOp)
		if !ok || u.Op != token.MUL {
			return nil
		}
		ia, ok := u.X.(*ssa.IndexAddr)
		if !ok {
			return nil
		}
		list, _ := c08arg(ia.X, ctx)
		var out []string
		for _, e := range c08sliceElems(list) {
			if s, ok := constString(e); ok {
				out = append(out, s)
			} else {
				out = append(out, "?")
			}
		}
		return out
	}
	seen := map[ssa.Value]bool{}
	var walk func(v ssa.Value, d int)
	walk = func(v ssa.Value, d int) {
		if seen[v] || d > 6 {
			return
		}
		seen[v] = true
		refs := v.Referrers()
		if refs == nil {
			return
		}
		for _, r := range *refs {
			switch x := r.(type) {
			case *ssa.BinOp:
				if x.Op == token.EQL || x.Op == token.NEQ {
					for _, o := range []ssa.Value{x.X, x.Y} {
						if o == v {
							continue
						}
						if s, ok := constOf(o); ok {
							consts = append(consts, s)
						}
						consts = append(consts, elemsOf(o)...)
					}
				}
			case *ssa.Call:
				n := typeArgs.ReplaceAllString(calleeName(&x.Call), "")
				switch {
				case n == "strings.EqualFold":
					for _, a := range x.Call.Args {
						if s, ok := constOf(a); ok && a != v {
							consts = append(consts, "fold:"+strings.ToLower(s))
						}
					}
				case n == "strings.ToLower" || n == "strings.TrimSpace":
					walk(x, d+1)
				case n == "slices.Contains" && len(x.Call.Args) == 2 && x.Call.Args[1] == v:
					// the hand-written a == x || a == y as a list membership test
					list, _ := c08arg(x.Call.Args[0], ctx)
					for _, e := range c08sliceElems(list) {
						if s, ok := constString(e); ok {
							consts = append(consts, s)
						} else {
							consts = append(consts, "?")
						}
					}
				default:
					// a repository predicate on the header's value: look at what it does with its parameter
					if sc := x.Call.StaticCallee(); sc != nil && isRepoFn(sc) && len(sc.Blocks) > 0 {
						for k, a := range x.Call.Args {
							if a == v && k < len(sc.Params) {
								walk(sc.Params[k], d+1)
							}
						}
					}
				}
			case *ssa.Phi:
				walk(x, d+1)
			case *ssa.ChangeType:
				walk(x, d+1)
			case *ssa.Convert:
				walk(x, d+1)
			case *ssa.Return:
				// the Get sits in an accessor of a wrapper type (func (rh *reqHeaders) get(key string) string): the
				// value is what the accessor's callers compare
				fn := x.Parent()
				if len(x.Results) != 1 || fn == nil {
					continue
				}
				if len(ctx) > 0 && ctx[0].Common().StaticCallee() == fn {
					if cv := ctx[0].Value(); cv != nil {
						walk(cv, d+1)
					}
					continue
				}
				for _, s := range c08sitesOf(fn) {
					if cv := s.Value(); cv != nil {
						walk(cv, d+1)
					}
				}
			}
		}
	}
	walk(call, 0)
	sort.Strings(consts)
	// a == x || a == x twice is the same set
	var uniq []string
	for k, s := range consts {
		if k == 0 || s != consts[k-1] {
			uniq = append(uniq, s)
		}
	}
	return strings.Join(uniq, "|")
}

// c08sliceElems: the elements of a slice literal (nil if the slice is not a literal built here or in a package variable).
func c08sliceElems(v ssa.Value) []ssa.Value {
	switch x := v.(type) {
	case *ssa.Slice:
		a, ok := x.X.(*ssa.Alloc)
		if !ok || a.Referrers() == nil {
			return nil
		}
		var out []ssa.Value
		for _, r := range *a.Referrers() {
			ia, ok := r.(*ssa.IndexAddr)
			if !ok || ia.Referrers() == nil {
				continue
			}
			for _, r2 := range *ia.Referrers() {
				if st, ok := r2.(*ssa.Store); ok && st.Addr == ia {
					out = append(out, st.Val)
				}
			}
		}
		return out
	case *ssa.UnOp:
		// a package-level list: the stores of the package initialiser
		g, ok := x.X.(*ssa.Global)
		if x.Op != token.MUL || !ok || g.Pkg == nil {
			return nil
		}
		init := g.Pkg.Func("init")
		if init == nil {
			return nil
		}
		var out []ssa.Value
		eachInstr(init, func(i ssa.Instruction) {
			if st, ok := i.(*ssa.Store); ok && st.Addr == g {
				out = append(out, c08sliceElems(st.Val)...)
			}
		})
		return out
	}
	return nil
}

// runC08X1: sibling agreement on the Upgrade header. Returns the client headers the X-Forwarded-For write depends on.
func runC08X1(c *Ctx, serve *ssa.Function, reg []*ssa.Function, writes []*c08write) map[string]bool {
	type site struct {
		f    *ssa.Function
		pos  token.Pos
		cset string
	}
	var sites []site
	for _, f := range c.AllFns {
		if !c08family(c, f) {
			continue
		}
		eachInstr(f, func(i ssa.Instruction) {
			call, ok := i.(*ssa.Call)
			if !ok {
				return
			}
			cc := &call.Call
			if calleeName(cc) != "(net/http.Header).Get" || len(cc.Args) < 2 || !c08reqHeader(cc.Args[0]) {
				return
			}
			// the key is the constant, or a parameter of a generic predicate headerIs(h, key, want...) - one site per caller
			for _, ka := range c08keys(cc.Args[1], nil, 0) {
				if ka.key == (c08key{"const", "Upgrade"}) {
					sites = append(sites, site{f, call.Pos(), c08upgradeConsts(call, ka.ctx)})
				}
			}
		})
	}
	c.atLeast("C08.X1", "tests of the Upgrade header in package proxy", len(sites), 1)
	if len(sites) > 0 {
		ref := sites[0].cset
		for _, s := range sites {
			c.check("C08.X1", fnKey(s.f)+"|Upgrade header tested against the common constant set", s.pos, s.cset == ref && s.cset != "",
				"tests of the Upgrade header disagree ("+s.cset+" vs "+ref+"): a spelling accepted for the websocket tunnel but not by addHeaders/scheme is tunnelled without the peer being appended to X-Forwarded-For")
		}
	}
	// the three websocket decisions - tunnel (ServeHTTP), X-Forwarded-For, scheme detection - all go through these
	// sites' functions. The deciders are found by role: the function that writes X-Forwarded-For, the functions that
	// produce the "ws"/"wss" scheme.
	reachesSite := func(fn *ssa.Function) bool {
		reach := c.reach(fn)
		for _, s := range sites {
			if reach[s.f] {
				return true
			}
		}
		return false
	}
	var xffDeps map[string]bool
	okAll, nXFF := reachesSite(serve), 0
	for _, w := range writes {
		if w.key != (c08key{"const", "X-Forwarded-For"}) || w.m == "Del" {
			continue
		}
		nXFF++
		if xffDeps == nil {
			xffDeps = map[string]bool{}
		}
		for h := range c08factDeps(w.instr.Block(), w.ctx) {
			xffDeps[h] = true
		}
		if !xffDeps["Upgrade"] {
			okAll = false
		}
	}
	nScheme := 0
	why := ""
	if !okAll {
		why = " (X-Forwarded-For write decided by [" + depsStr(xffDeps) + "])"
	}
	for _, f := range reg {
		// the places of f where a "ws"/"wss" is produced: returned, merged into a result, stored or concatenated - not
		// one that is compared against. Each with the block whose reaching decides that this scheme is produced.
		var prod []*ssa.BasicBlock
		eachInstr(f, func(i ssa.Instruction) {
			isWS := func(v ssa.Value) bool {
				s, ok := constString(v)
				return ok && (s == "ws" || s == "wss")
			}
			switch x := i.(type) {
			case *ssa.Phi:
				for k, e := range x.Edges {
					if isWS(e) {
						prod = append(prod, x.Block().Preds[k])
					}
				}
				return
			case *ssa.Return, *ssa.Store:
			case *ssa.BinOp:
				if x.Op != token.ADD {
					return
				}
			default:
				return
			}
			for _, op := range i.Operands(nil) {
				if op != nil && *op != nil && isWS(*op) {
					prod = append(prod, i.Block())
				}
			}
		})
		if len(prod) == 0 {
			continue
		}
		nScheme++
		// every production is decided by the Upgrade header: reaching it is control dependent on a value read from
		// that header - in this function, or (a connScheme(websocket, secure bool) that is told) through a parameter
		// in all its callers. Else at least the function itself goes through one of the test sites.
		decided := true
		for _, b := range prod {
			if !c08upgradeDecides(b, f) {
				decided = false
			}
		}
		if !decided && !reachesSite(f) {
			okAll = false
			why += " (" + fnKey(f) + " produces the ws/wss scheme without looking at the Upgrade header)"
		}
	}
	// a scheme table kept in a package-level variable (var connSchemes = map[connKind]string{...: "wss", ...}): the
	// production is the element access, decided by the Upgrade header if the key / index (or reaching it) depends on it
	for _, g := range c08schemeTables(c) {
		eachInstrOf(reg, func(f *ssa.Function, i ssa.Instruction) {
			var key ssa.Value
			switch x := i.(type) {
			case *ssa.Lookup:
				if u, ok := x.X.(*ssa.UnOp); ok && u.X == ssa.Value(g) {
					key = x.Index
				}
			case *ssa.Index:
				if u, ok := x.X.(*ssa.UnOp); ok && u.X == ssa.Value(g) {
					key = x.Index
				}
			case *ssa.IndexAddr:
				if x.X == ssa.Value(g) {
					key = x.Index
				} else if u, ok := x.X.(*ssa.UnOp); ok && u.X == ssa.Value(g) {
					key = x.Index
				}
			}
			if key == nil {
				return
			}
			nScheme++
			if !c08deps(key, nil)["Upgrade"] && !c08upgradeDecides(i.Block(), f) && !reachesSite(f) {
				okAll = false
				why += " (" + fnKey(f) + " takes the ws/wss scheme from " + g.Name() + " without looking at the Upgrade header)"
			}
		})
	}
	c.atLeast("C08.X1", "functions producing the ws/wss scheme", nScheme, 1)
	c.atLeast("C08.X1", "X-Forwarded-For writes on the request", nXFF, 1)
	c.check("C08.X1", "package proxy|tunnel decision, X-Forwarded-For handling and scheme detection all decide on the Upgrade header", serve.Pos(), okAll && nScheme >= 1 && nXFF >= 1,
		"the tunnel decision, the X-Forwarded-For handling and the scheme detection must all look at the Upgrade header"+why)
	return xffDeps
}

// c08schemeTables: the package-level variables of package proxy and its sub-packages whose initialiser puts a "ws" / "wss"
// constant into them (a map, slice or array of schemes).
func c08schemeTables(c *Ctx) []*ssa.Global {
	var out []*ssa.Global
	seen := map[*ssa.Global]bool{}
	root := func(v ssa.Value) ssa.Value {
		for k := 0; k < 8; k++ {
			switch x := v.(type) {
			case *ssa.IndexAddr:
				v = x.X
			case *ssa.FieldAddr:
				v = x.X
			case *ssa.Slice:
				v = x.X
			case *ssa.ChangeType:
				v = x.X
			case *ssa.MakeInterface:
				v = x.X
			case *ssa.UnOp:
				if _, isG := x.X.(*ssa.Global); isG {
					return v
				}
				v = x.X
			default:
				return v
			}
		}
		return v
	}
	sp := c.spkg("proxy")
	if sp == nil {
		return nil
	}
	// the synthetic package initialisers (not among c.AllFns) of package proxy and its sub-packages
	var inits []*ssa.Function
	for _, pk := range c.Prog.AllPackages() {
		if pk.Pkg == nil || !(pk == sp || strings.HasPrefix(pk.Pkg.Path(), sp.Pkg.Path()+"/")) {
			continue
		}
		if f := pk.Func("init"); f != nil && len(f.Blocks) > 0 {
			inits = append(inits, f)
		}
	}
	for _, f := range inits {
		// the objects of the initialiser that receive a ws/wss constant
		holders := map[ssa.Value]bool{}
		eachInstr(f, func(i ssa.Instruction) {
			var val, into ssa.Value
			switch x := i.(type) {
			case *ssa.MapUpdate:
				val, into = x.Value, x.Map
			case *ssa.Store:
				val, into = x.Val, x.Addr
			default:
				return
			}
			if s, ok := constString(val); ok && (s == "ws" || s == "wss") {
				holders[root(into)] = true
			}
		})
		if len(holders) == 0 {
			continue
		}
		add := func(g *ssa.Global) {
			if !seen[g] {
				seen[g] = true
				out = append(out, g)
			}
		}
		for h := range holders {
			if g, ok := h.(*ssa.Global); ok {
				add(g)
			}
		}
		eachInstr(f, func(i ssa.Instruction) {
			st, ok := i.(*ssa.Store)
			if !ok {
				return
			}
			if g, isG := root(st.Addr).(*ssa.Global); isG && holders[root(st.Val)] {
				add(g)
			}
		})
	}
	return out
}

// c08upgradeDecides: reaching block b of f is control dependent on the client's Upgrade header - through the conditions
// in f and, where these are parameters of f (a connScheme(websocket, secure bool) that is told), through what EVERY
// static caller passes for them.
func c08upgradeDecides(b *ssa.BasicBlock, f *ssa.Function) bool {
	ctls := c08ctlLocal(b, nil)
	viaParam := false
	for _, ctl := range ctls {
		if c08mentionsParam(ctl.cond, f) {
			viaParam = true
		}
	}
	sites := c08sitesOf(f)
	if !viaParam || !onlyStaticallyCalled(f) || len(sites) == 0 {
		for _, ctl := range ctls {
			if c08deps(ctl.cond, nil)["Upgrade"] {
				return true
			}
		}
		return false
	}
	for _, s := range sites {
		ok := false
		for _, ctl := range ctls {
			if c08deps(ctl.cond, c08ctx{s})["Upgrade"] {
				ok = true
			}
		}
		// or the call itself is made only on a decision about the Upgrade header
		if !ok && s.Block() != nil && c08factDeps(s.Block(), nil)["Upgrade"] {
			ok = true
		}
		if !ok {
			return false
		}
	}
	return true
}

// c08mentionsParam: the boolean condition is built (through !, &&, ||, comparisons) from a parameter of f.
func c08mentionsParam(cond ssa.Value, f *ssa.Function) bool {
	seen := map[ssa.Value]bool{}
	var walk func(v ssa.Value, d int) bool
	walk = func(v ssa.Value, d int) bool {
		if v == nil || seen[v] || d > 8 {
			return false
		}
		seen[v] = true
		switch x := v.(type) {
		case *ssa.Parameter:
			return x.Parent() == f
		case *ssa.UnOp:
			return walk(x.X, d+1)
		case *ssa.BinOp:
			return walk(x.X, d+1) || walk(x.Y, d+1)
		case *ssa.Phi:
			for _, e := range x.Edges {
				if walk(e, d+1) {
					return true
				}
			}
		}
		return false
	}
	return walk(cond, 0)
}

// c08tails: the values that can be the LAST component of a string built by concatenation, strings.Join,
// fmt.Sprintf or a repository helper (nil element / empty result: unknown).
func c08tails(v ssa.Value, ctx c08ctx, depth int, seen map[ssa.Value]bool) []ssa.Value {
	v, ctx = c08arg(v, ctx)
	if v == nil || depth > 10 {
		return []ssa.Value{nil}
	}
	if seen[v] { // on the current path: a cycle through a loop phi contributes nothing new
		return nil
	}
	seen[v] = true
	defer delete(seen, v)
	switch x := v.(type) {
	case *ssa.BinOp:
		if x.Op == token.ADD {
			return c08tails(x.Y, ctx, depth+1, seen)
		}
	case *ssa.Phi:
		var out []ssa.Value
		for _, e := range x.Edges {
			out = append(out, c08tails(e, ctx, depth+1, seen)...)
		}
		return out
	case *ssa.UnOp:
		if a, ok := x.X.(*ssa.Alloc); ok && x.Op == token.MUL {
			var out []ssa.Value
			for _, r := range *a.Referrers() {
				if st, ok := r.(*ssa.Store); ok && st.Addr == a {
					out = append(out, c08tails(st.Val, ctx, depth+1, seen)...)
				}
			}
			return out
		}
	case *ssa.Parameter:
		idx := c08paramIndex(x)
		sites := c08sitesOf(x.Parent())
		if len(sites) == 0 || idx < 0 {
			return []ssa.Value{nil}
		}
		var out []ssa.Value
		for _, s := range sites {
			if args := s.Common().Args; idx < len(args) {
				out = append(out, c08tails(args[idx], nil, depth+1, seen)...)
			}
		}
		return out
	case *ssa.Call:
		n := calleeName(&x.Call)
		switch {
		case n == "strings.Join" && len(x.Call.Args) == 2:
			var out []ssa.Value
			for _, e := range c08lastElems(x.Call.Args[0], ctx, 0) {
				if e == nil {
					return []ssa.Value{nil}
				}
				out = append(out, c08tails(e, ctx, depth+1, seen)...)
			}
			if len(out) == 0 {
				return []ssa.Value{nil}
			}
			return out
		case n == "fmt.Sprintf" && len(x.Call.Args) == 2:
			format, ok := constString(x.Call.Args[0])
			args := c08variadic(x.Call.Args[1])
			if !ok || len(args) == 0 || !(strings.HasSuffix(format, "%s") || strings.HasSuffix(format, "%v")) || c08verbs(format) != len(args) {
				return []ssa.Value{nil}
			}
			return c08tails(args[len(args)-1], ctx, depth+1, seen)
		case n == "strings.TrimSpace" && len(x.Call.Args) == 1:
			return c08tails(x.Call.Args[0], ctx, depth+1, seen)
		}
		if sc := x.Call.StaticCallee(); sc != nil && isRepoFn(sc) && len(sc.Blocks) > 0 && sc.Signature.Results().Len() == 1 {
			inner := append(c08ctx{x}, ctx...)
			var out []ssa.Value
			eachInstr(sc, func(i ssa.Instruction) {
				if r, ok := i.(*ssa.Return); ok {
					out = append(out, c08tails(r.Results[0], inner, depth+1, seen)...)
				}
			})
			return out
		}
	}
	return []ssa.Value{v}
}

// c08verbs counts the formatting verbs of a format string (%% is not one).
func c08verbs(format string) int {
	n := 0
	for i := 0; i < len(format); i++ {
		if format[i] != '%' {
			continue
		}
		if i+1 < len(format) && format[i+1] == '%' {
			i++
			continue
		}
		n++
	}
	return n
}

// c08variadic: the elements packed into the []any of a variadic call, in order (nil if not visible).
func c08variadic(v ssa.Value) []ssa.Value {
	sl, ok := v.(*ssa.Slice)
	if !ok {
		return nil
	}
	a, ok := sl.X.(*ssa.Alloc)
	if !ok || a.Referrers() == nil {
		return nil
	}
	byIdx := map[int64]ssa.Value{}
	for _, r := range *a.Referrers() {
		ia, ok := r.(*ssa.IndexAddr)
		if !ok || ia.Referrers() == nil {
			continue
		}
		k, isK := constInt(ia.Index)
		if !isK {
			return nil
		}
		for _, r2 := range *ia.Referrers() {
			if st, ok := r2.(*ssa.Store); ok && st.Addr == ia {
				byIdx[k] = stripIface(st.Val)
			}
		}
	}
	var out []ssa.Value
	for k := int64(0); k < int64(len(byIdx)); k++ {
		e, ok := byIdx[k]
		if !ok {
			return nil
		}
		out = append(out, e)
	}
	return out
}

// c08lastElems: the values that can be the last element of a slice (a nil element: unknown).
func c08lastElems(v ssa.Value, ctx c08ctx, depth int) []ssa.Value {
	v, ctx = c08arg(v, ctx)
	if depth > 6 {
		return []ssa.Value{nil}
	}
	switch x := v.(type) {
	case *ssa.Slice:
		if es := c08variadic(x); len(es) > 0 && x.Low == nil && x.High == nil {
			return []ssa.Value{es[len(es)-1]}
		}
	case *ssa.Call:
		if calleeName(&x.Call) == "builtin.append" && len(x.Call.Args) == 2 {
			// append(a, e1, ..., en): the last appended element (a non-empty literal tail)
			return c08lastElems(x.Call.Args[1], ctx, depth+1)
		}
	case *ssa.Phi:
		var out []ssa.Value
		for _, e := range x.Edges {
			out = append(out, c08lastElems(e, ctx, depth+1)...)
		}
		return out
	}
	return []ssa.Value{nil}
}

// runC08A3: the address fabio itself puts into a default `Forwarded: for=` element derives from the connection only.
func runC08A3(c *Ctx, reg []*ssa.Function, writes []*c08write) {
	n := 0
	checkFor := func(f *ssa.Function, pos token.Pos, y ssa.Value) {
		n++
		k, dep := c08clientDep(y, nil)
		if !dep {
			// through merges (phi) as well
			for _, d := range defsOf(y) {
				if kk, dd := c08clientDep(d.Val, nil); dd {
					k, dep = kk, true
				}
			}
		}
		c.check("C08.A3", fnKey(f)+"|Forwarded for= names the peer address", pos, fromRemoteAddr(y) && !dep,
			"when fabio supplies the Forwarded header itself, its for= element must be the peer address taken from RemoteAddr; here it (also) derives from the client's "+k+" header, so a client can make fabio vouch for a forged address")
	}
	eachInstrOf(reg, func(f *ssa.Function, i ssa.Instruction) {
		switch x := i.(type) {
		case *ssa.BinOp:
			// "...for=" + peer
			if s, isS := constString(x.X); x.Op == token.ADD && isS && strings.HasSuffix(s, "for=") {
				checkFor(f, x.Pos(), x.Y)
			}
		case *ssa.Call:
			// b.WriteString("for="); b.WriteString(peer)  (strings.Builder / bytes.Buffer): the next write to the same builder
			if cn := calleeName(&x.Call); (cn == "(*strings.Builder).WriteString" || cn == "(*bytes.Buffer).WriteString") && len(x.Call.Args) == 2 {
				if s, isS := constString(x.Call.Args[1]); isS && strings.HasSuffix(s, "for=") {
					instrs := x.Block().Instrs
					for k := instrIndex(x) + 1; k >= 1 && k < len(instrs); k++ {
						cc := callCommon(instrs[k])
						if cc == nil || cc.IsInvoke() || len(cc.Args) != 2 || cc.Args[0] != x.Call.Args[0] {
							continue
						}
						if n2 := calleeName(cc); strings.HasPrefix(n2, "(*strings.Builder).Write") || strings.HasPrefix(n2, "(*bytes.Buffer).Write") {
							checkFor(f, instrs[k].Pos(), cc.Args[1])
							break
						}
					}
				}
				return
			}
			// fmt.Sprintf("for=%s; proto=%s", peer, proto)
			if calleeName(&x.Call) != "fmt.Sprintf" || len(x.Call.Args) != 2 {
				return
			}
			format, ok := constString(x.Call.Args[0])
			at := strings.Index(format, "for=%")
			if !ok || at < 0 {
				return
			}
			args := c08variadic(x.Call.Args[1])
			k := c08verbs(format[:at])
			if k < len(args) {
				checkFor(f, x.Pos(), args[k])
			} else {
				n++
				c.check("C08.A3", fnKey(f)+"|Forwarded for= names the peer address", x.Pos(), false, "the argument formatted after for= could not be resolved")
			}
		}
	})
	if n > 0 {
		return
	}
	// no recognisable for= construction (strings.Builder, Join ...): decide on the whole value written to Forwarded - it
	// may depend on the client's Forwarded / X-Forwarded-Proto / Upgrade headers (kept value, scheme detection) but on
	// no other client header, and must carry the peer address
	for _, w := range writes {
		if w.key != (c08key{"const", "Forwarded"}) || w.m == "Del" {
			continue
		}
		n++
		val, vctx := w.val()
		deps := c08deps(val, vctx)
		for _, ok := range []string{"Forwarded", "X-Forwarded-Proto", "Upgrade"} {
			delete(deps, ok)
		}
		c.check("C08.A3", w.where()+"|Forwarded for= names the peer address", w.instr.Pos(), val != nil && fromRemoteAddr(val) && len(deps) == 0,
			"the Forwarded header fabio writes must carry the peer address taken from RemoteAddr and may not be built from the client's "+depsStr(deps)+" header")
	}
	c.atLeast("C08.A3", "for= elements built for the Forwarded header", n, 1)
}
