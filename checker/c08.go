package main

import (
	"go/token"
	"sort"
	"strings"

	"golang.org/x/tools/go/ssa"
)

func init() {
	register(&propDef{
		ID:      "C08",
		Level:   "other",
		Explain: "Forwarding-header rules decided on every path of proxy.addHeaders / addResponseHeaders / ServeHTTP: (A1) the authoritative headers (configured client-IP header, configured TLS header) are written with Set, under no condition that depends on a header the client sent, with a value derived only from RemoteAddr / r.TLS / configuration; the TLS header is Set on the r.TLS != nil edge and Del'd on the other (exhaustive); (A2) the default-if-absent headers (X-Real-Ip, X-Forwarded-Proto/-Port/-Host) are written only under Get(sameKey) == \"\" and their values derive from the connection or the request's Host; (O1) in ServeHTTP no store to r.Host can reach the call that derives the forwarding headers (they must describe the host the client asked for, also for host= routes); (X1) every test of the Upgrade header in package proxy compares against the same constant set; (X2) on the websocket edge X-Forwarded-For is Set to prior + \", \" + peer with the peer last; (S1) Strict-Transport-Security is written only under r.TLS != nil, on the response; (R1) the request-id header is Set from the generator under RequestID != \"\" only; (P1) nothing in package proxy separates host and port of Request.Host / RemoteAddr with a bare ':' search (IPv6 literals) — net.SplitHostPort is used. (X3) the websocket X-Forwarded-For branch and the tunnel decision depend on the same request header (Upgrade only). (A3) the for= element fabio itself puts into Forwarded derives from RemoteAddr and from no client header; Not decided: the textual format of Forwarded and of the port/protocol values (string contents).",
		Run:     runC08,
		Trusted: []string{"net/http sets Request.RemoteAddr to the peer's ip:port and Request.TLS iff the connection used TLS", "httputil.ReverseProxy appends the peer address to X-Forwarded-For for non-upgrade requests"},
		Mutants: []mutant{

			{Name: "Add instead of Set for the client-IP header", File: "proxy/http_headers.go", Old: "r.Header.Set(cfg.ClientIPHeader, remoteIP)", New: "r.Header.Add(cfg.ClientIPHeader, remoteIP)", Expect: "C08.A1"},
			{Name: "client-IP header only when absent", File: "proxy/http_headers.go", Old: "\t\tcfg.ClientIPHeader != \"X-Real-Ip\" {", New: "\t\tcfg.ClientIPHeader != \"X-Real-Ip\" && r.Header.Get(cfg.ClientIPHeader) == \"\" {", Expect: "C08.A1"},
			{Name: "client-IP header from X-Real-Ip", File: "proxy/http_headers.go", Old: "r.Header.Set(cfg.ClientIPHeader, remoteIP)", New: "r.Header.Set(cfg.ClientIPHeader, r.Header.Get(\"X-Real-Ip\"))", Expect: "C08.A1"},
			{Name: "drop the Del on the non-TLS edge", File: "proxy/http_headers.go", Old: "\t\t} else {\n\t\t\tr.Header.Del(cfg.TLSHeader)\n\t\t}", New: "\t\t}", Expect: "C08.A1"},
			{Name: "X-Real-Ip overwritten", File: "proxy/http_headers.go", Old: "\tif r.Header.Get(\"X-Real-Ip\") == \"\" {\n\t\tr.Header.Set(\"X-Real-Ip\", remoteIP)\n\t}", New: "\tr.Header.Set(\"X-Real-Ip\", remoteIP)", Expect: "C08.A2"},
			{Name: "X-Forwarded-Host from the target", File: "proxy/http_headers.go", Old: "r.Header.Set(\"X-Forwarded-Host\", r.Host)", New: "r.Header.Set(\"X-Forwarded-Host\", r.URL.Host)", Expect: "C08.A2"},
			{Name: "Host rewrite before addHeaders again", File: "proxy/http_proxy.go", Old: "\tif err := addHeaders(r, p.Config, t.StripPath); err != nil {", New: "\tif t.Host != \"\" && t.Host != \"dst\" {\n\t\tr.Host = t.Host\n\t}\n\tif err := addHeaders(r, p.Config, t.StripPath); err != nil {", Expect: "C08.O1"},
			{Name: "addHeaders tests only the lower-case spelling", File: "proxy/http_headers.go", Old: "\tws := isWebsocketUpgrade(r)\n\tif ws {\n\t\tclientIP := remoteIP", New: "\tws := r.Header.Get(\"Upgrade\") == \"websocket\"\n\tif ws {\n\t\tclientIP := remoteIP", Expect: "C08.X1"},
			{Name: "websocket X-Forwarded-For decided by the derived scheme", File: "proxy/http_headers.go", Old: "\tws := isWebsocketUpgrade(r)\n\tif ws {\n\t\tclientIP := remoteIP", New: "\tws := scheme(r) == \"ws\" || scheme(r) == \"wss\"\n\tif ws {\n\t\tclientIP := remoteIP", Expect: "C08.X3"},
			{Name: "Forwarded for= reuses the folded X-Forwarded-For value", File: "proxy/http_headers.go", Old: "\t\t\tr.Header.Set(\"X-Forwarded-For\", clientIP)\n", New: "\t\t\tr.Header.Set(\"X-Forwarded-For\", clientIP)\n\t\t\tremoteIP = clientIP\n", Expect: "C08.A3"},
			{Name: "peer not last in X-Forwarded-For", File: "proxy/http_headers.go", Old: "clientIP = strings.Join(prior, \", \") + \", \" + clientIP", New: "clientIP = clientIP + \", \" + strings.Join(prior, \", \")", Expect: "C08.X2"},
			{Name: "HSTS without the TLS test", File: "proxy/http_headers.go", Old: "if r.TLS != nil && cfg.STSHeader.MaxAge > 0 {", New: "if cfg.STSHeader.MaxAge > 0 {", Expect: "C08.S1"},
			{Name: "request id kept when the client sent one", File: "proxy/http_proxy.go", Old: "\tif p.Config.RequestID != \"\" {", New: "\tif p.Config.RequestID != \"\" && r.Header.Get(p.Config.RequestID) == \"\" {", Expect: "C08.R1"},
			{Name: "first-colon port split again", File: "proxy/http_headers.go", Old: "\tif _, port, err := net.SplitHostPort(r.Host); err == nil && port != \"\" {\n\t\treturn port\n\t}", New: "\tif n := strings.Index(r.Host, \":\"); n > 0 && n < len(r.Host)-1 {\n\t\treturn r.Host[n+1:]\n\t}", Expect: "C08.P1"},
			{Name: "benign: remote ip computed by the caller", File: "proxy/http_headers.go", Old: "\tif r.Header.Get(\"X-Real-Ip\") == \"\" {\n\t\tr.Header.Set(\"X-Real-Ip\", remoteIP)\n\t}", New: "\tif cur := r.Header.Get(\"X-Real-Ip\"); cur == \"\" {\n\t\tr.Header.Set(\"X-Real-Ip\", remoteIP)\n\t}", Expect: ""},
		},
	})
}

// dependsOnClientHeader: the condition value derives from a Header.Get / map lookup on the request's headers.
func dependsOnClientHeader(v ssa.Value) (string, bool) {
	key := ""
	ok := derives(v, func(x ssa.Value) bool {
		if call, isC := x.(*ssa.Call); isC {
			n := calleeName(&call.Call)
			if (n == "(net/http.Header).Get" || n == "(net/http.Header).Values") && isRequestHeader(call.Call.Args[0]) {
				if k, isK := constString(call.Call.Args[1]); isK {
					key = k
				} else {
					key = shortPath(call.Call.Args[1])
				}
				return true
			}
		}
		if lk, isL := x.(*ssa.Lookup); isL && isRequestHeader(lk.X) {
			key, _ = constString(lk.Index)
			return true
		}
		return false
	})
	return key, ok
}

func fromRemoteAddr(v ssa.Value) bool {
	return derives(v, func(x ssa.Value) bool {
		call, ok := x.(*ssa.Call)
		if !ok || calleeName(&call.Call) != "net.SplitHostPort" {
			return false
		}
		_, isRA := fieldOf(call.Call.Args[0], "http.Request", "RemoteAddr")
		return isRA
	})
}

func runC08(c *Ctx) {
	add := c.fn("proxy", "addHeaders")
	addResp := c.fn("proxy", "addResponseHeaders")
	serve := c.method("proxy", "HTTPProxy", "ServeHTTP")
	if !c.need("C08.A1", add, "proxy.addHeaders") || !c.need("C08.S1", addResp, "proxy.addResponseHeaders") || !c.need("C08.O1", serve, "proxy.HTTPProxy.ServeHTTP") {
		return
	}
	tlsNonNil := func(b *ssa.BasicBlock) (bool, bool) { // (known non-nil, known nil)
		isTLS := func(v ssa.Value) bool { _, ok := fieldOf(v, "http.Request", "TLS"); return ok }
		return knownNonNil(b, isTLS), knownNil(b, isTLS)
	}
	clientFacts := func(b *ssa.BasicBlock) string {
		for _, f := range factsAt(b) {
			if k, ok := dependsOnClientHeader(f.Cond); ok {
				return k
			}
		}
		return ""
	}

	// ---- A1 client-IP header
	nIP, nTLSSet, nTLSDel := 0, 0, 0
	eachInstr(add, func(i ssa.Instruction) {
		cc := callCommon(i)
		if cc == nil || !strings.HasPrefix(calleeName(cc), "(net/http.Header).") || !isRequestHeader(cc.Args[0]) || len(cc.Args) < 2 {
			return
		}
		m := strings.TrimPrefix(calleeName(cc), "(net/http.Header).")
		if _, isIP := fieldOf(cc.Args[1], "config.Proxy", "ClientIPHeader"); isIP && m != "Get" {
			nIP++
			k := clientFacts(i.Block())
			okVal := m == "Set" && len(cc.Args) == 3 && fromRemoteAddr(cc.Args[2])
			if okVal {
				if _, dep := dependsOnClientHeader(cc.Args[2]); dep {
					okVal = false
				}
			}
			c.check("C08.A1", "proxy.addHeaders|client-IP header is Set to the peer address", i.Pos(), m == "Set" && okVal,
				"the configured client-IP header is authoritative: it must be overwritten (Set, not Add) with the address taken from RemoteAddr, never with anything the client sent")
			c.check("C08.A1", "proxy.addHeaders|client-IP header written whatever the client sent", i.Pos(), k == "",
				"the write depends on the client's "+k+" header: a client that sends the header itself keeps its forged value")
		}
		if _, isTLS := fieldOf(cc.Args[1], "config.Proxy", "TLSHeader"); isTLS && m != "Get" {
			nn, nl := tlsNonNil(i.Block())
			k := clientFacts(i.Block())
			switch m {
			case "Set":
				nTLSSet++
				_, isVal := fieldOf(cc.Args[2], "config.Proxy", "TLSHeaderValue")
				c.check("C08.A1", "proxy.addHeaders|TLS header Set exactly on TLS connections", i.Pos(), nn && isVal && k == "",
					"the configured TLS header must be Set to the configured value on the r.TLS != nil edge, whatever the client sent")
			case "Del":
				nTLSDel++
				c.check("C08.A1", "proxy.addHeaders|TLS header removed on plain connections", i.Pos(), nl && k == "",
					"on a plain connection a client-supplied copy of the TLS header must be deleted (r.TLS == nil edge)")
			default:
				c.check("C08.A1", "proxy.addHeaders|TLS header "+m, i.Pos(), false, "the TLS header may only be Set or Del'd")
			}
		}
	})
	c.atLeast("C08.A1", "writes of the configured client-IP header", nIP, 1)
	c.check("C08.A1", "proxy.addHeaders|TLS header exhaustive (Set on TLS, Del otherwise)", add.Pos(), nTLSSet >= 1 && nTLSDel >= 1,
		"both edges are needed: Set when the connection used TLS, Del when it did not; without the Del a client on a plain connection can claim TLS")

	// ---- A2 default-if-absent
	defaults := map[string]func(v ssa.Value) bool{
		"X-Real-Ip":         fromRemoteAddr,
		"X-Forwarded-Proto": func(v ssa.Value) bool { return true }, // protocol text: value semantics (N)
		"X-Forwarded-Port": func(v ssa.Value) bool {
			return derives(v, func(x ssa.Value) bool {
				call, ok := x.(*ssa.Call)
				return ok && call.Call.StaticCallee() != nil && call.Call.StaticCallee().Name() == "localPort"
			})
		},
		"X-Forwarded-Host": func(v ssa.Value) bool { _, ok := fieldOf(v, "http.Request", "Host"); return ok },
	}
	seenDefault := map[string]bool{}
	eachInstr(add, func(i ssa.Instruction) {
		for _, m := range []string{"Set", "Add"} {
			k, cc, ok := headerCall(i, m)
			if !ok || !isRequestHeader(cc.Args[0]) {
				continue
			}
			valOK, isDefault := defaults[k]
			if !isDefault {
				continue
			}
			seenDefault[k] = true
			// guarded by Get(k) == ""
			guard := false
			for _, f := range factsAt(i.Block()) {
				b, isB := f.Cond.(*ssa.BinOp)
				if !isB || (b.Op != token.EQL && b.Op != token.NEQ) {
					continue
				}
				if s, isS := constString(b.Y); !isS || s != "" {
					continue
				}
				if call, isC := b.X.(*ssa.Call); isC {
					if gk, gcc, isG := headerCall(call, "Get"); isG && gk == k && isRequestHeader(gcc.Args[0]) && (b.Op == token.EQL) == f.Truth {
						guard = true
					}
				}
			}
			c.check("C08.A2", "proxy.addHeaders|"+k+" supplied only when absent", i.Pos(), guard && m == "Set",
				k+" is a default: it must be Set only on the Get(\""+k+"\") == \"\" edge so that a value from a previous proxy is kept")
			c.check("C08.A2", "proxy.addHeaders|"+k+" describes the client's connection/request", i.Pos(), valOK(cc.Args[2]),
				k+" must derive from the connection or from the Host the client asked for, not from the upstream URL or another header")
		}
	})
	for k := range defaults {
		if !seenDefault[k] {
			c.check("C08.A2", "proxy.addHeaders|"+k+" supplied only when absent", add.Pos(), false, k+" is no longer supplied")
		}
	}

	// ---- O1
	var addCalls []ssa.Instruction
	eachInstr(serve, func(i ssa.Instruction) {
		if staticCalleeIs(i, add) {
			addCalls = append(addCalls, i)
		}
	})
	c.atLeast("C08.O1", "addHeaders calls in ServeHTTP", len(addCalls), 1)
	nHost := 0
	eachInstr(serve, func(i ssa.Instruction) {
		st, ok := i.(*ssa.Store)
		if !ok {
			return
		}
		if _, isHost := fieldOf(st.Addr, "http.Request", "Host"); !isHost {
			return
		}
		nHost++
		bad := false
		for _, a := range addCalls {
			if pathAvoiding(st, a, nil) {
				bad = true
			}
		}
		c.check("C08.O1", "proxy.(*HTTPProxy).ServeHTTP|r.Host rewritten only after the forwarding headers are derived", st.Pos(), !bad,
			"a store to r.Host reaches addHeaders: for routes with the host option X-Forwarded-Host, X-Forwarded-Port and Forwarded then describe the upstream, not the host the client asked for")
	})
	c.atLeast("C08.O1", "stores to r.Host in ServeHTTP", nHost, 1)

	// ---- X1 sibling agreement on the Upgrade header
	sp := c.spkg("proxy")
	type site struct {
		f    *ssa.Function
		pos  token.Pos
		cset string
	}
	var sites []site
	for _, f := range c.AllFns {
		if rootPkg(f) != sp {
			continue
		}
		eachInstr(f, func(i ssa.Instruction) {
			call, ok := i.(*ssa.Call)
			if !ok {
				return
			}
			k, cc, isG := headerCall(call, "Get")
			if !isG || k != "Upgrade" || !isRequestHeader(cc.Args[0]) {
				return
			}
			var consts []string
			var walk func(v ssa.Value, d int)
			seen := map[ssa.Value]bool{}
			walk = func(v ssa.Value, d int) {
				if seen[v] || d > 4 {
					return
				}
				seen[v] = true
				refs := v.Referrers()
				if refs == nil {
					return
				}
				for _, r := range *refs {
					switch x := r.(type) {
					case *ssa.BinOp:
						if x.Op == token.EQL || x.Op == token.NEQ {
							if s, ok := constString(x.Y); ok {
								consts = append(consts, s)
							}
							if s, ok := constString(x.X); ok {
								consts = append(consts, s)
							}
						}
					case *ssa.Call:
						n := calleeName(&x.Call)
						if n == "strings.EqualFold" {
							for _, a := range x.Call.Args {
								if s, ok := constString(a); ok {
									consts = append(consts, "fold:"+strings.ToLower(s))
								}
							}
						} else if n == "strings.ToLower" {
							walk(x, d+1)
						}
					case *ssa.Phi:
						walk(x, d+1)
					}
				}
			}
			walk(call, 0)
			sort.Strings(consts)
			sites = append(sites, site{f, call.Pos(), strings.Join(consts, "|")})
		})
	}
	c.atLeast("C08.X1", "tests of the Upgrade header in package proxy", len(sites), 1)
	// call sites of single-predicate functions count as uses
	if len(sites) > 0 {
		ref := sites[0].cset
		for _, s := range sites {
			c.check("C08.X1", fnKey(s.f)+"|Upgrade header tested against the common constant set", s.pos, s.cset == ref && s.cset != "",
				"tests of the Upgrade header disagree ("+s.cset+" vs "+ref+"): a spelling accepted for the websocket tunnel but not by addHeaders/scheme is tunnelled without the peer being appended to X-Forwarded-For")
		}
	}
	// the websocket decisions in ServeHTTP, addHeaders and scheme all go through these sites' functions
	usesWS := 0
	for _, fn := range []*ssa.Function{serve, add, c.fn("proxy", "scheme")} {
		if fn == nil {
			continue
		}
		reach := c.reach(fn)
		for _, s := range sites {
			if reach[s.f] {
				usesWS++
				break
			}
		}
	}
	c.check("C08.X1", "package proxy|ServeHTTP, addHeaders and scheme all decide on the Upgrade header", serve.Pos(), usesWS == 3, "the tunnel decision, the X-Forwarded-For handling and the scheme detection must all look at the Upgrade header")

	runC08X3(c)
	runC08A3(c, add)

	// ---- X2
	nXFF := 0
	eachInstr(add, func(i ssa.Instruction) {
		k, cc, ok := headerCall(i, "Set")
		if !ok || k != "X-Forwarded-For" || !isRequestHeader(cc.Args[0]) {
			return
		}
		nXFF++
		// every merged definition of the value ends with the peer address
		okLast := true
		for _, d := range defsOf(cc.Args[2]) {
			right := d.Val
			for {
				b, isB := right.(*ssa.BinOp)
				if !isB || b.Op != token.ADD {
					break
				}
				right = b.Y
			}
			// right may itself be a phi of (remoteIP) — follow one level
			if !fromRemoteAddr(right) {
				okLast = false
			}
			if ph, isPhi := right.(*ssa.Phi); isPhi {
				for _, e := range ph.Edges {
					if !fromRemoteAddr(e) {
						okLast = false
					}
				}
			}
		}
		c.check("C08.X2", "proxy.addHeaders|websocket X-Forwarded-For ends with the peer address", i.Pos(), okLast,
			"on the websocket edge X-Forwarded-For must be prior + \", \" + <peer from RemoteAddr> with the peer as the last element")
	})
	c.atLeast("C08.X2", "X-Forwarded-For writes in addHeaders", nXFF, 1)

	// ---- S1
	nSTS := 0
	for _, f := range c.AllFns {
		if rootPkg(f) != sp {
			continue
		}
		eachInstr(f, func(i ssa.Instruction) {
			for _, m := range []string{"Set", "Add"} {
				k, cc, ok := headerCall(i, m)
				if !ok || k != "Strict-Transport-Security" {
					continue
				}
				nSTS++
				nn, _ := tlsNonNil(i.Block())
				onResp := !isRequestHeader(cc.Args[0])
				c.check("C08.S1", fnKey(f)+"|HSTS only on TLS connections, on the response", i.Pos(), nn && onResp,
					"Strict-Transport-Security must be written to the response only on the r.TLS != nil edge (RFC 6797: never over plain HTTP)")
			}
		})
	}
	c.atLeast("C08.S1", "Strict-Transport-Security writes", nSTS, 1)

	// ---- R1
	nRID := 0
	eachInstr(serve, func(i ssa.Instruction) {
		cc := callCommon(i)
		if cc == nil || !strings.HasPrefix(calleeName(cc), "(net/http.Header).") || len(cc.Args) < 3 {
			return
		}
		if _, isRID := fieldOf(cc.Args[1], "config.Proxy", "RequestID"); !isRID {
			return
		}
		nRID++
		m := strings.TrimPrefix(calleeName(cc), "(net/http.Header).")
		k := clientFacts(i.Block())
		_, valDep := dependsOnClientHeader(cc.Args[2])
		c.check("C08.R1", "proxy.(*HTTPProxy).ServeHTTP|request id Set from the generator", i.Pos(), m == "Set" && k == "" && !valDep,
			"when a request-id header is configured it must be Set unconditionally from the id generator; keeping a client-supplied id lets clients forge correlation ids")
	})
	c.atLeast("C08.R1", "request-id header writes", nRID, 1)

	// ---- P1
	nSplit := 0
	for _, f := range c.AllFns {
		if rootPkg(f) != sp {
			continue
		}
		eachInstr(f, func(i ssa.Instruction) {
			call, ok := i.(*ssa.Call)
			if !ok {
				return
			}
			n := calleeName(&call.Call)
			isHostish := func(v ssa.Value) bool {
				return derives(v, func(x ssa.Value) bool {
					if _, ok := fieldOf(x, "http.Request", "Host"); ok {
						return true
					}
					_, ok := fieldOf(x, "http.Request", "RemoteAddr")
					return ok
				})
			}
			if n == "net.SplitHostPort" && isHostish(call.Call.Args[0]) {
				nSplit++
				c.ob("C08.P1", fnKey(f)+"|host/port split with net.SplitHostPort", call.Pos(), OK, "bracket-aware")
				return
			}
			if (indexFamily[n] || splitFamily[n] > 0 || n == "strings.Cut") && len(call.Call.Args) >= 2 && isHostish(call.Call.Args[0]) {
				sep := ""
				if s, ok := constString(call.Call.Args[1]); ok {
					sep = s
				} else if k, ok := constInt(call.Call.Args[1]); ok {
					sep = string(rune(k))
				}
				if sep == ":" {
					nSplit++
					c.ob("C08.P1", fnKey(f)+"|host/port split at a bare ':'", call.Pos(), Viol,
						n+"(host, \":\") cuts an IPv6 literal in the middle: for 'Host: [::1]:8080' the port becomes ':1]:8080' (sent upstream as X-Forwarded-Port); use net.SplitHostPort like the sibling code for RemoteAddr")
				}
			}
		})
	}
	c.atLeast("C08.P1", "host/port separations of Request.Host/RemoteAddr in package proxy", nSplit, 2)
}

// runC08A3: the address fabio itself puts into a default `Forwarded: for=` element derives from the connection only.
func runC08A3(c *Ctx, add *ssa.Function) {
	n := 0
	eachInstr(add, func(i ssa.Instruction) {
		b, ok := i.(*ssa.BinOp)
		if !ok || b.Op != token.ADD {
			return
		}
		s, isS := constString(b.X)
		if !isS || !strings.HasSuffix(s, "for=") {
			return
		}
		n++
		k, dep := dependsOnClientHeader(b.Y)
		if !dep {
			// through merges (phi) as well
			for _, d := range defsOf(b.Y) {
				if kk, dd := dependsOnClientHeader(d.Val); dd {
					k, dep = kk, true
				}
			}
		}
		c.check("C08.A3", "proxy.addHeaders|Forwarded for= names the peer address", b.Pos(), fromRemoteAddr(b.Y) && !dep,
			"when fabio supplies the Forwarded header itself, its for= element must be the peer address taken from RemoteAddr; here it (also) derives from the client's "+k+" header, so a client can make fabio vouch for a forged address")
	})
	c.atLeast("C08.A3", "for= elements built in addHeaders", n, 1)
}
