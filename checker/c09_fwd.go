package main

// C09, hardening round 3: the Read and the Write of one relay seen through forwarding helpers.
//
// `nr, er := src.Read(buf)` / `nw, ew := dst.Write(buf[:nr])` extracted into one-line helpers
// (`readChunk(src, buf)`, `writeChunk(dst, p)`, a method `t.read(buf)` that reads from a field) left c09relaysOf without
// a (Read, Write) pair in any one function: every rule that starts from the relays (B1's copy sources, B3) then
// reported. A call of a repository function that hands one of its own parameters to ONE Read (Write) as the buffer and
// returns exactly what that call returned IS that Read (Write), as seen from the caller: same result tuple
// (count, error), the buffer is the argument for that parameter, the stream is the argument for the parameter the helper
// reads from (or whatever value the helper reads from: the identity walk resolves it).

import (
	"go/types"

	"golang.org/x/tools/go/ssa"
)

// c09ioFwd: call is stream.<name>(buf) with a byte buffer - directly, or through forwarding helpers (at most three
// deep). Returns the stream and the buffer as the CALLER names them.
func c09ioFwd(call *ssa.Call, name string, depth int) (stream, buf ssa.Value, ok bool) {
	if call == nil {
		return nil, nil, false
	}
	if recv, args, isM := c09ioCall(&call.Call, name); isM {
		if len(args) == 1 && c09isByteSlice(args[0].Type()) {
			return recv, args[0], true
		}
		return nil, nil, false
	}
	h := c09bodyOf(&call.Call)
	if h == nil || depth > 2 {
		return nil, nil, false
	}
	inner, k, j := c09fwdHelper(h, name, depth)
	if inner == nil || k >= len(call.Call.Args) {
		return nil, nil, false
	}
	istream, _, _ := c09ioFwd(inner, name, depth+1)
	stream = istream
	if j >= 0 && j < len(call.Call.Args) {
		stream = call.Call.Args[j]
	}
	return stream, call.Call.Args[k], true
}

// c09fwdHelper: h forwards to one <name> call: it has the results (int, error), contains exactly one call that is a
// <name> of a byte buffer (c09ioFwd), the buffer of that call is h's k-th parameter itself, and every return of h hands
// back the two results of that call. j is the parameter h reads from / writes to (-1: something else, e.g. a field).
func c09fwdHelper(h *ssa.Function, name string, depth int) (inner *ssa.Call, k, j int) {
	res := h.Signature.Results()
	if res.Len() != 2 || !types.Identical(res.At(0).Type(), types.Typ[types.Int]) || typeStr(res.At(1).Type()) != "error" {
		return nil, 0, 0
	}
	n := 0
	eachInstr(h, func(i ssa.Instruction) {
		if c, ok := i.(*ssa.Call); ok {
			if _, _, isIO := c09ioFwd(c, name, depth+1); isIO {
				inner = c
				n++
			}
		}
	})
	if n != 1 {
		return nil, 0, 0
	}
	stream, buf, _ := c09ioFwd(inner, name, depth+1)
	k, j = -1, -1
	for idx, p := range h.Params {
		if ssa.Value(p) == buf {
			k = idx
		}
		if ssa.Value(p) == stream {
			j = idx
		}
	}
	if k < 0 {
		return nil, 0, 0
	}
	forwards := true
	nRet := 0
	eachInstr(h, func(i ssa.Instruction) {
		r, ok := i.(*ssa.Return)
		if !ok {
			return
		}
		nRet++
		if len(r.Results) != 2 {
			forwards = false
			return
		}
		for idx, v := range r.Results {
			e, isE := v.(*ssa.Extract)
			if !isE || e.Tuple != ssa.Value(inner) || e.Index != idx {
				forwards = false
			}
		}
	})
	if !forwards || nRet == 0 {
		return nil, 0, 0
	}
	return inner, k, j
}

// c09fwdInner: call is the one Read (Write) inside a forwarding helper: it is judged where the helper is called.
func c09fwdInner(f *ssa.Function, call *ssa.Call, name string) bool {
	if f == nil || f.Signature.Recv() != nil && f.Name() == name {
		return false
	}
	inner, _, _ := c09fwdHelper(f, name, 0)
	return inner == call && len(c09sitesOf(f)) > 0
}

// c09writeThrough: call hands a byte buffer to a repository helper that writes exactly that buffer: the helper contains
// ONE Write of a byte buffer (c09ioFwd) and the buffer written is the helper's k-th parameter itself (`flush(dst, p)`
// with `dst.Write(p)` inside: the write block of a copy loop extracted into a function that returns an error only).
// Returns that inner Write and the buffer as the caller names it. Whether the helper treats short and failed writes
// properly is judged on the inner Write, inside the helper (c09checkRelay).
func c09writeThrough(call *ssa.Call) (inner *ssa.Call, buf ssa.Value, ok bool) {
	h := c09bodyOf(&call.Call)
	if h == nil {
		return nil, nil, false
	}
	n := 0
	eachInstr(h, func(i ssa.Instruction) {
		if c, isCall := i.(*ssa.Call); isCall {
			if _, _, isWr := c09ioFwd(c, "Write", 0); isWr {
				inner = c
				n++
			}
		}
	})
	if n != 1 {
		return nil, nil, false
	}
	_, ibuf, _ := c09ioFwd(inner, "Write", 0)
	for k, p := range h.Params {
		if ssa.Value(p) == ibuf && k < len(call.Call.Args) {
			return inner, call.Call.Args[k], true
		}
	}
	return nil, nil, false
}
