package main

// C14.I1, second spelling of the join: the per-service goroutines store their results and signal a sync.WaitGroup
// instead of sending on a channel. Only consulted when a goroutine has no result send.

import (
	"go/token"
	"strings"

	"golang.org/x/tools/go/ssa"
)

func c14isWaitGroupPtr(v ssa.Value) bool {
	t := typeStr(v.Type())
	return strings.HasSuffix(t, "*sync.WaitGroup") || strings.HasSuffix(t, "errgroup.Group")
}

// c14wgOrigins: the WaitGroup variables (local cells, fields, globals) a *sync.WaitGroup value can denote.
func c14wgOrigins(v ssa.Value) map[ssa.Value]bool {
	out := map[ssa.Value]bool{}
	c14derives(v, func(x ssa.Value) bool {
		if !c14isWaitGroupPtr(x) {
			return false
		}
		switch x.(type) {
		case *ssa.Alloc, *ssa.FieldAddr, *ssa.Global:
			out[x] = true
		case *ssa.Extract, *ssa.Call:
			out[x] = true // errgroup.WithContext hands the group out
		}
		return false
	})
	return out
}

func c14wgCall(i ssa.Instruction, method string) (ssa.Value, bool) {
	cc := callCommon(i)
	if cc == nil || cc.IsInvoke() || len(cc.Args) == 0 {
		return nil, false
	}
	if n := calleeName(cc); n != "(*sync.WaitGroup)."+method && !(method == "Wait" && n == "(*golang.org/x/sync/errgroup.Group).Wait") {
		return nil, false
	}
	return cc.Args[0], true
}

func c14isLock(i ssa.Instruction, names ...string) bool {
	call, ok := i.(*ssa.Call)
	if !ok {
		return false
	}
	n := calleeName(&call.Call)
	for _, w := range names {
		if n == "(*sync.Mutex)."+w || n == "(*sync.RWMutex)."+w {
			return true
		}
	}
	return false
}

// c14wgJoin: goroutine g (started by gi) hands the result of the catalog query over through memory and a WaitGroup:
//   - g signals Done on every path (directly, deferred, or in a deferred closure);
//   - every store of a query-derived value in g goes to its own slot of a slice (an index that is not constant) or to a
//     shared variable while a mutex is held;
//   - the spawner adds to the same group before the go statement (Add(1) per goroutine, or Add(len(X)) for the
//     collection X the spawning loop ranges over) and waits for the group after the loop.
func c14wgJoin(gi ssa.CallInstruction, g *ssa.Function, isQueryCall func(ssa.Value) bool) (bool, string) {
	region := c14regionNoGo(g, 3)
	groups := map[ssa.Value]bool{}
	// (*errgroup.Group).Go adds before it starts the function and signals when the function returns
	_, isGoStmt := gi.(*ssa.Go)
	viaErrgroup := !isGoStmt
	if viaErrgroup {
		for o := range c14wgOrigins(gi.Common().Args[0]) {
			groups[o] = true
		}
	}
	isDone := func(i ssa.Instruction) bool {
		if _, isGo := i.(*ssa.Go); isGo {
			return false
		}
		if recv, ok := c14wgCall(i, "Done"); ok {
			for o := range c14wgOrigins(recv) {
				groups[o] = true
			}
			return true
		}
		return false
	}
	signals := func(i ssa.Instruction) bool {
		if isDone(i) {
			return true
		}
		if d, ok := i.(*ssa.Defer); ok {
			for _, df := range c14callees(&d.Call) {
				if df != nil && isRepoFn(df) && mustExec(df, isDone, 1) {
					return true
				}
			}
		}
		return false
	}
	if !viaErrgroup && !mustExec(g, signals, 0) {
		return false, "the goroutine neither sends its result nor signals a sync.WaitGroup on every path"
	}
	if len(groups) == 0 {
		return false, "the WaitGroup the goroutine signals cannot be identified"
	}
	// hand-over stores
	nStores := 0
	why := ""
	eachInstrOf(region, func(f *ssa.Function, i ssa.Instruction) {
		if why != "" {
			return
		}
		var st struct {
			ssa.Instruction
			Addr, Val ssa.Value
		}
		switch x := i.(type) {
		case *ssa.Store:
			st.Instruction, st.Addr, st.Val = x, x.Addr, x.Val
		case *ssa.MapUpdate:
			// a result kept in a shared map (`byName[name] = cfg`): a shared variable like any other
			st.Instruction, st.Addr, st.Val = x, x.Map, x.Value
		default:
			return
		}
		if !c14derives(st.Val, isQueryCall) {
			return
		}
		// locals of the goroutine itself do not hand anything over (what it shares with the spawner is captured or
		// passed in: free variables, parameters, fields)
		if _, isAlloc := st.Addr.(*ssa.Alloc); isAlloc {
			return
		}
		if mm, isLocalMap := st.Addr.(*ssa.MakeMap); isLocalMap && mm.Parent() == f {
			return
		}
		// the place may be handed to the goroutine: `go func(result *[]string) { *result = ... }(&results[slot])`, or a
		// pointer variable the goroutine function captures; what counts is the place at the go statement
		if ia, isElem := c14handoverPlace(st.Addr, gi, g).(*ssa.IndexAddr); isElem {
			if _, isAlloc := ia.X.(*ssa.Alloc); isAlloc {
				return // variadic / literal temporaries
			}
			nStores++
			if _, isK := ia.Index.(*ssa.Const); isK {
				why = "every goroutine stores its result into the same element"
			}
			return
		}
		nStores++
		locked := false
		eachInstr(f, func(l ssa.Instruction) {
			if !c14isLock(l, "Lock") || !dominatesInstr(l, st.Instruction) {
				return
			}
			released := false
			eachInstr(f, func(u ssa.Instruction) {
				if c14isLock(u, "Unlock") && canReach(l, u) && pathAvoiding(u, st.Instruction, func(x ssa.Instruction) bool { return x == l }) {
					released = true
				}
			})
			if !released {
				locked = true
			}
		})
		if !locked {
			why = "the goroutines write their results to a shared variable without holding a mutex (results are lost)"
		}
	})
	if why != "" {
		return false, why
	}
	if nStores == 0 {
		return false, "the goroutine does not hand the result of the catalog query over"
	}
	// the spawner: Add before go, Wait after the loop
	sp := gi.Parent()
	var at ssa.Instruction = gi
	sl := c14innermostLoop(at)
	if sl == nil && sp != nil && len(gSites[sp]) == 1 && onlyStaticallyCalled(sp) {
		at = gSites[sp][0]
		sl = c14innermostLoop(at)
	}
	if sl == nil {
		return false, "the go statement is not in a loop"
	}
	same := func(recv ssa.Value) bool {
		for o := range c14wgOrigins(recv) {
			if groups[o] {
				return true
			}
		}
		return false
	}
	added, waited := viaErrgroup, false
	coll, _ := c14loopCount(sl)
	for _, f := range []*ssa.Function{gi.Parent(), at.Parent()} {
		if f == nil {
			continue
		}
		eachInstr(f, func(i ssa.Instruction) {
			if recv, ok := c14wgCall(i, "Add"); ok && same(recv) {
				cc := callCommon(i)
				if k, isK := constInt(cc.Args[1]); isK && k == 1 && f == gi.Parent() && dominatesInstr(i, gi) && c14sameLoop(c14innermostLoop(i), c14innermostLoop(gi)) {
					added = true
				}
				if lc, isCall := cc.Args[1].(*ssa.Call); isCall && calleeName(&lc.Call) == "builtin.len" && coll != nil && c14resolveArg(lc.Call.Args[0]) == c14resolveArg(coll) && f == at.Parent() && !sl.Body[i.Block()] && dominatesInstr(i, at) {
					added = true
				}
			}
			if recv, ok := c14wgCall(i, "Wait"); ok && same(recv) && f == at.Parent() {
				if !c14isSpawn(i) && !sl.Body[i.Block()] && sl.Head.Dominates(i.Block()) {
					waited = true
				}
			}
		})
	}
	if !added {
		return false, "the spawner does not add to the WaitGroup before each go statement"
	}
	if !waited {
		return false, "the spawner does not wait for the WaitGroup after the spawning loop"
	}
	return true, ""
}

// c14handoverPlace: the place a store of goroutine g (started by gi) writes to, seen from the spawner: a pointer
// parameter of g is the argument of the go statement, a pointer parameter of a helper with one call site the argument
// there, a pointer kept in a captured variable (or a local one) the one value assigned to it.
func c14handoverPlace(addr ssa.Value, gi ssa.CallInstruction, g *ssa.Function) ssa.Value {
	for d := 0; d < 6; d++ {
		switch x := addr.(type) {
		case *ssa.ChangeType:
			addr = x.X
		case *ssa.FieldAddr:
			addr = x.X // a field of the slot (`s.cfg = ...` with s the goroutine's own element) is the slot
		case *ssa.Parameter:
			if x.Parent() == g && gi != nil {
				args := gi.Common().Args
				if _, isGo := gi.(*ssa.Go); !isGo || gi.Common().IsInvoke() {
					return addr
				}
				for k, p := range g.Params {
					if p == x && len(args) == len(g.Params) {
						addr = args[k]
					}
				}
			} else {
				addr = c14resolveArg(x)
			}
			if addr == ssa.Value(x) {
				return addr
			}
		case *ssa.UnOp:
			// a load of a pointer variable: its single assignment
			if x.Op != token.MUL {
				return addr
			}
			cell := c14resolveArg(x.X) // a captured variable: the cell in the maker
			al, ok := cell.(*ssa.Alloc)
			if !ok || al.Referrers() == nil {
				return addr
			}
			var val ssa.Value
			n := 0
			for _, r := range *al.Referrers() {
				if st, isStore := r.(*ssa.Store); isStore && st.Addr == al {
					val = st.Val
					n++
				}
			}
			if n != 1 {
				return addr
			}
			addr = val
		default:
			return addr
		}
	}
	return addr
}

func c14sameLoop(a, b *loop) bool {
	return a != nil && b != nil && a.Head == b.Head
}
