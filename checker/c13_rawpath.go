package main

// C13.E3 - Path and RawPath of the location are written in lockstep.
//
// net/url renders a URL from RawPath when RawPath is a valid encoding of Path and from Path otherwise; the builder
// keeps the client's percent-encoding ("every request path (including percent-encoded characters)") by substituting
// $path twice, with the decoded request path in Path and with the encoded one in RawPath. That only works while the
// two fields carry the template in step: a write of a template- or request-bearing value into Path that leaves RawPath
// as it was makes the later substitution in RawPath a no-op, RawPath then is no encoding of Path, and %2F in the request
// comes out as '/' in the Location. Structural necessary condition, decided per store: in package route every store of
// such a value into the Path field of a url.URL is accompanied by a store into RawPath of the same URL (same access
// path) in the same basic block or in a block the store's block dominates.
//
// Not decided by it: the text of the Location (string contents); a builder that keeps path and raw path in local
// strings and assembles the URL once is checked at that one assembly only.

import (
	"strings"

	"golang.org/x/tools/go/ssa"
)

func runC13E3(c *Ctx) {
	const rule = "C13.E3"
	b := c13findBuilders(c)
	fns := c.fnsWhere("route", func(*ssa.Function) bool { return true })
	bearing := func(v ssa.Value) bool {
		return derives(v, func(x ssa.Value) bool {
			if s, ok := constString(x); ok && strings.Contains(s, "$path") {
				return true
			}
			if call, ok := x.(*ssa.Call); ok {
				if vr, _, ok := c13subst(&call.Call); ok && vr == "$path" {
					return true
				}
			}
			return b.isParam(x)
		})
	}
	type key struct {
		f    *ssa.Function
		base string
	}
	pathStores := map[key][]*ssa.Store{}
	rawStores := map[key][]*ssa.Store{}
	for _, f := range fns {
		eachInstr(f, func(i ssa.Instruction) {
			st, ok := i.(*ssa.Store)
			if !ok {
				return
			}
			fa, ok := st.Addr.(*ssa.FieldAddr)
			if !ok || !namedIs(fa.X.Type(), "url.URL") {
				return
			}
			k := key{f, accessPath(fa.X)}
			switch fieldName(fa.X.Type(), fa.Field) {
			case "Path":
				pathStores[k] = append(pathStores[k], st)
			case "RawPath":
				rawStores[k] = append(rawStores[k], st)
			}
		})
	}
	n := 0
	for k, sts := range pathStores {
		for _, st := range sts {
			if !bearing(st.Val) {
				continue
			}
			n++
			ok := false
			for _, r := range rawStores[k] {
				if r.Block() == st.Block() || st.Block().Dominates(r.Block()) {
					ok = true
				}
			}
			c.check(rule, fnKey(k.f)+"|RawPath written together with Path of "+k.base, st.Pos(), ok,
				"a template- or request-bearing value is stored into the Path of the redirect location while RawPath keeps its old value: the $path substitution in RawPath then has nothing to replace, RawPath is no encoding of Path any more and net/url renders the Location from the decoded Path - a request for /a%2Fb is redirected to /a/b (clause: $path is this request's path, including percent-encoded characters)")
		}
	}
	c.atLeast(rule, "stores of a template- or request-bearing value into the Path of a url.URL in package route", n, 1)
}

func init() {
	const f = "route/target.go"
	const old = "\t\tt.RedirectURL.Path = \"$path\"\n"
	addRound4("C13", "(E3) in package route every store of a template- or request-bearing value into the Path of a url.URL is accompanied (same block, or a block it dominates) by a store into RawPath of the same URL, so that the $path substitution keeps the request's percent-encoding.", runC13E3,
		mutant{Name: "$path glued to the host: only Path receives the template", File: f,
			Old: old + "\t\tt.RedirectURL.RawPath = \"$path\"\n", New: old, Expect: "C13.E3"},
		mutant{Name: "slash before $path removed in Path only", File: f,
			Old: "\t\tt.RedirectURL.RawPath = strings.Replace(t.RedirectURL.RawPath, \"/$path\", \"$path\", 1)\n", New: "", Expect: "C13.E3"},
		mutant{Name: "substitution in Path only", File: f,
			Old: "\t\tt.RedirectURL.RawPath = strings.Replace(t.RedirectURL.RawPath, \"$path\", replaceRawPath, 1)\n", New: "\t\t_ = replaceRawPath\n", Expect: "C13.E3"},
		mutant{Name: "benign: RawPath set after Path, only when the request has an encoded path", File: f,
			Old: "\t\tt.RedirectURL.RawPath = strings.Replace(t.RedirectURL.RawPath, \"$path\", replaceRawPath, 1)\n",
			New: "\t\tif replaceRawPath != replacePath {\n\t\t\tt.RedirectURL.RawPath = strings.Replace(t.RedirectURL.RawPath, \"$path\", replaceRawPath, 1)\n\t\t} else {\n\t\t\tt.RedirectURL.RawPath = \"\"\n\t\t}\n", Expect: ""},
		mutant{Name: "benign: both fields through a local pointer", File: f,
			Old: old + "\t\tt.RedirectURL.RawPath = \"$path\"\n",
			New: "\t\tu := t.RedirectURL\n\t\tu.Path, u.RawPath = \"$path\", \"$path\"\n", Expect: ""},
	)
}
