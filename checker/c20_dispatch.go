package main

// C20: how values travel through DYNAMIC calls (function values, interface methods).
//
// The field renderers of the access logger are dispatched dynamically, and refactorings like to put one more dynamic
// layer in between: nil-guard decorators (requestString(func(r *http.Request) string {...})), selector functions
// (urlField(requestURL, (*url.URL).String)), a renderer interface instead of a func type, a small context struct
// instead of two parameters. The shared `derives` stops at a dynamic call (it cannot name the callee) and at the
// parameter of a function that is only ever called dynamically (it has no call site). The helpers below continue there:
//
//   - c20FuncsOf resolves a function-typed value also through the parameters of the functions that received it
//     (to the arguments at their static call sites, package initialisers included);
//   - c20Derives follows the RESULT of a dynamic call into the functions the callee may denote;
//   - c20Index.relays says that a parameter belongs to a function that is entered through dynamic calls only, so that
//     a rule can argue by induction: "every dynamic call passes a good value or passes on its own such parameter".

import (
	"go/token"
	"go/types"
	"strings"

	"golang.org/x/tools/go/ssa"
)

type c20Index struct {
	c         *Ctx
	sites     map[*ssa.Function][]ssa.CallInstruction // static call sites, synthetic package initialisers included
	addrTaken map[*ssa.Function]bool                  // used as a value (closure handed on, named function / method value)
	invoked   map[string][]types.Type                 // method name -> the interface types it is called through
}

var c20idx *c20Index

// c20Idx builds (once per load) the index of static call sites and of functions used as values, over every function
// of the repository INCLUDING the synthetic package initialisers, which the shared gSites / gAddrTaken leave out.
func c20Idx(c *Ctx) *c20Index {
	if c20idx != nil && c20idx.c == c {
		return c20idx
	}
	ix := &c20Index{c: c, sites: map[*ssa.Function][]ssa.CallInstruction{}, addrTaken: map[*ssa.Function]bool{}, invoked: map[string][]types.Type{}}
	for _, f := range c20AllFns(c) {
		eachInstr(f, func(i ssa.Instruction) {
			cc := callCommon(i)
			if ci, ok := i.(ssa.CallInstruction); ok {
				if sc := ci.Common().StaticCallee(); sc != nil && isRepoFn(sc) {
					ix.sites[sc] = append(ix.sites[sc], ci)
					if u := unwrap(sc); u != sc {
						ix.sites[u] = append(ix.sites[u], ci)
					}
				}
			}
			if cc != nil && cc.IsInvoke() {
				ix.invoked[cc.Method.Name()] = append(ix.invoked[cc.Method.Name()], cc.Value.Type())
			}
			mc, isMC := i.(*ssa.MakeClosure)
			for _, op := range i.Operands(nil) {
				if op == nil || *op == nil || (cc != nil && !cc.IsInvoke() && *op == cc.Value) {
					continue
				}
				if isMC && *op == mc.Fn {
					continue // making the closure is not a use; uses of the closure VALUE count
				}
				switch x := (*op).(type) {
				case *ssa.Function:
					ix.addrTaken[x], ix.addrTaken[unwrap(x)] = true, true
				case *ssa.MakeClosure:
					if fn, ok := x.Fn.(*ssa.Function); ok {
						ix.addrTaken[fn], ix.addrTaken[unwrap(fn)] = true, true
					}
				}
			}
		})
	}
	c20idx = ix
	return ix
}

// dynamicOnly: g is entered through dynamic calls only: it has no static call site, and it is used as a value (a
// closure or named function handed on) or is a method that some interface call may select.
func (ix *c20Index) dynamicOnly(g *ssa.Function) bool {
	if g == nil || len(ix.sites[g]) > 0 {
		return false
	}
	if ix.addrTaken[g] {
		return true
	}
	return ix.mayBeInvoked(g)
}

// mayBeInvoked: g is a method that some interface call in the repository can select.
func (ix *c20Index) mayBeInvoked(g *ssa.Function) bool {
	return g != nil && g.Signature.Recv() != nil && c20MayBeInvoked(g, ix.invoked[g.Name()])
}

// entersDynamically: g can be entered through a dynamic call (used as a value, or a method behind an interface).
func (ix *c20Index) entersDynamically(g *ssa.Function) bool {
	return g != nil && (ix.addrTaken[g] || ix.mayBeInvoked(g))
}

// c20IsDynamic: a call of a function value or of an interface method (not a static call, not a builtin).
func c20IsDynamic(cc *ssa.CallCommon) bool {
	if cc == nil || cc.StaticCallee() != nil {
		return false
	}
	if _, isB := cc.Value.(*ssa.Builtin); isB {
		return false
	}
	return true
}

// c20FuncsOf: the functions a function-typed value may denote. Like the shared funcsOf, and in addition through the
// parameters of repository functions to the arguments at their static call sites (an adapter's `value func(...)`
// parameter denotes what the table of renderers passes), through captured variables bound to such parameters, and
// through method expressions / bound methods of library types (returned without a body).
func c20FuncsOf(v ssa.Value) []*ssa.Function {
	var out []*ssa.Function
	seen := map[ssa.Value]bool{}
	var walk func(x ssa.Value, d int)
	walk = func(x ssa.Value, d int) {
		if x == nil || seen[x] || d > 8 {
			return
		}
		seen[x] = true
		switch y := x.(type) {
		case *ssa.Function:
			out = append(out, unwrap(y))
		case *ssa.MakeClosure:
			if fn, ok := y.Fn.(*ssa.Function); ok {
				out = append(out, unwrap(fn))
			}
		case *ssa.Phi:
			for _, e := range y.Edges {
				walk(e, d+1)
			}
		case *ssa.ChangeType:
			walk(y.X, d+1)
		case *ssa.MakeInterface:
			walk(y.X, d+1)
		case *ssa.Extract:
			walk(y.Tuple, d+1)
		case *ssa.UnOp:
			if y.Op == token.MUL {
				for _, dd := range defsOf(y) {
					if dd.Val != x {
						walk(dd.Val, d+1)
					}
				}
				if fv, ok := y.X.(*ssa.FreeVar); ok {
					walk(fv, d+1)
				}
			}
		case *ssa.FreeVar:
			fn := y.Parent()
			if fn == nil || fn.Parent() == nil {
				return
			}
			k := -1
			for j, fv := range fn.FreeVars {
				if fv == y {
					k = j
				}
			}
			eachInstr(fn.Parent(), func(i ssa.Instruction) {
				if mc, ok := i.(*ssa.MakeClosure); ok && mc.Fn == fn && k >= 0 && k < len(mc.Bindings) {
					b := mc.Bindings[k]
					walk(b, d+1)
					if a, ok := b.(*ssa.Alloc); ok {
						for _, r := range *a.Referrers() {
							if st, ok := r.(*ssa.Store); ok && st.Addr == a {
								walk(st.Val, d+1)
							}
						}
					}
				}
			})
		case *ssa.Parameter:
			fn := y.Parent()
			if fn == nil || c20idx == nil {
				return
			}
			k := -1
			for j, q := range fn.Params {
				if q == y {
					k = j
				}
			}
			for _, s := range c20idx.sites[fn] {
				if args := s.Common().Args; k >= 0 && k < len(args) {
					walk(args[k], d+1)
				}
			}
		case *ssa.Call:
			if sc := y.Call.StaticCallee(); sc != nil && isRepoFn(sc) {
				eachInstr(sc, func(i ssa.Instruction) {
					if r, ok := i.(*ssa.Return); ok {
						for _, res := range r.Results {
							walk(res, d+1)
						}
					}
				})
			}
		}
	}
	walk(v, 0)
	return out
}

// c20Derives: the shared derives, continued through the results of dynamic calls: the value returned by `value(u)`
// derives from what the functions `value` may denote return; a library function among them (a method expression such
// as (*url.URL).String) is transparent in its arguments when the shared list says so.
func c20Derives(v ssa.Value, pred func(ssa.Value) bool) bool {
	return c20DerivesD(v, pred, 0)
}

func c20DerivesD(v ssa.Value, pred func(ssa.Value) bool, depth int) bool {
	return derives(v, func(x ssa.Value) bool {
		if pred(x) {
			return true
		}
		call, ok := x.(*ssa.Call)
		if !ok || depth >= 3 || call.Call.IsInvoke() || !c20IsDynamic(&call.Call) {
			return false
		}
		for _, fn := range c20FuncsOf(call.Call.Value) {
			if len(fn.Blocks) == 0 || !isRepoFn(fn) {
				if isTransparent(funcName(fn)) {
					for _, a := range call.Call.Args {
						if c20DerivesD(a, pred, depth+1) {
							return true
						}
					}
				}
				continue
			}
			found := false
			eachInstr(fn, func(i ssa.Instruction) {
				if r, isR := i.(*ssa.Return); isR && !found {
					for _, res := range r.Results {
						if c20DerivesD(res, pred, depth+1) {
							found = true
							return
						}
					}
				}
			})
			if found {
				return true
			}
		}
		return false
	})
}

// c20Carries: a value of type t is, points to, or is a small struct holding (a pointer to) the named type
// ("logger.Event", "time.Time"): what a renderer is handed - the event itself or a context struct around it.
func c20Carries(t types.Type, named string, depth int) bool {
	if namedIs(t, named) {
		return true
	}
	if depth > 1 || named == "" {
		return false
	}
	if p, ok := t.Underlying().(*types.Pointer); ok {
		t = p.Elem()
	}
	if n, ok := t.(*types.Named); ok && n.Obj().Pkg() != nil && !c20RepoPkg(n.Obj().Pkg().Path()) {
		return false // library structs (http.Request ...) are not wrappers of ours
	}
	st, ok := t.Underlying().(*types.Struct)
	if !ok {
		return false
	}
	for k := 0; k < st.NumFields(); k++ {
		if c20Carries(st.Field(k).Type(), named, depth+1) {
			return true
		}
	}
	return false
}

func c20RepoPkg(path string) bool {
	return strings.HasPrefix(path, repoMod)
}
