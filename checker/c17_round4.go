package main

// Round 4 (DESIGN 11.12) of C17. Both new breaking changes were reported before, but by rules that would also have
// fired on the CORRECT implementation of the same idea, so no new rule was added; two existing rules were repaired:
//
//   - C17.D1 "gzip response writer only when the client accepts gzip" knew one spelling of acceptance
//     (strings.Contains / strings.Index of the whole header value). Its atom (c17_facts.go: atomAcceptsGzip) now states the
//     condition: on every path to the verdict `accepts`, a string cut out of the request's Accept-Encoding is found to
//     name gzip (==, a case of a switch, EqualFold, Contains, HasPrefix/HasSuffix, Index against a constant containing
//     "gzip"), or to be the wildcard "*" together with a weight parsed from the same header found to be positive.
//     Facts are now also established at joins (`case "gzip", "x-gzip":`) when every incoming edge establishes them.
//     A token parser without the wildcard, and one that honours q-values, are silent; `*` without a look at its q-value
//     (seeded/C17-7: `*;q=0` is the refusal idiom), another coding, `q >= 0` are reported.
//
//   - C17.T2 "Close before Put" / "no use after Put" evaluated every method of the response writer on its own, so a
//     release method that only recycles (the stream is finished by Close, which the handler runs first) was reported
//     whatever the order. The typestate engine (c17_flow.go) now starts at the methods that code outside the region can
//     call and at the HANDLER; a method whose call sites are all visible static calls in the region is evaluated in the
//     context of its callers, with the handler's deferred calls replayed last-in-first-out, and the engine no longer
//     follows paths on which two tests of the gzip-writer field disagree. `defer release(); defer Close()` is silent,
//     `defer Close(); defer release()` (seeded/C17-8) is reported at the Put and at the late Close.
//
// This file holds the overlay mutants of both repairs.

import "strings"

const (
	c17r4strconv = "\t\"regexp\"\n"
	c17r4qParse  = "\t\tq := 1.0\n\t\tif v, ok := strings.CutPrefix(strings.TrimSpace(params), \"q=\"); ok {\n\t\t\tif f, err := strconv.ParseFloat(v, 64); err == nil {\n\t\t\t\tq = f\n\t\t\t}\n\t\t}\n"
	c17r4loop    = "\tfor _, enc := range strings.Split(r.Header.Get(headerAcceptEncoding), \",\") {\n"
	// Close finishes the stream and reports its error; release recycles
	c17r4split      = "func (grw *GzipResponseWriter) Close() error {\n\tif grw.gzipWriter == nil {\n\t\treturn nil\n\t}\n\treturn grw.gzipWriter.Close()\n}\n\nfunc (grw *GzipResponseWriter) release() {\n\tif grw.gzipWriter != nil {\n\t\tgzipWriterPool.Put(grw.gzipWriter)\n\t}\n}\n"
	c17r4splitClear = "func (grw *GzipResponseWriter) Close() error {\n\tif grw.gzipWriter == nil {\n\t\treturn nil\n\t}\n\treturn grw.gzipWriter.Close()\n}\n\nfunc (grw *GzipResponseWriter) release() {\n\tif grw.gzipWriter != nil {\n\t\tgzipWriterPool.Put(grw.gzipWriter)\n\t\tgrw.gzipWriter = nil\n\t}\n}\n"
	c17r4defer      = "\t\t\tdefer gzWriter.Close()\n"
)

func c17round4Mutants() []mutant {
	b := func(name, old, new string, more ...repl) mutant {
		return mutant{Name: "benign: " + name, File: c17file, Old: old, New: new, More: more, Expect: ""}
	}
	x := func(name, expect, old, new string, more ...repl) mutant {
		return mutant{Name: name, File: c17file, Old: old, New: new, More: more, Expect: expect}
	}
	withStrconv := repl{c17r4strconv, "\t\"regexp\"\n\t\"strconv\"\n"}
	tokens := func(body string) string {
		return c17r4loop + "\t\tcoding, _, _ := strings.Cut(enc, \";\")\n" + body + "\t}\n\treturn false\n"
	}
	weighted := func(pre, body, ret string) string {
		return pre + c17r4loop + "\t\tcoding, params, _ := strings.Cut(enc, \";\")\n" + c17r4qParse + body + "\t}\n" + ret
	}
	return []mutant{
		// ---- seeded/C17-7: who accepts gzip ------------------------------------------------------------------------
		x("r4: token parser that also accepts the wildcard (seeded/C17-7)", "C17.D1", c17srcAcceptRet,
			tokens("\t\tswitch strings.ToLower(strings.TrimSpace(coding)) {\n\t\tcase encodingGzip, \"x-gzip\", \"*\":\n\t\t\treturn true\n\t\t}\n")),
		x("r4: q-value honoured for gzip but not for the wildcard", "C17.D1", c17srcAcceptRet,
			weighted("", "\t\tswitch strings.ToLower(strings.TrimSpace(coding)) {\n\t\tcase encodingGzip, \"x-gzip\":\n\t\t\treturn q > 0\n\t\tcase \"*\":\n\t\t\treturn true\n\t\t}\n", "\treturn false\n"), withStrconv),
		x("r4: wildcard accepted with q >= 0", "C17.D1", c17srcAcceptRet,
			weighted("\twildcard := false\n", "\t\tswitch strings.ToLower(strings.TrimSpace(coding)) {\n\t\tcase encodingGzip, \"x-gzip\":\n\t\t\treturn q > 0\n\t\tcase \"*\":\n\t\t\twildcard = q >= 0\n\t\t}\n", "\treturn wildcard\n"), withStrconv),
		x("r4: token parser that takes deflate for gzip", "C17.D1", c17srcAcceptRet,
			tokens("\t\tif t := strings.TrimSpace(coding); t == encodingGzip || t == \"deflate\" {\n\t\t\treturn true\n\t\t}\n")),
		x("r4: wildcard test in a helper of the token parser", "C17.D1", c17srcAcceptRet,
			tokens("\t\tif t := strings.TrimSpace(coding); strings.EqualFold(t, encodingGzip) || anyCoding(t) {\n\t\t\treturn true\n\t\t}\n"),
			repl{"func isCompressable(", "func anyCoding(t string) bool { return t == \"*\" }\n\nfunc isCompressable("}),
		b("r4: token parser for gzip and x-gzip, no wildcard", c17srcAcceptRet,
			tokens("\t\tswitch strings.ToLower(strings.TrimSpace(coding)) {\n\t\tcase encodingGzip, \"x-gzip\":\n\t\t\treturn true\n\t\t}\n")),
		b("r4: token parser that honours q-values, wildcard with q > 0", c17srcAcceptRet,
			weighted("\twildcard := false\n", "\t\tswitch strings.ToLower(strings.TrimSpace(coding)) {\n\t\tcase encodingGzip, \"x-gzip\":\n\t\t\treturn q > 0\n\t\tcase \"*\":\n\t\t\twildcard = q > 0\n\t\t}\n", "\treturn wildcard\n"), withStrconv),
		b("r4: codings with q=0 skipped before the switch, wildcard accepted", c17srcAcceptRet,
			weighted("", "\t\tif q <= 0 {\n\t\t\tcontinue\n\t\t}\n\t\tswitch strings.ToLower(strings.TrimSpace(coding)) {\n\t\tcase encodingGzip, \"x-gzip\", \"*\":\n\t\t\treturn true\n\t\t}\n", "\treturn false\n"), withStrconv),
		b("r4: tokens of all Accept-Encoding lines compared with EqualFold", c17srcAcceptRet,
			"\tfor _, line := range r.Header.Values(headerAcceptEncoding) {\n\t\tfor _, enc := range strings.Split(line, \",\") {\n\t\t\tcoding, _, _ := strings.Cut(enc, \";\")\n\t\t\tif strings.EqualFold(strings.TrimSpace(coding), encodingGzip) {\n\t\t\t\treturn true\n\t\t\t}\n\t\t}\n\t}\n\treturn false\n"),
		b("r4: wildcard accepted under an explicit weight test", c17srcAcceptRet,
			weighted("", "\t\tt := strings.TrimSpace(coding)\n\t\tif t == encodingGzip {\n\t\t\treturn true\n\t\t}\n\t\tif t == \"*\" && q > 0 {\n\t\t\treturn true\n\t\t}\n", "\treturn false\n"), withStrconv),

		// ---- seeded/C17-8: finish the stream, then recycle the writer --------------------------------------------------
		x("r4: Close and release split, release deferred last so it runs first (seeded/C17-8)", "C17.T2", c17srcClose, c17r4split,
			repl{c17r4defer, "\t\t\tdefer gzWriter.Close()\n\t\t\tdefer gzWriter.release()\n"}),
		x("r4: Close and release split, one deferred closure releases first", "C17.T2", c17srcClose, c17r4split,
			repl{c17r4defer, "\t\t\tdefer func() {\n\t\t\t\tgzWriter.release()\n\t\t\t\tgzWriter.Close()\n\t\t\t}()\n"}),
		x("r4: gzip Close deferred inside Close, Put runs before it", "C17.T2", "\t\tgrw.gzipWriter.Close()\n\t\tgzipWriterPool.Put(grw.gzipWriter)\n",
			"\t\tdefer grw.gzipWriter.Close()\n\t\tgzipWriterPool.Put(grw.gzipWriter)\n"),
		x("r4: release clears the field and runs first, the stream is never finished", "C17.T2", c17srcClose, c17r4splitClear,
			repl{c17r4defer, "\t\t\tdefer gzWriter.Close()\n\t\t\tdefer gzWriter.release()\n"}),
		b("r4: Close and release split, release deferred first so it runs last", c17srcClose, c17r4split,
			repl{c17r4defer, "\t\t\tdefer gzWriter.release()\n\t\t\tdefer gzWriter.Close()\n"}),
		b("r4: Close and release split, one deferred closure closes, logs, releases", c17srcClose, c17r4split,
			repl{c17r4defer, "\t\t\tdefer func() {\n\t\t\t\tif err := gzWriter.Close(); err != nil {\n\t\t\t\t\tlog.Printf(\"[WARN] gzip: %s\", err)\n\t\t\t\t}\n\t\t\t\tgzWriter.release()\n\t\t\t}()\n"},
			repl{"\t\"io\"\n", "\t\"io\"\n\t\"log\"\n"}),
		b("r4: Close and an exported Release, Release deferred first so it runs last", c17srcClose, strings.ReplaceAll(c17r4split, "release()", "Release()"),
			repl{c17r4defer, "\t\t\tdefer gzWriter.Release()\n\t\t\tdefer gzWriter.Close()\n"}),
		x("r4: Close and an exported Release, Release deferred last so it runs first", "C17.T2", c17srcClose, strings.ReplaceAll(c17r4split, "release()", "Release()"),
			repl{c17r4defer, "\t\t\tdefer gzWriter.Close()\n\t\t\tdefer gzWriter.Release()\n"}),
		b("r4: Close and release split, release clears the field, right order", c17srcClose, c17r4splitClear,
			repl{c17r4defer, "\t\t\tdefer gzWriter.release()\n\t\t\tdefer gzWriter.Close()\n"}),
	}
}
