package main

// C01 rules K1, M1 (config builder) and B1, B2 (table updater).

import (
	"go/token"
	"go/types"
	"strings"

	"golang.org/x/tools/go/ssa"
)

// ---- K1: key shapes ------------------------------------------------------------------------------------------------

// c01Shape is a string-building expression rendered as the sequence of struct fields and constant separators it is
// made of; owners are the struct types the fields belong to.
type c01Shape struct {
	parts  []string
	owners map[string]bool
}

func (s c01Shape) String() string { return strings.Join(s.parts, "+") }

// keyShape renders v; helper functions are looked through (their parameters stand for the arguments).
func keyShape(v ssa.Value) ([]string, bool) {
	sh, ok := c01KeyShape(v, nil, 0)
	return sh.parts, ok
}

func c01KeyShape(v ssa.Value, fr *c01Frame, depth int) (c01Shape, bool) {
	out := c01Shape{owners: map[string]bool{}}
	if depth > 12 {
		return out, false
	}
	join := func(subs ...c01Shape) c01Shape {
		r := c01Shape{owners: map[string]bool{}}
		for _, s := range subs {
			r.parts = append(r.parts, s.parts...)
			for o := range s.owners {
				r.owners[o] = true
			}
		}
		return r
	}
	field := func(x ssa.Value, idx int) (c01Shape, bool) {
		t := x.Type()
		if p, ok := t.Underlying().(*types.Pointer); ok {
			t = p.Elem()
		}
		r := c01Shape{parts: []string{fieldName(x.Type(), idx)}, owners: map[string]bool{typeStr(t): true}}
		return r, true
	}
	switch x := v.(type) {
	case *ssa.BinOp:
		if x.Op == token.ADD {
			l, ok1 := c01KeyShape(x.X, fr, depth+1)
			r, ok2 := c01KeyShape(x.Y, fr, depth+1)
			return join(l, r), ok1 && ok2
		}
	case *ssa.Const:
		if s, ok := constString(x); ok {
			if s == "" {
				return out, true
			}
			out.parts = []string{"\"" + s + "\""}
			return out, true
		}
	case *ssa.ChangeType:
		return c01KeyShape(x.X, fr, depth+1)
	case *ssa.MakeInterface:
		return c01KeyShape(x.X, fr, depth+1)
	case *ssa.UnOp:
		if x.Op == token.MUL {
			if fa, ok := x.X.(*ssa.FieldAddr); ok {
				return field(fa.X, fa.Field)
			}
			if a, ok := x.X.(*ssa.Alloc); ok {
				// a local variable with one assignment
				if sv := c01StoresInto(a); len(sv) == 1 {
					return c01KeyShape(sv[0], fr, depth+1)
				}
				// a struct key: instKey{node, id} - the fields in declaration order
				if pt, ok := a.Type().Underlying().(*types.Pointer); ok {
					if st, ok := pt.Elem().Underlying().(*types.Struct); ok && st.NumFields() > 0 {
						fs := fieldStores(a)
						for k := 0; k < st.NumFields(); k++ {
							stores := fs[st.Field(k).Name()]
							if len(stores) != 1 {
								return out, false
							}
							sh, ok := c01KeyShape(stores[0].Val, fr, depth+1)
							if !ok {
								return out, false
							}
							if k > 0 {
								out.parts = append(out.parts, "\".\"")
							}
							out = join(out, sh)
						}
						return out, true
					}
				}
			}
		}
	case *ssa.Field:
		return field(x.X, x.Field)
	case *ssa.Parameter:
		fn := x.Parent()
		idx := c01ParamIndex(x)
		if fr != nil && fr.call.Call.StaticCallee() == fn && idx >= 0 && idx < len(fr.call.Call.Args) {
			return c01KeyShape(fr.call.Call.Args[idx], fr.up, depth+1)
		}
		if fr == nil && idx >= 0 && !gAddrTaken[fn] {
			// the key is built inside a helper / method (s.has(node, id)): the shape the callers pass, if they agree
			var res c01Shape
			sites := gSites[fn]
			for k, s := range sites {
				cc := s.Common()
				if idx >= len(cc.Args) {
					return out, false
				}
				sh, ok := c01KeyShape(cc.Args[idx], nil, depth+1)
				if !ok || (k > 0 && sh.String() != res.String()) {
					return out, false
				}
				if k == 0 {
					res = sh
				} else {
					res = join(res, c01Shape{owners: sh.owners})
				}
			}
			if len(sites) > 0 {
				return res, true
			}
		}
	case *ssa.Call:
		n := calleeName(&x.Call)
		switch n {
		case "fmt.Sprintf":
			format, ok := constString(x.Call.Args[0])
			if !ok {
				return out, false
			}
			args := c01Variadic(x.Call.Args[1])
			ai, lit := 0, ""
			flush := func() {
				if lit != "" {
					out.parts = append(out.parts, "\""+lit+"\"")
					lit = ""
				}
			}
			for k := 0; k < len(format); k++ {
				if format[k] == '%' && k+1 < len(format) && (format[k+1] == 's' || format[k+1] == 'v') {
					flush()
					if ai >= len(args) {
						return out, false
					}
					sh, ok := c01KeyShape(args[ai], fr, depth+1)
					if !ok {
						return out, false
					}
					out = join(out, sh)
					ai++
					k++
					continue
				}
				lit += string(format[k])
			}
			flush()
			return out, true
		case "strings.Join":
			sep, ok := constString(x.Call.Args[1])
			elems := c01Variadic(x.Call.Args[0])
			if !ok || len(elems) == 0 {
				return out, false
			}
			for k, e := range elems {
				sh, ok := c01KeyShape(e, fr, depth+1)
				if !ok {
					return out, false
				}
				if k > 0 && sep != "" {
					out.parts = append(out.parts, "\""+sep+"\"")
				}
				out = join(out, sh)
			}
			return out, true
		}
		// a repository helper that builds the key: a single return, parameters stand for the arguments
		if sc := x.Call.StaticCallee(); sc != nil && isRepoFn(sc) && len(sc.Blocks) > 0 && fr.depth() < 3 {
			var rets []*ssa.Return
			eachInstr(sc, func(i ssa.Instruction) {
				if r, ok := i.(*ssa.Return); ok {
					rets = append(rets, r)
				}
			})
			if len(rets) == 1 && len(rets[0].Results) == 1 {
				return c01KeyShape(rets[0].Results[0], &c01Frame{x, fr}, depth+1)
			}
		}
	}
	return out, false
}

// c01Variadic: the elements of a slice literal / variadic argument pack.
func c01Variadic(v ssa.Value) []ssa.Value {
	sl, ok := v.(*ssa.Slice)
	if !ok {
		return nil
	}
	arr, ok := sl.X.(*ssa.Alloc)
	if !ok {
		return nil
	}
	byIdx := map[int64]ssa.Value{}
	for _, r := range *arr.Referrers() {
		if ia, ok := r.(*ssa.IndexAddr); ok {
			k, _ := constInt(ia.Index)
			for _, r2 := range *ia.Referrers() {
				if st, ok := r2.(*ssa.Store); ok && st.Addr == ia {
					byIdx[k] = stripIface(st.Val)
				}
			}
		}
	}
	var out []ssa.Value
	for k := int64(0); k < int64(len(byIdx)); k++ {
		out = append(out, byIdx[k])
	}
	return out
}

func c01OwnerHas(s c01Shape, typ string) bool {
	for o := range s.owners {
		if strings.HasSuffix(o, typ) {
			return true
		}
	}
	return false
}

func runC01K1(c *Ctx, builder *ssa.Function) {
	// readers: map lookups keyed by fields of a catalog entry, in the functions the builder reaches;
	// writers: map updates keyed by fields of a health check, into a map of the same type
	type site struct {
		shape c01Shape
		typ   string
		pos   token.Pos
	}
	var readers, writers []site
	for f := range c.reach(builder) {
		if rootPkg(f) != rootPkg(builder) {
			continue
		}
		eachInstr(f, func(i ssa.Instruction) {
			switch x := i.(type) {
			case *ssa.Lookup:
				if _, isMap := x.X.Type().Underlying().(*types.Map); !isMap {
					return
				}
				if sh, ok := c01KeyShape(x.Index, nil, 0); ok && c01OwnerHas(sh, apiPkg+".CatalogService") {
					readers = append(readers, site{sh, typeStr(x.X.Type().Underlying()), x.Pos()})
				}
			case *ssa.MapUpdate:
				if sh, ok := c01KeyShape(x.Key, nil, 0); ok && c01OwnerHas(sh, apiPkg+".HealthCheck") {
					writers = append(writers, site{sh, typeStr(x.Map.Type().Underlying()), x.Pos()})
				}
			}
		})
	}
	n := 0
	for _, r := range readers {
		for _, w := range writers {
			if w.typ != r.typ {
				continue
			}
			n++
			c.check("C01.K1", fnKey(builder)+"|instance key written = key looked up", r.pos, w.shape.String() == r.shape.String(),
				"the config builder records passing instances under "+w.shape.String()+" but the per-service step looks them up under "+r.shape.String()+": no (or the wrong) instance is found, so healthy instances get no routes or instances of another service are taken for healthy")
		}
	}
	if n == 0 {
		c.undecided("C01.K1", fnKey(builder)+"|instance key writer/reader", "could not pair the key under which passing instances are recorded (a map update keyed by health check fields) with the key they are looked up under (a map lookup keyed by catalog entry fields)")
	}
}

// ---- M1: deterministic text; M2: results of concurrent workers are collected safely --------------------------------

var c01SortCalls = map[string]bool{"sort.Sort": true, "sort.Stable": true, "sort.Strings": true, "sort.Slice": true, "sort.SliceStable": true,
	"slices.Sort": true, "slices.SortFunc": true, "slices.SortStableFunc": true}

var c01SortedResult = map[string]bool{"slices.Sorted": true, "slices.SortedFunc": true, "slices.SortedStableFunc": true}

// c01SameList: a and b denote the same list variable: the same value, loads of the same cell, or one derived from the other.
func c01SameList(a, b ssa.Value) bool {
	cell := func(v ssa.Value) ssa.Value {
		if u, ok := v.(*ssa.UnOp); ok && u.Op == token.MUL {
			return u.X
		}
		return nil
	}
	if a == b {
		return true
	}
	if ca, cb := cell(a), cell(b); ca != nil && ca == cb {
		return true
	}
	return derives(a, func(v ssa.Value) bool { return v == b || (cell(v) != nil && cell(v) == cell(b)) })
}

// c01SortsArg: instruction i sorts (in place) the list passed as one of its arguments; returns those arguments.
func c01SortsArg(i ssa.Instruction, depth int) []ssa.Value {
	call, ok := i.(*ssa.Call)
	if !ok || len(call.Call.Args) == 0 {
		return nil
	}
	n := typeArgs.ReplaceAllString(calleeName(&call.Call), "")
	if c01SortCalls[n] {
		return []ssa.Value{call.Call.Args[0]}
	}
	// a repository helper that sorts one of its parameters on every path
	sc := call.Call.StaticCallee()
	if sc == nil || !isRepoFn(sc) || len(sc.Blocks) == 0 || depth > 2 {
		return nil
	}
	var out []ssa.Value
	for k, par := range sc.Params {
		if k >= len(call.Call.Args) {
			break
		}
		par := par
		if mustExec(sc, func(j ssa.Instruction) bool {
			for _, a := range c01SortsArg(j, depth+1) {
				if derives(a, func(v ssa.Value) bool { return v == par }) {
					return true
				}
			}
			return false
		}, 3) {
			out = append(out, call.Call.Args[k])
		}
	}
	return out
}

// c01SortedAt: the list joined at instruction at (in at's function) is sorted on every path to it.
func c01SortedAt(list ssa.Value, at ssa.Instruction, depth int) bool {
	// the list is the result of a sorting function
	if derives(list, func(v ssa.Value) bool {
		call, ok := v.(*ssa.Call)
		return ok && c01SortedResult[typeArgs.ReplaceAllString(calleeName(&call.Call), "")]
	}) {
		return true
	}
	fn := at.Parent()
	sorted := false
	eachInstr(fn, func(j ssa.Instruction) {
		if sorted || j == at || !dominatesInstr(j, at) {
			return
		}
		for _, a := range c01SortsArg(j, 0) {
			if c01SameList(a, list) || c01SameList(list, a) {
				sorted = true
			}
		}
	})
	if sorted {
		return true
	}
	// the list is a parameter of a helper: sorted before every call
	if par, ok := c01Strip(list).(*ssa.Parameter); ok && depth < 3 {
		sites := gSites[fn]
		if len(sites) == 0 || !onlyStaticallyCalled(fn) {
			return false
		}
		k := c01ParamIndex(par)
		for _, s := range sites {
			cc := s.Common()
			if k < 0 || k >= len(cc.Args) || !c01SortedAt(cc.Args[k], s, depth+1) {
				return false
			}
		}
		return true
	}
	return false
}

// c01Join: a place where a list of commands becomes one text: strings.Join(list, sep) - at is the call -, or a
// hand-written join: the String() of a local strings.Builder / bytes.Buffer into which the elements of list are written -
// at is the instruction that takes the element.
type c01Join struct {
	list ssa.Value
	at   ssa.Instruction
	pos  token.Pos
}

var c01BuilderString = map[string]bool{"(*strings.Builder).String": true, "(*bytes.Buffer).String": true}

// c01BuilderWrites: the values written into the builder / buffer at ptr (WriteString, Write, WriteByte, io.WriteString,
// fmt.Fprint*), also by repository helpers that are given the pointer.
func c01BuilderWrites(ptr ssa.Value, depth int) []ssa.Value {
	var out []ssa.Value
	refs := ptr.Referrers()
	if refs == nil || depth > 3 {
		return nil
	}
	alias := map[ssa.Value]bool{ptr: true}
	users := append([]ssa.Instruction{}, *refs...)
	for _, r := range *refs {
		if mi, ok := r.(*ssa.MakeInterface); ok && mi.Referrers() != nil {
			alias[mi] = true
			users = append(users, *mi.Referrers()...)
		}
	}
	for _, r := range users {
		cc := callCommon(r)
		if cc == nil {
			continue
		}
		if sc := cc.StaticCallee(); sc != nil && isRepoFn(sc) && len(unwrap(sc).Blocks) > 0 {
			t := unwrap(sc)
			for k, a := range cc.Args {
				if alias[a] && k < len(t.Params) && len(cc.Args) == len(t.Params) {
					out = append(out, c01BuilderWrites(t.Params[k], depth+1)...)
				}
			}
			continue
		}
		n := calleeName(cc)
		if c01BuilderString[n] || len(cc.Args) == 0 {
			continue
		}
		uses := false
		for _, a := range cc.Args {
			uses = uses || alias[a]
		}
		if !uses {
			continue
		}
		for _, a := range cc.Args {
			if alias[a] {
				continue
			}
			// the variadic arguments of fmt.Fprint*: the elements of the argument slice
			if sl, ok := a.(*ssa.Slice); ok {
				if arr, isA := sl.X.(*ssa.Alloc); isA {
					out = append(out, c01StoresInto(arr)...)
					continue
				}
			}
			out = append(out, a)
		}
	}
	return out
}

// c01ElemOfList: v is (made from) an element taken from a list (`for _, s := range list`): the list and the
// instruction that takes the element.
func c01ElemOfList(v ssa.Value, depth int) (ssa.Value, ssa.Instruction) {
	if v == nil || depth > 6 {
		return nil, nil
	}
	switch x := v.(type) {
	case *ssa.UnOp:
		if ia, ok := x.X.(*ssa.IndexAddr); ok && x.Op == token.MUL {
			if _, isSlice := ia.X.Type().Underlying().(*types.Slice); isSlice {
				return ia.X, ia
			}
		}
	case *ssa.BinOp:
		if x.Op == token.ADD {
			if l, at := c01ElemOfList(x.X, depth+1); l != nil {
				return l, at
			}
			return c01ElemOfList(x.Y, depth+1)
		}
	case *ssa.Phi:
		for _, e := range x.Edges {
			if l, at := c01ElemOfList(e, depth+1); l != nil {
				return l, at
			}
		}
	case *ssa.MakeInterface:
		return c01ElemOfList(x.X, depth+1)
	case *ssa.Convert:
		return c01ElemOfList(x.X, depth+1)
	case *ssa.ChangeType:
		return c01ElemOfList(x.X, depth+1)
	case *ssa.Call:
		if x.Call.StaticCallee() != nil && !isRepoFn(x.Call.StaticCallee()) {
			for _, a := range x.Call.Args {
				if l, at := c01ElemOfList(a, depth+1); l != nil {
					return l, at
				}
			}
		}
	}
	return nil, nil
}

// c01TextJoins: the joins (strings.Join calls, hand-written joins into a builder) whose result the function returns
// (through helpers that return it).
func c01TextJoins(f *ssa.Function) []c01Join {
	var out []c01Join
	seen := map[ssa.Value]bool{}
	var walk func(v ssa.Value, d int)
	walk = func(v ssa.Value, d int) {
		if v == nil || seen[v] || d > 8 {
			return
		}
		seen[v] = true
		switch x := v.(type) {
		case *ssa.Phi:
			for _, e := range x.Edges {
				walk(e, d+1)
			}
		case *ssa.ChangeType:
			walk(x.X, d+1)
		case *ssa.Extract:
			walk(x.Tuple, d+1)
		case *ssa.UnOp:
			if a, ok := x.X.(*ssa.Alloc); ok && x.Op == token.MUL {
				for _, sv := range c01StoresInto(a) {
					walk(sv, d+1)
				}
			}
			// the text is kept in a field before it is returned (`w.last = strings.Join(..); return w.last`): what
			// the function stores into that field (round 4: whether returning the remembered text is legitimate is
			// C01.S1's business; M1 only asks that every text made here is made from a sorted list)
			if g, ok := x.X.(*ssa.Global); ok && x.Op == token.MUL {
				for _, st := range gGlobalStores[g] {
					if st.Parent() == x.Parent() {
						walk(st.Val, d+1)
					}
				}
			}
			if fa, ok := x.X.(*ssa.FieldAddr); ok && x.Op == token.MUL {
				eachInstr(x.Parent(), func(i ssa.Instruction) {
					st, isSt := i.(*ssa.Store)
					if !isSt {
						return
					}
					if fb, isF := st.Addr.(*ssa.FieldAddr); isF && fb.Field == fa.Field && types.Identical(fb.X.Type(), fa.X.Type()) {
						walk(st.Val, d+1)
					}
				})
			}
		case *ssa.BinOp:
			if x.Op == token.ADD {
				walk(x.X, d+1)
				walk(x.Y, d+1)
			}
		case *ssa.Call:
			if calleeName(&x.Call) == "strings.Join" {
				out = append(out, c01Join{x.Call.Args[0], x, x.Pos()})
				return
			}
			if c01BuilderString[calleeName(&x.Call)] && len(x.Call.Args) == 1 {
				done := map[ssa.Instruction]bool{}
				for _, wv := range c01BuilderWrites(x.Call.Args[0], 0) {
					if list, at := c01ElemOfList(wv, 0); list != nil && !done[at] {
						done[at] = true
						out = append(out, c01Join{list, at, at.Pos()})
					}
				}
				return
			}
			if sc := x.Call.StaticCallee(); sc != nil && isRepoFn(sc) && len(sc.Blocks) > 0 {
				eachInstr(sc, func(i ssa.Instruction) {
					if r, ok := i.(*ssa.Return); ok {
						for _, res := range r.Results {
							if b, ok := res.Type().Underlying().(*types.Basic); ok && b.Kind() == types.String {
								walk(res, d+1)
							}
						}
					}
				})
			}
		}
	}
	eachInstr(f, func(i ssa.Instruction) {
		if r, ok := i.(*ssa.Return); ok {
			for _, res := range r.Results {
				walk(res, 0)
			}
		}
	})
	return out
}

func runC01M1(c *Ctx, builder *ssa.Function) {
	joins := c01TextJoins(builder)
	for _, j := range joins {
		c.check("C01.M1", fnKey(builder)+"|command list sorted before it is joined", j.pos, c01SortedAt(j.list, j.at, 0),
			"the commands are collected from concurrent goroutines / map iteration; without sorting, the same registry state yields differently ordered texts, each of which is applied as a change (and command order decides which route wins)")
	}
	c.atLeast("C01.M1", "joins of the command list into the text the builder returns", len(joins), 1)

	// M2: a goroutine started by the builder hands its result over through a channel (or under a lock); it does not
	// write variables it shares with its parent or siblings
	n := 0
	for _, f := range c01StageRegionAll(builder) {
		eachInstr(f, func(i ssa.Instruction) {
			g, ok := i.(*ssa.Go)
			if !ok {
				return
			}
			for _, w := range funcsOf(g.Call.Value) {
				if w.Parent() == nil {
					continue
				}
				n++
				var bad ssa.Instruction
				eachInstr(w, func(j ssa.Instruction) {
					st, ok := j.(*ssa.Store)
					if !ok {
						return
					}
					root := st.Addr
					for {
						switch y := root.(type) {
						case *ssa.IndexAddr:
							root = y.X
							continue
						case *ssa.FieldAddr:
							root = y.X
							continue
						}
						break
					}
					if _, isFV := root.(*ssa.FreeVar); !isFV {
						return
					}
					// allowed under a mutex held by the goroutine
					locked := false
					eachInstr(w, func(k ssa.Instruction) {
						if cc := callCommon(k); cc != nil && strings.HasSuffix(calleeName(cc), "Mutex).Lock") && dominatesInstr(k, j) {
							locked = true
						}
					})
					if !locked {
						bad = j
					}
				})
				pos := g.Pos()
				if bad != nil {
					pos = bad.Pos()
				}
				c.check("C01.M2", fnKey(builder)+"|workers hand their result over through a channel", pos, bad == nil,
					"a goroutine started by the config builder writes a variable it shares with the other workers without holding a lock: with more than one worker (registry.consul.serviceMonitors > 1) updates are lost and the text lacks the route commands of healthy instances")
			}
		})
	}
	_ = n
}

// c01StageRegionAll: f, its closures and the same-package helpers it calls (stages included).
func c01StageRegionAll(f *ssa.Function) []*ssa.Function {
	var out []*ssa.Function
	seen := map[*ssa.Function]bool{}
	var add func(g *ssa.Function, d int)
	add = func(g *ssa.Function, d int) {
		if g == nil || seen[g] || len(g.Blocks) == 0 || !isRepoFn(g) || d > 3 {
			return
		}
		seen[g] = true
		out = append(out, g)
		for _, a := range g.AnonFuncs {
			add(a, d)
		}
		eachInstr(g, func(i ssa.Instruction) {
			if cc := callCommon(i); cc != nil {
				if sc := cc.StaticCallee(); sc != nil && rootPkg(sc) == rootPkg(f) {
					add(unwrap(sc), d+1)
				}
			}
		})
	}
	add(f, 0)
	return out
}
