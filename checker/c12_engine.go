package main

// Machinery of C12 that makes its rules independent of how the code is cut into functions and of the spelling of a
// decision (DESIGN 11.8):
//
//   - c12Eng, an implication engine: "whenever control is here (or: whenever this value has this outcome), FACT holds",
//     where FACT is given by a leaf predicate over branch conditions (a gate call with a verdict, Contains()==true,
//     AuthScheme=="" ...). It looks through boolean helpers (every return that can yield the outcome lies under the
//     fact), negation, `a && b` / `a || b` (phis with edge facts), flags assigned on branches, comparisons of a
//     helper's int / error result with a constant, multi-result helpers, and slices.ContainsFunc.
//   - c12VirtualReturns: the decision table of a bool function: every (value, facts) pair it can return, with
//     `return f(x)`, `return !f(x)` and `return a && b` expanded.
//   - c12Slice / c12Roots: a copy of `derives` (ssahelp.go) that starts in a given call context, so that a dial site
//     inside a helper shared by several callers is judged for the caller through which it was reached.

import (
	"go/constant"
	"go/token"
	"go/types"
	"strings"

	"golang.org/x/tools/go/ssa"
)

// c12BaseName strips the type arguments of an instantiated generic function ("slices.ContainsFunc[[]T,T]").
func c12BaseName(n string) string {
	if k := strings.Index(n, "["); k > 0 && !strings.HasPrefix(n, "(") {
		return n[:k]
	}
	return n
}

// c12Unspill: a parameter captured by a closure lives in a cell; a load of a cell that is written once is that value.
func c12Unspill(v ssa.Value) ssa.Value {
	u, ok := v.(*ssa.UnOp)
	if !ok || u.Op != token.MUL {
		return v
	}
	a, ok := u.X.(*ssa.Alloc)
	if !ok {
		return v
	}
	var val ssa.Value
	n := 0
	for _, r := range *a.Referrers() {
		if st, isSt := r.(*ssa.Store); isSt && st.Addr == ssa.Value(a) {
			val, n = st.Val, n+1
		}
	}
	if n == 1 {
		return val
	}
	return v
}

// c12Leaf: does "cond evaluated to truth" directly establish the wanted fact? subj is the value the fact is about
// (receiver of the gate, the compared value ...), nil when that is irrelevant.
type c12Leaf func(cond ssa.Value, truth bool) (subj ssa.Value, ok bool)

// c12Cons is a constraint on a value: kind 'b' (value == b), 'i' ((value == n) == eq), 'n' ((value == nil) == eq).
type c12Cons struct {
	kind byte
	b    bool
	n    int64
	eq   bool
}

// c12ConsOfFact rewrites a branch fact into a constraint on a sub-value: `x == K` true => x is K.
func c12ConsOfFact(cond ssa.Value, truth bool) (ssa.Value, c12Cons) {
	if b, ok := cond.(*ssa.BinOp); ok && (b.Op == token.EQL || b.Op == token.NEQ) {
		x, k := b.X, b.Y
		if _, isK := x.(*ssa.Const); isK {
			x, k = k, x
		}
		if kc, isK := k.(*ssa.Const); isK {
			same := (b.Op == token.EQL) == truth
			switch {
			case kc.Value == nil:
				return x, c12Cons{kind: 'n', eq: same}
			case kc.Value.Kind() == constant.Int:
				if n, ok := constant.Int64Val(kc.Value); ok {
					return x, c12Cons{kind: 'i', n: n, eq: same}
				}
			case kc.Value.Kind() == constant.Bool:
				return x, c12Cons{kind: 'b', b: constant.BoolVal(kc.Value) == same}
			}
		}
	}
	return cond, c12Cons{kind: 'b', b: truth}
}

const (
	c12No = iota
	c12Yes
	c12Unknown
)

// c12Sat: can the value v satisfy the constraint?
func c12Sat(v ssa.Value, cons c12Cons) int {
	yn := func(b bool) int {
		if b {
			return c12Yes
		}
		return c12No
	}
	if k, ok := v.(*ssa.Const); ok {
		switch cons.kind {
		case 'b':
			if k.Value != nil && k.Value.Kind() == constant.Bool {
				return yn(constant.BoolVal(k.Value) == cons.b)
			}
		case 'i':
			if k.Value != nil && k.Value.Kind() == constant.Int {
				if n, ok := constant.Int64Val(k.Value); ok {
					return yn((n == cons.n) == cons.eq)
				}
			}
		case 'n':
			if k.Value == nil {
				return yn(cons.eq)
			}
		}
		return c12Unknown
	}
	if cons.kind == 'n' && c12NonNil(v) {
		return yn(!cons.eq)
	}
	return c12Unknown
}

// c12NonNil: v is certainly not nil: a boxed concrete value, a fresh error, a sentinel error variable.
func c12NonNil(v ssa.Value) bool {
	switch x := v.(type) {
	case *ssa.MakeInterface, *ssa.Alloc, *ssa.MakeMap, *ssa.MakeSlice, *ssa.MakeClosure, *ssa.Function:
		return true
	case *ssa.Call:
		switch calleeName(&x.Call) {
		case "errors.New", "fmt.Errorf":
			return true
		}
	case *ssa.UnOp:
		if x.Op == token.MUL {
			if _, isG := x.X.(*ssa.Global); isG && types.Identical(x.Type(), types.Universe.Lookup("error").Type()) {
				return true // var errDenied = errors.New(...)
			}
		}
	}
	return false
}

type c12Eng struct {
	leaf c12Leaf
}

const c12MaxDepth = 5

// merge keeps one subject; two different subjects make the implication fail (the fact would be about two things).
func c12Merge(have ssa.Value, first bool, s ssa.Value) (ssa.Value, bool) {
	if first || have == nil {
		return s, true
	}
	if s == nil || s == have {
		return have, true
	}
	return nil, false
}

// at: the fact holds whenever control reaches b: some dominating branch (or a branch under which the only call site
// of b's function lies) establishes it, or every edge into b does (`a || b`, the same test repeated in two arms).
func (e *c12Eng) at(b *ssa.BasicBlock, depth int) (ssa.Value, bool) {
	if b == nil || depth > c12MaxDepth {
		return nil, false
	}
	w := &c12Paths{e: e, depth: depth, onStack: map[*ssa.BasicBlock]bool{}, no: map[*ssa.BasicBlock]bool{}}
	s, ok, _ := w.block(b)
	return s, ok
}

type c12Paths struct {
	e       *c12Eng
	depth   int
	onStack map[*ssa.BasicBlock]bool
	no      map[*ssa.BasicBlock]bool
	steps   int
}

// block: greatest fixpoint of holds(b) = facts at b establish it, or for every pred p: the edge p->b establishes it or
// holds(p). A block met again on the current path is assumed to hold (the cycle adds no way in).
func (w *c12Paths) block(b *ssa.BasicBlock) (subj ssa.Value, ok bool, assumed bool) {
	if w.onStack[b] {
		return nil, true, true
	}
	w.steps++
	if w.no[b] || w.steps > 4000 {
		return nil, false, false
	}
	if s, ok := w.e.fromFacts(factsAt(b), w.depth); ok {
		return s, true, false
	}
	if len(b.Preds) == 0 {
		w.no[b] = true
		return nil, false, false
	}
	w.onStack[b] = true
	defer delete(w.onStack, b)
	n := 0
	for _, p := range b.Preds {
		s, ok, as := w.edge(p, b)
		if !ok {
			w.no[b] = true
			return nil, false, false
		}
		assumed = assumed || as
		if as && s == nil {
			continue
		}
		if subj, ok = c12Merge(subj, n == 0, s); !ok {
			w.no[b] = true
			return nil, false, false
		}
		n++
	}
	return subj, true, assumed
}

func (w *c12Paths) edge(p, b *ssa.BasicBlock) (ssa.Value, bool, bool) {
	if f, ok := c12EdgeFact(p, b); ok {
		if s, ok := w.e.fromFact(f.Cond, f.Truth, w.depth); ok {
			return s, true, false
		}
	}
	return w.block(p)
}

// onEdge: the fact holds whenever control passes from p to b.
func (e *c12Eng) onEdge(p, b *ssa.BasicBlock, depth int) (ssa.Value, bool) {
	if depth > c12MaxDepth {
		return nil, false
	}
	w := &c12Paths{e: e, depth: depth, onStack: map[*ssa.BasicBlock]bool{}, no: map[*ssa.BasicBlock]bool{}}
	s, ok, _ := w.edge(p, b)
	return s, ok
}

func (e *c12Eng) fromFacts(fs []Fact, depth int) (ssa.Value, bool) {
	for _, f := range fs {
		if s, ok := e.fromFact(f.Cond, f.Truth, depth); ok {
			return s, true
		}
	}
	// several facts about one result of a helper (`switch h(x) { case 403: ..return; case 401: ..return }` leaves
	// `h(x) != 403` and `h(x) != 401` behind): the returns of h that satisfy all of them lie under the fact
	if len(fs) < 2 || depth > c12MaxDepth {
		return nil, false
	}
	type group struct {
		v    ssa.Value
		cons []c12Cons
	}
	var groups []*group
	for _, f := range fs {
		v, cons := c12ConsOfFact(f.Cond, f.Truth)
		var g *group
		for _, h := range groups {
			if h.v == v {
				g = h
			}
		}
		if g == nil {
			g = &group{v: v}
			groups = append(groups, g)
		}
		g.cons = append(g.cons, cons)
	}
	for _, g := range groups {
		if len(g.cons) < 2 {
			continue
		}
		call, idx := (*ssa.Call)(nil), 0
		switch x := g.v.(type) {
		case *ssa.Call:
			call = x
		case *ssa.Extract:
			if c, ok := x.Tuple.(*ssa.Call); ok {
				call, idx = c, x.Index
			}
		}
		if call == nil || call.Call.IsInvoke() {
			continue
		}
		sc := call.Call.StaticCallee()
		if sc == nil {
			continue
		}
		sc = unwrap(sc)
		if !isRepoFn(sc) || len(sc.Blocks) == 0 {
			continue
		}
		if s, ok := e.impliedReturnsAll(sc, idx, g.cons, call, depth+1); ok {
			return s, true
		}
	}
	return nil, false
}

// c12EdgeFact: the branch taken when control passes from p to s.
func c12EdgeFact(p, s *ssa.BasicBlock) (Fact, bool) {
	if len(p.Instrs) > 0 {
		if iff, ok := p.Instrs[len(p.Instrs)-1].(*ssa.If); ok && len(p.Succs) == 2 && p.Succs[0] != p.Succs[1] {
			cond, truth := iff.Cond, p.Succs[0] == s
			for {
				u, isNot := cond.(*ssa.UnOp)
				if !isNot || u.Op != token.NOT {
					break
				}
				cond, truth = u.X, !truth
			}
			return Fact{cond, truth}, true
		}
	}
	return Fact{}, false
}

func (e *c12Eng) fromFact(cond ssa.Value, truth bool, depth int) (ssa.Value, bool) {
	if s, ok := e.leaf(cond, truth); ok {
		return s, true
	}
	subj, cons := c12ConsOfFact(cond, truth)
	return e.implied(subj, cons, depth)
}

// implied: "v satisfies cons" implies the fact, judged from how v is computed.
func (e *c12Eng) implied(v ssa.Value, cons c12Cons, depth int) (ssa.Value, bool) {
	if depth > c12MaxDepth || v == nil {
		return nil, false
	}
	if cons.kind == 'b' {
		if s, ok := e.leaf(v, cons.b); ok {
			return s, true
		}
	}
	switch x := v.(type) {
	case *ssa.UnOp:
		if x.Op == token.NOT && cons.kind == 'b' {
			return e.implied(x.X, c12Cons{kind: 'b', b: !cons.b}, depth+1)
		}
	case *ssa.BinOp:
		if cons.kind == 'b' {
			if s, c2 := c12ConsOfFact(x, cons.b); s != ssa.Value(x) {
				return e.implied(s, c2, depth+1)
			}
		}
	case *ssa.ChangeType:
		return e.implied(x.X, cons, depth+1)
	case *ssa.Phi:
		var subj ssa.Value
		n := 0
		for k, ed := range x.Edges {
			t := c12Sat(ed, cons)
			if t == c12No {
				continue
			}
			var s ssa.Value
			ok := false
			if t == c12Unknown {
				s, ok = e.implied(ed, cons, depth+1)
			}
			if !ok {
				s, ok = e.onEdge(x.Block().Preds[k], x.Block(), depth+1)
			}
			if !ok {
				return nil, false
			}
			if subj, ok = c12Merge(subj, n == 0, s); !ok {
				return nil, false
			}
			n++
		}
		return subj, n > 0
	case *ssa.Extract:
		if call, ok := x.Tuple.(*ssa.Call); ok {
			return e.impliedCall(call, x.Index, cons, depth)
		}
	case *ssa.Call:
		return e.impliedCall(x, 0, cons, depth)
	}
	return nil, false
}

func (e *c12Eng) impliedCall(call *ssa.Call, idx int, cons c12Cons, depth int) (ssa.Value, bool) {
	name := c12BaseName(calleeName(&call.Call))
	if name == "slices.ContainsFunc" && cons.kind == 'b' && cons.b && len(call.Call.Args) == 2 {
		// true only if the predicate answered true for an element
		var subj ssa.Value
		fns := funcsOf(call.Call.Args[1])
		for k, fn := range fns {
			s, ok := e.impliedReturns(fn, 0, cons, nil, depth+1)
			if !ok {
				return nil, false
			}
			if subj, ok = c12Merge(subj, k == 0, s); !ok {
				return nil, false
			}
		}
		return subj, len(fns) > 0
	}
	sc := call.Call.StaticCallee()
	if sc == nil || call.Call.IsInvoke() {
		return nil, false
	}
	sc = unwrap(sc)
	if !isRepoFn(sc) || len(sc.Blocks) == 0 {
		return nil, false
	}
	return e.impliedReturns(sc, idx, cons, call, depth+1)
}

// impliedReturns: every return of fn whose idx-th result can satisfy cons lies under the fact. A subject that is a
// parameter of fn is translated to the argument at call.
func (e *c12Eng) impliedReturns(fn *ssa.Function, idx int, cons c12Cons, call *ssa.Call, depth int) (ssa.Value, bool) {
	return e.impliedReturnsAll(fn, idx, []c12Cons{cons}, call, depth)
}

// impliedReturnsAll: the same for the returns whose idx-th result can satisfy all of the constraints.
func (e *c12Eng) impliedReturnsAll(fn *ssa.Function, idx int, conss []c12Cons, call *ssa.Call, depth int) (ssa.Value, bool) {
	if depth > c12MaxDepth {
		return nil, false
	}
	var subj ssa.Value
	n, okAll := 0, true
	eachInstr(fn, func(i ssa.Instruction) {
		r, isR := i.(*ssa.Return)
		if !isR || !okAll || idx >= len(r.Results) {
			return
		}
		res := r.Results[idx]
		t := c12Yes
		for _, cons := range conss {
			switch c12Sat(res, cons) {
			case c12No:
				t = c12No
			case c12Unknown:
				if t != c12No {
					t = c12Unknown
				}
			}
		}
		if t == c12No {
			return
		}
		var s ssa.Value
		ok := false
		if t == c12Unknown {
			for _, cons := range conss {
				if s, ok = e.implied(res, cons, depth+1); ok {
					break
				}
			}
		}
		if !ok {
			s, ok = e.at(r.Block(), depth+1)
		}
		if !ok {
			okAll = false
			return
		}
		if p, isP := s.(*ssa.Parameter); isP && call != nil && p.Parent() == fn {
			for k, q := range fn.Params {
				if q == p && k < len(call.Call.Args) {
					s = call.Call.Args[k]
				}
			}
		}
		if subj, ok = c12Merge(subj, n == 0, s); !ok {
			okAll = false
			return
		}
		n++
	})
	return subj, okAll && n > 0
}

// ---- decision tables ---------------------------------------------------------------------------------------------

// c12VRet is one outcome of a bool function: it returns val when the extra facts hold and control is at (the end of)
// each of blks (the returning block; for a value merged by a phi, the predecessor the value comes from; for an outcome
// of a function whose verdict is handed on - `return g(x)` - also g's returning block). ret is the returning block in
// the function itself.
type c12VRet struct {
	val   bool
	extra []Fact
	blks  []*ssa.BasicBlock
	pos   token.Pos
	ret   *ssa.BasicBlock
}

// holds: the fact is established for this outcome.
func (e *c12Eng) holds(v c12VRet) (ssa.Value, bool) {
	if s, ok := e.fromFacts(v.extra, 0); ok {
		return s, true
	}
	for _, b := range v.blks {
		if s, ok := e.at(b, 0); ok {
			return s, true
		}
	}
	return nil, false
}

// c12VirtualReturns enumerates the outcomes of fn's idx-th (bool) result. `return v` with a non-constant v yields the
// two outcomes (true, facts+v) and (false, facts+!v); phis (`a && b`, flags) are taken apart edge by edge; a verdict
// handed on from a repository function (`return g(x)`, `d := g(x); log; return d`, `return !g(x)`) is replaced by g's
// outcomes (each with the fact `g(x) == its value`), so that a wrapper has the decision table of what it wraps.
func c12VirtualReturns(fn *ssa.Function, idx int) []c12VRet {
	type pending struct {
		call *ssa.Call
		neg  bool
	}
	var out []c12VRet
	var expand func(v ssa.Value, neg bool, extra []Fact, blks []*ssa.BasicBlock, pos token.Pos, ret *ssa.BasicBlock, pend []pending, depth int)
	emit := func(val bool, extra []Fact, blks []*ssa.BasicBlock, pos token.Pos, ret *ssa.BasicBlock, pend []pending) {
		ex := append([]Fact{}, extra...)
		for _, p := range pend {
			ex = append(ex, Fact{p.call, val != p.neg})
		}
		out = append(out, c12VRet{val, ex, blks, pos, ret})
	}
	onStack := map[*ssa.Function]bool{fn: true}
	expand = func(v ssa.Value, neg bool, extra []Fact, blks []*ssa.BasicBlock, pos token.Pos, ret *ssa.BasicBlock, pend []pending, depth int) {
		if bv, isK := constBool(v); isK {
			emit(bv != neg, extra, blks, pos, ret, pend)
			return
		}
		switch x := v.(type) {
		case *ssa.UnOp:
			if x.Op == token.NOT {
				expand(x.X, !neg, extra, blks, pos, ret, pend, depth+1)
				return
			}
			if st := c12CellValue(x); st != nil && depth < 4 {
				expand(st, neg, extra, blks, pos, ret, pend, depth+1)
				return
			}
		case *ssa.Phi:
			if depth < 4 {
				for k, ed := range x.Edges {
					p := x.Block().Preds[k]
					ex := append([]Fact{}, extra...)
					if f, ok := c12EdgeFact(p, x.Block()); ok {
						ex = append(ex, f)
					}
					expand(ed, neg, ex, append([]*ssa.BasicBlock{p}, blks...), pos, ret, pend, depth+1)
				}
				return
			}
		case *ssa.Call:
			if g := c12VerdictCallee(x); g != nil && !onStack[g] && len(pend) < 2 {
				onStack[g] = true
				n := len(out)
				pd := append(append([]pending{}, pend...), pending{x, neg})
				eachInstr(g, func(i ssa.Instruction) {
					if r, ok := i.(*ssa.Return); ok && len(r.Results) == 1 {
						expand(r.Results[0], neg, extra, append([]*ssa.BasicBlock{r.Block()}, blks...), r.Pos(), ret, pd, 0)
					}
				})
				delete(onStack, g)
				if len(out) > n {
					return
				}
			}
		}
		for _, t := range []bool{true, false} {
			ex := append([]Fact{{v, t}}, extra...)
			emit(t != neg, ex, blks, pos, ret, pend)
		}
	}
	eachInstr(fn, func(i ssa.Instruction) {
		if r, ok := i.(*ssa.Return); ok && idx < len(r.Results) {
			expand(r.Results[idx], false, nil, []*ssa.BasicBlock{r.Block()}, r.Pos(), r.Block(), nil, 0)
		}
	})
	return out
}

// c12VerdictCallee: call is a static call of a repository function with a body and a single bool result.
func c12VerdictCallee(call *ssa.Call) *ssa.Function {
	if call.Call.IsInvoke() {
		return nil
	}
	sc := call.Call.StaticCallee()
	if sc == nil {
		return nil
	}
	sc = unwrap(sc)
	if !isRepoFn(sc) || len(sc.Blocks) == 0 {
		return nil
	}
	res := sc.Signature.Results()
	if res.Len() != 1 || !types.Identical(res.At(0).Type().Underlying(), types.Typ[types.Bool]) {
		return nil
	}
	return sc
}

// c12CellValue: load is `*cell` of a local cell (a result or variable that a closure captures) and the same block
// stores into the cell right before, with no call in between: the value loaded is the value stored.
func c12CellValue(load *ssa.UnOp) ssa.Value {
	if load.Op != token.MUL {
		return nil
	}
	a, ok := load.X.(*ssa.Alloc)
	if !ok || load.Block() == nil {
		return nil
	}
	instrs := load.Block().Instrs
	k := -1
	for j, in := range instrs {
		if in == ssa.Instruction(load) {
			k = j
		}
	}
	for j := k - 1; j >= 0; j-- {
		switch x := instrs[j].(type) {
		case *ssa.Store:
			if x.Addr == ssa.Value(a) {
				return x.Val
			}
		case *ssa.Call, *ssa.Defer, *ssa.Go:
			return nil
		}
	}
	return nil
}

// c12IsYield: fn is the body of a `for x := range seq` loop over an iterator function (go/ssa builds it as a closure
// that returns true to go on and false to stop, the way out encoded in captured cells).
func c12IsYield(fn *ssa.Function) bool {
	return fn != nil && fn.Parent() != nil && strings.HasPrefix(fn.Synthetic, "range-over-func")
}

// c12Region: c.region plus the bodies of range-over-func loops of its members (c.region resolves closures through
// `unwrap`, which takes a synthetic yield closure for a method wrapper and loses it) and what those bodies call.
func c12Region(c *Ctx, roots ...*ssa.Function) []*ssa.Function {
	out := c.region(roots...)
	seen := map[*ssa.Function]bool{}
	for _, f := range out {
		seen[f] = true
	}
	for k := 0; k < len(out); k++ {
		for _, a := range out[k].AnonFuncs {
			if !c12IsYield(a) || seen[a] {
				continue
			}
			for _, g := range c.region(a) {
				if !seen[g] {
					seen[g] = true
					out = append(out, g)
				}
			}
		}
	}
	return out
}

// c12YieldStoresTrue: block b of a yield closure makes the enclosing function return true: it stores true into the
// captured bool result cell (and then stops the iteration).
func c12YieldStoresTrue(b *ssa.BasicBlock) bool {
	for _, in := range b.Instrs {
		if st, ok := in.(*ssa.Store); ok {
			if _, isFV := st.Addr.(*ssa.FreeVar); isFV {
				if bv, isK := constBool(st.Val); isK && bv {
					return true
				}
			}
		}
	}
	return false
}

// ---- backward slice in a call context ---------------------------------------------------------------------------

var c12Transparent = []string{"net.ParseIP", "(net.IP).", "net/netip.ParseAddr", "net/netip.MustParseAddr", "(net/netip.Addr).",
	"net/textproto.TrimString", "slices.Values", "slices.All", "maps.Values", "(*net/url.URL).", "(net.Addr).String", "(*net.TCPAddr).", "net.ResolveTCPAddr"}

func c12IsTransparent(name string) bool {
	if isTransparent(name) {
		return true
	}
	for _, p := range c12Transparent {
		if strings.HasPrefix(name, p) {
			return true
		}
	}
	return false
}

// c12Slice walks the backward slice of v like `derives` (ssahelp.go), with two differences: it starts inside the call
// context ctx (outermost call first; a parameter of the function entered through ctx's last call maps to that call's
// argument only), and visit(v) == true prunes the walk below v instead of ending it.
func c12Slice(v ssa.Value, ctx []ssa.CallInstruction, visit func(ssa.Value) bool) {
	type key struct {
		v   ssa.Value
		ctx ssa.CallInstruction
	}
	seen := map[key]bool{}
	hops := 0
	stack := append([]ssa.CallInstruction{}, ctx...)
	var walk func(v ssa.Value)
	walk = func(v ssa.Value) {
		if v == nil {
			return
		}
		var top ssa.CallInstruction
		if len(stack) > 0 {
			top = stack[len(stack)-1]
		}
		if seen[key{v, top}] {
			return
		}
		seen[key{v, top}] = true
		if visit(v) {
			return
		}
		switch x := v.(type) {
		case *ssa.Parameter:
			fn := x.Parent()
			sites := gSites[fn]
			if fn == nil {
				return
			}
			idx := -1
			for k, p := range fn.Params {
				if p == x {
					idx = k
				}
			}
			if top != nil {
				if sc := top.Common().StaticCallee(); sc != nil && (sc == fn || unwrap(sc) == fn) {
					stack = stack[:len(stack)-1]
					cc := top.Common()
					if idx >= 0 && idx < len(cc.Args) {
						walk(cc.Args[idx])
					}
					stack = append(stack, top)
				}
				return
			}
			if len(sites) == 0 && fn.Parent() != nil && hops < maxHops {
				// a closure handed to a library combinator (slices.ContainsFunc, strings.FieldsFunc, sort.Slice ...): its
				// parameters are fed from the other operands of that call
				hops++
				for _, a := range c12CombinatorOperands(fn) {
					walk(a)
				}
				for _, a := range c12YieldArgs(fn, idx) {
					walk(a)
				}
				hops--
				return
			}
			if len(sites) == 0 || len(sites) > maxHelperSites || hops >= maxHops {
				return
			}
			hops++
			for _, s := range sites {
				if cc := s.Common(); idx >= 0 && idx < len(cc.Args) {
					walk(cc.Args[idx])
				}
			}
			hops--
		case *ssa.FreeVar:
			fn := x.Parent()
			if fn == nil || fn.Parent() == nil || hops >= maxHops {
				return
			}
			idx := -1
			for k, fv := range fn.FreeVars {
				if fv == x {
					idx = k
				}
			}
			hops++
			eachInstr(fn.Parent(), func(i ssa.Instruction) {
				if mc, ok := i.(*ssa.MakeClosure); ok && mc.Fn == fn && idx >= 0 && idx < len(mc.Bindings) {
					walk(mc.Bindings[idx])
				}
			})
			hops--
		case *ssa.Phi:
			for _, e := range x.Edges {
				walk(e)
			}
		case *ssa.UnOp:
			if x.Op == token.MUL {
				if a, ok := x.X.(*ssa.Alloc); ok {
					for _, r := range *a.Referrers() {
						if st, ok := r.(*ssa.Store); ok && st.Addr == a {
							walk(st.Val)
						}
					}
				}
				if fa, ok := x.X.(*ssa.FieldAddr); ok {
					if a, ok := fa.X.(*ssa.Alloc); ok {
						for _, r := range *a.Referrers() {
							if fa2, ok := r.(*ssa.FieldAddr); ok && fa2.Field == fa.Field {
								for _, r2 := range *fa2.Referrers() {
									if st, ok := r2.(*ssa.Store); ok && st.Addr == fa2 {
										walk(st.Val)
									}
								}
							}
						}
					}
				}
			}
			walk(x.X)
		case *ssa.Alloc:
			if refs := x.Referrers(); refs != nil {
				for _, r := range *refs {
					switch y := r.(type) {
					case *ssa.MakeClosure:
						// a captured variable: what the closure stores into it
						if fn, ok := y.Fn.(*ssa.Function); ok {
							for k, bnd := range y.Bindings {
								if bnd != ssa.Value(x) || k >= len(fn.FreeVars) {
									continue
								}
								for _, r2 := range *fn.FreeVars[k].Referrers() {
									if st, ok := r2.(*ssa.Store); ok && st.Addr == ssa.Value(fn.FreeVars[k]) {
										walk(st.Val)
									}
								}
							}
						}
					case *ssa.Store:
						if y.Addr == x {
							walk(y.Val)
						}
					case *ssa.FieldAddr:
						for _, r2 := range *y.Referrers() {
							if st, ok := r2.(*ssa.Store); ok && st.Addr == y {
								walk(st.Val)
							}
						}
					case *ssa.IndexAddr:
						for _, r2 := range *y.Referrers() {
							if st, ok := r2.(*ssa.Store); ok && st.Addr == y {
								walk(st.Val)
							}
						}
					}
				}
			}
		case *ssa.Global:
			// a package-level variable: what its package initialiser (or any direct store) puts there
			for _, st := range gGlobalStores[x] {
				walk(st.Val)
			}
			if x.Pkg != nil {
				if ini := x.Pkg.Func("init"); ini != nil {
					eachInstr(ini, func(i ssa.Instruction) {
						st, ok := i.(*ssa.Store)
						if !ok {
							return
						}
						for a := st.Addr; ; {
							switch y := a.(type) {
							case *ssa.FieldAddr:
								a = y.X
								continue
							case *ssa.IndexAddr:
								a = y.X
								continue
							}
							if a == ssa.Value(x) && st.Addr != ssa.Value(x) {
								walk(st.Val)
							}
							break
						}
					})
				}
			}
		case *ssa.BinOp:
			walk(x.X)
			walk(x.Y)
		case *ssa.Convert:
			walk(x.X)
		case *ssa.ChangeType:
			walk(x.X)
		case *ssa.ChangeInterface:
			walk(x.X)
		case *ssa.MakeInterface:
			walk(x.X)
		case *ssa.TypeAssert:
			walk(x.X)
		case *ssa.Extract:
			walk(x.Tuple)
		case *ssa.Next:
			walk(x.Iter)
		case *ssa.Range:
			walk(x.X)
		case *ssa.FieldAddr:
			walk(x.X)
		case *ssa.Field:
			walk(x.X)
		case *ssa.IndexAddr:
			walk(x.X)
			walk(x.Index)
		case *ssa.Index:
			walk(x.X)
			walk(x.Index)
		case *ssa.Lookup:
			walk(x.X)
			walk(x.Index)
		case *ssa.Slice:
			walk(x.X)
		case *ssa.Call:
			n := c12BaseName(calleeName(&x.Call))
			if c12IsTransparent(n) || strings.HasPrefix(n, "builtin.") {
				if x.Call.IsInvoke() {
					walk(x.Call.Value)
				}
				for _, a := range x.Call.Args {
					walk(a)
				}
				return
			}
			if sc := x.Call.StaticCallee(); sc != nil && isRepoFn(sc) && len(sc.Blocks) > 0 && hops < maxHops {
				hops++
				stack = append(stack, ssa.CallInstruction(x))
				eachInstr(sc, func(i ssa.Instruction) {
					if r, ok := i.(*ssa.Return); ok {
						for _, res := range r.Results {
							walk(res)
						}
					}
				})
				stack = stack[:len(stack)-1]
				hops--
			}
		}
	}
	walk(v)
}

// c12CombinatorOperands: the other operands of the non-repository calls that closure fn is handed to.
func c12CombinatorOperands(fn *ssa.Function) []ssa.Value {
	var out []ssa.Value
	if fn.Parent() == nil {
		return nil
	}
	eachInstr(fn.Parent(), func(i ssa.Instruction) {
		cc := callCommon(i)
		if cc == nil {
			return
		}
		if sc := cc.StaticCallee(); sc != nil && isRepoFn(sc) {
			return
		}
		uses := false
		for _, a := range cc.Args {
			if mc, ok := a.(*ssa.MakeClosure); ok && mc.Fn == ssa.Value(fn) {
				uses = true // (funcsOf unwraps synthetic closures, which loses a range-over-func body)
			}
			for _, g := range funcsOf(a) {
				if g == fn {
					uses = true
				}
			}
		}
		if !uses {
			return
		}
		for _, a := range cc.Args {
			if _, isFn := a.Type().Underlying().(*types.Signature); !isFn {
				out = append(out, a)
			}
		}
		if !cc.IsInvoke() && cc.StaticCallee() == nil {
			out = append(out, cc.Value) // seq(yield): the iterator the body is handed to
		}
	})
	return out
}

// c12YieldArgs: fn is the body of `for x := range seq` over an iterator of the repository (`func (x forwardedFor)
// addrs() iter.Seq[net.IP]`): the values the iterator hands to its yield function as the idx-th argument.
func c12YieldArgs(fn *ssa.Function, idx int) []ssa.Value {
	var out []ssa.Value
	if fn.Parent() == nil || idx < 0 {
		return nil
	}
	eachInstr(fn.Parent(), func(i ssa.Instruction) {
		cc := callCommon(i)
		if cc == nil || cc.IsInvoke() || cc.StaticCallee() != nil || len(cc.Args) != 1 {
			return
		}
		if mc, ok := cc.Args[0].(*ssa.MakeClosure); !ok || mc.Fn != ssa.Value(fn) {
			return
		}
		for _, it := range funcsOf(cc.Value) {
			if len(it.Params) == 0 || len(it.Blocks) == 0 {
				continue
			}
			yield := it.Params[len(it.Params)-1]
			if _, isFn := yield.Type().Underlying().(*types.Signature); !isFn {
				continue
			}
			eachInstr(it, func(j ssa.Instruction) {
				if c2 := callCommon(j); c2 != nil && c2.Value == ssa.Value(yield) && idx < len(c2.Args) {
					out = append(out, c2.Args[idx])
				}
			})
		}
	})
	return out
}

// c12Derives: does the slice of v in context ctx contain a value satisfying pred?
func c12Derives(v ssa.Value, ctx []ssa.CallInstruction, pred func(ssa.Value) bool) bool {
	hit := false
	c12Slice(v, ctx, func(x ssa.Value) bool {
		if hit {
			return true
		}
		if pred(x) {
			hit = true
		}
		return hit
	})
	return hit
}

// c12ValueFn: the function a value lives in.
func c12ValueFn(v ssa.Value) *ssa.Function {
	switch x := v.(type) {
	case *ssa.Parameter:
		return x.Parent()
	case *ssa.FreeVar:
		return x.Parent()
	case ssa.Instruction:
		return x.Parent()
	}
	return nil
}

// c12CtxFor cuts the call context down to the part through which v's function was entered.
func c12CtxFor(v ssa.Value, ctx []ssa.CallInstruction) []ssa.CallInstruction {
	fn := c12ValueFn(v)
	for fn != nil && fn.Parent() != nil {
		fn = fn.Parent()
	}
	for k := len(ctx); k > 0; k-- {
		if sc := ctx[k-1].Common().StaticCallee(); sc != nil && (sc == fn || unwrap(sc) == fn) {
			return ctx[:k]
		}
	}
	return nil
}

// c12IsTargetSource: v is the result of the route lookup as the function of package home sees it: a call yielding a
// *route.Target that is dynamic (the Lookup func field, a picker, an interface method) or made into another package.
func c12IsTargetSource(v ssa.Value, home *ssa.Package) bool {
	call, ok := v.(*ssa.Call)
	if !ok {
		return false
	}
	res := call.Call.Signature().Results()
	isTarget := false
	for k := 0; k < res.Len(); k++ {
		if _, isPtr := res.At(k).Type().(*types.Pointer); isPtr && namedIs(res.At(k).Type(), "route.Target") {
			isTarget = true
		}
	}
	if !isTarget {
		return false
	}
	sc := call.Call.StaticCallee()
	if sc == nil {
		return true
	}
	sc = unwrap(sc)
	return !isRepoFn(sc) || len(sc.Blocks) == 0 || rootPkg(sc) != home
}

// c12Roots: the route lookups v may stem from (in call context ctx).
func c12Roots(v ssa.Value, ctx []ssa.CallInstruction, home *ssa.Package) map[ssa.Value]bool {
	out := map[ssa.Value]bool{}
	if v == nil {
		return out
	}
	c12Slice(v, c12CtxFor(v, ctx), func(x ssa.Value) bool {
		if c12IsTargetSource(x, home) {
			out[x] = true
			return true
		}
		return false
	})
	return out
}

func c12SameRoots(a, b map[ssa.Value]bool) bool {
	if len(a) == 0 || len(a) != len(b) {
		return false
	}
	for v := range a {
		if !b[v] {
			return false
		}
	}
	return true
}

func c12Subset(a, b map[ssa.Value]bool) bool {
	for v := range a {
		if !b[v] {
			return false
		}
	}
	return true
}
