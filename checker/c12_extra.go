package main

// Rules of C12 added after the rounds of independently authored breaking changes (DESIGN 11.6, 11.7).

import (
	"go/types"
	"strings"

	"golang.org/x/tools/go/ssa"
)

// ---- C12.A1: an auth scheme answers true only from the Match of its credential store ----------------------------------

func runC12A1(c *Ctx) {
	sp := c.spkg("auth")
	if sp == nil {
		c.undecided("C12.A1", "anchor|package auth", "not loaded")
		return
	}
	matcher := &c12Eng{leaf: c12CredentialMatch}
	n := 0
	for _, f := range c.AllFns {
		if rootPkg(f) != sp || f.Name() != "Authorized" || f.Signature.Recv() == nil || f.Parent() != nil {
			continue
		}
		n++
		for _, vr := range c12VirtualReturns(f, 0) {
			if !vr.val {
				continue
			}
			_, ok := matcher.holds(vr)
			c.check("C12.A1", fnKey(f)+"|credentials accepted only by the matcher", vr.pos, ok,
				"an auth scheme may answer true only on the edge where the credential store's Match accepted this request's credentials; a verdict from anything else (a cache of earlier headers, a flag) keeps admitting credentials after they were removed or rotated")
		}
	}
	c.atLeast("C12.A1", "auth scheme implementations", n, 1)
}

// c12CredentialMatch: the branch condition is the positive verdict of a credential comparison on this request: the
// Match of a credential store (htpasswd.File.Match), or the standard constant-time / hash comparisons.
func c12CredentialMatch(cond ssa.Value, truth bool) (ssa.Value, bool) {
	if call, ok := cond.(*ssa.Call); ok && truth {
		n := calleeName(&call.Call)
		return nil, strings.HasSuffix(n, ".Match") || n == "crypto/hmac.Equal"
	}
	x, cons := c12ConsOfFact(cond, truth)
	call, ok := x.(*ssa.Call)
	if !ok || x == cond {
		return nil, false
	}
	switch calleeName(&call.Call) {
	case "crypto/subtle.ConstantTimeCompare":
		return nil, cons.kind == 'i' && cons.n == 1 && cons.eq
	case "golang.org/x/crypto/bcrypt.CompareHashAndPassword":
		return nil, cons.kind == 'n' && cons.eq
	}
	return nil, false
}

// ---- C12.X1 (text part): an X-Forwarded-For element is judged as written ----------------------------------------------

// c12IsXFF: v is the X-Forwarded-For header of a request: Header.Get / Header.Values / Header[...] with that key.
func c12IsXFF(v ssa.Value) bool {
	switch x := v.(type) {
	case *ssa.Call:
		n := calleeName(&x.Call)
		if (strings.HasSuffix(n, "Header).Get") || strings.HasSuffix(n, "Header).Values")) && len(x.Call.Args) >= 2 {
			s, _ := constString(x.Call.Args[1])
			return strings.EqualFold(s, "X-Forwarded-For")
		}
	case *ssa.Lookup:
		if strings.HasSuffix(typeStr(x.X.Type()), "http.Header") {
			s, _ := constString(x.Index)
			return strings.EqualFold(s, "X-Forwarded-For")
		}
	}
	return false
}

// c12AddrChars: a constant separator / cut set that contains a character an IP literal can contain.
func c12AddrChars(s string) bool {
	return strings.ContainsAny(s, "0123456789abcdefABCDEF.:%[]")
}

// c12ElementKeeping: a standard-library call on the way from the header to net.ParseIP that leaves each element as
// written: trimming white space, splitting at separators that cannot be part of an address.
func c12ElementKeeping(call *ssa.Call) (arg ssa.Value, ok bool, why string) {
	name := c12BaseName(calleeName(&call.Call))
	args := call.Call.Args
	constArgs := func(from int) (bool, string) {
		for _, a := range args[from:] {
			if _, isInt := constInt(a); isInt {
				continue
			}
			s, isK := constString(a)
			if !isK {
				return false, "a call to " + name + " with a separator that is not a constant"
			}
			if c12AddrChars(s) {
				return false, "a call to " + name + " cutting at \"" + s + "\", characters an address can contain"
			}
		}
		return true, ""
	}
	switch name {
	case "strings.TrimSpace", "strings.Fields", "strings.FieldsSeq", "net/textproto.TrimString", "strings.Clone", "strings.ToLower", "strings.ToUpper",
		"slices.Values", "slices.All", "strings.FieldsFunc", "strings.FieldsFuncSeq", "strings.TrimFunc", "strings.TrimLeftFunc", "strings.TrimRightFunc":
		if len(args) > 0 {
			return args[0], true, ""
		}
	case "strings.Trim", "strings.TrimLeft", "strings.TrimRight", "strings.TrimPrefix", "strings.TrimSuffix",
		"strings.Split", "strings.SplitN", "strings.SplitAfter", "strings.SplitAfterN", "strings.SplitSeq", "strings.SplitAfterSeq", "strings.Cut",
		"strings.CutPrefix", "strings.CutSuffix", "strings.ReplaceAll", "strings.Replace":
		if len(args) >= 2 {
			if good, why := constArgs(1); !good {
				return nil, false, why
			}
			return args[0], true, ""
		}
	case "strings.Join":
		if len(args) == 2 {
			if good, why := constArgs(1); !good {
				return nil, false, why
			}
			return args[0], true, ""
		}
	case "net.SplitHostPort":
		return args[0], true, ""
	}
	return nil, false, "a call to " + name
}

func runC12X1(c *Ctx) {
	f := c.method("route", "Target", "AccessDeniedHTTP")
	if !c.need("C12.X1", f, "route.Target.AccessDeniedHTTP") {
		return
	}
	n := 0
	eachInstrOf(c12Region(c, f), func(_ *ssa.Function, i ssa.Instruction) {
		cc := callCommon(i)
		if cc == nil || len(cc.Args) == 0 {
			return
		}
		switch calleeName(cc) {
		case "net.ParseIP", "net/netip.ParseAddr":
		default:
			return
		}
		if !c12Derives(cc.Args[0], nil, c12IsXFF) {
			return
		}
		n++
		// walk from the parsed text back to the header; every step must keep the element intact
		bad := ""
		seen := map[ssa.Value]bool{}
		var walk func(v ssa.Value, depth int)
		walk = func(v ssa.Value, depth int) {
			if v == nil || seen[v] || bad != "" || depth > 40 {
				return
			}
			seen[v] = true
			if c12IsXFF(v) {
				return
			}
			switch x := v.(type) {
			case *ssa.Slice:
				if _, isStr := x.X.Type().Underlying().(*types.Basic); isStr {
					bad = "a substring taken at " + c.pos(x.Pos())
					return
				}
				walk(x.X, depth+1)
			case *ssa.Phi:
				for _, e := range x.Edges {
					walk(e, depth+1)
				}
			case *ssa.UnOp:
				walk(x.X, depth+1)
			case *ssa.IndexAddr:
				walk(x.X, depth+1)
			case *ssa.Index:
				walk(x.X, depth+1)
			case *ssa.Extract:
				walk(x.Tuple, depth+1)
			case *ssa.Next:
				walk(x.Iter, depth+1)
			case *ssa.Range:
				walk(x.X, depth+1)
			case *ssa.ChangeType:
				walk(x.X, depth+1)
			case *ssa.Convert:
				walk(x.X, depth+1)
			case *ssa.Alloc:
				for _, r := range *x.Referrers() {
					switch y := r.(type) {
					case *ssa.Store:
						if y.Addr == ssa.Value(x) {
							walk(y.Val, depth+1)
						}
					case *ssa.IndexAddr:
						for _, r2 := range *y.Referrers() {
							if st, ok := r2.(*ssa.Store); ok && st.Addr == ssa.Value(y) {
								walk(st.Val, depth+1)
							}
						}
					}
				}
			case *ssa.Parameter:
				// the text was handed in by the callers
				fn := x.Parent()
				for k, p := range fn.Params {
					if p != x {
						continue
					}
					for _, s := range gSites[fn] {
						if a := s.Common().Args; k < len(a) {
							walk(a[k], depth+1)
						}
					}
				}
				if len(gSites[fn]) == 0 {
					for _, a := range c12CombinatorOperands(fn) {
						walk(a, depth+1)
					}
				}
			case *ssa.FreeVar:
				fn := x.Parent()
				if fn.Parent() == nil {
					return
				}
				for k, fv := range fn.FreeVars {
					if fv != x {
						continue
					}
					eachInstr(fn.Parent(), func(j ssa.Instruction) {
						if mc, ok := j.(*ssa.MakeClosure); ok && mc.Fn == fn && k < len(mc.Bindings) {
							walk(mc.Bindings[k], depth+1)
						}
					})
				}
			case *ssa.Call:
				if sc := x.Call.StaticCallee(); sc != nil && isRepoFn(sc) && len(sc.Blocks) > 0 {
					eachInstr(sc, func(j ssa.Instruction) {
						if r, ok := j.(*ssa.Return); ok {
							for _, res := range r.Results {
								if bt, ok := res.Type().Underlying().(*types.Basic); ok && bt.Kind() == types.String {
									walk(res, depth+1)
								} else if _, isSl := res.Type().Underlying().(*types.Slice); isSl {
									walk(res, depth+1)
								}
							}
						}
					})
					for _, a := range x.Call.Args {
						walk(a, depth+1)
					}
					return
				}
				if strings.HasPrefix(calleeName(&x.Call), "builtin.") {
					for _, a := range x.Call.Args {
						walk(a, depth+1)
					}
					return
				}
				arg, ok, why := c12ElementKeeping(x)
				if !ok {
					bad = why
					return
				}
				walk(arg, depth+1)
			}
		}
		walk(cc.Args[0], 0)
		c.check("C12.X1", "(*route.Target).AccessDeniedHTTP|X-Forwarded-For element judged as written", i.Pos(), bad == "",
			"the text handed to net.ParseIP must be the header element itself (split, trimmed); here it passes through "+bad+": address surgery on an element (cutting at a ':' to drop a port) mangles bare IPv6 addresses, the element then fails to parse and is skipped — or parses as a different address — and a request whose chain names a non-admitted address is let through")
	})
	c.atLeast("C12.X1", "X-Forwarded-For elements parsed on behalf of AccessDeniedHTTP", n, 1)
}
