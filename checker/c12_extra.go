package main

// Rules of C12 added after the rounds of independently authored breaking changes (DESIGN 11.6, 11.7).

import (
	"go/types"
	"strings"

	"golang.org/x/tools/go/ssa"
)

// ---- C12.A1: an auth scheme answers true only from the Match of its credential store ----------------------------------

// c12SchemeMethods: the interface methods through which route.Target.Authorized asks a scheme for its verdict: the
// invokes with a single bool result on an interface declared in the repository, in Target.Authorized or a repository
// function it statically reaches (any package; the lookup of the scheme may live in a type of package auth).
func c12SchemeMethods(c *Ctx) map[*types.Func]bool {
	out := map[*types.Func]bool{}
	root := c.method("route", "Target", "Authorized")
	if root == nil {
		return out
	}
	seen := map[*ssa.Function]bool{}
	var visit func(f *ssa.Function, depth int)
	visit = func(f *ssa.Function, depth int) {
		if f == nil || seen[f] || depth > 4 {
			return
		}
		seen[f] = true
		eachInstr(f, func(i ssa.Instruction) {
			cc := callCommon(i)
			if cc == nil {
				return
			}
			if cc.IsInvoke() {
				res := cc.Method.Type().(*types.Signature).Results()
				if res.Len() == 1 && types.Identical(res.At(0).Type().Underlying(), types.Typ[types.Bool]) && cc.Method.Pkg() != nil && strings.HasPrefix(cc.Method.Pkg().Path(), repoMod) {
					out[cc.Method] = true
				}
				return
			}
			if sc := cc.StaticCallee(); sc != nil {
				if sc = unwrap(sc); isRepoFn(sc) && len(sc.Blocks) > 0 {
					visit(sc, depth+1)
				}
			}
		})
		for _, a := range f.AnonFuncs {
			visit(a, depth)
		}
	}
	visit(root, 0)
	return out
}

// c12ImplementsScheme: f is the implementation of one of the scheme interface methods by a concrete repository type.
func c12ImplementsScheme(f *ssa.Function, methods map[*types.Func]bool) bool {
	recv := f.Signature.Recv()
	if recv == nil || f.Parent() != nil {
		return false
	}
	for m := range methods {
		if m.Name() != f.Name() {
			continue
		}
		msig, ok := m.Type().(*types.Signature)
		if !ok || msig.Recv() == nil {
			continue
		}
		iface, ok := msig.Recv().Type().Underlying().(*types.Interface)
		if !ok {
			continue
		}
		if types.Implements(recv.Type(), iface) {
			return true
		}
	}
	return false
}

func runC12A1(c *Ctx) {
	sp := c.spkg("auth")
	if sp == nil {
		c.undecided("C12.A1", "anchor|package auth", "not loaded")
		return
	}
	// The auth schemes: wherever they live and whatever the method is called, the implementations of the interface
	// method through which Target.Authorized gets the verdict (failing that: the methods named Authorized of package auth).
	methods := c12SchemeMethods(c)
	isScheme := map[*ssa.Function]bool{}
	var schemes []*ssa.Function
	for _, f := range c.AllFns {
		if f.Signature.Recv() == nil || f.Parent() != nil || len(f.Blocks) == 0 || !isRepoFn(f) {
			continue
		}
		res := f.Signature.Results()
		if res.Len() != 1 || !types.Identical(res.At(0).Type().Underlying(), types.Typ[types.Bool]) {
			continue
		}
		// (by name only when the interface does not resolve: a registry method `Schemes.Authorized(name, r, w)` is not
		// a scheme; what it answers is judged by F1 as part of Target.Authorized)
		if c12ImplementsScheme(f, methods) || (len(methods) == 0 && rootPkg(f) == sp && f.Name() == "Authorized") {
			isScheme[f] = true
			schemes = append(schemes, f)
		}
	}
	matcher := &c12Eng{leaf: c12CredentialMatch}
	n, nMatch := 0, 0
	for _, f := range schemes {
		f := f
		// the positive verdict of ANOTHER scheme (asked through the interface, or a scheme method called directly): a
		// registry that looks the scheme up by name, a wrapper, a scheme that combines others. The scheme that is asked
		// is itself subject to this rule.
		delegate := &c12Eng{leaf: func(cond ssa.Value, truth bool) (ssa.Value, bool) {
			call, ok := cond.(*ssa.Call)
			if !ok || !truth {
				return nil, false
			}
			if call.Call.IsInvoke() {
				return nil, methods[call.Call.Method] || call.Call.Method.Name() == "Authorized"
			}
			sc := call.Call.StaticCallee()
			if sc == nil {
				return nil, false
			}
			sc = unwrap(sc)
			return nil, sc != f && isScheme[sc]
		}}
		n++
		for _, vr := range c12VirtualReturns(f, 0) {
			if !vr.val {
				continue
			}
			_, ok := matcher.holds(vr)
			if ok {
				nMatch++
			} else {
				_, ok = delegate.holds(vr)
			}
			c.check("C12.A1", fnKey(f)+"|credentials accepted only by the matcher", vr.pos, ok,
				"an auth scheme may answer true only on the edge where the credential store's Match accepted this request's credentials (or as the positive verdict of another scheme it asks); a verdict from anything else (a cache of earlier headers, a flag) keeps admitting credentials after they were removed or rotated")
		}
	}
	c.atLeast("C12.A1", "auth scheme implementations", n, 1)
	c.atLeast("C12.A1", "positive verdicts of an auth scheme that are the verdict of a credential matcher", nMatch, 1)
}

// c12CredentialMatch: the branch condition is the positive verdict of a credential comparison on this request: the
// Match of a credential store (htpasswd.File.Match), or the standard constant-time / hash comparisons.
func c12CredentialMatch(cond ssa.Value, truth bool) (ssa.Value, bool) {
	if call, ok := cond.(*ssa.Call); ok && truth {
		n := calleeName(&call.Call)
		return nil, strings.HasSuffix(n, ".Match") || n == "crypto/hmac.Equal"
	}
	x, cons := c12ConsOfFact(cond, truth)
	call, ok := x.(*ssa.Call)
	if !ok || x == cond {
		return nil, false
	}
	switch calleeName(&call.Call) {
	case "crypto/subtle.ConstantTimeCompare":
		return nil, cons.kind == 'i' && cons.n == 1 && cons.eq
	case "golang.org/x/crypto/bcrypt.CompareHashAndPassword":
		return nil, cons.kind == 'n' && cons.eq
	}
	return nil, false
}

// ---- C12.X1 (text part): an X-Forwarded-For element is judged as written ----------------------------------------------

// c12IsXFF: v is the X-Forwarded-For header of a request: Header.Get / Header.Values / Header[...] with that key.
func c12IsXFF(v ssa.Value) bool {
	switch x := v.(type) {
	case *ssa.Call:
		n := calleeName(&x.Call)
		if (strings.HasSuffix(n, "Header).Get") || strings.HasSuffix(n, "Header).Values")) && len(x.Call.Args) >= 2 {
			s, _ := constString(x.Call.Args[1])
			return strings.EqualFold(s, "X-Forwarded-For")
		}
	case *ssa.Lookup:
		if strings.HasSuffix(typeStr(x.X.Type()), "http.Header") {
			s, _ := constString(x.Index)
			return strings.EqualFold(s, "X-Forwarded-For")
		}
	}
	return false
}

// c12AddrChars: a constant separator / cut set that contains a character an IP literal can contain.
func c12AddrChars(s string) bool {
	return strings.ContainsAny(s, "0123456789abcdefABCDEF.:%[]")
}

// c12ElementKeeping: a standard-library call on the way from the header to net.ParseIP that leaves each element as
// written: trimming white space, splitting at separators that cannot be part of an address.
func c12ElementKeeping(call *ssa.Call) (arg ssa.Value, ok bool, why string) {
	name := c12BaseName(calleeName(&call.Call))
	args := call.Call.Args
	constArgs := func(from int) (bool, string) {
		for _, a := range args[from:] {
			if _, isInt := constInt(a); isInt {
				continue
			}
			s, isK := constString(a)
			if !isK {
				return false, "a call to " + name + " with a separator that is not a constant"
			}
			if c12AddrChars(s) {
				return false, "a call to " + name + " cutting at \"" + s + "\", characters an address can contain"
			}
		}
		return true, ""
	}
	switch name {
	case "strings.TrimSpace", "strings.Fields", "strings.FieldsSeq", "net/textproto.TrimString", "strings.Clone", "strings.ToLower", "strings.ToUpper",
		"slices.Values", "slices.All", "strings.FieldsFunc", "strings.FieldsFuncSeq", "strings.TrimFunc", "strings.TrimLeftFunc", "strings.TrimRightFunc":
		if len(args) > 0 {
			return args[0], true, ""
		}
	case "strings.Trim", "strings.TrimLeft", "strings.TrimRight", "strings.TrimPrefix", "strings.TrimSuffix",
		"strings.Split", "strings.SplitN", "strings.SplitAfter", "strings.SplitAfterN", "strings.SplitSeq", "strings.SplitAfterSeq", "strings.Cut",
		"strings.CutPrefix", "strings.CutSuffix", "strings.ReplaceAll", "strings.Replace":
		if len(args) >= 2 {
			if good, why := constArgs(1); !good {
				return nil, false, why
			}
			return args[0], true, ""
		}
	case "strings.Join":
		if len(args) == 2 {
			if good, why := constArgs(1); !good {
				return nil, false, why
			}
			return args[0], true, ""
		}
	case "net.SplitHostPort":
		return args[0], true, ""
	}
	return nil, false, "a call to " + name
}

func runC12X1(c *Ctx) {
	f := c.method("route", "Target", "AccessDeniedHTTP")
	if !c.need("C12.X1", f, "route.Target.AccessDeniedHTTP") {
		return
	}
	n := 0
	eachInstrOf(c12Region(c, f), func(_ *ssa.Function, i ssa.Instruction) {
		cc := callCommon(i)
		if cc == nil || len(cc.Args) == 0 {
			return
		}
		switch calleeName(cc) {
		case "net.ParseIP", "net/netip.ParseAddr":
		default:
			return
		}
		if !c12Derives(cc.Args[0], nil, c12IsXFF) {
			return
		}
		n++
		// walk from the parsed text back to the header; every step must keep the element intact
		bad := ""
		seen := map[ssa.Value]bool{}
		var walk func(v ssa.Value, depth int)
		walk = func(v ssa.Value, depth int) {
			if v == nil || seen[v] || bad != "" || depth > 40 {
				return
			}
			seen[v] = true
			if c12IsXFF(v) {
				return
			}
			switch x := v.(type) {
			case *ssa.Slice:
				if _, isStr := x.X.Type().Underlying().(*types.Basic); isStr {
					bad = "a substring taken at " + c.pos(x.Pos())
					return
				}
				walk(x.X, depth+1)
			case *ssa.Phi:
				for _, e := range x.Edges {
					walk(e, depth+1)
				}
			case *ssa.UnOp:
				walk(x.X, depth+1)
			case *ssa.IndexAddr:
				walk(x.X, depth+1)
			case *ssa.Index:
				walk(x.X, depth+1)
			case *ssa.Extract:
				walk(x.Tuple, depth+1)
			case *ssa.Next:
				walk(x.Iter, depth+1)
			case *ssa.Range:
				walk(x.X, depth+1)
			case *ssa.ChangeType:
				walk(x.X, depth+1)
			case *ssa.Convert:
				walk(x.X, depth+1)
			case *ssa.Alloc:
				for _, r := range *x.Referrers() {
					switch y := r.(type) {
					case *ssa.Store:
						if y.Addr == ssa.Value(x) {
							walk(y.Val, depth+1)
						}
					case *ssa.IndexAddr:
						for _, r2 := range *y.Referrers() {
							if st, ok := r2.(*ssa.Store); ok && st.Addr == ssa.Value(y) {
								walk(st.Val, depth+1)
							}
						}
					}
				}
			case *ssa.Parameter:
				// the text was handed in by the callers
				fn := x.Parent()
				for k, p := range fn.Params {
					if p != x {
						continue
					}
					for _, s := range gSites[fn] {
						if a := s.Common().Args; k < len(a) {
							walk(a[k], depth+1)
						}
					}
				}
				if len(gSites[fn]) == 0 {
					for _, a := range c12CombinatorOperands(fn) {
						walk(a, depth+1)
					}
					for k, p := range fn.Params {
						if p == x {
							for _, a := range c12YieldArgs(fn, k) {
								walk(a, depth+1)
							}
						}
					}
				}
			case *ssa.FreeVar:
				fn := x.Parent()
				if fn.Parent() == nil {
					return
				}
				for k, fv := range fn.FreeVars {
					if fv != x {
						continue
					}
					eachInstr(fn.Parent(), func(j ssa.Instruction) {
						if mc, ok := j.(*ssa.MakeClosure); ok && mc.Fn == fn && k < len(mc.Bindings) {
							walk(mc.Bindings[k], depth+1)
						}
					})
				}
			case *ssa.Call:
				if sc := x.Call.StaticCallee(); sc != nil && isRepoFn(sc) && len(sc.Blocks) > 0 {
					eachInstr(sc, func(j ssa.Instruction) {
						if r, ok := j.(*ssa.Return); ok {
							for _, res := range r.Results {
								if bt, ok := res.Type().Underlying().(*types.Basic); ok && bt.Kind() == types.String {
									walk(res, depth+1)
								} else if _, isSl := res.Type().Underlying().(*types.Slice); isSl {
									walk(res, depth+1)
								}
							}
						}
					})
					for _, a := range x.Call.Args {
						walk(a, depth+1)
					}
					return
				}
				if strings.HasPrefix(calleeName(&x.Call), "builtin.") {
					for _, a := range x.Call.Args {
						walk(a, depth+1)
					}
					return
				}
				arg, ok, why := c12ElementKeeping(x)
				if !ok {
					bad = why
					return
				}
				walk(arg, depth+1)
			}
		}
		walk(cc.Args[0], 0)
		c.check("C12.X1", "(*route.Target).AccessDeniedHTTP|X-Forwarded-For element judged as written", i.Pos(), bad == "",
			"the text handed to net.ParseIP must be the header element itself (split, trimmed); here it passes through "+bad+": address surgery on an element (cutting at a ':' to drop a port) mangles bare IPv6 addresses, the element then fails to parse and is skipped — or parses as a different address — and a request whose chain names a non-admitted address is let through")
	})
	c.atLeast("C12.X1", "X-Forwarded-For elements parsed on behalf of AccessDeniedHTTP", n, 1)
}
