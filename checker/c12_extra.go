package main

// Rules of C12 added after the rounds of independently authored breaking changes (DESIGN 11.6, 11.7).

import (
	"go/types"
	"strings"

	"golang.org/x/tools/go/ssa"
)

func runC12A1(c *Ctx) {
	sp := c.spkg("auth")
	if sp == nil {
		c.undecided("C12.A1", "anchor|package auth", "not loaded")
		return
	}
	n := 0
	for _, f := range c.AllFns {
		if rootPkg(f) != sp || f.Name() != "Authorized" || f.Signature.Recv() == nil {
			continue
		}
		n++
		eachInstr(f, func(i ssa.Instruction) {
			r, ok := i.(*ssa.Return)
			if !ok || len(r.Results) != 1 {
				return
			}
			if bv, isK := constBool(r.Results[0]); isK {
				if !bv {
					return
				}
				// `return true` must be under a true verdict of the matcher
				ok2 := false
				for _, ft := range factsAt(r.Block()) {
					if call, isC := ft.Cond.(*ssa.Call); isC && ft.Truth && strings.HasSuffix(calleeName(&call.Call), ".Match") {
						ok2 = true
					}
				}
				c.check("C12.A1", fnKey(f)+"|credentials accepted only by the matcher", r.Pos(), ok2,
					"an auth scheme may answer true only on the edge where the credential store's Match accepted this request's credentials; a verdict from anything else (a cache of earlier headers, a flag) keeps admitting credentials after they were removed or rotated")
				return
			}
			call, isC := r.Results[0].(*ssa.Call)
			c.check("C12.A1", fnKey(f)+"|credentials accepted only by the matcher", r.Pos(), isC && strings.HasSuffix(calleeName(&call.Call), ".Match"),
				"the verdict of an auth scheme must be the credential store's Match on this request's credentials")
		})
	}
	c.atLeast("C12.A1", "auth scheme implementations", n, 1)
}

// ---- C13.L2: the self-redirect test compares scheme, full host (with port) and path ------------------------------

func runC12X1(c *Ctx) {
	f := c.method("route", "Target", "AccessDeniedHTTP")
	if !c.need("C12.X1", f, "route.Target.AccessDeniedHTTP") {
		return
	}
	isXFF := func(v ssa.Value) bool {
		call, ok := v.(*ssa.Call)
		if !ok || !strings.HasSuffix(calleeName(&call.Call), "Header).Get") || len(call.Call.Args) < 2 {
			return false
		}
		s, _ := constString(call.Call.Args[1])
		return strings.EqualFold(s, "X-Forwarded-For")
	}
	okCalls := map[string]bool{"strings.TrimSpace": true, "strings.Trim": true, "strings.Split": true, "strings.SplitN": true, "strings.Fields": true,
		"strings.FieldsFunc": true, "net.SplitHostPort": true, "strings.TrimPrefix": true, "strings.TrimSuffix": true}
	n := 0
	eachInstr(f, func(i ssa.Instruction) {
		cc := callCommon(i)
		if cc == nil || calleeName(cc) != "net.ParseIP" || !derivesThroughRepo(cc.Args[0], isXFF) {
			return
		}
		n++
		// walk the slice from the parsed text back to the header; every step must keep the element intact
		bad := ""
		seen := map[ssa.Value]bool{}
		var walk func(v ssa.Value, depth int)
		walk = func(v ssa.Value, depth int) {
			if v == nil || seen[v] || bad != "" || depth > 40 {
				return
			}
			seen[v] = true
			switch x := v.(type) {
			case *ssa.Slice:
				if _, isStr := x.X.Type().Underlying().(*types.Basic); isStr {
					bad = "a substring taken at " + c.pos(x.Pos())
					return
				}
				walk(x.X, depth+1)
			case *ssa.Phi:
				for _, e := range x.Edges {
					walk(e, depth+1)
				}
			case *ssa.UnOp:
				walk(x.X, depth+1)
			case *ssa.IndexAddr:
				walk(x.X, depth+1)
			case *ssa.Extract:
				walk(x.Tuple, depth+1)
			case *ssa.Alloc:
				for _, d := range defsOf(x) {
					walk(d.Val, depth+1)
				}
			case *ssa.Call:
				if isXFF(x) {
					return
				}
				name := calleeName(&x.Call)
				if okCalls[name] {
					walk(x.Call.Args[0], depth+1)
					return
				}
				if sc := x.Call.StaticCallee(); sc != nil && isRepoFn(sc) && len(sc.Blocks) > 0 {
					eachInstr(sc, func(j ssa.Instruction) {
						if r, ok := j.(*ssa.Return); ok {
							for _, res := range r.Results {
								if bt, ok := res.Type().Underlying().(*types.Basic); ok && bt.Kind() == types.String {
									walk(res, depth+1)
								}
							}
						}
					})
					for _, a := range x.Call.Args {
						walk(a, depth+1)
					}
					return
				}
				bad = "a call to " + name
			case *ssa.Parameter, *ssa.Const, *ssa.FreeVar, *ssa.Global:
			default:
			}
		}
		walk(cc.Args[0], 0)
		c.check("C12.X1", "(*route.Target).AccessDeniedHTTP|X-Forwarded-For element judged as written", i.Pos(), bad == "",
			"the text handed to net.ParseIP must be the header element itself (split, trimmed); here it passes through "+bad+": address surgery on an element (cutting at a ':' to drop a port) mangles bare IPv6 addresses, the element then fails to parse and is skipped — or parses as a different address — and a request whose chain names a non-admitted address is let through")
	})
	c.atLeast("C12.X1", "X-Forwarded-For elements parsed in AccessDeniedHTTP", n, 1)
}

// ---- C13.E2: the redirect is built from the request URL with its encoded path --------------------------------
