package main

// C01 support: (1) branch facts that look through boolean helper functions and `ok := a && b` merges, (2) a small
// abstract interpreter that explores a CFG under an ASSUMPTION ("this counter is zero", "strict mode and total !=
// passing", "the CheckID of the element is serfHealth") and prunes the branches the assumption decides - through
// calls of repository helpers, whatever the shape of the conditions (if chain, switch, guard clause, a && b, a
// predicate function, a flag returned by a helper).

import (
	"go/token"
	"go/types"
	"strings"

	"golang.org/x/tools/go/ssa"
)

// ---- facts through helpers --------------------------------------------------------------------------------------

func c01StripNot(v ssa.Value, truth bool) (ssa.Value, bool) {
	for {
		u, ok := v.(*ssa.UnOp)
		if !ok || u.Op != token.NOT {
			return v, truth
		}
		v, truth = u.X, !truth
	}
}

// c01EdgeFact: the condition carried by the CFG edge p -> s, if p ends in a two-way branch.
func c01EdgeFact(p, s *ssa.BasicBlock) (Fact, bool) {
	if len(p.Instrs) == 0 {
		return Fact{}, false
	}
	iff, ok := p.Instrs[len(p.Instrs)-1].(*ssa.If)
	if !ok || p.Succs[0] == p.Succs[1] {
		return Fact{}, false
	}
	cond, truth := c01StripNot(iff.Cond, p.Succs[0] == s)
	return Fact{cond, truth}, true
}

// c01Facts: the branch facts at b, together with what they imply inside boolean repository helpers
// (isAgentDown(c) == true implies c.CheckID == "serfHealth" and c.Status == "critical").
func c01Facts(b *ssa.BasicBlock) []Fact {
	return c01Expand(factsAt(b), 0)
}

func c01Expand(fs []Fact, depth int) []Fact {
	var out []Fact
	for _, f := range fs {
		c, t := c01StripNot(f.Cond, f.Truth)
		f = Fact{c, t}
		out = append(out, f)
		out = append(out, c01Implied(f, depth)...)
	}
	return out
}

// c01Implied: facts that hold whenever f holds, found inside the helper / merge that computes f.Cond.
func c01Implied(f Fact, depth int) []Fact {
	if depth > 3 {
		return nil
	}
	viaCall := func(call *ssa.Call, k int) []Fact {
		sc := call.Call.StaticCallee()
		if sc == nil || !isRepoFn(sc) || len(sc.Blocks) == 0 || sc.Signature.Results().Len() <= k {
			return nil
		}
		if b, ok := sc.Signature.Results().At(k).Type().Underlying().(*types.Basic); !ok || b.Kind() != types.Bool {
			return nil
		}
		var points [][]Fact
		eachInstr(sc, func(i ssa.Instruction) {
			if r, ok := i.(*ssa.Return); ok && len(r.Results) > k {
				points = append(points, c01Points(r.Results[k], r.Block(), f.Truth, depth+1)...)
			}
		})
		return c01Meet(points)
	}
	switch x := f.Cond.(type) {
	case *ssa.Call:
		if x.Call.Signature().Results().Len() != 1 {
			return nil
		}
		return viaCall(x, 0)
	case *ssa.Extract:
		if call, ok := x.Tuple.(*ssa.Call); ok {
			return viaCall(call, x.Index)
		}
	case *ssa.Phi:
		return c01Meet(c01Points(x, x.Block(), f.Truth, depth+1))
	}
	return nil
}

// c01Points: the ways in which value v (evaluated at block at) can have the given truth, each with the facts known then.
func c01Points(v ssa.Value, at *ssa.BasicBlock, truth bool, depth int) [][]Fact {
	v, truth = c01StripNot(v, truth)
	if k, ok := constBool(v); ok {
		if k == truth {
			return [][]Fact{c01Expand(localFactsAt(at), depth)}
		}
		return nil
	}
	if phi, ok := v.(*ssa.Phi); ok && depth <= 4 {
		var out [][]Fact
		for k, e := range phi.Edges {
			p := phi.Block().Preds[k]
			var extra []Fact
			if ef, ok := c01EdgeFact(p, phi.Block()); ok {
				extra = c01Expand([]Fact{ef}, depth)
			}
			for _, pt := range c01Points(e, p, truth, depth+1) {
				out = append(out, append(append([]Fact{}, pt...), extra...))
			}
		}
		return out
	}
	fs := c01Expand(localFactsAt(at), depth)
	fs = append(fs, c01Expand([]Fact{{v, truth}}, depth)...)
	return [][]Fact{fs}
}

// c01Meet keeps the facts common to all points.
func c01Meet(points [][]Fact) []Fact {
	if len(points) == 0 {
		return nil
	}
	out := points[0]
	for _, p := range points[1:] {
		var keep []Fact
		for _, f := range out {
			for _, g := range p {
				if f.Cond == g.Cond && f.Truth == g.Truth {
					keep = append(keep, f)
					break
				}
			}
		}
		out = keep
	}
	return out
}

// c01EqOperands: the fact establishes x == y.
func c01EqOperands(f Fact) (x, y ssa.Value, ok bool) {
	b, isB := f.Cond.(*ssa.BinOp)
	if !isB {
		return nil, nil, false
	}
	if (b.Op == token.EQL && f.Truth) || (b.Op == token.NEQ && !f.Truth) {
		return b.X, b.Y, true
	}
	return nil, nil, false
}

// ---- assumption-pruned exploration --------------------------------------------------------------------------------

type c01Tri int8

const (
	c01U c01Tri = 0
	c01T c01Tri = 1
	c01F c01Tri = -1
)

func c01Bool(b bool) c01Tri {
	if b {
		return c01T
	}
	return c01F
}

// c01Frame is a call context: parameters of the callee resolve to the arguments of call.
type c01Frame struct {
	call *ssa.Call
	up   *c01Frame
}

func (f *c01Frame) depth() int {
	n := 0
	for ; f != nil; f = f.up {
		n++
	}
	return n
}

// c01Oracle decides a condition under the assumption, or answers c01U.
type c01Oracle func(ev *c01Eval, v ssa.Value, fr *c01Frame) c01Tri

type c01Eval struct {
	oracle c01Oracle
	known  map[ssa.Value]c01Tri
	guard  int
}

type c01PhiEnv map[*ssa.Phi]ssa.Value

// resolve follows conversions and maps a helper's parameter to the argument of the call we came in through (or of its
// only static call site).
func (ev *c01Eval) resolve(v ssa.Value, fr *c01Frame) (ssa.Value, *c01Frame) {
	for n := 0; n < 12; n++ {
		switch x := v.(type) {
		case *ssa.ChangeType:
			v = x.X
			continue
		case *ssa.Parameter:
			fn := x.Parent()
			idx := -1
			for k, p := range fn.Params {
				if p == x {
					idx = k
				}
			}
			if fr != nil && fr.call.Call.StaticCallee() == fn && idx >= 0 && idx < len(fr.call.Call.Args) {
				v, fr = fr.call.Call.Args[idx], fr.up
				continue
			}
			if fr == nil && idx >= 0 {
				if sites := gSites[fn]; len(sites) == 1 && onlyStaticallyCalled(fn) {
					if call, ok := sites[0].(*ssa.Call); ok && idx < len(call.Call.Args) {
						v = call.Call.Args[idx]
						continue
					}
				}
			}
		}
		break
	}
	return v, fr
}

// c01ResolveUp is resolve without a context.
func c01ResolveUp(v ssa.Value) ssa.Value {
	ev := &c01Eval{}
	r, _ := ev.resolve(v, nil)
	return r
}

func (ev *c01Eval) eval(v ssa.Value, fr *c01Frame, env c01PhiEnv) c01Tri {
	ev.guard++
	defer func() { ev.guard-- }()
	if ev.guard > 40 {
		return c01U
	}
	v, fr = ev.resolve(v, fr)
	if k, ok := constBool(v); ok {
		return c01Bool(k)
	}
	if t, ok := ev.known[v]; ok {
		return t
	}
	switch x := v.(type) {
	case *ssa.UnOp:
		if x.Op == token.NOT {
			return -ev.eval(x.X, fr, env)
		}
	case *ssa.Phi:
		if e, ok := env[x]; ok {
			return ev.eval(e, fr, env)
		}
		var res c01Tri
		for k, e := range x.Edges {
			t := ev.eval(e, fr, nil)
			if t == c01U || (k > 0 && t != res) {
				return c01U
			}
			res = t
		}
		return res
	case *ssa.BinOp:
		if b, ok := x.X.Type().Underlying().(*types.Basic); ok && b.Kind() == types.Bool && (x.Op == token.EQL || x.Op == token.NEQ) {
			l, r := ev.eval(x.X, fr, env), ev.eval(x.Y, fr, env)
			if l != c01U && r != c01U {
				return c01Bool((l == r) == (x.Op == token.EQL))
			}
		}
	}
	if ev.oracle != nil {
		if t := ev.oracle(ev, v, fr); t != c01U {
			return t
		}
	}
	switch x := v.(type) {
	case *ssa.Call:
		return c01Component(ev.callResults(x, fr), 0)
	case *ssa.Extract:
		if call, ok := x.Tuple.(*ssa.Call); ok {
			return c01Component(ev.callResults(call, fr), x.Index)
		}
	}
	return c01U
}

func c01Component(tuples [][]c01Tri, k int) c01Tri {
	if len(tuples) == 0 {
		return c01U
	}
	var res c01Tri
	for n, t := range tuples {
		if k >= len(t) || t[k] == c01U || (n > 0 && t[k] != res) {
			return c01U
		}
		res = t[k]
	}
	return res
}

// callResults: the tuples of (boolean) results a repository helper can return under the assumption; nil = unknown.
func (ev *c01Eval) callResults(call *ssa.Call, fr *c01Frame) [][]c01Tri {
	sc := call.Call.StaticCallee()
	if sc == nil || !isRepoFn(sc) || len(sc.Blocks) == 0 || fr.depth() >= 3 {
		return nil
	}
	anyBool := false
	rs := sc.Signature.Results()
	for k := 0; k < rs.Len(); k++ {
		if b, ok := rs.At(k).Type().Underlying().(*types.Basic); ok && b.Kind() == types.Bool {
			anyBool = true
		}
	}
	if !anyBool {
		return nil
	}
	inner := &c01Frame{call, fr}
	var out [][]c01Tri
	ev.walk(sc.Blocks[0], 0, nil, inner, nil, func(i ssa.Instruction, env c01PhiEnv) bool {
		r, ok := i.(*ssa.Return)
		if !ok {
			return false
		}
		t := make([]c01Tri, len(r.Results))
		for k, res := range r.Results {
			if b, ok := res.Type().Underlying().(*types.Basic); ok && b.Kind() == types.Bool {
				t[k] = ev.eval(res, inner, env)
			}
		}
		out = append(out, t)
		return true
	})
	return out
}

// walk explores the CFG from instruction idx of block start (entered from block `from`, may be nil), taking at every
// two-way branch only the edges the assumption does not exclude. cut blocks are not entered (they are reported in the
// result). on is called for every instruction on the way; returning true ends that path.
func (ev *c01Eval) walk(start *ssa.BasicBlock, idx int, from *ssa.BasicBlock, fr *c01Frame, cut map[*ssa.BasicBlock]bool,
	on func(i ssa.Instruction, env c01PhiEnv) bool) (reachedCut map[*ssa.BasicBlock]bool) {
	reachedCut = map[*ssa.BasicBlock]bool{}
	type state struct {
		b    *ssa.BasicBlock
		idx  int
		from *ssa.BasicBlock
		env  c01PhiEnv
	}
	type key struct{ b, from *ssa.BasicBlock }
	seen := map[key]bool{}
	enter := func(env c01PhiEnv, b, from *ssa.BasicBlock) c01PhiEnv {
		ne := c01PhiEnv{}
		for k, v := range env {
			ne[k] = v
		}
		if from == nil {
			return ne
		}
		pi := -1
		for k, p := range b.Preds {
			if p == from {
				pi = k
			}
		}
		if pi < 0 {
			return ne
		}
		// phis of one block are evaluated simultaneously
		vals := map[*ssa.Phi]ssa.Value{}
		for _, in := range b.Instrs {
			phi, ok := in.(*ssa.Phi)
			if !ok {
				break
			}
			e := phi.Edges[pi]
			if ep, ok := e.(*ssa.Phi); ok {
				if pv, ok := env[ep]; ok {
					e = pv
				}
			}
			vals[phi] = e
		}
		for k, v := range vals {
			ne[k] = v
		}
		return ne
	}
	stack := []state{{start, idx, from, enter(nil, start, from)}}
	steps := 0
	for len(stack) > 0 {
		st := stack[len(stack)-1]
		stack = stack[:len(stack)-1]
		steps++
		if steps > 5000 {
			break
		}
		stopped := false
		for k := st.idx; k < len(st.b.Instrs); k++ {
			if on != nil && on(st.b.Instrs[k], st.env) {
				stopped = true
				break
			}
		}
		if stopped || len(st.b.Instrs) == 0 {
			continue
		}
		succs := st.b.Succs
		if iff, ok := st.b.Instrs[len(st.b.Instrs)-1].(*ssa.If); ok && len(succs) == 2 && succs[0] != succs[1] {
			switch ev.eval(iff.Cond, fr, st.env) {
			case c01T:
				succs = succs[:1]
			case c01F:
				succs = succs[1:]
			}
		}
		for _, s := range succs {
			if cut[s] {
				reachedCut[s] = true
				continue
			}
			if seen[key{s, st.b}] {
				continue
			}
			seen[key{s, st.b}] = true
			stack = append(stack, state{s, 0, st.b, enter(st.env, s, st.b)})
		}
	}
	return reachedCut
}

// ---- oracles ------------------------------------------------------------------------------------------------------

// c01LoadOfField: v is a load of field `field` of an api.HealthCheck; returns the (unresolved) base.
func c01LoadOfField(v ssa.Value, field string) (ssa.Value, bool) {
	return fieldOf(v, apiPkg+".HealthCheck", field)
}

// c01FieldIs: the assumption "field `field` of the health check designated by isBase has the value val".
func c01FieldIs(isBase func(ssa.Value) bool, field, val string) c01Oracle {
	isField := func(ev *c01Eval, v ssa.Value, fr *c01Frame) bool {
		v, fr = ev.resolve(v, fr)
		b, ok := c01LoadOfField(v, field)
		if !ok {
			return false
		}
		rb, _ := ev.resolve(b, fr)
		return isBase(rb)
	}
	// the constant (or constant prefix) the other side stands for
	other := func(ev *c01Eval, v ssa.Value, fr *c01Frame) (s string, prefixOnly, ok bool) {
		v, _ = ev.resolve(v, fr)
		if k, isK := constString(v); isK {
			return k, false, true
		}
		if add, isAdd := v.(*ssa.BinOp); isAdd && add.Op == token.ADD {
			if k, isK := constString(add.X); isK {
				return k, true, true
			}
		}
		return "", false, false
	}
	return func(ev *c01Eval, v ssa.Value, fr *c01Frame) c01Tri {
		switch x := v.(type) {
		case *ssa.BinOp:
			if x.Op != token.EQL && x.Op != token.NEQ {
				return c01U
			}
			for _, pair := range [][2]ssa.Value{{x.X, x.Y}, {x.Y, x.X}} {
				if !isField(ev, pair[0], fr) {
					continue
				}
				k, prefixOnly, ok := other(ev, pair[1], fr)
				if !ok {
					return c01U
				}
				if prefixOnly {
					if strings.HasPrefix(val, k) {
						return c01U
					}
					return c01Bool(x.Op == token.NEQ)
				}
				return c01Bool((val == k) == (x.Op == token.EQL))
			}
			// len(field) == 0
			if call, ok := x.X.(*ssa.Call); ok && calleeName(&call.Call) == "builtin.len" && len(call.Call.Args) == 1 && isField(ev, call.Call.Args[0], fr) {
				if n, isN := constInt(x.Y); isN {
					return c01Bool((int64(len(val)) == n) == (x.Op == token.EQL))
				}
			}
		case *ssa.Call:
			n := calleeName(&x.Call)
			if len(x.Call.Args) == 2 && isField(ev, x.Call.Args[0], fr) {
				if k, isK := constString(x.Call.Args[1]); isK {
					switch n {
					case "strings.HasPrefix":
						return c01Bool(strings.HasPrefix(val, k))
					case "strings.HasSuffix":
						return c01Bool(strings.HasSuffix(val, k))
					case "strings.Contains":
						return c01Bool(strings.Contains(val, k))
					case "strings.EqualFold":
						return c01Bool(strings.EqualFold(val, k))
					}
				}
			}
		case *ssa.Extract:
			if call, ok := x.Tuple.(*ssa.Call); ok && x.Index == 1 && len(call.Call.Args) == 2 && isField(ev, call.Call.Args[0], fr) {
				if k, isK := constString(call.Call.Args[1]); isK {
					switch calleeName(&call.Call) {
					case "strings.CutPrefix":
						return c01Bool(strings.HasPrefix(val, k))
					case "strings.CutSuffix":
						return c01Bool(strings.HasSuffix(val, k))
					}
				}
			}
		}
		return c01U
	}
}

// c01IntCmp evaluates `l op r`.
func c01IntCmp(op token.Token, l, r int64) c01Tri {
	switch op {
	case token.EQL:
		return c01Bool(l == r)
	case token.NEQ:
		return c01Bool(l != r)
	case token.LSS:
		return c01Bool(l < r)
	case token.LEQ:
		return c01Bool(l <= r)
	case token.GTR:
		return c01Bool(l > r)
	case token.GEQ:
		return c01Bool(l >= r)
	}
	return c01U
}
