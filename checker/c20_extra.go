package main

// Rules of C20 added after the rounds of independently authored breaking changes (DESIGN 11.6, 11.7).

import (
	"go/token"
	"go/types"

	"golang.org/x/tools/go/ssa"
)

func runC20E1(c *Ctx) {
	pkg := c.spkg("logger")
	if pkg == nil {
		return
	}
	isDecoded := func(v ssa.Value) bool {
		if _, ok := fieldOf(v, "net/url.URL", "Path"); ok {
			return true
		}
		if _, ok := fieldOf(v, "net/url.URL", "Fragment"); ok {
			return true
		}
		return false
	}
	n := 0
	for _, f := range c.AllFns {
		if rootPkg(f) != pkg {
			continue
		}
		eachInstr(f, func(i ssa.Instruction) {
			cc := callCommon(i)
			if cc == nil {
				return
			}
			if sc := cc.StaticCallee(); sc != nil && isRepoFn(sc) {
				return // a repository helper: its own writes are looked at, with its parameters traced to the call sites
			}
			// anything that is handed the line buffer together with data: b.WriteString(s), fmt.Fprint(b, s), io.WriteString(b, s) ...
			bufAt := -1
			for k, a := range cc.Args {
				if isBufferPtr(stripIface(a).Type()) {
					bufAt = k
					break
				}
			}
			if bufAt < 0 || len(cc.Args) < 2 {
				return
			}
			n++
			bad := false
			for k, a := range cc.Args {
				if k == bufAt {
					continue
				}
				if derivesThroughRepo(a, isDecoded) || c20Derives(a, isDecoded) {
					bad = true
				}
			}
			c.check("C20.E1", fnKey(f)+"|no decoded URL component written to the log line", i.Pos(), !bad,
				"url.URL.Path is the DECODED path: a request for /x%0Ay puts a raw line feed into the log buffer (one event, two lines), and %20, %25, %3F, %2F render differently from URL.String()/RequestURI(), which is what the standard library would print")
		})
	}
	c.atLeast("C20.E1", "writes into the line buffer in package logger", n, 3)
}

func runC20N1(c *Ctx) {
	width := func(t types.Type) (int, bool) {
		b, ok := t.Underlying().(*types.Basic)
		if !ok {
			return 0, false
		}
		switch b.Kind() {
		case types.Int8:
			return 8, true
		case types.Int16:
			return 16, true
		case types.Int32:
			return 32, true
		case types.Int64, types.Int:
			return 64, true
		}
		return 0, false
	}
	n := 0
	for _, f := range c.AllFns {
		eachInstr(f, func(i ssa.Instruction) {
			u, ok := i.(*ssa.UnOp)
			if !ok || u.Op != token.SUB {
				return
			}
			w, signed := width(u.X.Type())
			if !signed {
				return
			}
			if _, isK := u.X.(*ssa.Const); isK {
				return
			}
			n++
			if w > 32 {
				return
			}
			// a narrow signed value negated in its own width: wrong for the minimum
			fromParam := derives(u.X, func(v ssa.Value) bool {
				p, ok := v.(*ssa.Parameter)
				if !ok {
					return false
				}
				pw, ps := width(p.Type())
				return ps && pw >= w
			})
			c.check("C20.N1", fnKey(f)+"|negation performed in a wider type than the input", i.Pos(), !fromParam,
				"-n overflows for the minimum of a "+itoa(w)+"-bit signed type: the formatter then emits bytes below '0' for that one value (i32toa(-2147483648) must print \"-2147483648\"); widen before negating")
		})
	}
	c.ob("C20.N1", "formatters|no narrow negation", token.NoPos, OK, "scanned "+itoa(n)+" integer negations")
}
