package main

// Rules of C05 added after the rounds of independently authored breaking changes (DESIGN 11.6, 11.7).

import (
	"go/token"
	"go/types"

	"golang.org/x/tools/go/ssa"
)

func runC05I1(c *Ctx) {
	n := 0
	isURL := func(t types.Type) bool { return namedIs(t, "url.URL") }
	for _, f := range c.AllFns {
		if rootPkg(f) != c.spkg("route") {
			continue
		}
		eachInstr(f, func(i ssa.Instruction) {
			b, ok := i.(*ssa.BinOp)
			if !ok || (b.Op != token.EQL && b.Op != token.NEQ) {
				return
			}
			if isNilConst(b.X) || isNilConst(b.Y) {
				return
			}
			if isURL(b.X.Type()) || isURL(b.Y.Type()) {
				n++
				c.check("C05.I1", fnKey(f)+"|URL compared by value", b.Pos(), false,
					"comparing url.URL values (or pointers) with == compares the User *Userinfo pointer, not the credentials: two parses of the same text with a userinfo part never compare equal, so 'route add' is no longer idempotent (duplicate targets accumulate) and 'route del <svc> <src> <dst>' removes nothing — compare URL.String()")
			}
		})
	}
	// the idiom that must exist: de-duplication / deletion compare URL.String() results
	okText := 0
	for _, name := range []string{"addTarget"} {
		f := c.method("route", "Route", name)
		if f == nil {
			continue
		}
		eachInstr(f, func(i ssa.Instruction) {
			b, ok := i.(*ssa.BinOp)
			if !ok || b.Op != token.EQL {
				return
			}
			_, x := isCallTo(b.X, "(*net/url.URL).String")
			_, y := isCallTo(b.Y, "(*net/url.URL).String")
			if x && y {
				okText++
			}
		})
	}
	c.check("C05.I1", "route.(*Route).addTarget|targets de-duplicated by URL text", token.NoPos, okText >= 1, "addTarget must recognise an existing target by comparing URL.String() of both URLs (idempotent add)")
}

// ---- C07.W1 (all paths): wrapper methods forward on every path ------------------------------------------
