package main

// C05.I1: URLs are compared by their text, never by pointer or shallow struct equality (idempotent add).

import (
	"go/token"
	"go/types"

	"golang.org/x/tools/go/ssa"
)

// c05AddsTarget: f appends to Route.Targets of an existing route (Route.addTarget today): it holds a store that
// appends to the field, or the call of a setter that is handed such an append (c05TargetsWrites).
func c05AddsTarget(ix *c05WriteIndex, f *ssa.Function) bool {
	for _, w := range ix.byFn[f] {
		if !w.removal {
			return true
		}
	}
	return false
}

func runC05I1(c *Ctx) {
	isURL := func(t types.Type) bool { return namedIs(t, "url.URL") }
	for _, f := range c.AllFns {
		if rootPkg(f) != c.spkg("route") {
			continue
		}
		eachInstr(f, func(i ssa.Instruction) {
			b, ok := i.(*ssa.BinOp)
			if !ok || (b.Op != token.EQL && b.Op != token.NEQ) {
				return
			}
			if isNilConst(b.X) || isNilConst(b.Y) {
				return
			}
			if isURL(b.X.Type()) || isURL(b.Y.Type()) {
				c.check("C05.I1", fnKey(f)+"|URL compared by value", b.Pos(), false,
					"comparing url.URL values (or pointers) with == compares the User *Userinfo pointer, not the credentials: two parses of the same text with a userinfo part never compare equal, so 'route add' is no longer idempotent (duplicate targets accumulate) and 'route del <svc> <src> <dst>' removes nothing — compare URL.String()")
			}
		})
	}
	// the idiom that must exist: where a target is added to a route (the function that appends to Route.Targets, its
	// helpers and closures), an existing target is recognised by comparing URL.String() of both URLs
	var adders []*ssa.Function
	seen := map[*ssa.Function]bool{}
	ix := c05IndexWrites(c)
	for _, f := range c.fnsWhere("route", func(f *ssa.Function) bool { return c05AddsTarget(ix, f) }) {
		if top := c05TopFn(f); !seen[top] {
			seen[top] = true
			adders = append(adders, top)
		}
	}
	c.atLeast("C05.I1", "functions that append a target to Route.Targets", len(adders), 1)
	isText := func(v ssa.Value) bool {
		_, ok := isCallTo(v, "(*net/url.URL).String")
		return ok
	}
	for _, a := range adders {
		okText := 0
		// the function that appends, its helpers, and - when the append itself sits in a small helper - its callers
		search := []*ssa.Function{a}
		for _, s := range c05Sites(a) {
			search = append(search, c05TopFn(s.Parent()))
		}
		eachInstrOf(c.region(search...), func(_ *ssa.Function, i ssa.Instruction) {
			b, ok := i.(*ssa.BinOp)
			if !ok || (b.Op != token.EQL && b.Op != token.NEQ) || !isStringType(b.X.Type()) {
				return
			}
			if derives(b.X, isText) && derives(b.Y, isText) {
				okText++
			}
		})
		c.check("C05.I1", fnKey(a)+"|targets de-duplicated by URL text", a.Pos(), okText >= 1, "adding a target must recognise an existing target by comparing URL.String() of both URLs (idempotent add)")
	}
}
