package main

// Rules of C08 added after the third round of independently authored breaking changes (DESIGN 11.10); wired in zzz_round3.go.

import (
	"golang.org/x/tools/go/ssa"
)

// ---- C08.A4: the scheme put into X-Forwarded-Proto is never the empty constant -------------------------------------

func runC08A4(c *Ctx) {
	serve := c.method("proxy", "HTTPProxy", "ServeHTTP")
	if serve == nil {
		return
	}
	n := 0
	// the header writes of the request path, with keys resolved through helper parameters (a generic
	// setIfAbsent(h, key, value) is instantiated per call chain)
	for _, w := range c08writes(c08region(c, 6, serve)) {
		if w.key.kind != "const" || w.key.name != "X-Forwarded-Proto" || w.m == "Del" {
			continue
		}
		val, _ := w.val()
		if val == nil {
			continue
		}
		n++
		for _, leaf := range valueLeaves(val) {
			// a helper's value parameter: what its callers pass
			if p, ok := leaf.(*ssa.Parameter); ok {
				more := false
				for k, q := range p.Parent().Params {
					if q != p {
						continue
					}
					for _, s := range gSites[p.Parent()] {
						if args := s.Common().Args; k < len(args) {
							for _, l2 := range valueLeaves(args[k]) {
								if str, isK := constString(l2); isK && str == "" {
									more = true
								}
							}
						}
					}
				}
				if more {
					c.check("C08.A4", w.where()+"|X-Forwarded-Proto is never the empty text", w.instr.Pos(), false, "a caller passes the constant \"\" as the X-Forwarded-Proto value")
				}
				continue
			}
			s, isK := constString(leaf)
			c.check("C08.A4", w.where()+"|X-Forwarded-Proto is never the empty text", w.instr.Pos(), !(isK && s == ""),
				"one of the values the scheme detector can return is the constant \"\" (at "+c.pos(leaf.Pos())+"): when a client's Forwarded header carries no proto= parameter the scheme must fall back to the connection (TLS / websocket), not become empty — the upstream would receive 'X-Forwarded-Proto:' with no value on http, https and wss requests alike")
		}
	}
	c.atLeast("C08.A4", "writes of X-Forwarded-Proto", n, 1)
}
