package main

// Rules of C08 added after the third round of independently authored breaking changes (DESIGN 11.10); wired in zzz_round3.go.

import (
	"go/token"

	"golang.org/x/tools/go/ssa"
)

// ---- C08.A4: the scheme put into X-Forwarded-Proto is never the empty constant -------------------------------------
//
// The rule asks which values the operand of the X-Forwarded-Proto write can take and reports a constant "" among them.
// The walk from the write back to the constants is PATH SENSITIVE, so that the usual spellings of "not found" in a
// split-up scheme detector do not look like an empty scheme:
//   - headerScheme(h) (proto string, ok bool) returning ("", false), the caller using proto only under ok: a return of
//     the helper is followed only if its other results are compatible with what is known about them at the use
//     (a bool result against a branch fact, an error / pointer result against a nil test);
//   - headerScheme(h) string returning "" for "not found", the caller testing `p != ""` / `len(p) > 0` before using p,
//     or replacing it (`if p == "" { p = connScheme(...) }`): a value that a fact on the path says is non-empty
//     contributes nothing.
// Facts are collected along the walk: the facts at the write (through its call chain), the facts at the predecessor
// and the outcome of its branch when a merge is entered, the facts at the return when a helper is entered, the
// facts at the call site when a parameter is followed to its arguments.

// c08emptySrc is one place where the empty constant enters the value.
type c08emptySrc struct {
	pos  token.Pos
	what string
}

type c08emptyWalk struct {
	seen map[ssa.Value]bool
	out  []c08emptySrc
}

// c08sameText: a and b are the same text value (through value-preserving conversions).
func c08sameText(a, b ssa.Value) bool {
	return a == b || c08strip(a) == c08strip(b)
}

// c08factKnows: one of the facts implies the atom.
func c08factKnows(facts []c08fact, atom c08atom) bool {
	for _, f := range facts {
		if c08implies(f.Cond, f.Truth, f.ctx, atom, 0) {
			return true
		}
	}
	return false
}

// c08nonEmptyKnown: a fact says the text v is not empty.
func c08nonEmptyKnown(v ssa.Value, facts []c08fact) bool {
	return c08factKnows(facts, func(c ssa.Value, truth bool, ctx c08ctx) bool {
		// (inside a predicate helper - known(p) - the subject is the helper's parameter: mapped back through ctx)
		empty, ok := c08emptyTest(c, truth, func(x ssa.Value) bool { return c08sameText(x, v) || c08sameIn(x, ctx, v) })
		return ok && !empty
	})
}

// c08boolKnown: a fact fixes the boolean v.
func c08boolKnown(v ssa.Value, facts []c08fact) (val bool, ok bool) {
	for _, want := range []bool{true, false} {
		w := want
		if c08factKnows(facts, func(c ssa.Value, truth bool, _ c08ctx) bool { return c == v && truth == w }) {
			return w, true
		}
	}
	return false, false
}

// c08nilKnown: a fact fixes whether v (an error, a pointer ...) is nil.
func c08nilKnown(v ssa.Value, facts []c08fact) (isNil bool, ok bool) {
	for _, want := range []bool{true, false} {
		w := want
		atom := func(c ssa.Value, truth bool, ctx c08ctx) bool {
			b, isB := c.(*ssa.BinOp)
			if !isB || (b.Op != token.EQL && b.Op != token.NEQ) {
				return false
			}
			var other ssa.Value
			switch {
			case isNilConst(b.Y):
				other = b.X
			case isNilConst(b.X):
				other = b.Y
			default:
				return false
			}
			return c08sameIn(other, ctx, v) && ((b.Op == token.EQL) == truth) == w
		}
		if c08factKnows(facts, atom) {
			return w, true
		}
	}
	return false, false
}

// c08surelyNonNil: the value is never nil (a freshly made error / interface box / allocation).
func c08surelyNonNil(v ssa.Value) bool {
	switch x := v.(type) {
	case *ssa.MakeInterface, *ssa.Alloc, *ssa.MakeClosure, *ssa.FieldAddr, *ssa.IndexAddr:
		return true
	case *ssa.Call:
		switch calleeName(&x.Call) {
		case "errors.New", "fmt.Errorf":
			return true
		}
	}
	return sentinelError(v) // var errNotFound = errors.New(...)
}

// c08returnFeasible: can the helper leave through ret when, at the use of result idx of its call, `facts` hold?
// Decided on the sibling results: a constant bool / nil / surely non-nil sibling that contradicts a fact about the
// caller's variable for it rules the return out. Returns the facts the return may assume about its own operands.
func c08returnFeasible(call *ssa.Call, ret *ssa.Return, idx int, facts []c08fact, inner c08ctx) ([]c08fact, bool) {
	refs := call.Referrers()
	if refs == nil {
		return nil, true
	}
	var assume []c08fact
	for _, r := range *refs {
		ex, ok := r.(*ssa.Extract)
		if !ok || ex.Index == idx || ex.Index >= len(ret.Results) {
			continue
		}
		res := ret.Results[ex.Index]
		if c08isBoolType(ex.Type()) {
			known, ok := c08boolKnown(ex, facts)
			if !ok {
				continue
			}
			if cb, isK := constBool(res); isK {
				if cb != known {
					return nil, false
				}
				continue
			}
			// a computed verdict: the return may assume it has the value the caller has seen
			assume = append(assume, c08fact{Fact{res, known}, inner})
			continue
		}
		isNil, ok := c08nilKnown(ex, facts)
		if !ok {
			continue
		}
		if isNilConst(res) && !isNil {
			return nil, false
		}
		if c08surelyNonNil(res) && isNil {
			return nil, false
		}
	}
	return assume, true
}

// c08edgeFacts: the outcome of pred's own branch on the edge pred -> succ.
func c08edgeFacts(pred, succ *ssa.BasicBlock, ctx c08ctx) []c08fact {
	if len(pred.Instrs) == 0 || len(pred.Succs) != 2 || pred.Succs[0] == pred.Succs[1] {
		return nil
	}
	iff, ok := pred.Instrs[len(pred.Instrs)-1].(*ssa.If)
	if !ok {
		return nil
	}
	var out []c08fact
	for _, f := range appendCondFacts(nil, iff.Cond, pred.Succs[0] == succ, 0) {
		out = append(out, c08fact{f, ctx})
	}
	return out
}

// walk: collect the empty constants that can flow into v, given the facts known on the way to its use.
func (w *c08emptyWalk) walk(v ssa.Value, at token.Pos, ctx c08ctx, facts []c08fact, depth int) {
	v, ctx = c08arg(v, ctx)
	if v == nil || depth > 14 {
		return
	}
	if s, isK := constString(v); isK {
		if s == "" {
			src := c08emptySrc{at, "the constant \"\""}
			for _, o := range w.out {
				if o == src {
					return
				}
			}
			w.out = append(w.out, src)
		}
		return
	}
	if w.seen[v] { // on the current path only: another path may know less about the value
		return
	}
	w.seen[v] = true
	defer delete(w.seen, v)
	if c08nonEmptyKnown(v, facts) {
		return
	}
	if v.Pos().IsValid() {
		at = v.Pos()
	}
	switch x := v.(type) {
	case *ssa.Phi:
		for k, e := range x.Edges {
			pred := x.Block().Preds[k]
			f2 := append(append(append([]c08fact{}, facts...), c08localFacts(pred, ctx)...), c08edgeFacts(pred, x.Block(), ctx)...)
			// a verdict merged at the same place (`proto, found = xfp, true` ... `if !found`): an edge on which the
			// verdict is the opposite constant of what is known about it is not the way this value came
			feasible := true
			for _, i := range x.Block().Instrs {
				y, isPhi := i.(*ssa.Phi)
				if !isPhi {
					break
				}
				if y == x || k >= len(y.Edges) || !c08isBoolType(y.Type()) {
					continue
				}
				known, ok := c08boolKnown(y, facts)
				if !ok {
					continue
				}
				if cb, isK := constBool(y.Edges[k]); isK {
					if cb != known {
						feasible = false
					}
				} else {
					f2 = append(f2, c08fact{Fact{y.Edges[k], known}, ctx})
				}
			}
			if !feasible {
				continue
			}
			pos := at
			if n := len(pred.Instrs); n > 0 && pred.Instrs[n-1].Pos().IsValid() {
				pos = pred.Instrs[n-1].Pos()
			}
			w.walk(e, pos, ctx, f2, depth+1)
		}
	case *ssa.UnOp:
		if x.Op != token.MUL {
			return
		}
		switch a := x.X.(type) {
		case *ssa.Alloc:
			// a local variable that lives in a cell (captured by a closure, address taken)
			if a.Referrers() == nil {
				return
			}
			for _, r := range *a.Referrers() {
				if st, ok := r.(*ssa.Store); ok && st.Addr == a {
					f2 := append(append([]c08fact{}, facts...), c08localFacts(st.Block(), ctx)...)
					w.walk(st.Val, st.Pos(), ctx, f2, depth+1)
				}
			}
		case *ssa.FieldAddr:
			// a field of a small carrier type of the header code (forwarder.proto): what is stored into that field
			// anywhere in package proxy and its sub-packages
			for _, st := range c08storesToField(a.X.Type(), a.Field) {
				w.walk(st.Val, st.Pos(), nil, append(append([]c08fact{}, facts...), c08facts(st.Block(), nil)...), depth+1)
			}
		}
	case *ssa.Extract:
		call, ok := x.Tuple.(*ssa.Call)
		if !ok {
			return
		}
		sc := call.Call.StaticCallee()
		if sc == nil || !isRepoFn(sc) || len(sc.Blocks) == 0 {
			return
		}
		inner := append(c08ctx{call}, ctx...)
		eachInstr(sc, func(i ssa.Instruction) {
			ret, ok := i.(*ssa.Return)
			if !ok || x.Index >= len(ret.Results) {
				return
			}
			assume, feasible := c08returnFeasible(call, ret, x.Index, facts, inner)
			if !feasible {
				return
			}
			f2 := append(append(append([]c08fact{}, facts...), c08localFacts(ret.Block(), inner)...), assume...)
			w.walk(ret.Results[x.Index], ret.Pos(), inner, f2, depth+1)
		})
	case *ssa.Call:
		sc := x.Call.StaticCallee()
		if sc == nil || !isRepoFn(sc) || len(sc.Blocks) == 0 || sc.Signature.Results().Len() != 1 {
			return
		}
		inner := append(c08ctx{x}, ctx...)
		eachInstr(sc, func(i ssa.Instruction) {
			if ret, ok := i.(*ssa.Return); ok && len(ret.Results) == 1 {
				f2 := append(append([]c08fact{}, facts...), c08localFacts(ret.Block(), inner)...)
				w.walk(ret.Results[0], ret.Pos(), inner, f2, depth+1)
			}
		})
	case *ssa.Parameter:
		// not resolvable through the chain: what the callers pass
		idx := c08paramIndex(x)
		for _, s := range c08sitesOf(x.Parent()) {
			args := s.Common().Args
			if idx < 0 || idx >= len(args) || s.Block() == nil {
				continue
			}
			f2 := append(append([]c08fact{}, facts...), c08facts(s.Block(), nil)...)
			w.walk(args[idx], s.Pos(), nil, f2, depth+1)
		}
	case *ssa.FreeVar:
		fn := x.Parent()
		if fn == nil || fn.Parent() == nil {
			return
		}
		for k, fv := range fn.FreeVars {
			if fv != x {
				continue
			}
			eachInstr(fn.Parent(), func(i ssa.Instruction) {
				if mc, ok := i.(*ssa.MakeClosure); ok && mc.Fn == fn && k < len(mc.Bindings) {
					w.walk(mc.Bindings[k], mc.Pos(), nil, append([]c08fact{}, facts...), depth+1)
				}
			})
		}
	}
}

func runC08A4(c *Ctx) {
	serve := c.method("proxy", "HTTPProxy", "ServeHTTP")
	if serve == nil {
		return
	}
	c08setCtx(c)
	n := 0
	// the header writes of the request path, with keys resolved through helper parameters (a generic
	// setIfAbsent(h, key, value) is instantiated per call chain)
	for _, w := range c08writes(c08region(c, 6, serve)) {
		if w.key.kind != "const" || w.key.name != "X-Forwarded-Proto" || w.m == "Del" {
			continue
		}
		val, vctx := w.val()
		if val == nil {
			continue
		}
		n++
		ew := &c08emptyWalk{seen: map[ssa.Value]bool{}}
		ew.walk(val, w.instr.Pos(), vctx, c08facts(w.instr.Block(), w.ctx), 0)
		why := ""
		for _, src := range ew.out {
			why += "; " + src.what + " reaches the write from " + c.pos(src.pos)
		}
		c.check("C08.A4", w.where()+"|X-Forwarded-Proto is never the empty text", w.instr.Pos(), len(ew.out) == 0,
			"one of the values the X-Forwarded-Proto write can take is the constant \"\""+why+": when a client's Forwarded header carries no proto= parameter the scheme must fall back to the connection (TLS / websocket), not become empty — the upstream would receive 'X-Forwarded-Proto:' with no value on http, https and wss requests alike")
	}
	c.atLeast("C08.A4", "writes of X-Forwarded-Proto", n, 1)
}
