package main

import (
	"go/token"
	"go/types"
	"sort"
	"strings"

	"golang.org/x/tools/go/ssa"
)

// Rules added after the first round of independently seeded changes (DESIGN §11.6): each is a structural
// necessary condition of a clause that the first rule set did not cover.

// ---- C02.P9: every Route gets a non-nil Glob (globMatcher dereferences it) ---------------------------

func runC02P9(c *Ctx) {
	n := 0
	for _, f := range c.AllFns {
		if rootPkg(f) != c.spkg("route") {
			continue
		}
		eachInstr(f, func(i ssa.Instruction) {
			st, ok := i.(*ssa.Store)
			if !ok {
				return
			}
			if _, isGlob := fieldOf(st.Addr, "route.Route", "Glob"); !isGlob {
				return
			}
			n++
			// value: result #0 of glob.Compile, stored on the err == nil edge of that call
			okV := false
			if e, isE := st.Val.(*ssa.Extract); isE && e.Index == 0 {
				if call, isC := e.Tuple.(*ssa.Call); isC && strings.HasSuffix(calleeName(&call.Call), "glob.Compile") {
					okV = knownNil(st.Block(), func(v ssa.Value) bool { x, ok := v.(*ssa.Extract); return ok && x.Tuple == call && x.Index == 1 })
				}
			}
			c.check("C02.P9", fnKey(f)+"|Route.Glob is a successfully compiled pattern", st.Pos(), okV,
				"the glob matcher calls r.Glob.Match on every route of the looked-up host; a route whose Glob is not the result of a glob.Compile that succeeded (err == nil edge) makes lookups under proxy.matcher=glob dereference nil — a route configuration text then crashes request handling")
		})
	}
	c.atLeast("C02.P9", "stores to Route.Glob", n, 2)
	// Route literals must set it at all
	for _, f := range c.AllFns {
		if rootPkg(f) != c.spkg("route") {
			continue
		}
		for _, a := range allocsOf(f, "route.Route") {
			if a.Comment != "complit" {
				continue
			}
			c.check("C02.P9", fnKey(f)+"|Route literal sets Glob", a.Pos(), len(fieldStores(a)["Glob"]) > 0, "a Route built without a compiled Glob panics in the glob matcher")
		}
	}
}

// ---- C04.R6: a weight computed by subtraction is clamped at zero ---------------------------------------

func runC04R6(c *Ctx) {
	weigh := c.method("route", "Route", "weighTargets")
	if weigh == nil {
		return
	}
	isFloatSub := func(v ssa.Value) bool {
		b, ok := v.(*ssa.BinOp)
		if !ok || b.Op != token.SUB {
			return false
		}
		bt, ok := b.Type().Underlying().(*types.Basic)
		return ok && bt.Info()&types.IsFloat != 0
	}
	n := 0
	eachInstr(weigh, func(i ssa.Instruction) {
		st, ok := i.(*ssa.Store)
		if !ok {
			return
		}
		if _, isW := fieldOf(st.Addr, "route.Target", "Weight"); !isW {
			return
		}
		if !derives(st.Val, isFloatSub) {
			return
		}
		n++
		// clamp: the stored value is a merge of the raw value and the constant 0, the 0 chosen under raw < 0
		okClamp := false
		for _, d := range defsOf(st.Val) {
			k, isK := d.Val.(*ssa.Const)
			if !isK || k.Value == nil || k.Float64() != 0 || d.Block == nil {
				continue
			}
			for _, ft := range factsAt(d.Block) {
				if b, ok := ft.Cond.(*ssa.BinOp); ok && derives(b.X, isFloatSub) {
					if z, isZ := b.Y.(*ssa.Const); isZ && z.Value != nil && z.Float64() == 0 {
						if (b.Op == token.LSS && ft.Truth) || (b.Op == token.GEQ && !ft.Truth) || (b.Op == token.LEQ && ft.Truth) {
							okClamp = true
						}
					}
				}
			}
		}
		// math.Max(0, x) form
		if call, ok := st.Val.(*ssa.Call); ok && (calleeName(&call.Call) == "math.Max" || calleeName(&call.Call) == "builtin.max") {
			okClamp = true
		}
		c.check("C04.R6", "route.(*Route).weighTargets|remainder weight clamped at zero", st.Pos(), okClamp,
			"the share left for targets without a fixed weight is computed by subtraction; without the `< 0 => 0` clamp rounding (or fixed weights above 100%) yields a negative or spurious tiny weight: effective weights must be non-negative and a target that should get nothing must not receive a ring slot")
	})
	c.atLeast("C04.R6", "weights computed by subtraction in weighTargets", n, 1)
}

// ---- C05.I1: URLs are compared by their text, never by pointer / shallow struct equality -------------------

func runC05I1(c *Ctx) {
	n := 0
	isURL := func(t types.Type) bool { return namedIs(t, "url.URL") }
	for _, f := range c.AllFns {
		if rootPkg(f) != c.spkg("route") {
			continue
		}
		eachInstr(f, func(i ssa.Instruction) {
			b, ok := i.(*ssa.BinOp)
			if !ok || (b.Op != token.EQL && b.Op != token.NEQ) {
				return
			}
			if isNilConst(b.X) || isNilConst(b.Y) {
				return
			}
			if isURL(b.X.Type()) || isURL(b.Y.Type()) {
				n++
				c.check("C05.I1", fnKey(f)+"|URL compared by value", b.Pos(), false,
					"comparing url.URL values (or pointers) with == compares the User *Userinfo pointer, not the credentials: two parses of the same text with a userinfo part never compare equal, so 'route add' is no longer idempotent (duplicate targets accumulate) and 'route del <svc> <src> <dst>' removes nothing — compare URL.String()")
			}
		})
	}
	// the idiom that must exist: de-duplication / deletion compare URL.String() results
	okText := 0
	for _, name := range []string{"addTarget"} {
		f := c.method("route", "Route", name)
		if f == nil {
			continue
		}
		eachInstr(f, func(i ssa.Instruction) {
			b, ok := i.(*ssa.BinOp)
			if !ok || b.Op != token.EQL {
				return
			}
			_, x := isCallTo(b.X, "(*net/url.URL).String")
			_, y := isCallTo(b.Y, "(*net/url.URL).String")
			if x && y {
				okText++
			}
		})
	}
	c.check("C05.I1", "route.(*Route).addTarget|targets de-duplicated by URL text", token.NoPos, okText >= 1, "addTarget must recognise an existing target by comparing URL.String() of both URLs (idempotent add)")
}

// ---- C07.W1 (all paths): wrapper methods forward on every path ------------------------------------------

func forwardsOnEveryPath(f *ssa.Function, mn string, isInner func(ssa.Value) bool) bool {
	var fwd []ssa.Instruction
	eachInstr(f, func(i ssa.Instruction) {
		cc := callCommon(i)
		if cc != nil && cc.IsInvoke() && cc.Method.Name() == mn && isInner(cc.Value) {
			fwd = append(fwd, i)
		}
	})
	if len(fwd) == 0 {
		return false
	}
	_, open := exitReachableAvoidingFromBlock(f.Blocks[0], func(i ssa.Instruction) bool {
		for _, x := range fwd {
			if i == x {
				return true
			}
		}
		return false
	})
	return !open
}

// ---- C08.X3: the websocket X-Forwarded-For branch and the tunnel decision depend on the same header -----------

// headerDeps: request-header keys the value depends on, following repo functions that take the request.
func headerDeps(c *Ctx, v ssa.Value, depth int) map[string]bool {
	out := map[string]bool{}
	seen := map[ssa.Value]bool{}
	var walk func(x ssa.Value, d int)
	walk = func(x ssa.Value, d int) {
		if x == nil || seen[x] || d > 10 {
			return
		}
		seen[x] = true
		switch y := x.(type) {
		case *ssa.Call:
			n := calleeName(&y.Call)
			if (n == "(net/http.Header).Get" || n == "(net/http.Header).Values") && isRequestHeader(y.Call.Args[0]) {
				if k, ok := constString(y.Call.Args[1]); ok {
					out[k] = true
				} else {
					out["<computed>"] = true
				}
				return
			}
			if sc := y.Call.StaticCallee(); sc != nil && isRepoFn(sc) && depth < 3 {
				// results of the callee
				eachInstr(sc, func(i ssa.Instruction) {
					if r, ok := i.(*ssa.Return); ok {
						for _, res := range r.Results {
							for k := range headerDeps(c, res, depth+1) {
								out[k] = true
							}
						}
						// and the conditions the return is control-dependent on
						for _, ft := range factsAt(r.Block()) {
							for k := range headerDeps(c, ft.Cond, depth+1) {
								out[k] = true
							}
						}
					}
				})
				return
			}
			if isTransparent(n) {
				for _, a := range y.Call.Args {
					walk(a, d+1)
				}
			}
		case *ssa.Lookup:
			if isRequestHeader(y.X) {
				if k, ok := constString(y.Index); ok {
					out[k] = true
				}
				return
			}
			walk(y.X, d+1)
		case *ssa.Phi:
			for _, e := range y.Edges {
				walk(e, d+1)
			}
			// control dependence of the merge
			for _, p := range y.Block().Preds {
				for _, ft := range factsAt(p) {
					walk(ft.Cond, d+1)
				}
			}
		case *ssa.BinOp:
			walk(y.X, d+1)
			walk(y.Y, d+1)
		case *ssa.UnOp:
			walk(y.X, d+1)
		case *ssa.Extract:
			walk(y.Tuple, d+1)
		case *ssa.Slice:
			walk(y.X, d+1)
		case *ssa.Convert:
			walk(y.X, d+1)
		}
	}
	walk(v, 0)
	return out
}

func depsStr(m map[string]bool) string {
	var k []string
	for x := range m {
		k = append(k, x)
	}
	sort.Strings(k)
	return strings.Join(k, ",")
}

func runC08X3(c *Ctx) {
	add := c.fn("proxy", "addHeaders")
	serve := c.method("proxy", "HTTPProxy", "ServeHTTP")
	if add == nil || serve == nil {
		return
	}
	// guard of the X-Forwarded-For write
	var xffDeps map[string]bool
	eachInstr(add, func(i ssa.Instruction) {
		k, cc, ok := headerCall(i, "Set")
		if !ok || k != "X-Forwarded-For" || !isRequestHeader(cc.Args[0]) {
			return
		}
		xffDeps = map[string]bool{}
		for _, ft := range factsAt(i.Block()) {
			for h := range headerDeps(c, ft.Cond, 0) {
				xffDeps[h] = true
			}
		}
	})
	// tunnel decision: the fact guarding the websocket handler construction
	var tunDeps map[string]bool
	eachInstr(serve, func(i ssa.Instruction) {
		cc := callCommon(i)
		if cc == nil || cc.StaticCallee() == nil || cc.StaticCallee().Name() != "newWSHandler" {
			return
		}
		if tunDeps == nil {
			tunDeps = map[string]bool{}
		}
		for _, ft := range factsAt(i.Block()) {
			for h := range headerDeps(c, ft.Cond, 0) {
				tunDeps[h] = true
			}
		}
	})
	if xffDeps == nil || tunDeps == nil {
		c.undecided("C08.X3", "proxy|websocket decision sites", "the X-Forwarded-For write or the websocket tunnel construction was not found")
		return
	}
	// the XFF guard legitimately also reads the prior X-Forwarded-For value
	delete(xffDeps, "X-Forwarded-For")
	delete(tunDeps, "X-Forwarded-For")
	c.check("C08.X3", "proxy.addHeaders|websocket X-Forwarded-For decided by the same header as the tunnel", add.Pos(),
		depsStr(xffDeps) == depsStr(tunDeps) && xffDeps["Upgrade"] && len(xffDeps) == 1,
		"ServeHTTP chooses the websocket tunnel (which adds no X-Forwarded-For of its own) from request headers ["+depsStr(tunDeps)+"], but addHeaders decides whether to append the peer address from ["+depsStr(xffDeps)+"]: when the two can disagree (a client or earlier hop sending X-Forwarded-Proto / Forwarded), a tunnelled request reaches the upstream without the real peer in X-Forwarded-For")
}

// ---- C09.B3c: a relay writes what a read returned before looking at the read's error --------------------------

func runC09B3c(c *Ctx) {
	cb := c.fn("proxy/tcp", "copyBuffer")
	if cb == nil {
		return
	}
	eachInstr(cb, func(i ssa.Instruction) {
		call, ok := i.(*ssa.Call)
		if !ok || !call.Call.IsInvoke() || call.Call.Method.Name() != "Write" {
			return
		}
		// the read feeding it
		var rd *ssa.Call
		eachInstr(cb, func(j ssa.Instruction) {
			if rc, ok := j.(*ssa.Call); ok && rc.Call.IsInvoke() && rc.Call.Method.Name() == "Read" {
				rd = rc
			}
		})
		if rd == nil {
			return
		}
		isReadErr := func(v ssa.Value) bool { e, ok := v.(*ssa.Extract); return ok && e.Tuple == rd && e.Index == 1 }
		dep := false
		for _, ft := range factsAt(call.Block()) {
			if _, ok := nilFact(ft, isReadErr); ok {
				dep = true
			}
			if b, ok := ft.Cond.(*ssa.BinOp); ok && (isReadErr(b.X) || isReadErr(b.Y)) {
				dep = true
			}
		}
		c.check("C09.B3", "proxy/tcp.copyBuffer|bytes returned together with an error are still written", call.Pos(), !dep,
			"io.Reader may return n > 0 together with an error (crypto/tls returns the last record with io.EOF when close_notify arrives in the same segment); the relay must write buf[0:n] before it examines the read error, otherwise the final bytes of a stream are dropped")
	})
}

// ---- C11.M3: wildcard candidates have the label count of the requested name ------------------------------------

func runC11M3(c *Ctx) {
	getCert := c.fn("cert", "getCertificate")
	if getCert == nil {
		return
	}
	n := 0
	eachInstr(getCert, func(i ssa.Instruction) {
		lk, ok := i.(*ssa.Lookup)
		if !ok || !strings.HasSuffix(accessPath(lk.X), "NameToCertificate") {
			return
		}
		// exact lookup: the key is the normalised name itself (no "*" involved)
		star := derives(lk.Index, func(v ssa.Value) bool { s, ok := constString(v); return ok && strings.Contains(s, "*") })
		join, isJoin := lk.Index.(*ssa.Call)
		if !star && !(isJoin && calleeName(&join.Call) == "strings.Join") {
			return
		}
		n++
		ok2 := false
		if isJoin && calleeName(&join.Call) == "strings.Join" {
			if sep, _ := constString(join.Call.Args[1]); sep == "." {
				// joined slice = strings.Split(name, ".") with in-place "*" stores only
				if sp, isSp := join.Call.Args[0].(*ssa.Call); isSp && calleeName(&sp.Call) == "strings.Split" {
					if s, _ := constString(sp.Call.Args[1]); s == "." {
						ok2 = true
						for _, r := range *sp.Referrers() {
							if ia, isIA := r.(*ssa.IndexAddr); isIA {
								for _, r2 := range *ia.Referrers() {
									if st, isSt := r2.(*ssa.Store); isSt {
										if v, isK := constString(st.Val); !isK || v != "*" {
											ok2 = false
										}
									}
								}
							}
						}
					}
				}
			}
		}
		c.check("C11.M3", "cert.getCertificate|wildcard candidate keeps the label count of the requested name", lk.Pos(), ok2,
			"a wildcard certificate covers exactly the labels it replaces: candidates must be the requested name with labels replaced by \"*\" in place (strings.Split / store \"*\" / strings.Join), so '*.bar.com' is tried for 'a.bar.com' but never for 'a.b.bar.com'; building candidates as \"*.\"+<parent domain> presents a wildcard certificate for names it does not cover instead of the default certificate (or none with strict matching)")
	})
	c.atLeast("C11.M3", "wildcard lookups in the name index", n, 1)
}

// ---- C12.A1: an auth scheme's positive verdict comes from the credential matcher, per request ------------------

func runC12A1(c *Ctx) {
	sp := c.spkg("auth")
	if sp == nil {
		c.undecided("C12.A1", "anchor|package auth", "not loaded")
		return
	}
	n := 0
	for _, f := range c.AllFns {
		if rootPkg(f) != sp || f.Name() != "Authorized" || f.Signature.Recv() == nil {
			continue
		}
		n++
		eachInstr(f, func(i ssa.Instruction) {
			r, ok := i.(*ssa.Return)
			if !ok || len(r.Results) != 1 {
				return
			}
			if bv, isK := constBool(r.Results[0]); isK {
				if !bv {
					return
				}
				// `return true` must be under a true verdict of the matcher
				ok2 := false
				for _, ft := range factsAt(r.Block()) {
					if call, isC := ft.Cond.(*ssa.Call); isC && ft.Truth && strings.HasSuffix(calleeName(&call.Call), ".Match") {
						ok2 = true
					}
				}
				c.check("C12.A1", fnKey(f)+"|credentials accepted only by the matcher", r.Pos(), ok2,
					"an auth scheme may answer true only on the edge where the credential store's Match accepted this request's credentials; a verdict from anything else (a cache of earlier headers, a flag) keeps admitting credentials after they were removed or rotated")
				return
			}
			call, isC := r.Results[0].(*ssa.Call)
			c.check("C12.A1", fnKey(f)+"|credentials accepted only by the matcher", r.Pos(), isC && strings.HasSuffix(calleeName(&call.Call), ".Match"),
				"the verdict of an auth scheme must be the credential store's Match on this request's credentials")
		})
	}
	c.atLeast("C12.A1", "auth scheme implementations", n, 1)
}

// ---- C13.L2: the self-redirect test compares scheme, full host (with port) and path ------------------------------

func runC13L2(c *Ctx) {
	lk := c.method("route", "Table", "Lookup")
	if lk == nil {
		return
	}
	// the skip edge: block in the loop that jumps back to the head under RedirectCode != 0 with a nil result (L1)
	n := 0
	for _, l := range loopsOf(lk) {
		for _, p := range l.Head.Preds {
			if !l.Body[p] {
				continue
			}
			fs := factsAt(p)
			isRedirect := false
			for _, ft := range fs {
				if b, ok := ft.Cond.(*ssa.BinOp); ok && b.Op == token.NEQ && ft.Truth {
					if _, isF := fieldOf(b.X, "route.Target", "RedirectCode"); isF {
						isRedirect = true
					}
				}
			}
			if !isRedirect {
				continue
			}
			n++
			var scheme, host, path bool
			for _, ft := range fs {
				b, ok := ft.Cond.(*ssa.BinOp)
				if !ok || b.Op != token.EQL || !ft.Truth {
					continue
				}
				fx := func(v ssa.Value, typ, field string) bool { _, ok := fieldOf(v, typ, field); return ok }
				onRedirect := func(v ssa.Value) bool {
					return derives(v, func(x ssa.Value) bool { _, ok := fieldOf(x, "route.Target", "RedirectURL"); return ok })
				}
				switch {
				case fx(b.X, "url.URL", "Scheme") && onRedirect(b.X):
					scheme = true
				case fx(b.X, "url.URL", "Host") && onRedirect(b.X) && fx(b.Y, "http.Request", "Host"):
					host = true
				case fx(b.X, "url.URL", "Path") && onRedirect(b.X) && fx(b.Y, "url.URL", "Path"):
					path = true
				}
			}
			c.check("C13.L2", "(route.Table).Lookup|self-redirect means same scheme, same host:port and same path", p.Instrs[len(p.Instrs)-1].Pos(), scheme && host && path,
				"a redirect is skipped only when it would point back at the request itself: the skip edge must carry RedirectURL.Scheme == forwarded proto, RedirectURL.Host == req.Host (the full host including the port) and RedirectURL.Path == request path as field comparisons; comparing less (e.g. host names without port) skips legitimate redirects to another port and sends the request to an upstream instead")
		}
	}
	c.atLeast("C13.L2", "self-redirect skip edges", n, 1)
}

// ---- C15.V3: enumerated options are validated on the very value that is used, against the registry's keys ----------

func registryKeys(c *Ctx, pkg, name string) []string {
	g := c.global(pkg, name)
	if g == nil {
		return nil
	}
	var keys []string
	eachInstr(c.spkg(pkg).Func("init"), func(i ssa.Instruction) {
		mu, ok := i.(*ssa.MapUpdate)
		if !ok {
			return
		}
		if mm, ok := mu.Map.(*ssa.MakeMap); ok {
			for _, r := range *mm.Referrers() {
				if st, ok := r.(*ssa.Store); ok && st.Addr == g {
					if k, ok := constString(mu.Key); ok {
						keys = append(keys, k)
					}
				}
			}
		}
	})
	sort.Strings(keys)
	return keys
}

func runC15V3(c *Ctx) {
	load := c.fn("config", "load")
	if load == nil {
		return
	}
	for _, opt := range []struct{ field, regPkg, reg string }{{"Strategy", "route", "Picker"}, {"Matcher", "route", "Matcher"}} {
		want := registryKeys(c, opt.regPkg, opt.reg)
		var got []string
		raw := true
		eachInstr(load, func(i ssa.Instruction) {
			b, ok := i.(*ssa.BinOp)
			if !ok || (b.Op != token.EQL && b.Op != token.NEQ) {
				return
			}
			k, isK := constString(b.Y)
			if !isK {
				return
			}
			if _, isF := fieldOf(b.X, "config.Proxy", opt.field); isF {
				got = append(got, k)
				return
			}
			// compared value derives from the field through a transformation
			if derives(b.X, func(v ssa.Value) bool { _, ok := fieldOf(v, "config.Proxy", opt.field); return ok }) {
				got = append(got, k)
				raw = false
			}
		})
		sort.Strings(got)
		c.check("C15.V3", "config.load|proxy."+strings.ToLower(opt.field)+" validated as it is used", load.Pos(), raw && strings.Join(got, ",") == strings.Join(want, ",") && len(want) > 0,
			"main looks the option up in route."+opt.reg+" (keys ["+strings.Join(want, ",")+"]) with the value exactly as configured; load must accept exactly those keys, compared against the raw field value (validated: ["+strings.Join(got, ",")+"], raw comparison: "+boolStr(raw)+") — a value that passes validation in another letter case yields a nil function and every request panics")
	}
}

func boolStr(b bool) string {
	if b {
		return "yes"
	}
	return "no"
}

// ---- C16.P4 / G2 ------------------------------------------------------------------------------------------------------

func runC16Extra(c *Ctx) {
	keyFn := c.fn("proxy", "makeGRPCTargetKey")
	if keyFn != nil {
		ok := false
		eachInstr(keyFn, func(i ssa.Instruction) {
			r, isR := i.(*ssa.Return)
			if !isR || len(r.Results) != 1 {
				return
			}
			if call, isC := r.Results[0].(*ssa.Call); isC && calleeName(&call.Call) == "(*net/url.URL).String" {
				if _, isURL := fieldOf(call.Call.Args[0], "route.Target", "URL"); isURL {
					ok = true
				}
			}
		})
		c.check("C16.P4", "proxy.makeGRPCTargetKey|pool key is the whole target URL", keyFn.Pos(), ok,
			"connections are pooled per backend: the key must be the target's full URL (Target.URL.String(): scheme + host). A key without the scheme lets grpc://a:1 and grpcs://a:1 share one connection — after a backend switches to TLS on the same address every call goes over the stale plaintext connection, and cleanup never drops it because the host is still in the table")
	}
	stream := c.method("proxy", "GrpcProxyInterceptor", "Stream")
	if stream == nil {
		return
	}
	var handlerParam *ssa.Parameter
	for _, p := range stream.Params {
		if typeStr(p.Type()) == "google.golang.org/grpc.StreamHandler" {
			handlerParam = p
		}
	}
	eachInstr(stream, func(i ssa.Instruction) {
		call, ok := i.(*ssa.Call)
		if !ok || call.Call.Value != handlerParam {
			return
		}
		// every return reachable after the handler call returns the handler's error unchanged
		ok2 := true
		var pos token.Pos = call.Pos()
		eachInstr(stream, func(j ssa.Instruction) {
			r, isR := j.(*ssa.Return)
			if !isR || !pathAvoiding(call, j, nil) {
				return
			}
			if r.Results[0] != call {
				ok2 = false
				pos = r.Pos()
			}
		})
		c.check("C16.G2", "proxy.GrpcProxyInterceptor.Stream|backend status returned unchanged", pos, ok2,
			"whatever the transparent handler returns is the backend's final status; the interceptor must return that error value as is on every path after the call — rewriting it (e.g. mapping codes.Unknown to Internal) changes the status code and message the caller receives")
	})
}

// ---- C17.T3: the pooled writer is put back at most once ------------------------------------------------------------------

func runC17T3(c *Ctx) {
	const G = "proxy/gzip"
	cl := c.method(G, "GzipResponseWriter", "Close")
	if cl == nil {
		return
	}
	// idempotent? (the field is cleared after Put)
	clears := false
	eachInstr(cl, func(i ssa.Instruction) {
		if st, ok := i.(*ssa.Store); ok {
			if _, isF := fieldOf(st.Addr, "gzip.GzipResponseWriter", "gzipWriter"); isF && isNilConst(st.Val) {
				clears = true
			}
		}
	})
	// call sites of Close
	var sites []ssa.Instruction
	for _, f := range c.AllFns {
		eachInstr(f, func(i ssa.Instruction) {
			if cc := callCommon(i); cc != nil && cc.StaticCallee() == cl {
				sites = append(sites, i)
			}
		})
	}
	onlyDeferred := true
	for _, s := range sites {
		if _, isDefer := s.(*ssa.Defer); !isDefer {
			onlyDeferred = false
		}
	}
	c.check("C17.T3", "(*gzip.GzipResponseWriter).Close|pooled writer returned at most once", cl.Pos(), clears || (onlyDeferred && len(sites) == 1),
		"Close puts the gzip.Writer back into the shared pool and leaves the field set, so it must run exactly once per response: the single deferred call in the handler. A second call site (e.g. closing early after a failed write) puts the same writer into the pool twice and two later concurrent responses compress into one writer (corrupted bodies) — unless Close clears the field after Put")
}

// ---- C19.F5b: nothing classifies the error before the net.Error timeout test ------------------------------------------------

func runC19F5b(c *Ctx) {
	h := c.fn("proxy", "httpProxyErrorHandler")
	if h == nil {
		return
	}
	var errParam *ssa.Parameter
	for _, p := range h.Params {
		if typeStr(p.Type()) == "error" {
			errParam = p
		}
	}
	if errParam == nil {
		return
	}
	// the definition(s) of the 504 status
	n := 0
	eachInstr(h, func(i ssa.Instruction) {
		cc := callCommon(i)
		if cc == nil || !cc.IsInvoke() || cc.Method.Name() != "WriteHeader" || len(cc.Args) != 1 {
			return
		}
		for _, d := range defsOf(cc.Args[0]) {
			k, ok := constInt(d.Val)
			if !ok || k != 504 || d.Block == nil {
				continue
			}
			n++
			extra := ""
			for _, ft := range factsAt(d.Block) {
				// allowed facts: the net.Error assertion's ok and Timeout()
				if call, isC := ft.Cond.(*ssa.Call); isC && call.Call.IsInvoke() && call.Call.Method.Name() == "Timeout" {
					continue
				}
				if e, isE := ft.Cond.(*ssa.Extract); isE {
					if ta, isTA := e.Tuple.(*ssa.TypeAssert); isTA && typeStr(ta.AssertedType) == "net.Error" {
						continue
					}
				}
				if call, isC := ft.Cond.(*ssa.Call); isC && calleeName(&call.Call) == "errors.As" {
					continue
				}
				// any other condition on err that had to be false/true first
				usesErr := derives(ft.Cond, func(v ssa.Value) bool { return v == errParam })
				if call, isC := ft.Cond.(*ssa.Call); isC {
					for _, a := range call.Call.Args {
						if stripIface(a) == errParam || a == errParam {
							usesErr = true
						}
					}
				}
				if usesErr {
					// sentinels a timeout error can never equal/wrap are harmless before the timeout test
					disjoint := false
					refs := []ssa.Value{}
					if call, isC := ft.Cond.(*ssa.Call); isC {
						refs = append(refs, call.Call.Args...)
					}
					if b, isB := ft.Cond.(*ssa.BinOp); isB {
						refs = append(refs, b.X, b.Y)
					}
					for _, a := range refs {
						if u, isU := stripIface(a).(*ssa.UnOp); isU {
							if g, isG := u.X.(*ssa.Global); isG {
								switch g.Pkg.Pkg.Path() + "." + g.Name() {
								case "context.Canceled", "io.EOF", "io.ErrUnexpectedEOF", "net/http.ErrAbortHandler":
									disjoint = true
								}
							}
						}
					}
					if !disjoint {
						extra = shortPath(ft.Cond)
						if b, isB := ft.Cond.(*ssa.BinOp); isB {
							extra = shortPath(b.X) + " " + b.Op.String() + " " + shortPath(b.Y)
						}
						if strings.TrimSpace(extra) == "" {
							extra = "an earlier comparison of err"
						}
					}
				}
			}
			c.check("C19.F5", "proxy.httpProxyErrorHandler|timeout classified before any other test of the error", d.Pos, extra == "",
				"the 504 edge is reached only after another test of the error ("+extra+") came out the other way; Go's timeout errors also satisfy errors.Is(err, context.DeadlineExceeded) / os.ErrDeadlineExceeded, so a test placed before the net.Error Timeout() check classifies upstream timeouts as something else (e.g. 499) and the configured response-header timeout no longer yields 504")
		}
	})
	c.atLeast("C19.F5", "definitions of the 504 status", n, 1)
}
