package main

// C01 rule W3: every cycle of the Consul watch loops is paced. Queries are recognised by what they call (the consul api
// with a *QueryOptions), their wrappers by what they do with their parameters - not by name.

import (
	"go/token"
	"go/types"
	"strings"

	"golang.org/x/tools/go/ssa"
)

// c01Query: a Consul query that can block: a method of api.Health or api.KV that takes *api.QueryOptions.
func c01Query(i ssa.Instruction) (call *ssa.Call, opts ssa.Value, ok bool) {
	call, isCall := i.(*ssa.Call)
	if !isCall {
		return nil, nil, false
	}
	if !c01CalleeHas(&call.Call, func(n string) bool {
		return strings.HasPrefix(n, "(*"+apiPkg+".Health).") || strings.HasPrefix(n, "(*"+apiPkg+".KV).")
	}) {
		return nil, nil, false
	}
	for _, a := range call.Call.Args {
		if typeStr(a.Type()) == "*"+apiPkg+".QueryOptions" {
			return call, a, true
		}
	}
	return nil, nil, false
}

func c01IsQueryInstr(i ssa.Instruction) bool {
	_, _, ok := c01Query(i)
	return ok
}

// c01WaitSet is one place where the WaitIndex of the options object of a query is set: at instruction At (a store, or
// the call of a helper that builds the options) to value Val - both in the function of the query.
type c01WaitSet struct {
	At  ssa.Instruction
	Val ssa.Value
	// the options are built by Helper and handed out at its return Ret; Val is then a value inside the helper (a cell
	// the helper reads) or, for a parameter of the helper, the argument of the call At
	Helper *ssa.Function
	Ret    *ssa.Return
}

// c01WaitSets finds where the WaitIndex of the options q is set.
func c01WaitSets(q ssa.Value) []c01WaitSet {
	var out []c01WaitSet
	seen := map[ssa.Value]bool{}
	var walk func(v ssa.Value, d int)
	walk = func(v ssa.Value, d int) {
		if v == nil || seen[v] || d > 6 {
			return
		}
		seen[v] = true
		// stores through this name of the object
		if refs := v.Referrers(); refs != nil {
			for _, r := range *refs {
				fa, ok := r.(*ssa.FieldAddr)
				if !ok || fa.X != v || fieldName(v.Type(), fa.Field) != "WaitIndex" {
					continue
				}
				for _, r2 := range *fa.Referrers() {
					if st, ok := r2.(*ssa.Store); ok && st.Addr == fa {
						out = append(out, c01WaitSet{At: st, Val: st.Val})
					}
				}
			}
		}
		switch x := v.(type) {
		case *ssa.Phi:
			for _, e := range x.Edges {
				walk(e, d+1)
			}
		case *ssa.ChangeType:
			walk(x.X, d+1)
		case *ssa.UnOp:
			if x.Op == token.MUL {
				if a, ok := x.X.(*ssa.Alloc); ok {
					for _, sv := range c01StoresInto(a) {
						walk(sv, d+1)
					}
				}
			}
		case *ssa.Extract:
			walk(x.Tuple, d+1)
		case *ssa.Call:
			// a helper that builds the options: WaitIndex set from one of its parameters
			sc := x.Call.StaticCallee()
			if sc == nil || !isRepoFn(sc) || len(sc.Blocks) == 0 {
				return
			}
			eachInstr(sc, func(i ssa.Instruction) {
				r, ok := i.(*ssa.Return)
				if !ok {
					return
				}
				for _, res := range r.Results {
					if typeStr(res.Type()) != "*"+apiPkg+".QueryOptions" {
						continue
					}
					for _, ws := range c01WaitSets(res) {
						if par, ok := c01Strip(ws.Val).(*ssa.Parameter); ok && par.Parent() == sc {
							if k := c01ParamIndex(par); k >= 0 && k < len(x.Call.Args) {
								out = append(out, c01WaitSet{x, x.Call.Args[k], sc, r})
							}
							continue
						}
						// not a parameter: an index the helper reads itself (a field of its receiver, a captured variable)
						out = append(out, c01WaitSet{x, ws.Val, sc, r})
					}
				}
			})
		}
	}
	walk(q, 0)
	return out
}

func c01Strip(v ssa.Value) ssa.Value {
	for {
		switch x := v.(type) {
		case *ssa.ChangeType:
			v = x.X
		case *ssa.Convert:
			v = x.X
		default:
			return v
		}
	}
}

// c01Advances: v is (derived from) an index carried across the rounds whose value for the next round is taken from the
// results of instruction from (the query, or the call of its wrapper). The index is carried either by a variable of the
// loop l (a phi of its head), or by a memory cell that outlives a round - a field of a watcher / cursor struct, a
// captured variable - into which a value derived from the reply is stored. l == nil: the rounds are the calls of the
// function of v (a wrapper called from the loop outer).
func c01Advances(v ssa.Value, l *loop, from ssa.Value) bool {
	return c01AdvancesIn(v, l, nil, from)
}

func c01AdvancesIn(v ssa.Value, l, outer *loop, from ssa.Value) bool {
	return derives(v, func(x ssa.Value) bool {
		switch y := x.(type) {
		case *ssa.Phi:
			if l == nil || y.Block() != l.Head {
				return false
			}
			for k, e := range y.Edges {
				if l.Body[l.Head.Preds[k]] && c01FromReply(e, from) {
					return true
				}
			}
		case *ssa.UnOp:
			if y.Op == token.MUL {
				return c01CellAdvances(y, l, outer, from)
			}
		}
		return false
	})
}

// c01FromReply: v derives from the results of instruction from (the query, or the call of a wrapper of it) - and, for a
// wrapper, the result taken is one into which the wrapper puts something of the reply of its query (a wrapper that hands
// its own wait index back does not advance anything).
func c01FromReply(v ssa.Value, from ssa.Value) bool {
	return derives(v, func(z ssa.Value) bool {
		if ex, ok := z.(*ssa.Extract); ok && ex.Tuple == from {
			return c01ResultFromQuery(from, ex.Index)
		}
		if z == from {
			if _, isTuple := from.Type().(*types.Tuple); isTuple {
				return false
			}
			return c01ResultFromQuery(from, -1)
		}
		return false
	})
}

func c01ResultFromQuery(from ssa.Value, k int) bool {
	call, ok := from.(*ssa.Call)
	if !ok || c01IsQueryInstr(call) {
		return true
	}
	sc := call.Call.StaticCallee()
	if sc == nil || !isRepoFn(sc) || len(unwrap(sc).Blocks) == 0 {
		return true
	}
	isReply := func(z ssa.Value) bool {
		q, isCall := z.(*ssa.Call)
		return isCall && c01IsQueryInstr(q)
	}
	found := false
	eachInstr(unwrap(sc), func(i ssa.Instruction) {
		r, isRet := i.(*ssa.Return)
		if !isRet || found {
			return
		}
		for j, res := range r.Results {
			if (k < 0 || j == k) && derives(res, isReply) {
				found = true
			}
		}
	})
	return found
}

// c01CellAdvances: the loaded cell outlives a round and is assigned a value derived from the reply `from`.
func c01CellAdvances(ld *ssa.UnOp, l, outer *loop, from ssa.Value) bool {
	t := c01TracerOf(ld.Parent())
	if t == nil {
		return false
	}
	for _, loc := range t.locsOf(ld.X, nil) {
		if !loc.known() {
			continue
		}
		if a, ok := loc.root.(*ssa.Alloc); ok && (c01FreshPerRound(a, l, ld.Parent()) || (outer != nil && c01FreshPerRound(a, outer, nil))) {
			continue
		}
		for _, st := range t.storesInto(loc.root, loc.path) {
			if c01FromReply(st.Val, from) {
				return true
			}
		}
	}
	return false
}

// c01FreshPerRound: the object is allocated anew in every round: inside the loop l (or, l == nil, inside the function fn
// whose calls are the rounds), or in a function called from there.
func c01FreshPerRound(a *ssa.Alloc, l *loop, fn *ssa.Function) bool {
	isAlloc := func(i ssa.Instruction) bool { return i == ssa.Instruction(a) }
	if l == nil {
		if fn == nil {
			return false
		}
		return a.Parent() == fn || mayExec(fn, isAlloc, 0)
	}
	for b := range l.Body {
		for _, in := range b.Instrs {
			if in == ssa.Instruction(a) || liftMay(isAlloc)(in) {
				return true
			}
		}
	}
	return false
}

func c01IsSleep(i ssa.Instruction) bool {
	if cc := callCommon(i); cc != nil {
		if _, isGo := i.(*ssa.Go); !isGo && calleeName(cc) == "time.Sleep" {
			return true
		}
	}
	return false
}

func c01IsSleepOrRecv(i ssa.Instruction) bool {
	if c01IsSleep(i) {
		return true
	}
	if u, ok := i.(*ssa.UnOp); ok && u.Op == token.ARROW {
		return true
	}
	if s, ok := i.(*ssa.Select); ok && s.Blocking {
		return true
	}
	return false
}

// c01DirectPaced: the query `call` inside loop l blocks: from the head of the loop the query cannot be reached
// without sleeping (poll mode) or setting the WaitIndex of its options to the carried, advancing index.
func c01DirectPaced(call *ssa.Call, q ssa.Value, l *loop) bool {
	return c01DirectPacedIn(call, q, l, nil)
}

// c01DirectPacedIn: l == nil: the rounds are the calls of the query's function (a wrapper called from the loop outer):
// from its entry the query cannot be reached without sleeping or waiting on an index kept in a cell that outlives the call.
func c01DirectPacedIn(call *ssa.Call, q ssa.Value, l, outer *loop) bool {
	good := map[ssa.Instruction]bool{}
	helperOf := map[ssa.Instruction]*ssa.Function{}
	setAt := map[ssa.Instruction]map[*ssa.Return]bool{}
	for _, ws := range c01WaitSets(q) {
		adv := c01AdvancesIn(ws.Val, l, outer, call)
		if ws.Helper == nil {
			if adv {
				good[ws.At] = true
			}
			continue
		}
		helperOf[ws.At] = ws.Helper
		if setAt[ws.At] == nil {
			setAt[ws.At] = map[*ssa.Return]bool{}
		}
		if adv {
			setAt[ws.At][ws.Ret] = true
		}
	}
	// options built by a helper: every return of the helper hands out options that wait on the advancing index, or is
	// reached only after a sleep (poll mode)
	for at, h := range helperOf {
		ok := true
		for _, r := range c01Returns(h) {
			if !setAt[at][r] && !c01SleepsBefore(r) {
				ok = false
			}
		}
		good[at] = ok
	}
	pass := liftMust(func(i ssa.Instruction) bool { return good[i] || c01IsSleepOrRecv(i) }, 1)
	type item struct {
		b   *ssa.BasicBlock
		idx int
	}
	fn := call.Parent()
	start := fn.Blocks[0]
	if l != nil {
		start = l.Head
	}
	seen := map[*ssa.BasicBlock]bool{start: true}
	stack := []item{{start, 0}}
	for len(stack) > 0 {
		it := stack[len(stack)-1]
		stack = stack[:len(stack)-1]
		blocked := false
		for k := it.idx; k < len(it.b.Instrs); k++ {
			in := it.b.Instrs[k]
			if in == call {
				return false
			}
			if pass(in) {
				blocked = true
				break
			}
		}
		if blocked {
			continue
		}
		for _, s := range it.b.Succs {
			if ef, ok := c01EdgeFact(it.b, s); ok {
				// the edge on which the carried reply is still nil is taken in the first iteration only
				if nn, isNil := nilFact(ef, func(v ssa.Value) bool { return c01AdvancesIn(v, l, outer, call) }); isNil && !nn {
					continue
				}
			}
			if (l == nil || (l.Body[s] && s != l.Head)) && !seen[s] {
				seen[s] = true
				stack = append(stack, item{s, 0})
			}
		}
	}
	return true
}

// c01SleepsBefore: every path from the entry of r's function to r sleeps (or receives).
func c01SleepsBefore(r *ssa.Return) bool {
	fn := r.Parent()
	pass := liftMust(c01IsSleepOrRecv, 1)
	seen := map[*ssa.BasicBlock]bool{fn.Blocks[0]: true}
	stack := []*ssa.BasicBlock{fn.Blocks[0]}
	for len(stack) > 0 {
		b := stack[len(stack)-1]
		stack = stack[:len(stack)-1]
		blocked := false
		for _, in := range b.Instrs {
			if pass(in) {
				blocked = true
				break
			}
			if in == ssa.Instruction(r) {
				return false
			}
		}
		if blocked {
			continue
		}
		for _, s := range b.Succs {
			if !seen[s] {
				seen[s] = true
				stack = append(stack, s)
			}
		}
	}
	return true
}

// consulQueryPaced (used by the shared loop-pacing code as well): a direct api query paces the loop.
func consulQueryPaced(i ssa.Instruction, l *loop) bool {
	call, q, ok := c01Query(i)
	if !ok {
		return false
	}
	return c01DirectPaced(call, q, l)
}

// c01WaitParams: the parameters of f that end up as the WaitIndex of a query issued by f (or by a wrapper f calls).
func c01WaitParams(f *ssa.Function, depth int) map[int]bool {
	out := map[int]bool{}
	if f == nil || len(f.Blocks) == 0 || depth > 3 {
		return out
	}
	// the index may reach the options through a local variable that another branch overrides (waitIndex := lastIndex;
	// if poll { waitIndex = 0; sleep }): the parameter is then one edge of a merge
	var noteD func(v ssa.Value, d int)
	noteD = func(v ssa.Value, d int) {
		switch x := c01Strip(v).(type) {
		case *ssa.Parameter:
			if k := c01ParamIndex(x); k >= 0 && x.Parent() == f {
				out[k] = true
			}
		case *ssa.Phi:
			if d < 4 {
				for _, e := range x.Edges {
					noteD(e, d+1)
				}
			}
		}
	}
	note := func(v ssa.Value) { noteD(v, 0) }
	eachInstr(f, func(i ssa.Instruction) {
		if _, q, ok := c01Query(i); ok {
			for _, ws := range c01WaitSets(q) {
				note(ws.Val)
			}
			return
		}
		call, ok := i.(*ssa.Call)
		if !ok {
			return
		}
		if sc := call.Call.StaticCallee(); sc != nil && isRepoFn(sc) && sc != f {
			for k := range c01WaitParams(unwrap(sc), depth+1) {
				if k < len(call.Call.Args) {
					note(call.Call.Args[k])
				}
			}
		}
	})
	return out
}

// c01WrapperPaced: instruction i (inside loop l) calls a helper that issues a blocking query with the index it is given,
// and the index given is the loop-carried, advancing one; or the helper keeps the index itself (in a field of its
// receiver, a captured variable): every query it issues waits on a cell that outlives the call and that is advanced
// from the reply.
func c01WrapperPaced(i ssa.Instruction, l *loop) bool {
	call, ok := i.(*ssa.Call)
	if !ok {
		return false
	}
	sc := call.Call.StaticCallee()
	if sc == nil || !isRepoFn(sc) || !mustExec(unwrap(sc), c01IsQueryInstr, 0) {
		return false
	}
	ks := c01WaitParams(unwrap(sc), 0)
	if len(ks) > 0 {
		all := true
		for k := range ks {
			if k >= len(call.Call.Args) || !c01Advances(call.Call.Args[k], l, call) {
				all = false
			}
		}
		if all {
			return true
		}
	}
	// the wrapper is given the options themselves (state(q)): the call is the query as far as the loop is concerned
	if os := c01OptsParams(unwrap(sc), 0); len(os) > 0 {
		all := true
		for k := range os {
			if k >= len(call.Call.Args) || !c01DirectPaced(call, call.Call.Args[k], l) {
				all = false
			}
		}
		if all {
			return true
		}
	}
	return c01SelfPaced(unwrap(sc), l, 0)
}

// c01OptsParams: the *api.QueryOptions parameters of f that f hands unchanged to every query it issues (directly or
// through such a wrapper): f does not set the WaitIndex itself.
func c01OptsParams(f *ssa.Function, depth int) map[int]bool {
	out := map[int]bool{}
	if f == nil || len(f.Blocks) == 0 || depth > 3 {
		return out
	}
	var parOf func(v ssa.Value, d int) *ssa.Parameter
	parOf = func(v ssa.Value, d int) *ssa.Parameter {
		switch x := c01Strip(v).(type) {
		case *ssa.Parameter:
			if x.Parent() == f {
				return x
			}
		case *ssa.UnOp:
			// a parameter spilled to its cell
			if a, ok := x.X.(*ssa.Alloc); ok && x.Op == token.MUL && d < 3 {
				if vs := c01StoresInto(a); len(vs) == 1 {
					return parOf(vs[0], d+1)
				}
			}
		}
		return nil
	}
	clean := true
	eachInstr(f, func(i ssa.Instruction) {
		if _, q, ok := c01Query(i); ok {
			par := parOf(q, 0)
			if par == nil || len(c01WaitSets(q)) > 0 {
				clean = false
				return
			}
			out[c01ParamIndex(par)] = true
			return
		}
		call, ok := i.(*ssa.Call)
		if !ok {
			return
		}
		if sc := call.Call.StaticCallee(); sc != nil && isRepoFn(sc) && unwrap(sc) != f && mayExec(unwrap(sc), c01IsQueryInstr, 0) {
			inner := c01OptsParams(unwrap(sc), depth+1)
			if len(inner) == 0 {
				clean = false
				return
			}
			for k := range inner {
				var par *ssa.Parameter
				if k < len(call.Call.Args) {
					par = parOf(call.Call.Args[k], 0)
				}
				if par == nil {
					clean = false
					return
				}
				out[c01ParamIndex(par)] = true
			}
		}
	})
	if !clean {
		return map[int]bool{}
	}
	return out
}

// c01SelfPaced: every blocking query fn issues (itself or through wrappers) is paced without the help of fn's caller.
func c01SelfPaced(fn *ssa.Function, outer *loop, depth int) bool {
	if fn == nil || len(fn.Blocks) == 0 || depth > 2 {
		return false
	}
	n, ok := 0, true
	for _, b := range fn.Blocks {
		for _, in := range b.Instrs {
			if qc, q, isQ := c01Query(in); isQ {
				n++
				if !c01DirectPacedIn(qc, q, nil, outer) {
					ok = false
				}
				continue
			}
			call, isCall := in.(*ssa.Call)
			if !isCall {
				continue
			}
			sc := call.Call.StaticCallee()
			if sc == nil || !isRepoFn(sc) || unwrap(sc) == fn || !mayExec(unwrap(sc), c01IsQueryInstr, 0) {
				continue
			}
			n++
			ks := c01WaitParams(unwrap(sc), 0)
			all := len(ks) > 0
			for k := range ks {
				if k >= len(call.Call.Args) || !c01AdvancesIn(call.Call.Args[k], nil, outer, call) {
					all = false
				}
			}
			if !all && !c01SelfPaced(unwrap(sc), outer, depth+1) {
				ok = false
			}
		}
	}
	return n > 0 && ok
}

// c01BasicPacing: the operations that pace a loop whatever the loop is.
func c01BasicPacing(i ssa.Instruction) bool {
	switch x := i.(type) {
	case *ssa.Send:
		return true
	case *ssa.Select:
		return x.Blocking
	case *ssa.UnOp:
		return x.Op == token.ARROW
	case *ssa.Call:
		return pacingCalls[calleeName(&x.Call)]
	}
	return false
}

// c01Pacing is the pacing predicate of C01: blocking queries (direct or wrapped, found by role), and helpers that pace
// on every one of their paths (a loop body that was moved into a function).
func c01Pacing(i ssa.Instruction, l *loop) bool {
	if consulQueryPaced(i, l) || c01WrapperPaced(i, l) {
		return true
	}
	if call, ok := i.(*ssa.Call); ok {
		if sc := call.Call.StaticCallee(); sc != nil && isRepoFn(sc) {
			return mustExec(unwrap(sc), c01BasicPacing, 1)
		}
	}
	return false
}

func runC01Pacing(c *Ctx) {
	old := extraPacing
	extraPacing = c01Pacing
	defer func() { extraPacing = old }()
	runLoopPacing(c, "C01.W3", []string{consulPkg}, 2)
	runC01WatchLoops(c, "C01.W3", consulPkg, 2)
}

// runC01WatchLoops: in every condition-less loop that queries Consul (directly or through a wrapper), (a) the query
// blocks and (b) its error edge sleeps before the next attempt.
func runC01WatchLoops(c *Ctx, rule, pkg string, min int) {
	n := 0
	for _, f := range c.fnsWhere(pkg, func(*ssa.Function) bool { return true }) {
		for _, l := range condLessLoops(f) {
			var blocks []*ssa.BasicBlock
			for _, b := range f.Blocks {
				if l.Body[b] {
					blocks = append(blocks, b)
				}
			}
			for _, b := range blocks {
				for _, in := range b.Instrs {
					call, isCall := in.(*ssa.Call)
					if !isCall {
						continue
					}
					what := ""
					blocksOK := false
					if qc, q, ok := c01Query(in); ok {
						what = strings.TrimPrefix(c01APIMethod(&qc.Call), "(*"+apiPkg+".")
						what = "api." + strings.Replace(what, ")", "", 1)
						blocksOK = c01DirectPaced(qc, q, l)
					} else if sc := call.Call.StaticCallee(); sc != nil && isRepoFn(sc) && mayExec(unwrap(sc), c01IsQueryInstr, 0) {
						what = "the query wrapped by " + fnKey(unwrap(sc))
						blocksOK = c01WrapperPaced(in, l)
					} else {
						continue
					}
					n++
					c.check(rule, fnKey(f)+"|"+what+" blocks until the registry changes", call.Pos(), blocksOK,
						"the query's WaitIndex must be the loop-carried index advanced from the reply's LastIndex (or the poll branch must sleep); otherwise the query returns at once every time and the loop polls Consul at full speed")
					pos, ok, why := c01ErrEdge(call, l, 0)
					if !pos.IsValid() {
						pos = call.Pos()
					}
					c.check(rule, fnKey(f)+"|error edge of "+what+" sleeps before retrying", pos, ok,
						"when the query fails (agent unreachable) it returns immediately; without a sleep on that edge the loop retries at full speed"+why)
				}
			}
		}
	}
	c.atLeast(rule, "Consul queries inside watch loops of "+pkg, n, min)
}

// c01ErrEdge: after call (a query or a wrapper of one) fails, the loop l (or, without a loop: the function) is not
// restarted / left without sleeping. A wrapper without an error result must handle the failure itself.
func c01ErrEdge(call *ssa.Call, l *loop, depth int) (token.Pos, bool, string) {
	isErr := func(v ssa.Value) bool {
		if v == call && typeStr(call.Type()) == "error" {
			return true
		}
		e, ok := v.(*ssa.Extract)
		return ok && e.Tuple == call && typeStr(e.Type()) == "error"
	}
	hasErr := strings.Contains(typeStr(call.Type()), "error")
	if !hasErr {
		// the helper keeps the error to itself: look inside
		sc := call.Call.StaticCallee()
		if sc == nil || depth > 2 {
			return token.NoPos, false, " (the error of the query is not visible here)"
		}
		sc = unwrap(sc)
		okAll, n := true, 0
		var pos token.Pos
		why := ""
		eachInstr(sc, func(i ssa.Instruction) {
			inner, ok := i.(*ssa.Call)
			if !ok {
				return
			}
			isQ := c01IsQueryInstr(i)
			if !isQ {
				if g := inner.Call.StaticCallee(); g == nil || !isRepoFn(g) || !mayExec(unwrap(g), c01IsQueryInstr, 0) {
					return
				}
			}
			n++
			var il *loop
			for _, x := range condLessLoops(sc) {
				if x.Body[inner.Block()] && (il == nil || len(x.Body) < len(il.Body)) {
					il = x
				}
			}
			if p2, ok2, w2 := c01ErrEdge(inner, il, depth+1); !ok2 {
				okAll, pos, why = false, p2, w2
			}
		})
		if n == 0 {
			return token.NoPos, false, " (no query found in the helper)"
		}
		return pos, okAll, why
	}
	fn := call.Parent()
	nErr := 0
	var badPos token.Pos
	anySpin := false
	pass := liftMust(c01IsSleepOrRecv, 1)
	for _, x := range fn.Blocks {
		if l != nil && !l.Body[x] {
			continue
		}
		if len(x.Instrs) == 0 {
			continue
		}
		if _, isIf := x.Instrs[len(x.Instrs)-1].(*ssa.If); !isIf || x.Succs[0] == x.Succs[1] {
			continue
		}
		base := factsAt(x)
		if kp, _ := c01ErrKnown(base, isErr); kp {
			continue
		}
		for _, b := range x.Succs {
			ef, _ := c01EdgeFact(x, b)
			known, slept := c01ErrKnown(append(append([]Fact{}, base...), ef), isErr)
			if !known {
				continue
			}
			nErr++
			if slept {
				continue
			}
			// from b back to the head (or out of the function) without sleeping?
			spin := l != nil && (b == l.Head || !l.Body[b])
			seen := map[*ssa.BasicBlock]bool{}
			stack := []*ssa.BasicBlock{b}
			for len(stack) > 0 && !spin {
				x := stack[len(stack)-1]
				stack = stack[:len(stack)-1]
				if seen[x] {
					continue
				}
				seen[x] = true
				sleeps := false
				for _, in := range x.Instrs {
					if pass(in) {
						sleeps = true
						break
					}
					if r, isRet := in.(*ssa.Return); isRet && l == nil {
						// the failure is handed to the caller (which is then checked as the caller of a wrapper) - unless
						// this function has no error result to hand it over with
						propagates := false
						for _, res := range r.Results {
							if typeStr(res.Type()) == "error" {
								propagates = true
							}
						}
						if !propagates {
							spin = true
						}
					}
				}
				if sleeps {
					continue
				}
				for _, s := range x.Succs {
					if l != nil && s == l.Head {
						spin = true
					} else if l == nil || l.Body[s] {
						stack = append(stack, s)
					}
				}
			}
			if spin {
				anySpin = true
				badPos = x.Instrs[len(x.Instrs)-1].Pos()
				if !badPos.IsValid() {
					badPos = call.Pos()
				}
			}
		}
	}
	if nErr == 0 {
		return call.Pos(), false, " (the query's error is not examined)"
	}
	return badPos, !anySpin, ""
}

// c01ErrKnown: the facts fs say that the error is known to be non-nil - by a nil test, or by the verdict of a repository helper
// that is given the error and returns that verdict only when the error is non-nil (failed(err) == true). slept: that
// helper sleeps on every path on which the error is non-nil.
func c01ErrKnown(fs []Fact, isErr func(ssa.Value) bool) (known, slept bool) {
	for _, f := range fs {
		if nn, ok := nilFact(f, isErr); ok && nn {
			return true, false
		}
		cond, truth := c01StripNot(f.Cond, f.Truth)
		call, ok := cond.(*ssa.Call)
		if !ok {
			continue
		}
		sc := call.Call.StaticCallee()
		if sc == nil || !isRepoFn(sc) || len(sc.Blocks) == 0 {
			continue
		}
		for k, a := range call.Call.Args {
			if !isErr(a) || k >= len(sc.Params) {
				continue
			}
			par := sc.Params[k]
			for _, g := range c01Implied(Fact{call, truth}, 0) {
				if nn, ok := nilFact(g, func(v ssa.Value) bool { return v == par }); ok && nn {
					// does the helper sleep whenever the error is non-nil?
					ev := &c01Eval{oracle: func(_ *c01Eval, v ssa.Value, _ *c01Frame) c01Tri {
						if nn, ok := nilFact(Fact{v, true}, func(x ssa.Value) bool { return x == par }); ok {
							return c01Bool(nn)
						}
						return c01U
					}}
					awake := false
					pass := liftMust(c01IsSleepOrRecv, 1)
					ev.walk(sc.Blocks[0], 0, nil, nil, nil, func(i ssa.Instruction, _ c01PhiEnv) bool {
						if pass(i) {
							return true
						}
						if _, isRet := i.(*ssa.Return); isRet {
							awake = true
						}
						return false
					})
					return true, !awake
				}
			}
		}
	}
	return false, false
}
