package main

// Canonical access paths (hardening round 3). A branch fact and the value it is about are often spelled differently
// after a refactoring: the divisor is `len(r.l)` in a helper method of an embedded struct, the guard is
// `c.capacity() == 0` at the helper's call site, where capacity() is a one-line accessor. c06canonIn renders a value in
// the terms of ONE function (target): a parameter of a helper is replaced by the argument at the helper's only call
// site (like c06pathIn), and a call of a one-result, single-return repository accessor whose result is a pure
// expression of its parameters is replaced by that expression with the call's arguments substituted. Two values with
// the same canonical path denote the same memory location / the same pure expression over it.

import (
	"fmt"
	"go/token"
	"strings"

	"golang.org/x/tools/go/ssa"
)

type c06bound struct {
	val ssa.Value
	inl bool
}

type c06canon struct {
	target *ssa.Function
	bind   map[*ssa.Parameter]c06bound
	ok     bool // false: a root could not be expressed in target's terms
	opaque bool // an inlined accessor's result is not a pure expression of its parameters
}

// c06canonIn: the canonical path of v in the terms of function target; ok is false when v depends on something that
// cannot be expressed there (a register of another function, a parameter of a function with several call sites).
func c06canonIn(v ssa.Value, target *ssa.Function) (string, bool) {
	return c06canonWith(v, target, nil)
}

func c06canonWith(v ssa.Value, target *ssa.Function, pre map[*ssa.Parameter]c06bound) (string, bool) {
	cn := &c06canon{target: target, bind: map[*ssa.Parameter]c06bound{}, ok: true}
	for p, b := range pre {
		cn.bind[p] = b
	}
	s := cn.render(v, false, 0)
	return s, cn.ok && s != ""
}

func (cn *c06canon) render(v ssa.Value, inl bool, depth int) string {
	if depth > 12 {
		cn.ok = false
		return "?"
	}
	switch x := v.(type) {
	case *ssa.Parameter:
		if b, bound := cn.bind[x]; bound {
			return cn.render(b.val, b.inl, depth+1)
		}
		f := x.Parent()
		if f == cn.target {
			return x.Name()
		}
		if inl {
			cn.opaque = true
			return x.Name()
		}
		sites := gSites[f]
		if len(sites) != 1 || !onlyStaticallyCalled(f) || sites[0].Parent() == f {
			cn.ok = false
			return x.Name()
		}
		if _, isGo := sites[0].(*ssa.Go); isGo {
			cn.ok = false
			return x.Name()
		}
		for k, q := range f.Params {
			if q == x && k < len(sites[0].Common().Args) {
				return cn.render(sites[0].Common().Args[k], false, depth+1)
			}
		}
		cn.ok = false
		return x.Name()
	case *ssa.FreeVar:
		if inl {
			cn.opaque = true
		}
		return x.Name() // captured variable: the same identifier in the enclosing function
	case *ssa.Global:
		return x.Pkg.Pkg.Name() + "." + x.Name()
	case *ssa.UnOp:
		if x.Op == token.MUL {
			return cn.render(x.X, inl, depth+1)
		}
		if x.Op == token.NOT {
			return "!" + cn.render(x.X, inl, depth+1)
		}
	case *ssa.FieldAddr:
		return cn.render(x.X, inl, depth+1) + "." + fieldName(x.X.Type(), x.Field)
	case *ssa.Field:
		return cn.render(x.X, inl, depth+1) + "." + fieldName(x.X.Type(), x.Field)
	case *ssa.Const:
		return x.String()
	case *ssa.ChangeType:
		return cn.render(x.X, inl, depth+1)
	case *ssa.Convert:
		return cn.render(x.X, inl, depth+1)
	case *ssa.MakeInterface:
		return cn.render(x.X, inl, depth+1)
	case *ssa.Extract:
		return fmt.Sprintf("%s#%d", cn.render(x.Tuple, inl, depth+1), x.Index)
	case *ssa.IndexAddr:
		return cn.render(x.X, inl, depth+1) + "[" + cn.render(x.Index, inl, depth+1) + "]"
	case *ssa.Lookup:
		return cn.render(x.X, inl, depth+1) + "[" + cn.render(x.Index, inl, depth+1) + "]"
	case *ssa.BinOp:
		if inl {
			// arithmetic inside an accessor (`return len(r.l) - r.free`): pure as long as its operands are
			return "(" + cn.render(x.X, inl, depth+1) + x.Op.String() + cn.render(x.Y, inl, depth+1) + ")"
		}
	case *ssa.Call:
		if s, ok := cn.inline(x, inl, depth); ok {
			return s
		}
		if n := calleeName(&x.Call); n != "" && (strings.HasPrefix(n, "builtin.len") || strings.HasPrefix(n, "builtin.cap")) {
			var as []string
			for _, a := range x.Call.Args {
				as = append(as, cn.render(a, inl, depth+1))
			}
			return n + "(" + strings.Join(as, ",") + ")"
		}
		// any other call: its result is a value of its own; only the very same call is the same value
	}
	if inl {
		cn.opaque = true
		return v.Name()
	}
	if f := c06fnOf(v); f != nil && f != cn.target {
		cn.ok = false // a register name means nothing in another function
	}
	return v.Name()
}

// inline: call is a static call of a one-result, single-return repository accessor without captured variables whose
// result is a pure expression of its parameters (fields, len/cap, conversions, arithmetic, further such accessors):
// the expression with the arguments substituted.
func (cn *c06canon) inline(call *ssa.Call, inl bool, depth int) (string, bool) {
	res := c06onlyResult(call)
	if res == nil {
		return "", false
	}
	g := unwrap(call.Call.StaticCallee())
	if len(g.Params) != len(call.Call.Args) || len(g.FreeVars) != 0 || g == cn.target {
		return "", false
	}
	// (a pure accessor: no stores, no calls other than len/cap and further accessors - those are checked while rendering)
	impure := false
	eachInstr(g, func(i ssa.Instruction) {
		switch i.(type) {
		case *ssa.Store, *ssa.MapUpdate, *ssa.Send, *ssa.Go, *ssa.Defer, *ssa.Panic:
			impure = true
		}
	})
	if impure {
		return "", false
	}
	saved := map[*ssa.Parameter]c06bound{}
	had := map[*ssa.Parameter]bool{}
	for k, p := range g.Params {
		if b, ok := cn.bind[p]; ok {
			saved[p], had[p] = b, true
		}
		cn.bind[p] = c06bound{call.Call.Args[k], inl}
	}
	oldOpaque, oldOK := cn.opaque, cn.ok
	cn.opaque = false
	s := cn.render(res, true, depth+1)
	opaque := cn.opaque
	cn.opaque = oldOpaque
	for _, p := range g.Params {
		if had[p] {
			cn.bind[p] = saved[p]
		} else {
			delete(cn.bind, p)
		}
	}
	if opaque {
		cn.ok = oldOK
		return "", false
	}
	return s, true
}

// c06sameCanon: comparison by canonical path, in the terms of the function the other value belongs to (the function of
// the branch fact: the function of v itself, or a function that calls v's function through single call sites). pre
// binds parameters of v's function to the arguments of one particular call site (nil: none).
func c06sameCanon(v ssa.Value, pre map[*ssa.Parameter]c06bound) func(ssa.Value) bool {
	return func(o ssa.Value) bool {
		if o == v {
			return true
		}
		tf := c06fnOf(o)
		if tf == nil {
			return false
		}
		if _, isConst := o.(*ssa.Const); isConst {
			return false
		}
		a, ok1 := c06canonWith(v, tf, pre)
		if !ok1 {
			return false
		}
		b, ok2 := c06canonWith(o, tf, nil)
		return ok2 && a == b
	}
}
