package main

// Rules of C18 added after the fourth round of independently written breaking changes (DESIGN 11.12); they register
// themselves with addRound4 (wired in zzz_round4.go).
//
// C18.J2: no server's Shutdown is started later than the others because it waits for the Shutdown of another server.
// (The second patch of the round - connections of the TCP server closed on an idleness test while the wait is still
// running - is a case of C18.O1, which was extended in c18_order.go; its mutants are registered here.)

import (
	"go/token"
	"go/types"
	"os"
	"strings"

	"golang.org/x/tools/go/ssa"
)

func init() {
	addRound4("C18", "(J2) in proxy.Shutdown and in every composite server's Shutdown of package proxy, the start of one server's Shutdown(ctx) never waits for the Shutdown of another server to return: no loop that launches the per-server goroutines holds a blocking acquisition (send on / receive from a repository-made channel, semaphore Acquire, a select without default on one) whose release (the opposite channel operation, close, Release) a per-server goroutine performs only after its server's Shutdown returned (or deferred); no such acquisition lies on the way to the Shutdown call inside the goroutine; a goroutine does not call Shutdown of servers in a loop (a pool of workers draining a queue of servers); the group that starts the goroutines has no concurrency limit (errgroup SetLimit). A send on a channel made with room for every server (capacity at least len of the collection the launching loop ranges over, or of the collection that one was copied from) is no acquisition, nor is a limit of that size; an acquisition that is given back before the next launch / before the goroutine's own Shutdown call (a channel used as a lock around bookkeeping), or that only closes such a section, is none; a loop that repeats the same Shutdown call with the same context (a retry) is no queue of servers. Otherwise the listeners of the servers that wait keep accepting for a whole wait period after shutdown began and proxy.Shutdown takes a multiple of the configured wait.",
		runC18J2, c18PickMutants(append([]mutant{
			// ---- breaks
			{Name: "J2 seed shape: slot channel of 8, taken in the loop, given back when the server's Shutdown returned", File: "proxy/serve.go", Old: c18SrcShutdown, New: c18SrcShutdownSlots, Expect: "C18.J2"},
			{Name: "J2 slot taken inside the goroutine before the per-server context is made", File: "proxy/serve.go", Old: c18SrcShutdown, New: c18SrcShutdownSlotsInside, Expect: "C18.J2"},
			{Name: "J2 acquire/release in helpers, goroutine is a named function", File: "proxy/serve.go", Old: c18SrcShutdown, New: c18SrcShutdownSlotsHelpers, Expect: "C18.J2"},
			{Name: "J2 token pool: a token is received before go and sent back after the Shutdown", File: "proxy/serve.go", Old: c18SrcShutdown, New: c18SrcShutdownTokenPool, Expect: "C18.J2"},
			{Name: "J2 pool of 8 workers draining a queue of servers", File: "proxy/serve.go", Old: c18SrcShutdown, New: c18SrcShutdownWorkers, Expect: "C18.J2"},
			{Name: "J2 errgroup with SetLimit(8)", File: "proxy/serve.go", Old: c18SrcShutdown, New: c18SrcShutdownErrgroupLimit, More: []repl{{c18ImportGrpc, c18ImportGrpcErrgroup}}, Expect: "C18.J2"},
			{Name: "J2 semaphore.Weighted acquired in the loop, released by the goroutine", File: "proxy/serve.go", Old: c18SrcShutdown, New: c18SrcShutdownSemaphore, More: []repl{{c18ImportGrpc, "\t\"golang.org/x/sync/semaphore\"\n" + c18ImportGrpc}}, Expect: "C18.J2"},
			{Name: "J2 every goroutine waits for the done channel of the one started before it", File: "proxy/serve.go", Old: c18SrcShutdown, New: c18SrcShutdownChain, Expect: "C18.J2"},
			{Name: "J2 select on slot or ctx.Done in the goroutine", File: "proxy/serve.go", Old: c18SrcShutdown, New: c18SrcShutdownSlotsSelect, Expect: "C18.J2"},
			{Name: "J2 go statement in a helper, the slot is taken by the loop of the caller", File: "proxy/serve.go", Old: c18SrcShutdown, New: c18SrcShutdownSlotsSplit, Expect: "C18.J2"},
			{Name: "J2 composite server throttles its children with a slot channel", File: "proxy/inetaf_tcpproxy.go", Old: c18SrcInetAfFanOut, New: c18SrcInetAfFanOutSlots, Expect: "C18.J2"},
			// ---- the same devices used correctly
			{Name: "benign: slot channel with room for every server (capacity len(srvs))", File: "proxy/serve.go", Old: c18SrcShutdown, New: c18SrcShutdownSlotsLen, Expect: ""},
			{Name: "benign: slots limit only the work after the drain (taken after Shutdown returned)", File: "proxy/serve.go", Old: c18SrcShutdown, New: c18SrcShutdownSlotsAfter, Expect: ""},
			{Name: "benign: non-blocking try-acquire (select with default) only counted", File: "proxy/serve.go", Old: c18SrcShutdown, New: c18SrcShutdownSlotsTry, Expect: ""},
			{Name: "benign: errors collected on a buffered channel, drained after the join", File: "proxy/serve.go", Old: c18SrcShutdown, New: c18SrcShutdownErrChan, Expect: ""},
			{Name: "benign: errgroup with SetLimit(-1)", File: "proxy/serve.go", Old: c18SrcShutdown, New: c18SrcShutdownErrgroupNoLimit, More: []repl{{c18ImportGrpc, c18ImportGrpcErrgroup}}, Expect: ""},
			{Name: "benign: the loop waits until each goroutine has started (handshake before the drain)", File: "proxy/serve.go", Old: c18SrcShutdown, New: c18SrcShutdownStarted, Expect: ""},
			{Name: "benign: servers handed to their goroutines over an unbuffered channel, one goroutine per server", File: "proxy/serve.go", Old: c18SrcShutdown, New: c18SrcShutdownHandOver, Expect: ""},

			// ---- C18.O1, the family of the second patch: a tunnel is cut while the wait is still running
			{Name: "O1 seed shape: idle connections closed at every poll of the wait loop", File: "proxy/tcp/server.go", Old: c18SrcTCPShutdown, New: c18SrcTCPShutdownPollIdle, More: []repl{{c18SrcTCPConnsField, c18SrcTCPConnsFieldSeen}}, Expect: "C18.O1"},
			{Name: "O1 reaper goroutine started before the wait closes quiet connections", File: "proxy/tcp/server.go", Old: c18SrcTCPShutdown, New: c18SrcTCPShutdownReaper, More: []repl{{c18SrcTCPConnsField, c18SrcTCPConnsFieldSeen}}, Expect: "C18.O1"},
			{Name: "O1 read deadline 'now' set on every connection before the wait", File: "proxy/tcp/server.go", Old: c18SrcTCPShutdown, New: c18SrcTCPShutdownDeadlineNow, Expect: "C18.O1"},
			{Name: "O1 wait capped by a constant: a time.After case leads to closing the connections", File: "proxy/tcp/server.go", Old: c18SrcTCPShutdown, New: c18SrcTCPShutdownCapped, Expect: "C18.O1"},
			{Name: "O1 wait capped by a constant inside a wait helper", File: "proxy/tcp/server.go", Old: c18SrcTCPShutdown, New: c18SrcTCPShutdownCappedHelper, Expect: "C18.O1"},
			{Name: "O1 the wrapped connection is closed directly (c.c.Close) at the first poll", File: "proxy/tcp/server.go", Old: c18SrcTCPShutdown, New: c18SrcTCPShutdownPollInner, More: []repl{{c18SrcTCPConnsField, c18SrcTCPConnsFieldConcrete}, {"\t\tc, err := l.Accept()\n\t\tif err != nil {\n\t\t\treturn err\n\t\t}\n\t\tc = &conn{\n\t\t\tc:            c,", "\t\traw, err := l.Accept()\n\t\tif err != nil {\n\t\t\treturn err\n\t\t}\n\t\tc := &conn{\n\t\t\tc:            raw,"}, {"s.conns = map[net.Conn]bool{}", "s.conns = map[*conn]bool{}"}}, Expect: "C18.O1"},
			{Name: "benign: Shutdown polls the number of open connections and returns early, the rest is closed at the deadline", File: "proxy/tcp/server.go", Old: c18SrcTCPShutdown, New: c18SrcTCPShutdownPollCount, Expect: ""},
			{Name: "benign: poll loop in a helper that reports whether the deadline was hit", File: "proxy/tcp/server.go", Old: c18SrcTCPShutdown, New: c18SrcTCPShutdownPollHelper, Expect: ""},
			{Name: "benign: the context's own deadline set on every connection before the wait", File: "proxy/tcp/server.go", Old: c18SrcTCPShutdown, New: c18SrcTCPShutdownCtxDeadline, Expect: ""},
			{Name: "benign: select with a timer set to the context's own deadline", File: "proxy/tcp/server.go", Old: c18SrcTCPShutdown, New: c18SrcTCPShutdownOwnDeadlineTimer, Expect: ""},
			{Name: "benign: poll paced by time.After inside the loop, closeConns after the loop", File: "proxy/tcp/server.go", Old: c18SrcTCPShutdown, New: c18SrcTCPShutdownPollAfter, Expect: ""},
			{Name: "benign: watchdog goroutine started before the wait closes the connections once ctx is done", File: "proxy/tcp/server.go", Old: c18SrcTCPShutdown, New: c18SrcTCPShutdownCloserGoroutine, Expect: ""},
			{Name: "benign: goroutine started before the wait only lists the open connections", File: "proxy/tcp/server.go", Old: c18SrcTCPShutdown, New: c18SrcTCPShutdownStatsGoroutine, Expect: ""},
		}, c18Hardening3Mutants()...))...,
	)
}

// ---- C18.J2 ----------------------------------------------------------------------------------------------------------

const (
	c18SemAcquire = "(*golang.org/x/sync/semaphore.Weighted).Acquire"
	c18SemRelease = "(*golang.org/x/sync/semaphore.Weighted).Release"
	c18GroupLimit = "(*golang.org/x/sync/errgroup.Group).SetLimit"
)

// c18Fan: one place where goroutines that perform a server's Shutdown are started.
type c18Fan struct {
	at   ssa.Instruction // the go statement, or the call of a group's Go method
	body []*ssa.Function // what the goroutine runs
	sync []*ssa.Function // ... with what that runs synchronously
}

// c18IsServerShutdown: i calls Shutdown(ctx) through an interface, synchronously.
func c18IsServerShutdown(i ssa.Instruction) bool {
	if _, isGo := i.(*ssa.Go); isGo {
		return false
	}
	return c18ShutdownInvoke(i) != nil
}

// c18FansOf: the go statements (and group Go calls) of the region whose goroutine, with what it calls, performs a
// server Shutdown.
func c18FansOf(c *Ctx, reg []*ssa.Function) []c18Fan {
	var fans []c18Fan
	eachInstrOf(reg, func(_ *ssa.Function, i ssa.Instruction) {
		var targets []*ssa.Function
		switch g := i.(type) {
		case *ssa.Go:
			targets = c18Targets(&g.Call)
		case *ssa.Call:
			if !c18GroupGo[calleeName(&g.Call)] || len(g.Call.Args) != 2 {
				return
			}
			targets = c18FuncsOf(g.Call.Args[1])
		default:
			return
		}
		does := false
		eachInstrOf(c18Region(c, targets...), func(_ *ssa.Function, x ssa.Instruction) {
			if c18IsServerShutdown(x) {
				does = true
			}
		})
		if !does {
			return
		}
		fan := c18Fan{at: i, body: targets}
		for _, t := range targets {
			for _, h := range c18SyncRegion(t, 3) {
				if !containsFn(fan.sync, h) {
					fan.sync = append(fan.sync, h)
				}
			}
		}
		fans = append(fans, fan)
	})
	return fans
}

// c18SyncOp: what instruction i does to a synchronisation object that can make another goroutine wait: the channels it
// sends on / closes, the channels it receives from, whether it acquires / releases a weighted semaphore, and whether
// it blocks (a select with a default case does not).
type c18SyncOp struct {
	sends, recvs []ssa.Value
	acquire      bool
	release      bool
	blocking     bool
}

func c18SyncOpOf(i ssa.Instruction) (c18SyncOp, bool) {
	var op c18SyncOp
	switch x := i.(type) {
	case *ssa.Go:
		return op, false
	case *ssa.Send:
		op.sends, op.blocking = []ssa.Value{x.Chan}, true
	case *ssa.UnOp:
		if x.Op != token.ARROW {
			return op, false
		}
		op.recvs, op.blocking = []ssa.Value{x.X}, true
	case *ssa.Select:
		op.blocking = x.Blocking
		for _, st := range x.States {
			if st.Dir == types.SendOnly {
				op.sends = append(op.sends, st.Chan)
			} else {
				op.recvs = append(op.recvs, st.Chan)
			}
		}
	default:
		cc := callCommon(i)
		if cc == nil {
			return op, false
		}
		switch calleeName(cc) {
		case "builtin.close":
			if len(cc.Args) != 1 {
				return op, false
			}
			op.sends = []ssa.Value{cc.Args[0]} // closing wakes the receivers like a send
		case c18SemAcquire:
			op.acquire, op.blocking = true, true
		case c18SemRelease:
			op.release = true
		default:
			return op, false
		}
	}
	return op, len(op.sends) > 0 || len(op.recvs) > 0 || op.acquire || op.release
}

// c18Lifts: instruction y (a call or a deferred call, never a go statement) satisfies pred itself or may run a
// repository function that executes an instruction satisfying it.
func c18Lifts(y ssa.Instruction, pred func(ssa.Instruction) bool) bool {
	if _, isGo := y.(*ssa.Go); isGo {
		return false
	}
	if pred(y) {
		return true
	}
	switch y.(type) {
	case *ssa.Call, *ssa.Defer:
	default:
		return false
	}
	for _, g := range c18Targets(callCommon(y)) {
		if c18MayExec(g, pred, 1) {
			return true
		}
	}
	return false
}

func runC18J2(c *Ctx) {
	c18Use(c)
	sp := c.spkg("proxy")
	var roots []*ssa.Function
	if sd := c.fn("proxy", "Shutdown"); sd != nil { // exported API
		roots = append(roots, sd)
	}
	for _, f := range shutdownImpls(c) {
		if sp != nil && rootPkg(f) == sp {
			roots = append(roots, f)
		}
	}
	nFans := 0
	for _, root := range roots {
		reg := c18Region(c, root)
		fans := c18FansOf(c, reg)
		if len(fans) == 0 {
			continue
		}
		nFans += len(fans)
		isFanAt := func(i ssa.Instruction) bool {
			for _, f := range fans {
				if f.at == i {
					return true
				}
			}
			return false
		}
		// the instructions of h that (may) perform a server's Shutdown
		drains := func(h *ssa.Function) []ssa.Instruction {
			var xs []ssa.Instruction
			eachInstr(h, func(i ssa.Instruction) {
				if _, isDefer := i.(*ssa.Defer); !isDefer && c18Lifts(i, c18IsServerShutdown) {
					xs = append(xs, i)
				}
			})
			return xs
		}
		// afterDrain: instruction i of function h (part of a per-server goroutine) runs only when - or may run after - the
		// server's Shutdown has returned: it is deferred in a function that drains; it can be reached from the drain; or h
		// does not drain and is itself called (or deferred) at such a point.
		var afterDrain func(i ssa.Instruction, depth int) bool
		afterDrain = func(i ssa.Instruction, depth int) bool {
			h := i.Parent()
			xs := drains(h)
			if len(xs) > 0 {
				if _, isDefer := i.(*ssa.Defer); isDefer {
					return true
				}
				for _, x := range xs {
					if x != i && pathAvoiding(x, i, nil) {
						return true
					}
				}
				return false
			}
			if depth >= 3 {
				return false
			}
			// h does not drain: the calls and deferred calls of the goroutine that may run it (a static callee, a local or
			// deferred closure, a callback handed in from outside the goroutine)
			found := false
			for _, fan := range fans {
				eachInstrOf(fan.sync, func(g *ssa.Function, y ssa.Instruction) {
					if found || g == h {
						return
					}
					switch y.(type) {
					case *ssa.Call, *ssa.Defer:
					default:
						return
					}
					if containsFn(c18Targets(callCommon(y)), h) && afterDrain(y, depth+1) {
						found = true
					}
				})
			}
			return found
		}

		// what the per-server goroutines do to channels / semaphores after their server's Shutdown returned
		recvRel, sendRel := map[*ssa.MakeChan]bool{}, map[*ssa.MakeChan]bool{}
		semRel := false
		for _, fan := range fans {
			eachInstrOf(fan.sync, func(_ *ssa.Function, i ssa.Instruction) {
				op, ok := c18SyncOpOf(i)
				if !ok || !afterDrain(i, 0) {
					return
				}
				for _, ch := range op.recvs {
					for mc := range c18ChanRoots(ch) {
						recvRel[mc] = true
					}
				}
				for _, ch := range op.sends {
					for mc := range c18ChanRoots(ch) {
						sendRel[mc] = true
					}
				}
				if op.release {
					semRel = true
				}
			})
		}
		// a channel with room for one element per server: made with capacity len(v), v being what a loop that launches
		// the goroutines ranges over
		ranged := map[ssa.Value]bool{}
		for _, h := range reg {
			for _, l := range loopsOf(h) {
				launches := false
				for b := range l.Body {
					for _, in := range b.Instrs {
						if isFanAt(in) || c18Lifts(in, isFanAt) {
							launches = true
						}
					}
				}
				if !launches {
					continue
				}
				for b := range l.Body {
					for _, in := range b.Instrs {
						switch x := in.(type) {
						case *ssa.Next:
							if rg, ok := x.Iter.(*ssa.Range); ok {
								ranged[rg.X] = true
							}
						case *ssa.BinOp:
							if call, ok := isCallTo(x.Y, "builtin.len"); ok && x.Op == token.LSS && len(call.Call.Args) == 1 {
								ranged[call.Call.Args[0]] = true
							}
						}
					}
				}
			}
		}
		// (a ranged slice made with the length / capacity of another collection holds that collection's elements: a copy
		// of the snapshot that is ranged over instead of the snapshot itself)
		var sizedLike []ssa.Value
		for v := range ranged {
			derives(v, func(x ssa.Value) bool {
				if ms, ok := x.(*ssa.MakeSlice); ok {
					for _, n := range []ssa.Value{ms.Len, ms.Cap} {
						if call, ok := isCallTo(c18StripConv(n), "builtin.len"); ok && len(call.Call.Args) == 1 {
							sizedLike = append(sizedLike, call.Call.Args[0])
						}
					}
				}
				return false
			})
		}
		for _, v := range sizedLike {
			ranged[v] = true
		}
		isRanged := func(v ssa.Value) bool {
			for r := range ranged {
				if c18SameColl(r, v) {
					return true
				}
			}
			return false
		}
		// the capacity is at least the number of launches: len(v), len(v)+k, k*len(v), max(len(v), ..), or a variable
		// that is one of these on every way
		var covers func(size ssa.Value, d int) bool
		covers = func(size ssa.Value, d int) bool {
			size = c18StripConv(size)
			if d > 4 {
				return false
			}
			switch x := size.(type) {
			case *ssa.BinOp:
				for _, pair := range [][2]ssa.Value{{x.X, x.Y}, {x.Y, x.X}} {
					n, isConst := constInt(pair[1])
					if isConst && ((x.Op == token.ADD && n >= 0) || (x.Op == token.MUL && n >= 1)) && covers(pair[0], d+1) {
						return true
					}
				}
				if x.Op == token.SUB {
					if n, isConst := constInt(x.Y); isConst && n <= 0 {
						return covers(x.X, d+1)
					}
				}
			case *ssa.Phi:
				for _, e := range x.Edges {
					if !covers(e, d+1) {
						return false
					}
				}
				return len(x.Edges) > 0
			case *ssa.Call:
				switch calleeName(&x.Call) {
				case "builtin.len":
					return len(x.Call.Args) == 1 && isRanged(x.Call.Args[0])
				case "builtin.max":
					for _, a := range x.Call.Args {
						if covers(a, d+1) {
							return true
						}
					}
				}
			}
			return false
		}
		roomy := func(mc *ssa.MakeChan) bool { return covers(mc.Size, 0) }
		// isGate: a blocking acquisition that is released only when some server's Shutdown has returned
		isGate := func(i ssa.Instruction) bool {
			op, ok := c18SyncOpOf(i)
			if !ok || !op.blocking {
				return false
			}
			if op.acquire && semRel {
				return true
			}
			for _, ch := range op.sends {
				if calleeNameOf(i) == "builtin.close" {
					continue
				}
				for mc := range c18ChanRoots(ch) {
					if recvRel[mc] && !roomy(mc) {
						return true
					}
				}
			}
			for _, ch := range op.recvs {
				for mc := range c18ChanRoots(ch) {
					if sendRel[mc] {
						return true
					}
				}
			}
			return false
		}

		// undoes(gs): the instructions that give back what the gates gs took (the opposite channel operation, Release; a
		// deferred one at the point where the deferred calls run): a slot that is given back before the next launch / before
		// the goroutine's own drain is a short critical section (a channel used as a lock), not a limit on the drains
		chanDirs := func(gs []ssa.Instruction) (same, undo func(ssa.Instruction) bool) {
			send, recv := map[*ssa.MakeChan]bool{}, map[*ssa.MakeChan]bool{}
			sem := false
			for _, g := range gs {
				op, _ := c18SyncOpOf(g)
				sem = sem || op.acquire
				if calleeNameOf(g) != "builtin.close" {
					for _, ch := range op.sends {
						for mc := range c18ChanRoots(ch) {
							send[mc] = true
						}
					}
				}
				for _, ch := range op.recvs {
					for mc := range c18ChanRoots(ch) {
						recv[mc] = true
					}
				}
			}
			on := func(chans []ssa.Value, set map[*ssa.MakeChan]bool) bool {
				for _, ch := range chans {
					for mc := range c18ChanRoots(ch) {
						if set[mc] {
							return true
						}
					}
				}
				return false
			}
			// direct(opposite): i works on the gates' objects in the gates' direction / in the opposite direction
			direct := func(i ssa.Instruction, opposite bool) bool {
				op, ok := c18SyncOpOf(i)
				if !ok {
					return false
				}
				if opposite {
					return (sem && op.release) || on(op.recvs, send) || on(op.sends, recv)
				}
				return (sem && op.acquire) || on(op.sends, send) || on(op.recvs, recv)
			}
			same = func(i ssa.Instruction) bool {
				switch i.(type) {
				case *ssa.Go, *ssa.Defer, *ssa.RunDefers:
					return false
				}
				return direct(i, false)
			}
			undo = func(i ssa.Instruction) bool {
				switch x := i.(type) {
				case *ssa.Go, *ssa.Defer:
					return false
				case *ssa.RunDefers:
					found := false
					eachInstr(x.Parent(), func(d ssa.Instruction) {
						df, isDefer := d.(*ssa.Defer)
						if !isDefer || found || !dominatesInstr(d, i) {
							return
						}
						if direct(df, true) {
							found = true
							return
						}
						for _, t := range c18Targets(&df.Call) {
							if mustExec(t, func(k ssa.Instruction) bool { return direct(k, true) }, 1) {
								found = true
							}
						}
					})
					return found
				}
				return direct(i, true)
			}
			return same, undo
		}
		undoes := func(gs []ssa.Instruction) func(ssa.Instruction) bool {
			_, undo := chanDirs(gs)
			return undo
		}
		// gatesAt: the gates instruction in executes: itself, or - a call - the gates of the repository functions it may
		// run that can still be held when that function returns
		gatesAt := func(in ssa.Instruction) []ssa.Instruction {
			switch in.(type) {
			case *ssa.Go, *ssa.Defer:
				return nil
			}
			if isGate(in) {
				return []ssa.Instruction{in}
			}
			call, ok := in.(*ssa.Call)
			if !ok {
				return nil
			}
			var out []ssa.Instruction
			seen := map[*ssa.Function]bool{}
			var walk func(f *ssa.Function, d int)
			walk = func(f *ssa.Function, d int) {
				if f == nil || seen[f] || d > 3 {
					return
				}
				seen[f] = true
				eachInstr(f, func(y ssa.Instruction) {
					if _, isGo := y.(*ssa.Go); isGo {
						return
					}
					if _, isDefer := y.(*ssa.Defer); !isDefer && isGate(y) {
						if _, open := exitReachableAvoiding(y, undoes([]ssa.Instruction{y})); open {
							out = append(out, y)
						}
						return
					}
					for _, g := range c18Targets(callCommon(y)) {
						walk(g, d+1)
					}
				})
			}
			for _, g := range c18Targets(&call.Call) {
				walk(g, 1)
			}
			return out
		}
		// closing: gate b only ends a critical section that the same function opened: on every way to b - from the entry
		// of its function and from every launch / drain ys of it - the opposite operation (undo) was executed, so b takes
		// back / puts back what this goroutine itself put in / took out and does not wait for anybody (`lock <- x;
		// n++; <-lock` with a channel used as a lock: both halves look like acquisitions of a slot)
		closing := func(b ssa.Instruction, ys []ssa.Instruction) bool {
			if !isGate(b) {
				return false
			}
			same, undo := chanDirs([]ssa.Instruction{b})
			if c18EntryReaches(b, liftMust(undo, 1)) {
				return false
			}
			// which direction acquires: the one of the first operation on the object; b's direction must not be it
			either := func(i ssa.Instruction) bool { return same(i) || undo(i) }
			ok := true
			eachInstr(b.Parent(), func(s ssa.Instruction) {
				if !ok || !same(s) {
					return
				}
				if c18EntryReaches(s, either) || pathAvoiding(s, b, undo) {
					ok = false // the function's first operation on the object goes b's way, or b repeats s with nothing given back between
				}
			})
			for _, y := range ys {
				if ok && y != b && y.Parent() == b.Parent() && pathAvoiding(y, b, undo) {
					ok = false
				}
			}
			return ok
		}
		earlier := func(pos *token.Pos, p token.Pos) {
			if !pos.IsValid() || (p.IsValid() && p < *pos) {
				*pos = p
			}
		}

		key := fnKey(root)
		// (a) the launching side: a gate in a loop that launches, still held at the next launch
		var gatePos token.Pos
		gated := false
		for _, h := range reg {
			for _, l := range loopsOf(h) {
				var launches []ssa.Instruction
				for b := range l.Body {
					for _, in := range b.Instrs {
						if isFanAt(in) || c18Lifts(in, isFanAt) {
							launches = append(launches, in)
						}
					}
				}
				if len(launches) == 0 {
					continue
				}
				for b := range l.Body {
					for _, in := range b.Instrs {
						if isFanAt(in) {
							continue
						}
						gs := gatesAt(in)
						if len(gs) == 0 {
							continue
						}
						undo := undoes(gs)
						if closing(in, launches) {
							continue
						}
						for _, y := range launches {
							if y == in || pathAvoiding(in, y, undo) {
								gated = true
								earlier(&gatePos, in.Pos())
							}
						}
					}
				}
			}
		}
		c.check("C18.J2", key+"|the loop that starts the per-server shutdowns never waits for one of them to finish", gatePos, !gated,
			"the loop that launches the per-server goroutines blocks on a channel / semaphore that a goroutine releases only after its server's Shutdown(ctx) returned (a limit on concurrent shutdowns): the servers that wait for a slot are not told to shut down, their listeners keep accepting new connections for up to a whole wait period after shutdown began, and proxy.Shutdown takes a multiple of the configured wait (tcp.Server.Shutdown always uses its full deadline)")

		// (b) the goroutine's side: nothing on the way to the server's Shutdown waits for another server's Shutdown
		gated, gatePos = false, token.NoPos
		serial := false
		var serialPos token.Pos
		for _, fan := range fans {
			for _, h := range fan.sync {
				xs := drains(h)
				if len(xs) == 0 {
					continue
				}
				eachInstr(h, func(b ssa.Instruction) {
					gs := gatesAt(b)
					if len(gs) == 0 {
						return
					}
					undo := undoes(gs)
					if closing(b, xs) {
						return
					}
					for _, x := range xs {
						if x != b && pathAvoiding(b, x, undo) {
							gated = true
							earlier(&gatePos, b.Pos())
						}
					}
				})
				// (c) one goroutine, one server: a loop around the drain whose iterations drain different servers (or with
				// a different context); a loop that repeats the same call - a retry of the goroutine's own server within
				// the same deadline - is not a queue of servers
				for _, l := range loopsOf(h) {
					for _, x := range xs {
						if l.Body[x.Block()] && c18VariesIn(x, l) {
							serial = true
							earlier(&serialPos, x.Pos())
						}
					}
				}
			}
		}
		c.check("C18.J2", key+"|no per-server goroutine waits for another server's shutdown before it starts its own", gatePos, !gated,
			"a per-server goroutine blocks, before it calls its server's Shutdown(ctx), on a channel / semaphore that is released only after another server's Shutdown returned: that server's listener keeps accepting until a slot is free (up to a whole wait period after shutdown began) and its own deadline starts late, so proxy.Shutdown takes a multiple of the configured wait")
		c.check("C18.J2", key+"|one goroutine drains one server", serialPos, !serial,
			"a goroutine calls Shutdown(ctx) in a loop whose iterations differ (a worker draining a queue of servers, or the same server again with a fresh context): the second server of a worker is not told to shut down before the first has finished - tcp.Server.Shutdown always takes its full deadline - so its listener keeps accepting and proxy.Shutdown takes a multiple of the configured wait")

		// (d) the group that starts the goroutines is not limited
		limited := false
		var limPos token.Pos
		eachInstrOf(reg, func(_ *ssa.Function, i ssa.Instruction) {
			cc := callCommon(i)
			if cc == nil || calleeName(cc) != c18GroupLimit || len(cc.Args) != 2 {
				return
			}
			if n, isConst := constInt(cc.Args[1]); isConst && n < 0 {
				return // a negative limit means no limit
			}
			if covers(cc.Args[1], 0) {
				return // as many slots as servers: nobody waits
			}
			limited, limPos = true, i.Pos()
		})
		c.check("C18.J2", key+"|the group that starts the per-server goroutines has no concurrency limit", limPos, !limited,
			"errgroup.Group.SetLimit makes Go block until one of the running functions has returned: with more servers than the limit the remaining servers are not told to shut down until another server's Shutdown(ctx) has returned (their listeners keep accepting; total time is a multiple of the configured wait)")
	}
	// the property needs the fan-out of proxy.Shutdown to be looked at (the composite server adds a second one)
	c.atLeast("C18.J2", "places that start goroutines performing a server's Shutdown (proxy.Shutdown, composite servers)", nFans, 1)
}

// c18PickMutants: development aid, C18_MUTANT=<substring> restricts the mutants of this file like those of c18.go.
func c18PickMutants(ms []mutant) []mutant {
	want := os.Getenv("C18_MUTANT")
	if want == "" {
		return ms
	}
	var keep []mutant
	for _, m := range ms {
		if strings.Contains(m.Name, want) {
			keep = append(keep, m)
		}
	}
	return keep
}

// c18StripConv: v without the conversions around it.
func c18StripConv(v ssa.Value) ssa.Value {
	for {
		switch x := v.(type) {
		case *ssa.Convert:
			v = x.X
		case *ssa.ChangeType:
			v = x.X
		default:
			return v
		}
	}
}

// c18SameColl: a and b denote the same collection: the same value, or two loads of the same struct field / of the same
// package variable (`tps.children` read twice).
func c18SameColl(a, b ssa.Value) bool {
	if a == b {
		return true
	}
	if fa, fb := c18FieldVarOf(a), c18FieldVarOf(b); fa != nil && fa == fb {
		return true
	}
	la, okA := a.(*ssa.UnOp)
	lb, okB := b.(*ssa.UnOp)
	if okA && okB && la.Op == token.MUL && lb.Op == token.MUL {
		ga, isA := la.X.(*ssa.Global)
		gb, isB := lb.X.(*ssa.Global)
		return isA && isB && ga == gb
	}
	return false
}

// c18VariesIn: instruction x, which lies in loop l, may work on different values in different iterations: one of its
// operands is computed in the loop from something that changes there (the element of a range, a receive, a result of
// a call, a variable assigned in the loop). A call whose operands are all the same in every iteration repeats itself.
func c18VariesIn(x ssa.Instruction, l *loop) bool {
	storedIn := func(addr ssa.Value) bool {
		refs := addr.Referrers()
		if refs == nil {
			return true // a global / free variable: look at the stores of the loop's function
		}
		for _, r := range *refs {
			if st, ok := r.(*ssa.Store); ok && st.Addr == addr && l.Body[st.Block()] {
				return true
			}
		}
		return false
	}
	storedInLoop := func(addr ssa.Value) bool {
		switch a := addr.(type) {
		case *ssa.Alloc:
			return storedIn(a)
		case *ssa.FreeVar, *ssa.Global:
			hit := false
			for b := range l.Body {
				for _, in := range b.Instrs {
					if st, ok := in.(*ssa.Store); ok && st.Addr == addr {
						hit = true
					}
				}
			}
			return hit
		}
		return true
	}
	seen := map[ssa.Value]bool{}
	var varies func(v ssa.Value, d int) bool
	varies = func(v ssa.Value, d int) bool {
		if v == nil || seen[v] {
			return false
		}
		seen[v] = true
		switch y := v.(type) {
		case *ssa.Const, *ssa.Function, *ssa.Global, *ssa.Builtin, *ssa.Parameter, *ssa.FreeVar:
			return false
		case *ssa.MakeClosure:
			// a closure made outside the loop whose captured variable is assigned in the loop works on something else each time
			for _, b := range y.Bindings {
				if _, isAlloc := b.(*ssa.Alloc); isAlloc && storedInLoop(b) {
					return true
				}
			}
			if !l.Body[y.Block()] {
				return false
			}
			for _, b := range y.Bindings {
				if _, isAlloc := b.(*ssa.Alloc); !isAlloc && varies(b, d+1) {
					return true
				}
			}
			return false
		}
		in, ok := v.(ssa.Instruction)
		if !ok {
			return true
		}
		if !l.Body[in.Block()] {
			return false
		}
		if d > 8 {
			return true
		}
		switch y := v.(type) {
		case *ssa.UnOp:
			if y.Op == token.MUL {
				switch y.X.(type) {
				case *ssa.Alloc, *ssa.FreeVar, *ssa.Global:
					return storedInLoop(y.X)
				}
			}
			if y.Op == token.ARROW {
				return true
			}
			return varies(y.X, d+1)
		case *ssa.Convert:
			return varies(y.X, d+1)
		case *ssa.ChangeType:
			return varies(y.X, d+1)
		case *ssa.ChangeInterface:
			return varies(y.X, d+1)
		case *ssa.MakeInterface:
			return varies(y.X, d+1)
		case *ssa.TypeAssert:
			return varies(y.X, d+1)
		case *ssa.FieldAddr:
			return varies(y.X, d+1)
		case *ssa.Field:
			return varies(y.X, d+1)
		case *ssa.BinOp:
			return varies(y.X, d+1) || varies(y.Y, d+1)
		case *ssa.Index:
			return varies(y.X, d+1) || varies(y.Index, d+1)
		case *ssa.IndexAddr:
			return varies(y.X, d+1) || varies(y.Index, d+1)
		case *ssa.Lookup:
			return varies(y.X, d+1) || varies(y.Index, d+1)
		}
		return true // a phi of the loop, the element of a range, the result of a call ...
	}
	for _, op := range x.Operands(nil) {
		if op != nil && *op != nil && varies(*op, 0) {
			return true
		}
	}
	return false
}

func calleeNameOf(i ssa.Instruction) string {
	if cc := callCommon(i); cc != nil {
		return calleeName(cc)
	}
	return ""
}

// ---- C18.O1, extensions ----------------------------------------------------------------------------------------------

// c18IsCut: i ends the connection / listener it is called on: Close, CloseRead, CloseWrite, or a deadline
// (SetDeadline, SetReadDeadline, SetWriteDeadline) that is not derived from the deadline of a context - the pending
// Read / Write of the tunnel fails when it passes, which for "now" or a short grace is at once. Returns the receiver.
func c18IsCut(i ssa.Instruction) (ssa.Value, bool) {
	if recv, ok := c18IsClose(i); ok {
		return recv, true
	}
	cc := callCommon(i)
	if cc == nil {
		return nil, false
	}
	name, recv := "", ssa.Value(nil)
	var args []ssa.Value
	if cc.IsInvoke() {
		name, recv, args = cc.Method.Name(), cc.Value, cc.Args
	} else if sc := cc.StaticCallee(); sc != nil && sc.Signature.Recv() != nil && len(cc.Args) > 0 {
		name, recv, args = sc.Name(), cc.Args[0], cc.Args[1:]
	}
	switch name {
	case "CloseRead", "CloseWrite":
		return recv, true
	case "SetDeadline", "SetReadDeadline", "SetWriteDeadline":
		if len(args) == 1 && !c18FromCtxDeadline(args[0]) {
			return recv, true
		}
	}
	return nil, false
}

// c18FromCtxDeadline: v is computed from the result of Deadline() of a context.Context.
func c18FromCtxDeadline(v ssa.Value) bool {
	seen := map[ssa.Value]bool{}
	var from func(v ssa.Value, d int) bool
	from = func(v ssa.Value, d int) bool {
		if v == nil || seen[v] || d > 6 {
			return false
		}
		seen[v] = true
		// (c18Derives: also through a field of the server the deadline was parked in)
		return c18Derives(v, func(x ssa.Value) bool {
			call, ok := x.(*ssa.Call)
			if !ok {
				return false
			}
			if call.Call.IsInvoke() {
				return call.Call.Method.Name() == "Deadline" && c18IsCtx(call.Call.Value.Type())
			}
			name := calleeName(&call.Call)
			switch {
			case name == "time.Until", name == "(time.Time).Sub", name == "(time.Time).Add":
				for _, a := range call.Call.Args {
					if from(a, d+1) {
						return true
					}
				}
			case strings.HasPrefix(name, "(time.Time).") && typeStr(call.Type()) == "time.Time" && len(call.Call.Args) > 0:
				// the same instant in another representation: Round, Truncate, UTC, Local, In
				return from(call.Call.Args[0], d+1)
			}
			return false
		})
	}
	return from(v, 0)
}

// c18CtxWait: i waits for nothing but the end of a context (plain receive from ctx.Done(), a select with that one
// case, or the same on a one-shot timer set to the context's own deadline). A wait on a timer of its own is none.
func c18CtxWait(i ssa.Instruction) bool {
	w, ok := c18WaitOf(i)
	if !ok || !w.Deadline || !w.Single {
		return false
	}
	for _, ch := range w.Chans {
		if !c18CtxEndChan(ch) {
			return false
		}
	}
	return true
}

// c18CtxEndChan: ch becomes ready when a context ends: the Done channel of a context.Context, or a one-shot timer whose
// duration is computed from the context's deadline.
func c18CtxEndChan(ch ssa.Value) bool {
	return derives(ch, func(x ssa.Value) bool {
		call, ok := x.(*ssa.Call)
		if !ok {
			return false
		}
		if call.Call.IsInvoke() {
			return call.Call.Method.Name() == "Done" && c18IsCtx(call.Call.Value.Type())
		}
		switch calleeName(&call.Call) {
		case "time.After", "time.NewTimer":
			return len(call.Call.Args) == 1 && c18FromCtxDeadline(call.Call.Args[0])
		}
		return false
	})
}

// c18CtxCases: the first instructions of the select cases (of function f) that are chosen when a context ended, in
// selects that have other cases too: what follows them runs after the end of the context like what follows a plain
// <-ctx.Done().
func c18CtxCases(f *ssa.Function) map[ssa.Instruction]bool {
	out := map[ssa.Instruction]bool{}
	eachInstr(f, func(i ssa.Instruction) {
		sel, ok := i.(*ssa.Select)
		if !ok {
			return
		}
		for k, st := range sel.States {
			if st.Dir != types.RecvOnly || !c18CtxEndChan(st.Chan) {
				continue
			}
			if start := c18SelectCase(sel, k); start != nil && len(start.Block().Preds) == 1 {
				out[start] = true
			}
		}
	})
	return out
}

// c18GoCuts: the goroutine started by g executes an instruction satisfying pred (directly or in what it calls) that
// is not preceded, inside the goroutine, by a wait for the end of a context on every path (a plain wait, or the case
// of a select that the end of the context chooses).
func c18GoCuts(g *ssa.Go, pred func(ssa.Instruction) bool) bool {
	cuts := false
	for _, t := range c18Targets(&g.Call) {
		ctxCase := c18CtxCases(t)
		waited := liftMust(c18CtxWait, 1)
		after := func(i ssa.Instruction) bool { return ctxCase[i] || waited(i) }
		eachInstr(t, func(y ssa.Instruction) {
			if !cuts && !ctxCase[y] && c18Lifts(y, pred) && c18EntryReaches(y, after) {
				cuts = true
			}
		})
	}
	return cuts
}

// c18InLoop: i lies in a loop of its function.
func c18InLoop(i ssa.Instruction) bool {
	for _, l := range loopsOf(i.Parent()) {
		if l.Body[i.Block()] {
			return true
		}
	}
	return false
}

// c18CapTimer: ch is the channel of a one-shot timer (time.After, time.NewTimer(..).C) whose duration is not computed
// from the deadline of a context. Tickers are not caps: they pace a poll.
func c18CapTimer(ch ssa.Value) bool {
	return derives(ch, func(x ssa.Value) bool {
		call, ok := x.(*ssa.Call)
		if !ok || call.Call.IsInvoke() || len(call.Call.Args) == 0 {
			return false
		}
		switch calleeName(&call.Call) {
		case "time.After", "time.NewTimer":
			return !c18FromCtxDeadline(call.Call.Args[0])
		}
		return false
	})
}

// c18SelectCase: the first instruction executed when state k of the select was chosen: the true successor of the
// comparison of the select's index result with k.
func c18SelectCase(sel *ssa.Select, k int) ssa.Instruction {
	var out ssa.Instruction
	for _, r := range *sel.Referrers() {
		ex, ok := r.(*ssa.Extract)
		if !ok || ex.Index != 0 {
			continue
		}
		for _, r2 := range *ex.Referrers() {
			cmp, ok := r2.(*ssa.BinOp)
			if !ok || cmp.Op != token.EQL {
				continue
			}
			n, isConst := constInt(cmp.Y)
			if !isConst || int(n) != k {
				continue
			}
			for _, r3 := range *cmp.Referrers() {
				if iff, ok := r3.(*ssa.If); ok && len(iff.Block().Succs) == 2 && len(iff.Block().Succs[0].Instrs) > 0 {
					out = iff.Block().Succs[0].Instrs[0]
				}
			}
		}
	}
	return out
}

// ---- sources of the J2 mutants ---------------------------------------------------------------------------------------

const c18SrcShutdownSlots = c18ShutdownSnapshot + `	var wg sync.WaitGroup
	slots := make(chan struct{}, 8)
	for _, srv := range srvs {
		slots <- struct{}{}
		wg.Add(1)
		go func(srv Server) {
			defer wg.Done()
			defer func() { <-slots }()
			ctx, cancel := context.WithTimeout(context.Background(), timeout)
			defer cancel()
			srv.Shutdown(ctx)
		}(srv)
	}
	wg.Wait()
}
`

const c18SrcShutdownSlotsInside = c18ShutdownSnapshot + `	var wg sync.WaitGroup
	slots := make(chan struct{}, 8)
	for _, srv := range srvs {
		wg.Add(1)
		go func(srv Server) {
			defer wg.Done()
			slots <- struct{}{}
			ctx, cancel := context.WithTimeout(context.Background(), timeout)
			defer cancel()
			srv.Shutdown(ctx)
			<-slots
		}(srv)
	}
	wg.Wait()
}
`

const c18SrcShutdownSlotsHelpers = c18ShutdownSnapshot + `	var wg sync.WaitGroup
	lim := limiter{slots: make(chan struct{}, 8)}
	for _, srv := range srvs {
		lim.enter()
		wg.Add(1)
		go drainOne(&wg, &lim, srv, timeout)
	}
	wg.Wait()
}

type limiter struct{ slots chan struct{} }

func (l *limiter) enter() { l.slots <- struct{}{} }
func (l *limiter) leave() { <-l.slots }

func drainOne(wg *sync.WaitGroup, lim *limiter, srv Server, timeout time.Duration) {
	defer wg.Done()
	defer lim.leave()
	ctx, cancel := context.WithTimeout(context.Background(), timeout)
	defer cancel()
	srv.Shutdown(ctx)
}
`

const c18SrcShutdownSlotsSplit = c18ShutdownSnapshot + `	var wg sync.WaitGroup
	slots := make(chan struct{}, 8)
	for _, srv := range srvs {
		slots <- struct{}{}
		startDrain(&wg, srv, timeout, func() { <-slots })
	}
	wg.Wait()
}

func startDrain(wg *sync.WaitGroup, srv Server, timeout time.Duration, finished func()) {
	wg.Add(1)
	go func() {
		defer wg.Done()
		defer finished()
		ctx, cancel := context.WithTimeout(context.Background(), timeout)
		defer cancel()
		srv.Shutdown(ctx)
	}()
}
`

const c18SrcShutdownStarted = c18ShutdownSnapshot + `	var wg sync.WaitGroup
	started := make(chan struct{})
	for _, srv := range srvs {
		wg.Add(1)
		go func(srv Server) {
			defer wg.Done()
			started <- struct{}{}
			ctx, cancel := context.WithTimeout(context.Background(), timeout)
			defer cancel()
			srv.Shutdown(ctx)
		}(srv)
		<-started
	}
	wg.Wait()
}
`

const c18SrcShutdownTokenPool = c18ShutdownSnapshot + `	var wg sync.WaitGroup
	tokens := make(chan int, 8)
	for i := 0; i < cap(tokens); i++ {
		tokens <- i
	}
	for _, srv := range srvs {
		tok := <-tokens
		wg.Add(1)
		go func(srv Server) {
			defer wg.Done()
			ctx, cancel := context.WithTimeout(context.Background(), timeout)
			defer cancel()
			srv.Shutdown(ctx)
			tokens <- tok
		}(srv)
	}
	wg.Wait()
}
`

const c18SrcShutdownWorkers = c18ShutdownSnapshot + `	var wg sync.WaitGroup
	queue := make(chan Server, len(srvs))
	for _, srv := range srvs {
		queue <- srv
	}
	close(queue)
	for i := 0; i < 8; i++ {
		wg.Add(1)
		go func() {
			defer wg.Done()
			for srv := range queue {
				ctx, cancel := context.WithTimeout(context.Background(), timeout)
				srv.Shutdown(ctx)
				cancel()
			}
		}()
	}
	wg.Wait()
}
`

const c18SrcShutdownErrgroupLimit = c18ShutdownSnapshot + `	var g errgroup.Group
	g.SetLimit(8)
	for _, srv := range srvs {
		g.Go(func() error {
			ctx, cancel := context.WithTimeout(context.Background(), timeout)
			defer cancel()
			return srv.Shutdown(ctx)
		})
	}
	g.Wait()
}
`

const c18SrcShutdownErrgroupNoLimit = c18ShutdownSnapshot + `	var g errgroup.Group
	g.SetLimit(-1)
	for _, srv := range srvs {
		g.Go(func() error {
			ctx, cancel := context.WithTimeout(context.Background(), timeout)
			defer cancel()
			return srv.Shutdown(ctx)
		})
	}
	g.Wait()
}
`

const c18SrcShutdownSemaphore = c18ShutdownSnapshot + `	var wg sync.WaitGroup
	sem := semaphore.NewWeighted(8)
	for _, srv := range srvs {
		sem.Acquire(context.Background(), 1)
		wg.Add(1)
		go func(srv Server) {
			defer wg.Done()
			defer sem.Release(1)
			ctx, cancel := context.WithTimeout(context.Background(), timeout)
			defer cancel()
			srv.Shutdown(ctx)
		}(srv)
	}
	wg.Wait()
}
`

const c18SrcShutdownChain = c18ShutdownSnapshot + `	var wg sync.WaitGroup
	prev := make(chan struct{})
	close(prev)
	for _, srv := range srvs {
		done := make(chan struct{})
		wg.Add(1)
		go func(srv Server, prev, done chan struct{}) {
			defer wg.Done()
			defer close(done)
			<-prev
			ctx, cancel := context.WithTimeout(context.Background(), timeout)
			defer cancel()
			srv.Shutdown(ctx)
		}(srv, prev, done)
		prev = done
	}
	wg.Wait()
}
`

const c18SrcShutdownSlotsSelect = c18ShutdownSnapshot + `	var wg sync.WaitGroup
	slots := make(chan struct{}, 8)
	for _, srv := range srvs {
		wg.Add(1)
		go func(srv Server) {
			defer wg.Done()
			ctx, cancel := context.WithTimeout(context.Background(), timeout)
			defer cancel()
			select {
			case slots <- struct{}{}:
				defer func() { <-slots }()
			case <-ctx.Done():
			}
			srv.Shutdown(ctx)
		}(srv)
	}
	wg.Wait()
}
`

const c18SrcInetAfFanOutSlots = `	errChan := make(chan error, len(tps.children))
	slots := make(chan struct{}, 4)
	for _, sl := range tps.children {
		slots <- struct{}{}
		go func(sl *childProxy) {
			errChan <- sl.s.Shutdown(ctx)
			<-slots
		}(sl)
	}
	for range tps.children {
		err := <-errChan
		if firstErr == nil {
			firstErr = err
		}
		if err != nil {
			log.Print("[ERROR] ", err)
		}
	}
	return firstErr
}
`

const c18SrcShutdownSlotsLen = c18ShutdownSnapshot + `	var wg sync.WaitGroup
	slots := make(chan struct{}, len(srvs))
	for _, srv := range srvs {
		slots <- struct{}{}
		wg.Add(1)
		go func(srv Server) {
			defer wg.Done()
			defer func() { <-slots }()
			ctx, cancel := context.WithTimeout(context.Background(), timeout)
			defer cancel()
			srv.Shutdown(ctx)
		}(srv)
	}
	wg.Wait()
}
`

const c18SrcShutdownSlotsAfter = c18ShutdownSnapshot + `	var wg sync.WaitGroup
	slots := make(chan struct{}, 8)
	for _, srv := range srvs {
		wg.Add(1)
		go func(srv Server) {
			defer wg.Done()
			ctx, cancel := context.WithTimeout(context.Background(), timeout)
			defer cancel()
			err := srv.Shutdown(ctx)
			slots <- struct{}{}
			if err != nil {
				log.Printf("[WARN] shutdown: %s", err)
			}
			<-slots
		}(srv)
	}
	wg.Wait()
}
`

const c18SrcShutdownSlotsTry = c18ShutdownSnapshot + `	var wg sync.WaitGroup
	slots := make(chan struct{}, 8)
	over := 0
	for _, srv := range srvs {
		select {
		case slots <- struct{}{}:
		default:
			over++
		}
		wg.Add(1)
		go func(srv Server) {
			defer wg.Done()
			ctx, cancel := context.WithTimeout(context.Background(), timeout)
			defer cancel()
			srv.Shutdown(ctx)
			select {
			case <-slots:
			default:
			}
		}(srv)
	}
	wg.Wait()
	if over > 0 {
		log.Printf("[INFO] %d servers over the usual number", over)
	}
}
`

const c18SrcShutdownErrChan = c18ShutdownSnapshot + `	var wg sync.WaitGroup
	errs := make(chan error, len(srvs))
	for _, srv := range srvs {
		wg.Add(1)
		go func(srv Server) {
			defer wg.Done()
			ctx, cancel := context.WithTimeout(context.Background(), timeout)
			defer cancel()
			errs <- srv.Shutdown(ctx)
		}(srv)
	}
	wg.Wait()
	close(errs)
	for err := range errs {
		if err != nil {
			log.Printf("[WARN] shutdown: %s", err)
		}
	}
}
`

const c18SrcShutdownHandOver = c18ShutdownSnapshot + `	var wg sync.WaitGroup
	next := make(chan Server)
	for range srvs {
		wg.Add(1)
		go func() {
			defer wg.Done()
			srv := <-next
			ctx, cancel := context.WithTimeout(context.Background(), timeout)
			defer cancel()
			srv.Shutdown(ctx)
		}()
	}
	for _, srv := range srvs {
		next <- srv
	}
	wg.Wait()
}
`

// ---- sources of the O1 mutants ---------------------------------------------------------------------------------------

const c18SrcTCPConnsField = "\tconns     map[net.Conn]bool\n}\n"
const c18SrcTCPConnsFieldSeen = "\tconns     map[net.Conn]bool\n\tquiet     map[net.Conn]bool\n}\n\nfunc (s *Server) isQuiet(c net.Conn) bool { q := s.quiet[c]; s.quiet[c] = true; return q }\n"
const c18SrcTCPConnsFieldConcrete = "\tconns     map[*conn]bool\n}\n"

const c18SrcTCPShutdownPollIdle = `func (s *Server) closeIdleConns() int {
	s.mu.Lock()
	defer s.mu.Unlock()
	if s.quiet == nil {
		s.quiet = map[net.Conn]bool{}
	}
	for c := range s.conns {
		if s.isQuiet(c) {
			c.Close()
			delete(s.conns, c)
		}
	}
	return len(s.conns)
}

func (s *Server) Shutdown(ctx context.Context) error {
	s.closeListeners()
	if ctx == nil {
		return s.closeConns()
	}
	t := time.NewTicker(250 * time.Millisecond)
	defer t.Stop()
	for s.closeIdleConns() > 0 {
		select {
		case <-ctx.Done():
			return s.closeConns()
		case <-t.C:
		}
	}
	return nil
}
`

const c18SrcTCPShutdownReaper = `func (s *Server) reapQuiet(stop chan struct{}) {
	t := time.NewTicker(250 * time.Millisecond)
	defer t.Stop()
	for {
		select {
		case <-stop:
			return
		case <-t.C:
		}
		s.mu.Lock()
		if s.quiet == nil {
			s.quiet = map[net.Conn]bool{}
		}
		for c := range s.conns {
			if s.isQuiet(c) {
				c.Close()
			}
		}
		s.mu.Unlock()
	}
}

func (s *Server) Shutdown(ctx context.Context) error {
	s.closeListeners()
	if ctx != nil {
		stop := make(chan struct{})
		go s.reapQuiet(stop)
		<-ctx.Done()
		close(stop)
	}
	return s.closeConns()
}
`

const c18SrcTCPShutdownDeadlineNow = `func (s *Server) Shutdown(ctx context.Context) error {
	s.closeListeners()
	s.mu.Lock()
	for c := range s.conns {
		c.SetReadDeadline(time.Now())
	}
	s.mu.Unlock()
	if ctx != nil {
		<-ctx.Done()
	}
	return s.closeConns()
}
`

const c18SrcTCPShutdownCtxDeadline = `func (s *Server) Shutdown(ctx context.Context) error {
	s.closeListeners()
	if ctx != nil {
		if d, ok := ctx.Deadline(); ok {
			s.mu.Lock()
			for c := range s.conns {
				c.SetDeadline(d)
			}
			s.mu.Unlock()
		}
		<-ctx.Done()
	}
	return s.closeConns()
}
`

const c18SrcTCPShutdownCapped = `func (s *Server) Shutdown(ctx context.Context) error {
	s.closeListeners()
	if ctx != nil {
		select {
		case <-ctx.Done():
		case <-time.After(5 * time.Second):
		}
	}
	return s.closeConns()
}
`

const c18SrcTCPShutdownCappedHelper = `func waitAtMost(ctx context.Context, d time.Duration) {
	t := time.NewTimer(d)
	defer t.Stop()
	select {
	case <-ctx.Done():
	case <-t.C:
	}
}

func (s *Server) Shutdown(ctx context.Context) error {
	s.closeListeners()
	if ctx != nil {
		waitAtMost(ctx, 5*time.Second)
	}
	return s.closeConns()
}
`

const c18SrcTCPShutdownPollInner = `func (s *Server) Shutdown(ctx context.Context) error {
	s.closeListeners()
	if ctx == nil {
		return s.closeConns()
	}
	t := time.NewTicker(250 * time.Millisecond)
	defer t.Stop()
	for {
		s.mu.Lock()
		for c := range s.conns {
			c.c.Close()
		}
		n := len(s.conns)
		s.mu.Unlock()
		if n == 0 {
			return nil
		}
		select {
		case <-ctx.Done():
			return s.closeConns()
		case <-t.C:
		}
	}
}
`

const c18SrcTCPShutdownPollCount = `func (s *Server) numConns() int {
	s.mu.Lock()
	defer s.mu.Unlock()
	return len(s.conns)
}

func (s *Server) Shutdown(ctx context.Context) error {
	s.closeListeners()
	if ctx == nil {
		return s.closeConns()
	}
	t := time.NewTicker(250 * time.Millisecond)
	defer t.Stop()
	for s.numConns() > 0 {
		select {
		case <-ctx.Done():
			return s.closeConns()
		case <-t.C:
		}
	}
	return nil
}
`

const c18SrcTCPShutdownOwnDeadlineTimer = `func (s *Server) Shutdown(ctx context.Context) error {
	s.closeListeners()
	if ctx != nil {
		if d, ok := ctx.Deadline(); ok {
			select {
			case <-ctx.Done():
			case <-time.After(time.Until(d)):
			}
		} else {
			<-ctx.Done()
		}
	}
	return s.closeConns()
}
`

const c18SrcTCPShutdownPollAfter = `func (s *Server) numConns() int {
	s.mu.Lock()
	defer s.mu.Unlock()
	return len(s.conns)
}

func (s *Server) Shutdown(ctx context.Context) error {
	s.closeListeners()
	for ctx != nil && s.numConns() > 0 {
		select {
		case <-ctx.Done():
			return s.closeConns()
		case <-time.After(250 * time.Millisecond):
		}
	}
	return s.closeConns()
}
`

const c18SrcTCPShutdownPollHelper = `func (s *Server) numConns() int {
	s.mu.Lock()
	defer s.mu.Unlock()
	return len(s.conns)
}

// drained waits until no connection is left; it reports false when ctx ended first.
func (s *Server) drained(ctx context.Context) bool {
	t := time.NewTicker(250 * time.Millisecond)
	defer t.Stop()
	for s.numConns() > 0 {
		select {
		case <-ctx.Done():
			return false
		case <-t.C:
		}
	}
	return true
}

func (s *Server) Shutdown(ctx context.Context) error {
	s.closeListeners()
	if ctx != nil && s.drained(ctx) {
		return nil
	}
	return s.closeConns()
}
`

const c18SrcTCPShutdownCloserGoroutine = `func (s *Server) Shutdown(ctx context.Context) error {
	s.closeListeners()
	if ctx != nil {
		// watchdog: the connections are closed at the deadline even if this goroutine is descheduled
		go func() {
			<-ctx.Done()
			s.closeConns()
		}()
		<-ctx.Done()
	}
	return s.closeConns()
}
`

const c18SrcTCPShutdownStatsGoroutine = `func (s *Server) logOpen(stop chan struct{}) {
	t := time.NewTicker(time.Second)
	defer t.Stop()
	for {
		select {
		case <-stop:
			return
		case <-t.C:
		}
		s.mu.Lock()
		for c := range s.conns {
			println("open tunnel", c.RemoteAddr().String())
		}
		s.mu.Unlock()
	}
}

func (s *Server) Shutdown(ctx context.Context) error {
	s.closeListeners()
	if ctx != nil {
		stop := make(chan struct{})
		go s.logOpen(stop)
		<-ctx.Done()
		close(stop)
	}
	return s.closeConns()
}
`
