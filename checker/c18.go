package main

import (
	"go/token"
	"go/types"
	"os"
	"strings"

	"golang.org/x/tools/go/ssa"
)

func init() {
	p := &propDef{
		ID:      "C18",
		Level:   "other",
		Explain: "Structural necessary conditions of bounded, draining shutdown, decided per implementation / per path; sites are found by ROLE inside REGIONS (an entry plus the helpers, closures and methods it runs), not by the name of the function that happens to contain them. (D1) every repo implementation of proxy.Server.Shutdown(ctx) lets its ctx reach something that can bound it (a receive/select on ctx.Done(), or a call that is handed the context - repository callees are looked into, logging does not count); it runs no unbounded blocking primitive (grpc GracefulStop, WaitGroup.Wait of a long-lived WaitGroup, Cond.Wait) synchronously - called, deferred or inside a helper; the join of a local WaitGroup whose goroutines are themselves bounded is not such a wait - and it does not wait unconditionally (receive or select without a ctx.Done()/deadline case) on a channel that is signalled only after such a primitive returned in a goroutine, unless a forced stop (grpc Stop) precedes the wait; (D2) every Server.Shutdown invocation in the region of proxy.Shutdown receives a context from WithTimeout/WithDeadline(Background, <derived from the time.Duration parameter of proxy.Shutdown or from cfg.Proxy.ShutdownWait itself; values are followed through struct fields>), no cancel function created outside is handed (captured or passed) to the per-server goroutines, and every caller passes cfg.Proxy.ShutdownWait; (J1) for the go statement(s) whose goroutine performs the server Shutdown: wg.Add precedes it in the same iteration (or once with a computed count; in the function of the go or before every call of the helper containing it), Done runs on every way out of the goroutine, Wait follows on every path to return (possibly after the call of the helper) and no loop contains both the start of a server shutdown and the Wait, and no mutex is held where the Wait (or a helper that waits) is executed; a join over a channel is accepted when the region uses no WaitGroup; work handed to errgroup.Group.Go / WaitGroup.Go counts as a started goroutine whose Add/Done the group does; a go statement inside a per-server goroutine that hands the server's Shutdown on is not joined by the WaitGroup: the goroutine that starts it must, on every path, wait on a channel the inner goroutine always signals, with at most the end of a context as the alternative; (L1) every Lock in packages proxy and proxy/tcp is released on every path to every return (Unlock called, deferred, in a deferred closure or in a helper; a pure acquire helper is judged at its call sites; mutexes are identified by the type/variable that holds them); (O1) in tcp.Server.Shutdown and what it runs synchronously - helpers, deferred calls, a callback parameter resolved to what Shutdown passes on that path, a method behind a small interface whose concrete type is visible, a function kept in a struct field - the elements of the collections of net.Listener are closed on every path before the wait on ctx.Done(), no element of the collections of net.Conn is closed before it - or ended in another way: CloseRead / CloseWrite, a deadline that is not computed from the context's own, also by a goroutine started there that does not first wait for the end of a context (a plain wait on ctx.Done() or on a timer set to the context's deadline, or the select case chosen by it; a deadline derived from the context's own may pass through time.Time methods, helpers and a field it was parked in) - and they are closed on every path after it; outside a loop, the select that waits has no case of a one-shot timer of its own (time.After / time.NewTimer with a duration not taken from ctx.Deadline) from which the closing of the connections is reached without waiting for the end of the context again (collections are the struct fields of package proxy/tcp of such a collection type, in the server or in a small type it delegates to; each fact is decided in the function that holds the wait, otherwise at its call site one frame up, and so on up to Shutdown); (R1) the registry of running servers (a map of Server, or of a small record holding a Server, in package proxy, variable or field) is written only under a lock, every Serve call on a server in package proxy outside the Serve methods of composite servers is preceded on every path by a registration (in the function, in a helper, or before every call site), and every ListenAndServe* reaches such a call; (E1) the function handed to exit.Listen deregisters, sleeps the grace period (or skips it on a branch decided by the grace period itself), then calls proxy.Shutdown, in that order - each step directly or in a helper / local closure; (R3) proxy.Shutdown empties the registry inside the critical section that reads it (same lock hold, possibly in helpers called under it); (X1) package exit does not release its signal registration (signal.Stop/Reset/Ignore, directly or in a helper, not deferred) on a path that reaches the exit-handler call without a new signal.Notify. Not decided: wall-clock bounds (timing).",
		Run:     runC18,
		Trusted: []string{"net/http.Server.Shutdown honours its context", "context.WithTimeout cancels after the timeout", "grpc.Server.Stop forcibly closes open streams"},
		Mutants: []mutant{
			{Name: "draining servers stay registered", File: "proxy/serve.go", Old: "\t\tsrvs[k] = v\n\t}\n\tservers = make(map[string]Server)\n\tmu.Unlock()\n", New: "\t\tsrvs[k] = v\n\t}\n\tmu.Unlock()\n", Expect: "C18.R3"},
			{Name: "benign: registry emptied by delete in the snapshot loop", File: "proxy/serve.go", Old: "\t\tsrvs[k] = v\n\t}\n\tservers = make(map[string]Server)\n\tmu.Unlock()\n", New: "\t\tsrvs[k] = v\n\t\tdelete(servers, k)\n\t}\n\tmu.Unlock()\n", Expect: ""},
			{Name: "signal registration released before the exit handler", File: "exit/listen.go", Old: "\t\t\tif fn != nil {\n\t\t\t\tfn(sig)\n\t\t\t}\n", New: "\t\t\tsignal.Stop(sigchan)\n\t\t\tif fn != nil {\n\t\t\t\tfn(sig)\n\t\t\t}\n", Expect: "C18.X1"},
			{Name: "benign: signal registration released after the exit handler", File: "exit/listen.go", Old: "\t\t\tif fn != nil {\n\t\t\t\tfn(sig)\n\t\t\t}\n", New: "\t\t\tif fn != nil {\n\t\t\t\tfn(sig)\n\t\t\t}\n\t\t\tsignal.Stop(sigchan)\n", Expect: ""},

			{Name: "gRPC shutdown ignores ctx again", File: "proxy/grpc_handler.go", Old: "\tdone := make(chan struct{})\n\tgo func() {\n\t\ts.server.GracefulStop()\n\t\tclose(done)\n\t}()\n\tselect {\n\tcase <-done:\n\tcase <-ctx.Done():\n\t\ts.server.Stop()\n\t}\n\treturn nil", New: "\ts.server.GracefulStop()\n\treturn nil", Expect: "C18.D1"},
			{Name: "GracefulStop synchronously, ctx only looked at afterwards", File: "proxy/grpc_handler.go", Old: "\tdone := make(chan struct{})\n\tgo func() {\n\t\ts.server.GracefulStop()\n\t\tclose(done)\n\t}()\n\tselect {", New: "\tdone := make(chan struct{})\n\ts.server.GracefulStop()\n\tclose(done)\n\tselect {", Expect: "C18.D1"},
			{Name: "return before Unlock in CloseProxy", File: "proxy/serve.go", Old: "\tmu.Lock()\n\tdefer mu.Unlock()\n\tif srv, ok := servers[address]; ok {", New: "\tmu.Lock()\n\tif srv, ok := servers[address]; ok {", Expect: "C18.L1"},
			{Name: "wait before closing listeners", File: "proxy/tcp/server.go", Old: "\ts.closeListeners()\n\tif ctx != nil {\n\t\t<-ctx.Done()\n\t}\n\treturn s.closeConns()", New: "\tif ctx != nil {\n\t\t<-ctx.Done()\n\t}\n\ts.closeListeners()\n\treturn s.closeConns()", Expect: "C18.O1"},
			{Name: "connections closed before the wait", File: "proxy/tcp/server.go", Old: "\ts.closeListeners()\n\tif ctx != nil {\n\t\t<-ctx.Done()\n\t}\n\treturn s.closeConns()", New: "\ts.closeListeners()\n\ts.closeConns()\n\tif ctx != nil {\n\t\t<-ctx.Done()\n\t}\n\treturn nil", Expect: "C18.O1"},
			{Name: "srv.Serve called directly in ListenAndServeTCP", File: "proxy/serve.go", Old: "\t\tReadTimeout:  l.ReadTimeout,\n\t\tWriteTimeout: l.WriteTimeout,\n\t}\n\treturn serve(ln, srv)\n}\n\nfunc serve(", New: "\t\tReadTimeout:  l.ReadTimeout,\n\t\tWriteTimeout: l.WriteTimeout,\n\t}\n\treturn srv.Serve(ln)\n}\n\nfunc serve(", Expect: "C18.R1"},
			{Name: "Shutdown before DeregisterAll", File: "main.go", Old: "\t\tif registry.Default != nil {\n\t\t\tregistry.Default.DeregisterAll()\n\t\t}\n\t\ttime.Sleep(cfg.Proxy.DeregisterGracePeriod)\n\t\tproxy.Shutdown(cfg.Proxy.ShutdownWait)", New: "\t\tproxy.Shutdown(cfg.Proxy.ShutdownWait)\n\t\tif registry.Default != nil {\n\t\t\tregistry.Default.DeregisterAll()\n\t\t}\n\t\ttime.Sleep(cfg.Proxy.DeregisterGracePeriod)", Expect: "C18.E1"},
			{Name: "wg.Wait inside the loop body", File: "proxy/serve.go", Old: "\t\t}(srv)\n\t}\n\twg.Wait()\n}", New: "\t\t}(srv)\n\t\twg.Wait()\n\t}\n}", Expect: "C18.J1"},
			{Name: "no wg.Add", File: "proxy/serve.go", Old: "\t\twg.Add(1)\n\t\tgo func(srv Server) {\n\t\t\tdefer wg.Done()\n\t\t\tctx, cancel := context.WithTimeout", New: "\t\tgo func(srv Server) {\n\t\t\tdefer wg.Done()\n\t\t\tctx, cancel := context.WithTimeout", Expect: "C18.J1"},
			{Name: "per-server timeout is a constant", File: "proxy/serve.go", Old: "context.WithTimeout(context.Background(), timeout)\n\t\t\tdefer cancel()\n\t\t\tsrv.Shutdown(ctx)", New: "context.WithTimeout(context.Background(), time.Hour)\n\t\t\tdefer cancel()\n\t\t\tsrv.Shutdown(ctx)", Expect: "C18.D2"},
			{Name: "main passes the grace period as wait", File: "main.go", Old: "proxy.Shutdown(cfg.Proxy.ShutdownWait)", New: "proxy.Shutdown(cfg.Proxy.DeregisterGracePeriod)", Expect: "C18.D2"},
			{Name: "waiting while holding the registry lock", File: "proxy/serve.go", Old: "\tservers = make(map[string]Server)\n\tmu.Unlock()\n\n\tvar wg sync.WaitGroup", New: "\tservers = make(map[string]Server)\n\tdefer mu.Unlock()\n\n\tvar wg sync.WaitGroup", Expect: "C18.J1"},
			{Name: "benign: WithDeadline instead of WithTimeout", File: "proxy/serve.go", Old: "context.WithTimeout(context.Background(), timeout)\n\t\t\tdefer cancel()\n\t\t\tsrv.Shutdown(ctx)", New: "context.WithDeadline(context.Background(), time.Now().Add(timeout))\n\t\t\tdefer cancel()\n\t\t\tsrv.Shutdown(ctx)", Expect: ""},

			// ---- behaviour-preserving rewrites of kinds the benign corpus does not contain: all must stay silent
			{Name: "benign: fan-out in a helper, goroutine is a named function, Add(len) once, registry swapped without copy loop, parent ctx in a local", File: "proxy/serve.go", Old: c18SrcShutdown, New: c18SrcShutdownSplit, Expect: ""},
			{Name: "benign: explicit Done/cancel at the end of the goroutine, clear(registry), new(WaitGroup), wait in a local", File: "proxy/serve.go", Old: c18SrcShutdown, New: c18SrcShutdownExplicitDone, Expect: ""},
			{Name: "benign: snapshot and reset in two helpers called under one lock hold", File: "proxy/serve.go", Old: c18SrcShutdown, New: c18SrcShutdownHelpersUnderLock, Expect: ""},
			{Name: "benign: registry and its mutex wrapped into a small type with methods", File: "proxy/serve.go", Old: c18SrcRegistryBlock, New: c18SrcRegistryWrapped, More: []repl{{c18SrcServeHead, c18SrcServeHeadWrapped}}, Expect: ""},
			{Name: "benign: serve renamed, registration in a helper with deferred unlock", File: "proxy/serve.go", Old: "return serve(", New: "return run(", All: true, More: []repl{{c18SrcServeHead, c18SrcServeHeadRegisterHelper}}, Expect: ""},
			{Name: "benign: registry variable renamed", File: "proxy/serve.go", Old: "servers", New: "live", All: true, Expect: ""},
			{Name: "benign: ListenAndServeHTTP reaches serve through a helper", File: "proxy/serve.go", Old: "\t\tTLSConfig:    cfg,\n\t}\n\treturn serve(ln, srv)\n}\n\nfunc ListenAndServePrometheus(", New: "\t\tTLSConfig:    cfg,\n\t}\n\treturn serveHTTP(ln, srv)\n}\n\nfunc serveHTTP(ln net.Listener, srv *http.Server) error {\n\treturn serve(ln, srv)\n}\n\nfunc ListenAndServePrometheus(", Expect: ""},
			{Name: "benign: unlock in a deferred closure", File: "proxy/serve.go", Old: "\tmu.Lock()\n\tdefer mu.Unlock()\n\tif srv, ok := servers[address]; ok {", New: "\tmu.Lock()\n\tdefer func() {\n\t\tmu.Unlock()\n\t}()\n\tif srv, ok := servers[address]; ok {", Expect: ""},
			{Name: "benign: gRPC Shutdown delegates to an unexported method, goroutine is a method, race in a helper", File: "proxy/grpc_handler.go", Old: c18SrcGrpcShutdown, New: c18SrcGrpcShutdownDelegated, Expect: ""},
			{Name: "benign: completion of GracefulStop awaited after the forced Stop", File: "proxy/grpc_handler.go", Old: c18SrcGrpcShutdown, New: c18SrcGrpcShutdownAwaitAfterStop, Expect: ""},
			{Name: "benign: tcp listeners field renamed, closeListeners inlined, select on Done, branch turned around", File: "proxy/tcp/server.go", Old: "s.listeners", New: "s.lns", All: true, More: []repl{{"\tlisteners []net.Listener\n", "\tlns       []net.Listener\n"}, {c18SrcTCPShutdown, c18SrcTCPShutdownInlined}}, Expect: ""},
			{Name: "benign: tcp wait in a helper, one Close call after it", File: "proxy/tcp/server.go", Old: c18SrcTCPShutdown, New: c18SrcTCPShutdownWaitHelper, Expect: ""},
			{Name: "benign: tcp conns field renamed", File: "proxy/tcp/server.go", Old: "s.conns", New: "s.open", All: true, More: []repl{{"\tconns     map[net.Conn]bool\n", "\topen      map[net.Conn]bool\n"}}, Expect: ""},
			{Name: "benign: lock/unlock wrapper methods", File: "proxy/tcp/server.go", Old: c18SrcTCPCloseConns, New: c18SrcTCPCloseConnsWrappers, Expect: ""},
			{Name: "benign: exit handler steps in a local closure, guard around the sleep, durations in locals", File: "main.go", Old: c18SrcExitHandler, New: c18SrcExitHandlerLocalClosure, Expect: ""},
			{Name: "benign: deferred signal.Stop", File: "exit/listen.go", Old: "syscall.SIGTERM, syscall.SIGHUP)\n", New: "syscall.SIGTERM, syscall.SIGHUP)\n\t\t\tdefer signal.Stop(sigchan)\n", Expect: ""},
			{Name: "benign: exit handler call in a helper", File: "exit/listen.go", Old: c18SrcExitCall, New: c18SrcExitCallHelper, Expect: ""},
			{Name: "benign: registration released on SIGHUP and taken again by the next iteration", File: "exit/listen.go", Old: "\t\t\t\t\tlog.Print(\"[INFO] Caught SIGHUP. Ignoring\")\n\t\t\t\t\tcontinue\n", New: "\t\t\t\t\tlog.Print(\"[INFO] Caught SIGHUP. Ignoring\")\n\t\t\t\t\tsignal.Stop(sigchan)\n\t\t\t\t\tcontinue\n", Expect: ""},

			{Name: "benign: composite server joins its children with a local WaitGroup", File: "proxy/inetaf_tcpproxy.go", Old: c18SrcInetAfFanOut, New: c18SrcInetAfFanOutWaitGroup, More: []repl{{"\t\"net/http\"\n", "\t\"net/http\"\n\t\"sync\"\n"}}, Expect: ""},
			{Name: "benign: proxy.Shutdown joins over a channel", File: "proxy/serve.go", Old: c18SrcShutdown, New: c18SrcShutdownChanJoin, Expect: ""},
			{Name: "benign: tcp connections tracked in a small wrapper type", File: "proxy/tcp/server.go", Old: "s.conns", New: "s.conns.m", All: true, More: []repl{{"\tconns     map[net.Conn]bool\n}\n", "\tconns     connSet\n}\n\ntype connSet struct{ m map[net.Conn]bool }\n"}}, Expect: ""},
			{Name: "benign: serve inlined into ListenAndServeTCP", File: "proxy/serve.go", Old: "\t\tWriteTimeout: l.WriteTimeout,\n\t}\n\treturn serve(ln, srv)\n}\n\nfunc serve(", New: "\t\tWriteTimeout: l.WriteTimeout,\n\t}\n\tmu.Lock()\n\tservers[ln.Addr().String()] = srv\n\tmu.Unlock()\n\treturn srv.Serve(ln)\n}\n\nfunc serve(", Expect: ""},
			{Name: "local WaitGroup join of a goroutine that runs GracefulStop", File: "proxy/grpc_handler.go", Old: c18SrcGrpcShutdown, New: c18SrcGrpcShutdownLocalJoin, Expect: "C18.D1"},
			{Name: "channel join received inside the fan-out loop", File: "proxy/serve.go", Old: c18SrcShutdown, New: c18SrcShutdownChanJoinSerial, Expect: "C18.J1"},

			{Name: "benign: closure turned into methods of a small struct carrying WaitGroup and wait; context from a helper", File: "proxy/serve.go", Old: c18SrcShutdown, New: c18SrcShutdownDrainer, Expect: ""},
			{Name: "struct shape: nobody waits", File: "proxy/serve.go", Old: c18SrcShutdown, New: c18SrcShutdownDrainerNoWait, Expect: "C18.J1"},
			{Name: "benign: tcp connections tracked by their concrete type", File: "proxy/tcp/server.go", Old: "\t\tc, err := l.Accept()\n\t\tif err != nil {\n\t\t\treturn err\n\t\t}\n\t\tc = &conn{\n\t\t\tc:            c,", New: "\t\traw, err := l.Accept()\n\t\tif err != nil {\n\t\t\treturn err\n\t\t}\n\t\tc := &conn{\n\t\t\tc:            raw,", More: []repl{{"conns     map[net.Conn]bool", "conns     map[*conn]bool"}, {"s.conns = map[net.Conn]bool{}", "s.conns = map[*conn]bool{}"}}, Expect: ""},
			// ---- breaks written in the refactored shapes: the rewritten rules must still see them
			{Name: "split shape: per-server timeout is a constant", File: "proxy/serve.go", Old: c18SrcShutdown, New: c18SrcShutdownSplitConstTimeout, Expect: "C18.D2"},
			{Name: "split shape: cancel of a shared context passed to the per-server goroutines", File: "proxy/serve.go", Old: c18SrcShutdown, New: c18SrcShutdownSplitSharedCancel, Expect: "C18.D2"},
			{Name: "split shape: Done not on every path of the goroutine", File: "proxy/serve.go", Old: c18SrcShutdown, New: c18SrcShutdownSplitNoDone, Expect: "C18.J1"},
			{Name: "split shape: Wait inside the loop", File: "proxy/serve.go", Old: c18SrcShutdown, New: c18SrcShutdownSplitWaitInLoop, Expect: "C18.J1"},
			{Name: "split shape: a return that skips Wait", File: "proxy/serve.go", Old: c18SrcShutdown, New: c18SrcShutdownSplitNoWait, Expect: "C18.J1"},
			{Name: "split shape: Add after go", File: "proxy/serve.go", Old: c18SrcShutdown, New: c18SrcShutdownSplitAddAfterGo, Expect: "C18.J1"},
			{Name: "split shape: helper that waits is called with the registry lock held", File: "proxy/serve.go", Old: c18SrcShutdown, New: c18SrcShutdownSplitLockHeld, Expect: "C18.J1"},
			{Name: "registry snapshotted and emptied in two critical sections", File: "proxy/serve.go", Old: c18SrcShutdown, New: c18SrcShutdownTwoSections, Expect: "C18.R3"},
			{Name: "registry emptied after the lock was released and retaken", File: "proxy/serve.go", Old: "\tservers = make(map[string]Server)\n\tmu.Unlock()\n\n\tvar wg sync.WaitGroup", New: "\tmu.Unlock()\n\tmu.Lock()\n\tservers = make(map[string]Server)\n\tmu.Unlock()\n\n\tvar wg sync.WaitGroup", Expect: "C18.R3"},
			{Name: "server registered only after Serve returned", File: "proxy/serve.go", Old: c18SrcServeHead, New: c18SrcServeHeadRegisterAfter, Expect: "C18.R1"},
			{Name: "registration helper without the lock", File: "proxy/serve.go", Old: c18SrcServeHead, New: c18SrcServeHeadRegisterUnlocked, Expect: "C18.R1"},
			{Name: "only http servers are registered", File: "proxy/serve.go", Old: c18SrcServeHead, New: c18SrcServeHeadRegisterSometimes, Expect: "C18.R1"},
			{Name: "gRPC server served through the interface without serve()", File: "proxy/serve.go", Old: "\t\tserver: grpc.NewServer(opts...),\n\t}\n\n\treturn serve(ln, srv)", New: "\t\tserver: grpc.NewServer(opts...),\n\t}\n\n\tvar s Server = srv\n\treturn s.Serve(ln)", Expect: "C18.R1"},
			{Name: "GracefulStop deferred (runs synchronously at return)", File: "proxy/grpc_handler.go", Old: c18SrcGrpcShutdown, New: c18SrcGrpcShutdownDeferredGraceful, Expect: "C18.D1"},
			{Name: "ctx only handed to a helper that logs it", File: "proxy/grpc_handler.go", Old: c18SrcGrpcShutdown, New: c18SrcGrpcShutdownCtxOnlyLogged, Expect: "C18.D1"},
			{Name: "GracefulStop in a goroutine but its completion awaited unconditionally", File: "proxy/grpc_handler.go", Old: c18SrcGrpcShutdown, New: c18SrcGrpcShutdownAwaitUnbounded, Expect: "C18.D1"},
			{Name: "inlined shape: listeners closed after the wait", File: "proxy/tcp/server.go", Old: "s.listeners", New: "s.lns", All: true, More: []repl{{"\tlisteners []net.Listener\n", "\tlns       []net.Listener\n"}, {c18SrcTCPShutdown, c18SrcTCPShutdownInlinedLate}}, Expect: "C18.O1"},
			{Name: "a path after the wait leaves the connections open", File: "proxy/tcp/server.go", Old: c18SrcTCPShutdown, New: c18SrcTCPShutdownConnsLeftOpen, Expect: "C18.O1"},
			{Name: "lock wrapper: a return between lock() and unlock()", File: "proxy/tcp/server.go", Old: c18SrcTCPCloseConns, New: c18SrcTCPCloseConnsWrappersLeak, Expect: "C18.L1"},
			{Name: "local-closure shape: deregistration and grace period after proxy.Shutdown", File: "main.go", Old: c18SrcExitHandler, New: c18SrcExitHandlerLocalClosureLate, Expect: "C18.E1"},
			{Name: "grace sleep skipped for SIGINT", File: "main.go", Old: c18SrcExitHandler, New: c18SrcExitHandlerSleepOnlyOnTerm, Expect: "C18.E1"},
			{Name: "helper shape: signal.Reset inside the helper that calls the handler", File: "exit/listen.go", Old: c18SrcExitCall, New: c18SrcExitCallHelperReset, Expect: "C18.X1"},
			{Name: "helper shape: registration released by a helper before the handler", File: "exit/listen.go", Old: c18SrcExitCall, New: c18SrcExitCallReleaseHelper, Expect: "C18.X1"},

			// ---- hardening round 2: a step handed around as a value (callback, small interface, function in a struct
			// field), bookkeeping in a small type, fan-out helpers taking closures, deferred steps, copied durations
			{Name: "benign: tcp close helpers inlined into one method, the wait forwarded as a callback through a second helper", File: "proxy/tcp/server.go", Old: c18SrcTCPStopBlock, New: c18SrcTCPStopCallbackForwarded, Expect: ""},
			{Name: "callback shape: wait called before the listeners are closed", File: "proxy/tcp/server.go", Old: c18SrcTCPStopBlock, New: c18SrcTCPStopCallbackWaitFirst, Expect: "C18.O1"},
			{Name: "callback shape: connections closed before the wait callback", File: "proxy/tcp/server.go", Old: c18SrcTCPStopBlock, New: c18SrcTCPStopCallbackConnsFirst, Expect: "C18.O1"},
			{Name: "callback shape: Shutdown passes a no-op like Close", File: "proxy/tcp/server.go", Old: c18SrcTCPStopBlock, New: c18SrcTCPStopCallbackNothingPassed, Expect: "C18.D1"},
			{Name: "benign: tcp wait behind a small interface (noWait / untilDone{ctx})", File: "proxy/tcp/server.go", Old: c18SrcTCPStopBlock, New: c18SrcTCPStopIface, Expect: ""},
			{Name: "interface shape: connections closed before w.wait()", File: "proxy/tcp/server.go", Old: c18SrcTCPStopBlock, New: c18SrcTCPStopIfaceConnsFirst, Expect: "C18.O1"},
			{Name: "interface shape: listeners closed after w.wait()", File: "proxy/tcp/server.go", Old: c18SrcTCPStopBlock, New: c18SrcTCPStopIfaceListenersLate, Expect: "C18.O1"},
			{Name: "benign: tcp stop sequence run by a small struct, the pause kept in a func field", File: "proxy/tcp/server.go", Old: c18SrcTCPCloseShutdown, New: c18SrcTCPStopper, Expect: ""},
			{Name: "stopper shape: connections closed before the pause", File: "proxy/tcp/server.go", Old: c18SrcTCPCloseShutdown, New: c18SrcTCPStopperConnsFirst, Expect: "C18.O1"},
			{Name: "benign: tcp listeners/conns/mutex in an embedded tracker type with the close methods, conns closed from a snapshot", File: "proxy/tcp/server.go", Old: c18SrcTCPServerFields, New: c18SrcTCPServerFieldsTracker, More: []repl{{c18SrcTCPCloseHelpers, c18SrcTCPCloseHelpersTracker}}, Expect: ""},
			{Name: "tracker shape: wait before closing listeners", File: "proxy/tcp/server.go", Old: c18SrcTCPServerFields, New: c18SrcTCPServerFieldsTracker, More: []repl{{c18SrcTCPCloseHelpers, c18SrcTCPCloseHelpersTracker}, {c18SrcTCPShutdown, c18SrcTCPShutdownWaitFirst}}, Expect: "C18.O1"},
			{Name: "benign: tcp closeConns deferred", File: "proxy/tcp/server.go", Old: c18SrcTCPShutdown, New: c18SrcTCPShutdownDeferConns, Expect: ""},
			{Name: "closeListeners deferred: runs after the wait", File: "proxy/tcp/server.go", Old: c18SrcTCPShutdown, New: c18SrcTCPShutdownDeferListeners, Expect: "C18.O1"},
			{Name: "benign: proxy.Shutdown through a fan-out helper that takes the per-server work as a closure", File: "proxy/serve.go", Old: c18SrcShutdown, New: c18SrcShutdownFanOutHelper, Expect: ""},
			{Name: "fan-out helper shape: the helper does not wait", File: "proxy/serve.go", Old: c18SrcShutdown, New: c18SrcShutdownFanOutHelperNoWait, Expect: "C18.J1"},
			{Name: "fan-out helper shape: the helper runs the servers one after the other", File: "proxy/serve.go", Old: c18SrcShutdown, New: c18SrcShutdownFanOutHelperSerial, Expect: "C18.J1"},
			{Name: "fan-out helper shape: per-server timeout is a constant", File: "proxy/serve.go", Old: c18SrcShutdown, New: c18SrcShutdownFanOutHelperConst, Expect: "C18.D2"},
			{Name: "server drained by a helper that CloseProxy calls with the registry lock held", File: "proxy/serve.go", Old: c18SrcCloseProxyClose, New: c18SrcCloseProxyDrainHelper, More: []repl{{"func Close() {", c18SrcDrainOneHelper}}, Expect: "C18.L2"},
			{Name: "benign: gRPC graceful/forced stop handed to a helper as method values", File: "proxy/grpc_handler.go", Old: c18SrcGrpcShutdown, New: c18SrcGrpcShutdownCallbacks, Expect: ""},
			{Name: "method-value shape: graceful() called synchronously", File: "proxy/grpc_handler.go", Old: c18SrcGrpcShutdown, New: c18SrcGrpcShutdownCallbacksSync, Expect: "C18.D1"},
			{Name: "method-value shape: completion awaited unconditionally after the race", File: "proxy/grpc_handler.go", Old: c18SrcGrpcShutdown, New: c18SrcGrpcShutdownCallbacksAwait, Expect: "C18.D1"},
			{Name: "benign: exit handler as a type, durations copied into its fields, method value registered", File: "main.go", Old: c18SrcExitHandlerFull, New: c18SrcExitHandlerStruct, More: []repl{{c18SrcMainTypeAnchor, c18SrcExitHandlerTypeDecl}}, Expect: ""},
			{Name: "handler type shape: the two durations swapped when the handler is built", File: "main.go", Old: c18SrcExitHandlerFull, New: c18SrcExitHandlerStructSwapped, More: []repl{{c18SrcMainTypeAnchor, c18SrcExitHandlerTypeDecl}}, Expect: "C18.D2"},
			{Name: "handler type shape: proxy.Shutdown before deregistration and grace period", File: "main.go", Old: c18SrcExitHandlerFull, New: c18SrcExitHandlerStruct, More: []repl{{c18SrcMainTypeAnchor, c18SrcExitHandlerTypeDeclLate}}, Expect: "C18.E1"},

			// replaced data structures
			{Name: "benign: WaitGroup replaced by errgroup.Group", File: "proxy/serve.go", Old: c18SrcShutdown, New: c18SrcShutdownErrgroup, More: []repl{{c18ImportGrpc, c18ImportGrpcErrgroup}}, Expect: ""},
			{Name: "errgroup shape: nobody waits for the group", File: "proxy/serve.go", Old: c18SrcShutdown, New: c18SrcShutdownErrgroupNoWait, More: []repl{{c18ImportGrpc, c18ImportGrpcErrgroup}}, Expect: "C18.J1"},
			{Name: "errgroup shape: the group's context (cancelled by the first error) is what every server gets", File: "proxy/serve.go", Old: c18SrcShutdown, New: c18SrcShutdownErrgroupSharedCtx, More: []repl{{c18ImportGrpc, c18ImportGrpcErrgroup}}, Expect: "C18.D2"},
			{Name: "benign: registry keeps a record (server, listener) per address", File: "proxy/serve.go", Old: c18SrcRegistryBlock, New: c18SrcRegistryEntries, More: []repl{{c18SrcServeHead, c18SrcServeHeadEntries}}, Expect: ""},
			{Name: "record shape: draining servers stay registered", File: "proxy/serve.go", Old: c18SrcRegistryBlock, New: c18SrcRegistryEntriesNotEmptied, More: []repl{{c18SrcServeHead, c18SrcServeHeadEntries}}, Expect: "C18.R3"},
			{Name: "record shape: registration without the lock", File: "proxy/serve.go", Old: c18SrcRegistryBlock, New: c18SrcRegistryEntries, More: []repl{{c18SrcServeHead, c18SrcServeHeadEntriesUnlocked}}, Expect: "C18.R1"},
			{Name: "benign: gRPC graceful stop as a small type, completion channel in a field", File: "proxy/grpc_handler.go", Old: c18SrcGrpcShutdown, New: c18SrcGrpcShutdownStopping, Expect: ""},
			{Name: "stopping-type shape: completion awaited unconditionally", File: "proxy/grpc_handler.go", Old: c18SrcGrpcShutdown, New: c18SrcGrpcShutdownStoppingAwait, Expect: "C18.D1"},
			{Name: "benign: exit listener as a type (handler and signal channel in fields, capture/handle/run methods)", File: "exit/listen.go", Old: c18SrcExitListen, New: c18SrcExitListenType, Expect: ""},
			{Name: "listener-type shape: signal.Stop before the handler method", File: "exit/listen.go", Old: c18SrcExitListen, New: c18SrcExitListenTypeStop, Expect: "C18.X1"},
			{Name: "benign: composite server's per-child call behind a small interface, fan-out in a helper", File: "proxy/inetaf_tcpproxy.go", Old: c18SrcInetAfFanOut, New: c18SrcInetAfFanOutIface, Expect: ""},
			{Name: "child-call interface shape: Shutdown fans out the graceless call, ctx unused", File: "proxy/inetaf_tcpproxy.go", Old: c18SrcInetAfFanOut, New: c18SrcInetAfFanOutIfaceNoCtx, Expect: "C18.D1"},
			{Name: "benign: tcp wait callback is a method value of a small struct carrying ctx", File: "proxy/tcp/server.go", Old: c18SrcTCPStopBlock, New: c18SrcTCPStopMethodValue, Expect: ""},
		},
	}
	// development aid: C18_MUTANT=<substring> restricts `verifcheck mutants C18` to the mutants whose name contains it
	if want := os.Getenv("C18_MUTANT"); want != "" {
		var keep []mutant
		for _, m := range p.Mutants {
			if strings.Contains(m.Name, want) {
				keep = append(keep, m)
			}
		}
		p.Mutants = keep
	}
	register(p)
}

// c18GroupGo / c18GroupWait: starting work through a group that owns the goroutine and the counting, and its join.
var c18GroupGo = map[string]bool{
	"(*golang.org/x/sync/errgroup.Group).Go": true,
	"(*sync.WaitGroup).Go":                   true,
}

var c18GroupWait = map[string]bool{
	"(*sync.WaitGroup).Wait":                   true,
	"(*golang.org/x/sync/errgroup.Group).Wait": true,
}

var unboundedBlocking = map[string]bool{
	"(*google.golang.org/grpc.Server).GracefulStop": true,
	"(*sync.WaitGroup).Wait":                        true,
	"(*sync.Cond).Wait":                             true,
}

// forcedStop: calls after which the work an unbounded wait waits for is known to end (Trusted).
var forcedStop = map[string]bool{
	"(*google.golang.org/grpc.Server).Stop": true,
}

func runC18(c *Ctx) {
	c18Use(c)
	runC18D1(c)
	runC18D2J1(c)
	runLockPairing(c, "C18.L1", []string{"proxy", "proxy/tcp"})
	runC18O1(c)
	runC18R1(c)
	runC18E1(c)
	runC18R3(c)
	runC18X1(c)
}

// shutdownImpls: repo methods named Shutdown with a single context.Context parameter on types implementing proxy.Server.
func shutdownImpls(c *Ctx) []*ssa.Function {
	var out []*ssa.Function
	_, iface := c18ServerIface(c)
	for _, f := range c.AllFns {
		if f.Name() != "Shutdown" || f.Signature.Recv() == nil || f.Signature.Params().Len() != 1 {
			continue
		}
		if !c18IsCtx(f.Signature.Params().At(0).Type()) {
			continue
		}
		recv := f.Signature.Recv().Type()
		if iface != nil && !types.Implements(recv, iface) && !types.Implements(types.NewPointer(recv), iface) {
			continue
		}
		out = append(out, f)
	}
	return out
}

// c18CtxBounds: the context value ctx reaches something that can bound the shutdown: a receive or select on its
// Done channel, or a call that is handed the context (a repository callee is looked into: its parameter must in turn
// reach such a use; logging the context does not count).
func c18CtxBounds(ctx ssa.Value) bool {
	used := false
	seen := map[ssa.Value]bool{}
	var visit func(v ssa.Value, depth int)
	visit = func(v ssa.Value, depth int) {
		if v == nil || seen[v] || depth > 12 || used {
			return
		}
		seen[v] = true
		refs := v.Referrers()
		if refs == nil {
			return
		}
		for _, r := range *refs {
			switch x := r.(type) {
			case *ssa.Call, *ssa.Go, *ssa.Defer:
				cc := callCommon(x)
				if cc.IsInvoke() && cc.Value == v {
					if cc.Method.Name() == "Done" {
						if val, ok := x.(ssa.Value); ok {
							visit(val, depth+1)
						}
					}
					if !c18IsCtx(v.Type()) {
						// a small interface that carries the context (`waiter.wait()`): the concrete methods behind it
						for _, g := range (&c18Frame{fn: x.Parent()}).concreteMethods(v, cc.Method) {
							if len(g.Params) > 0 {
								visit(g.Params[0], depth+1)
							}
						}
					}
					continue // ctx.Err(), ctx.Value(): not a use that bounds anything
				}
				if !cc.IsInvoke() && cc.Value == v {
					continue // calling a function value derived from ctx: not modelled
				}
				n := calleeName(cc)
				if strings.HasPrefix(n, "log.") || strings.HasPrefix(n, "fmt.") || strings.HasPrefix(n, "(*log.Logger)") {
					continue
				}
				if sc := cc.StaticCallee(); sc != nil && isRepoFn(sc) && len(unwrap(sc).Blocks) > 0 {
					g := unwrap(sc)
					off := len(g.Params) - len(cc.Args) // a bound method value carries its receiver in the closure
					for k, a := range cc.Args {
						if a == v && off >= 0 && k+off < len(g.Params) {
							visit(g.Params[k+off], depth+1)
						}
					}
					continue
				}
				used = true
			case *ssa.UnOp:
				if x.Op == token.ARROW {
					used = true
				} else {
					visit(x, depth+1)
				}
			case *ssa.Select:
				used = true
			case *ssa.MakeClosure:
				// captured by a goroutine/closure: look inside
				if fn, ok := x.Fn.(*ssa.Function); ok {
					for k, b := range x.Bindings {
						if b == v && k < len(fn.FreeVars) {
							visit(fn.FreeVars[k], depth+1)
						}
					}
				}
			case *ssa.Store:
				if x.Val == v {
					visit(x.Addr, depth+1)
					// stored into a field / element of a local struct or array: whoever gets that value gets the context
					switch a := x.Addr.(type) {
					case *ssa.FieldAddr:
						visit(a.X, depth+1)
					case *ssa.IndexAddr:
						visit(a.X, depth+1)
					}
				}
			case *ssa.Return:
				// handed back to the callers of a helper: follow the results at its static call sites
				if f := x.Parent(); f != nil {
					for _, s := range gSites[f] {
						if val := s.Value(); val != nil {
							visit(val, depth+1)
						}
					}
				}
			case ssa.Value:
				visit(x, depth+1)
			}
		}
	}
	visit(ctx, 0)
	return used
}

// c18Unbounded: instruction i is a (synchronous) call that blocks until work of unknown duration has ended: the name of
// the primitive, "" otherwise. WaitGroup.Wait is the join of a fan-out, not an unbounded wait, when the WaitGroup is a
// local of the calling function and every goroutine this function starts with it runs no unbounded call itself
// (`var wg sync.WaitGroup; for ... { wg.Add(1); go func() { defer wg.Done(); child.Shutdown(ctx) }() }; wg.Wait()`).
func c18Unbounded(i ssa.Instruction, depth int) string {
	if _, isGo := i.(*ssa.Go); isGo {
		return ""
	}
	cc := callCommon(i)
	if cc == nil {
		return ""
	}
	n := calleeName(cc)
	if !unboundedBlocking[n] {
		// a function value that denotes the primitive (`graceful()` where the caller passed s.server.GracefulStop)
		for _, dn := range c18DynNames(cc) {
			if unboundedBlocking[dn] {
				return dn
			}
		}
		return ""
	}
	if n != "(*sync.WaitGroup).Wait" || depth > 2 || len(cc.Args) == 0 {
		return n
	}
	wg, isLocal := cc.Args[0].(*ssa.Alloc)
	if !isLocal {
		return n
	}
	started, bounded := 0, true
	eachInstr(i.Parent(), func(g ssa.Instruction) {
		goI, isGo := g.(*ssa.Go)
		if !isGo {
			return
		}
		uses := false
		if mc, ok := goI.Call.Value.(*ssa.MakeClosure); ok {
			for _, b := range mc.Bindings {
				if b == wg {
					uses = true
				}
			}
		}
		for _, a := range goI.Call.Args {
			if a == wg {
				uses = true
			}
		}
		if !uses {
			return
		}
		started++
		targets := c18Targets(&goI.Call)
		if len(targets) == 0 {
			bounded = false
		}
		for _, t := range targets {
			eachInstrOf(c18SyncRegion(t, 2), func(_ *ssa.Function, bi ssa.Instruction) {
				if c18Unbounded(bi, depth+1) != "" {
					bounded = false
				}
			})
		}
	})
	// the WaitGroup is handed to nothing else than its own methods and those goroutines
	for _, r := range *wg.Referrers() {
		switch x := r.(type) {
		case *ssa.MakeClosure:
			isGoClosure := false
			for _, rr := range *x.Referrers() {
				if _, ok := rr.(*ssa.Go); ok {
					isGoClosure = true
				}
			}
			if !isGoClosure {
				bounded = false
			}
		case *ssa.Go:
		case *ssa.Call, *ssa.Defer:
			if !strings.HasPrefix(calleeName(callCommon(x.(ssa.Instruction))), "(*sync.WaitGroup).") {
				bounded = false
			}
		case *ssa.DebugRef:
		default:
			bounded = false
		}
	}
	if started > 0 && bounded {
		return ""
	}
	return n
}

// c18AfterUnbounded: instruction p (a close of / send on a completion channel) runs only after an unbounded blocking
// call has returned: such a call (direct, or inside a helper run synchronously) precedes p in its function; p is
// deferred (it runs at function exit, after everything else); or p's function is itself run after one (it is deferred
// by, or called after the blocking call in, its caller). Returns the name of the blocking call, "" if none.
func c18AfterUnbounded(p ssa.Instruction, depth int) string {
	h := p.Parent()
	if h == nil || depth > 2 {
		return ""
	}
	_, deferred := p.(*ssa.Defer)
	after := ""
	eachInstr(h, func(b ssa.Instruction) {
		if after != "" || b == p {
			return
		}
		if _, isGo := b.(*ssa.Go); isGo {
			return
		}
		cc := callCommon(b)
		if cc == nil {
			return
		}
		blocking := c18Unbounded(b, 0)
		if blocking == "" {
			for _, t := range c18Targets(cc) {
				eachInstrOf(c18SyncRegion(t, 2), func(_ *ssa.Function, bi ssa.Instruction) {
					if _, isGo := bi.(*ssa.Go); isGo {
						return
					}
					if n := c18Unbounded(bi, 0); n != "" {
						blocking = n
					}
				})
			}
		}
		if blocking == "" {
			return
		}
		if _, bDeferred := b.(*ssa.Defer); bDeferred && !deferred {
			return // a deferred blocking call runs after a plain p
		}
		if deferred || canReach(b, p) {
			after = blocking
		}
	})
	if after != "" {
		return after
	}
	for _, s := range gSites[h] {
		if _, isGo := s.(*ssa.Go); isGo || s.Parent() == h {
			continue
		}
		if a := c18AfterUnbounded(s, depth+1); a != "" {
			return a
		}
	}
	return ""
}

func runC18D1(c *Ctx) {
	impls := shutdownImpls(c)
	// what the property needs: the rule saw the implementations (fabio has three; merging or splitting server types
	// must not trip the guard, finding none or one must)
	c.atLeast("C18.D1", "implementations of proxy.Server.Shutdown(ctx)", len(impls), 2)
	for _, f := range impls {
		var ctx *ssa.Parameter
		for _, p := range f.Params {
			if c18IsCtx(p.Type()) {
				ctx = p
			}
		}
		if ctx == nil {
			continue
		}
		c.check("C18.D1", fnKey(f)+"|ctx bounds the shutdown", f.Pos(), c18CtxBounds(ctx),
			"Shutdown(ctx) ignores its context: proxy.Shutdown waits for this call with wg.Wait(), so one never-ending stream or tunnel keeps shutdown from returning at all")

		// no synchronous unbounded blocking call: in the method and in everything it runs synchronously (calls and
		// deferred calls; what a go statement starts is asynchronous)
		sync := c18SyncRegion(f, 3)
		bad := ""
		var badPos token.Pos
		eachInstrOf(sync, func(_ *ssa.Function, i ssa.Instruction) {
			if _, isGo := i.(*ssa.Go); isGo {
				return
			}
			if n := c18Unbounded(i, 0); n != "" {
				bad, badPos = n, i.Pos()
			}
		})
		pos := f.Pos()
		if bad != "" {
			pos = badPos
		}
		c.check("C18.D1", fnKey(f)+"|no synchronous unbounded wait", pos, bad == "",
			"Shutdown(ctx) calls "+bad+" synchronously: it returns only when all open work ends, whatever the deadline; run it in a goroutine and race its completion against ctx.Done()")

		// ... and no unconditional wait for a goroutine that itself waits without bound: a receive (or a select
		// without a deadline / ctx.Done() case) on a channel that is closed or sent to only after an unbounded
		// blocking call has returned
		all := c18Region(c, sync...)
		type producer struct {
			roots map[*ssa.MakeChan]bool
			after string
		}
		var producers []producer
		eachInstrOf(all, func(h *ssa.Function, p ssa.Instruction) {
			var ch ssa.Value
			switch x := p.(type) {
			case *ssa.Send:
				ch = x.Chan
			default:
				if cc := callCommon(p); cc != nil && calleeName(cc) == "builtin.close" && len(cc.Args) == 1 {
					ch = cc.Args[0]
				}
			}
			if ch == nil {
				return
			}
			after := c18AfterUnbounded(p, 0)
			if after != "" {
				producers = append(producers, producer{c18ChanRoots(ch), after})
			}
		})
		wbad := ""
		var wpos token.Pos
		eachInstrOf(sync, func(_ *ssa.Function, i ssa.Instruction) {
			w, ok := c18WaitOf(i)
			if !ok || w.Deadline {
				return
			}
			// after a forced stop the awaited work is known to end (Trusted)
			forced := false
			eachInstr(i.Parent(), func(s ssa.Instruction) {
				cc := callCommon(s)
				if cc == nil || !dominatesInstr(s, i) {
					return
				}
				if forcedStop[calleeName(cc)] {
					forced = true
				}
				for _, dn := range c18DynNames(cc) {
					if forcedStop[dn] {
						forced = true
					}
				}
			})
			if forced {
				return
			}
			for _, ch := range w.Chans {
				roots := c18ChanRoots(ch)
				for _, p := range producers {
					for mc := range roots {
						if p.roots[mc] {
							wbad, wpos = p.after, i.Pos()
						}
					}
				}
			}
		})
		pos = f.Pos()
		if wbad != "" {
			pos = wpos
		}
		c.check("C18.D1", fnKey(f)+"|no unconditional wait for an unbounded goroutine", pos, wbad == "",
			"Shutdown(ctx) blocks on a channel that is signalled only after "+wbad+" has returned, without a ctx.Done() alternative: moving the unbounded wait into a goroutine does not bound the shutdown if its completion is then awaited unconditionally (a handler stuck in a dial or a never-ending stream keeps it from returning)")
	}
}

// c18ShutdownInvoke: i invokes Shutdown(ctx) through an interface (the Server interface, or any interface with that method).
func c18ShutdownInvoke(i ssa.Instruction) *ssa.CallCommon {
	cc := callCommon(i)
	if cc == nil || !cc.IsInvoke() || cc.Method.Name() != "Shutdown" || len(cc.Args) != 1 || !c18IsCtx(cc.Args[0].Type()) {
		return nil
	}
	return cc
}

func runC18D2J1(c *Ctx) {
	sd := c.fn("proxy", "Shutdown") // exported API
	if !c.need("C18.D2", sd, "proxy.Shutdown") {
		return
	}
	// the wait: the time.Duration parameter(s) of proxy.Shutdown; without one, the configured value itself
	durIdx := map[int]bool{}
	isTimeout := func(v ssa.Value) bool {
		if _, ok := fieldOf(v, "config.Proxy", "ShutdownWait"); ok {
			return true
		}
		p, ok := v.(*ssa.Parameter)
		return ok && p.Parent() == sd && typeStr(p.Type()) == "time.Duration"
	}
	for k, p := range sd.Params {
		if isTimeout(p) {
			durIdx[k] = true
		}
	}
	reg := c18Region(c, sd)
	// D2: every Shutdown(ctx) invoke in the region of proxy.Shutdown gets a ctx from WithTimeout/WithDeadline(Background, <timeout-derived>)
	n := 0
	var invokes []ssa.Instruction
	eachInstrOf(reg, func(f *ssa.Function, i ssa.Instruction) {
		cc := c18ShutdownInvoke(i)
		if cc == nil {
			return
		}
		n++
		invokes = append(invokes, i)
		ok := false
		derives(cc.Args[0], func(v ssa.Value) bool {
			call, isCall := v.(*ssa.Call)
			if !isCall {
				return false
			}
			name := calleeName(&call.Call)
			switch name {
			case "context.WithTimeout", "context.WithDeadline", "context.WithTimeoutCause", "context.WithDeadlineCause":
			default:
				return false
			}
			bg := c18Derives(call.Call.Args[0], func(p ssa.Value) bool {
				_, is := isCallTo(p, "context.Background", "context.TODO")
				return is
			})
			fromParam := c18Derives(call.Call.Args[1], isTimeout)
			if bg && fromParam {
				ok = true
			}
			return true
		})
		c.check("C18.D2", "proxy.Shutdown|per-server context carries the wait", i.Pos(), ok,
			"each server's Shutdown must receive context.WithTimeout(context.Background(), timeout) with the timeout parameter of proxy.Shutdown; otherwise the configured proxy.shutdownwait does not bound it")
	})
	c.atLeast("C18.D2", "Server.Shutdown invocations in proxy.Shutdown", n, 1)

	// the fan-out: go statements of the region whose goroutine (with what it calls) performs a server Shutdown
	isInvoke := func(i ssa.Instruction) bool {
		for _, x := range invokes {
			if x == i {
				return true
			}
		}
		return false
	}
	// (a go statement, or handing the work to a group that starts the goroutine and does the Add/Done bookkeeping
	// itself: errgroup.Group.Go, sync.WaitGroup.Go)
	type fanOut struct {
		goI     ssa.Instruction
		body    []*ssa.Function
		managed bool      // started through a group's Go method
		work    ssa.Value // the function value that is started
		args    []ssa.Value
	}
	var fans []fanOut
	eachInstrOf(reg, func(_ *ssa.Function, i ssa.Instruction) {
		var targets []*ssa.Function
		fan := fanOut{goI: i}
		switch g := i.(type) {
		case *ssa.Go:
			targets = c18Targets(&g.Call)
			fan.work, fan.args = g.Call.Value, g.Call.Args
		case *ssa.Call:
			if !c18GroupGo[calleeName(&g.Call)] || len(g.Call.Args) != 2 {
				return
			}
			targets = c18FuncsOf(g.Call.Args[1])
			fan.work, fan.managed = g.Call.Args[1], true
		default:
			return
		}
		does := false
		eachInstrOf(c18Region(c, targets...), func(_ *ssa.Function, x ssa.Instruction) {
			if isInvoke(x) {
				does = true
			}
		})
		if does {
			fan.body = targets
			fans = append(fans, fan)
		}
	})

	// a per-server goroutine may hand its server's Shutdown on to a goroutine of its own (so that it can give up when the
	// context ends although the server ignores it): the inner go statement is no fan-out to be joined by the WaitGroup;
	// the goroutine that starts it waits for it - or for the end of the context
	nestedIn := func(fan fanOut) bool {
		for _, o := range fans {
			if o.goI == fan.goI {
				continue
			}
			for _, b := range o.body {
				if containsFn(c18SyncRegion(b, 3), fan.goI.Parent()) {
					return true
				}
			}
		}
		return false
	}
	// the context of one server is not cancelled by another: a cancel function handed to a per-server goroutine (captured
	// or passed) belongs to a context created outside it - the first server to finish cancels it for all the others
	isCancel := func(v ssa.Value) bool {
		return derives(v, func(x ssa.Value) bool {
			ex, ok := x.(*ssa.Extract)
			if !ok || ex.Index != 1 {
				return false
			}
			_, isCtx := isCallTo(ex.Tuple, "context.WithTimeout", "context.WithDeadline", "context.WithCancel", "context.WithCancelCause", "context.WithTimeoutCause", "context.WithDeadlineCause")
			return isCtx
		})
	}
	for _, fan := range fans {
		shared := false
		if mc, isMC := fan.work.(*ssa.MakeClosure); isMC {
			for _, b := range mc.Bindings {
				if isCancel(b) {
					shared = true
				}
			}
		}
		for _, a := range fan.args {
			if isCancel(a) {
				shared = true
			}
		}
		if shared && nestedIn(fan) && !c18InLoop(fan.goI) {
			shared = false // the one goroutine a per-server goroutine hands its own server (and its own context) on to
		}
		c.check("C18.D2", fnKey(fan.goI.Parent())+"|no cancel function shared between the per-server goroutines", fan.goI.Pos(), !shared,
			"a goroutine started per server captures the cancel function of a context created outside it: the first server that finishes its Shutdown cancels the context of all the others, whose in-flight work is then cut before the wait has elapsed")
	}

	// main passes cfg.Proxy.ShutdownWait
	nm := 0
	for _, f := range c.AllFns {
		eachInstr(f, func(i ssa.Instruction) {
			if !staticCalleeIs(i, sd) {
				return
			}
			nm++
			cc := callCommon(i)
			ok, got := true, ""
			for k, a := range cc.Args {
				if durIdx[k] && !c18Derives(a, func(v ssa.Value) bool {
					_, is := fieldOf(v, "config.Proxy", "ShutdownWait")
					return is
				}) {
					ok, got = false, shortPath(a)
				}
			}
			c.check("C18.D2", fnKey(f)+"|proxy.Shutdown(cfg.Proxy.ShutdownWait)", i.Pos(), ok, "proxy.Shutdown must be given the configured proxy.shutdownwait; got "+got)
		})
	}
	c.atLeast("C18.D2", "calls of proxy.Shutdown", nm, 1)

	// J1
	if len(fans) == 0 {
		c.undecided("C18.J1", "proxy.Shutdown|fan-out goroutine", "no go statement that performs a server Shutdown found in the region of proxy.Shutdown")
		return
	}
	// the join: a sync.WaitGroup (Add / Done / Wait), or - when the region uses no WaitGroup at all - a channel every
	// per-server goroutine sends on (or closes) and the starting side receives from
	usesWG := false
	eachInstrOf(reg, func(_ *ssa.Function, i ssa.Instruction) {
		if cc := callCommon(i); cc != nil && (strings.HasPrefix(calleeName(cc), "(*sync.WaitGroup).") || c18GroupGo[calleeName(cc)] || c18GroupWait[calleeName(cc)]) {
			usesWG = true
		}
	})
	joinChans := map[*ssa.MakeChan]bool{}
	chanOf := func(i ssa.Instruction) ssa.Value {
		if _, isGo := i.(*ssa.Go); isGo {
			return nil
		}
		if s, ok := i.(*ssa.Send); ok {
			return s.Chan
		}
		if cc := callCommon(i); cc != nil && calleeName(cc) == "builtin.close" && len(cc.Args) == 1 {
			return cc.Args[0]
		}
		return nil
	}
	onJoinChan := func(ch ssa.Value) bool {
		if ch == nil {
			return false
		}
		for mc := range c18ChanRoots(ch) {
			if joinChans[mc] {
				return true
			}
		}
		return false
	}
	if !usesWG {
		for _, fan := range fans {
			eachInstrOf(c18Region(c, fan.body...), func(_ *ssa.Function, i ssa.Instruction) {
				for mc := range c18ChanRoots(chanOf(i)) {
					joinChans[mc] = true
				}
			})
		}
	}
	chanJoin := !usesWG && len(joinChans) > 0
	isAdd := func(i ssa.Instruction) bool {
		call, ok := i.(*ssa.Call)
		return ok && calleeName(&call.Call) == "(*sync.WaitGroup).Add"
	}
	isWait := func(i ssa.Instruction) bool {
		if chanJoin {
			u, ok := i.(*ssa.UnOp)
			return ok && u.Op == token.ARROW && onJoinChan(u.X)
		}
		call, ok := i.(*ssa.Call)
		return ok && c18GroupWait[calleeName(&call.Call)]
	}
	doneOp := func(j ssa.Instruction) bool {
		if _, isGo := j.(*ssa.Go); isGo {
			return false
		}
		if chanJoin {
			return onJoinChan(chanOf(j))
		}
		jc := callCommon(j)
		return jc != nil && calleeName(jc) == "(*sync.WaitGroup).Done"
	}
	isDone := func(i ssa.Instruction) bool {
		if doneOp(i) {
			return true
		}
		// defer func() { ...; wg.Done() }()
		if d, isDefer := i.(*ssa.Defer); isDefer {
			for _, t := range c18Targets(&d.Call) {
				if mustExec(t, doneOp, 1) {
					return true
				}
			}
		}
		return false
	}
	inLoopsOf := func(a, g ssa.Instruction) bool {
		// a runs in every iteration of every loop that contains g
		if a.Parent() != g.Parent() {
			return false
		}
		for _, l := range loopsOf(g.Parent()) {
			if l.Body[g.Block()] && !l.Body[a.Block()] {
				return false
			}
		}
		return true
	}
	for _, fan := range fans {
		goI := fan.goI
		key := "proxy.Shutdown"
		if !fan.managed && nestedIn(fan) {
			signals := func(mc *ssa.MakeChan) bool {
				sig := func(j ssa.Instruction) bool {
					if _, isGo := j.(*ssa.Go); isGo {
						return false
					}
					hit := c18ChanRoots(chanOf(j))[mc]
					if d, isDefer := j.(*ssa.Defer); isDefer && !hit {
						for _, t := range c18Targets(&d.Call) {
							if mustExec(t, func(k ssa.Instruction) bool { return c18ChanRoots(chanOf(k))[mc] }, 1) {
								hit = true
							}
						}
					}
					return hit
				}
				for _, g := range fan.body {
					if !mustExec(g, sig, 0) {
						return false
					}
				}
				return len(fan.body) > 0
			}
			joins := func(i ssa.Instruction) bool {
				w, ok := c18WaitOf(i)
				if !ok {
					return false
				}
				joined := false
				for _, ch := range w.Chans {
					mine := false
					for mc := range c18ChanRoots(ch) {
						if signals(mc) {
							mine = true
						}
					}
					if mine {
						joined = true
					} else if !c18CtxEndChan(ch) {
						return false
					}
				}
				return joined
			}
			c.check("C18.J1", key+"|a goroutine that hands its server's Shutdown on waits for it or for the end of the context", goI.Pos(), c18FollowedBy(goI, joins, 0),
				"a per-server goroutine starts another goroutine for the server's Shutdown(ctx) and does not wait for it (on a channel that goroutine always signals, with at most the end of a context as the alternative): its wg.Done() then tells proxy.Shutdown that the server is drained while the drain is still running, the process exits and in-flight work that would have finished within the wait is cut")
			continue
		}
		// wg.Add before go: in the same iteration (or once for all with a computed count), in the function of the go
		// statement or before every call of the helper that contains it
		var okAdd func(at ssa.Instruction, depth int) bool
		okAdd = func(at ssa.Instruction, depth int) bool {
			f := at.Parent()
			found := false
			eachInstr(f, func(a ssa.Instruction) {
				if !isAdd(a) || !dominatesInstr(a, at) {
					return
				}
				_, constCount := constInt(callCommon(a).Args[1])
				if inLoopsOf(a, at) || !constCount {
					found = true
				}
			})
			if found {
				return true
			}
			if depth >= 2 || !c18OnlyStatic(f) || len(gSites[f]) == 0 {
				return false
			}
			for _, s := range gSites[f] {
				if s.Parent() == f || !okAdd(s, depth+1) {
					return false
				}
			}
			return true
		}
		c.check("C18.J1", key+"|wg.Add before go", goI.Pos(), chanJoin || fan.managed || okAdd(goI, 0), "wg.Add(1) must precede each go statement in the same iteration; otherwise Wait can return before the server shutdowns ran")

		// Done on every way out of the goroutine (deferred, or explicitly on every path to return)
		okDone := len(fan.body) > 0
		for _, g := range fan.body {
			if !fan.managed && !mustExec(g, isDone, 0) {
				okDone = false
			}
		}
		c.check("C18.J1", key+"|Done deferred in the goroutine", goI.Pos(), okDone, "the goroutine must defer wg.Done() at its start so that a panicking or early-returning server shutdown still releases the waiter")

		// Wait follows the fan-out on every path to return (in the function of the go statement or after every call of
		// the helper containing it) and no loop contains both the start of a server shutdown and the Wait
		okWait := c18FollowedBy(goI, isWait, 0)
		if chanJoin {
			// the receives sit in a loop of their own (one per server): some receive follows the fan-out
			okWait = c18MayFollow(goI, isWait, 0)
		}
		isFan := func(i ssa.Instruction) bool { return i == goI }
		for _, g := range reg {
			for _, l := range loopsOf(g) {
				hasGo, hasWait := false, false
				for b := range l.Body {
					for _, in := range b.Instrs {
						if c18LiftMay(isFan)(in) {
							hasGo = true
						}
						if c18LiftMay(isWait)(in) {
							hasWait = true
						}
					}
				}
				if hasGo && hasWait {
					okWait = false
				}
			}
		}
		c.check("C18.J1", key+"|Wait after the fan-out loop", goI.Pos(), okWait, "wg.Wait() must follow the loop that starts the per-server shutdowns (outside the loop, on every path to return): waiting inside the loop serialises the servers, so total time is the sum of the waits")
	}
	// the registry lock is not held while waiting (wherever the Wait is: in proxy.Shutdown or in a helper called with the lock held)
	held := false
	nw := 0
	var heldPos token.Pos
	eachInstrOf(reg, func(_ *ssa.Function, i ssa.Instruction) {
		if !c18LiftMay(isWait)(i) {
			return
		}
		if isWait(i) {
			nw++
		}
		if len(heldAt(i, false)) > 0 {
			held, heldPos = true, i.Pos()
		}
	})
	if nw == 0 {
		return // reported above: no Wait follows the fan-out
	}
	c.check("C18.J1", "proxy.Shutdown|registry lock released before waiting", heldPos, !held, "the servers map lock must be released before wg.Wait(): serve()/CloseProxy block on it for the whole shutdown otherwise")
}

// runLockPairing (E7): every Lock/RLock is released on every path to every return - by an Unlock of the same mutex
// (called, deferred, inside a deferred closure, or inside a helper that unlocks on all its paths). A helper whose only
// job is to acquire (it never releases the mutex and is only called statically) is judged at its call sites.
func runLockPairing(c *Ctx, rule string, pkgs []string) {
	c18Use(c)
	n := 0
	releases := func(key, want string) func(ssa.Instruction) bool {
		direct := func(i ssa.Instruction) bool {
			if _, isGo := i.(*ssa.Go); isGo {
				return false
			}
			k, kind := c18LockOp(i)
			return k == key && (kind == want || kind == "defer-"+want)
		}
		return func(i ssa.Instruction) bool {
			if direct(i) {
				return true
			}
			if d, isDefer := i.(*ssa.Defer); isDefer {
				if sc := d.Call.StaticCallee(); sc != nil && isRepoFn(sc) {
					return mustExec(unwrap(sc), direct, 1)
				}
			}
			return false
		}
	}
	for _, f := range c.AllFns {
		in := false
		for _, p := range pkgs {
			if sp := c.spkg(p); sp != nil && rootPkg(f) == sp {
				in = true
			}
		}
		if !in {
			continue
		}
		eachInstr(f, func(l ssa.Instruction) {
			key, kind := c18LockOp(l)
			if kind != "lock" && kind != "rlock" {
				return
			}
			n++
			want := "unlock"
			if kind == "rlock" {
				want = "runlock"
			}
			rel := releases(key, want)
			ret, open := exitReachableAvoiding(l, rel)
			if open {
				// an acquire helper: no release of this mutex anywhere in it, every caller known
				anyRel := false
				eachInstr(f, func(i ssa.Instruction) {
					if rel(i) {
						anyRel = true
					}
				})
				if !anyRel && c18OnlyStatic(f) && len(gSites[f]) > 0 {
					open = false
					for _, s := range gSites[f] {
						if _, isCall := s.(*ssa.Call); !isCall {
							open = true
							continue
						}
						if r2, o2 := exitReachableAvoiding(s, rel); o2 {
							open, ret = true, r2
						}
					}
				}
			}
			pos := l.Pos()
			if open && ret != nil {
				pos = ret.Pos()
			}
			c.check(rule, fnKey(f)+"|"+kind+" "+strings.TrimPrefix(key, "proxy.")+" released on every path", pos, !open,
				"a path from this "+kind+" reaches a return without releasing the mutex: every later Lock (e.g. in proxy.Shutdown) blocks forever")
		})
	}
	// the property needs the registry lock and the tcp server's lock to be looked at; their critical sections may be
	// merged into few helpers
	c.atLeast(rule, "lock acquisitions", n, 3)
}

func rootPkg(f *ssa.Function) *ssa.Package {
	for f.Parent() != nil {
		f = f.Parent()
	}
	return f.Pkg
}
