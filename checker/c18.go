package main

import (
	"go/token"
	"go/types"
	"strings"

	"golang.org/x/tools/go/ssa"
)

func init() {
	register(&propDef{
		ID:      "C18",
		Level:   "other",
		Explain: "Structural necessary conditions of bounded, draining shutdown, decided per implementation / per path: (D1) every repo implementation of proxy.Server.Shutdown(ctx) uses its ctx (it reaches a call or a receive) and never calls an unbounded blocking primitive (grpc GracefulStop, WaitGroup.Wait) synchronously — such a call must run in a goroutine that is raced against ctx.Done(); (D2) proxy.Shutdown gives each server context.WithTimeout(Background, timeout) with the timeout parameter, and main passes cfg.Proxy.ShutdownWait; (J1) in proxy.Shutdown wg.Add precedes each go, Done is deferred in the goroutine, Wait follows the loop, and the registry lock is released before waiting; (L1) every Lock in packages proxy and proxy/tcp is released on every path to every return; (O1) tcp.Server.Shutdown closes the listeners before waiting on ctx and the connections after; (R1) in package proxy only serve() (which registers the server) and the composite server call Serve on a proxy.Server; (E1) the exit callback deregisters, sleeps the grace period, then calls proxy.Shutdown, in that order. (R3) proxy.Shutdown empties the server registry inside the critical section that snapshots it, so draining servers are not reachable by CloseProxy/Close; (X1) package exit does not release its signal registration (signal.Stop/Reset/Ignore) on a path that leads to the exit-handler call; Not decided: wall-clock bounds (timing).",
		Run:     runC18,
		Trusted: []string{"net/http.Server.Shutdown honours its context", "context.WithTimeout cancels after the timeout", "grpc.Server.Stop forcibly closes open streams"},
		Mutants: []mutant{
			{Name: "draining servers stay registered", File: "proxy/serve.go", Old: "\t\tsrvs[k] = v\n\t}\n\tservers = make(map[string]Server)\n\tmu.Unlock()\n", New: "\t\tsrvs[k] = v\n\t}\n\tmu.Unlock()\n", Expect: "C18.R3"},
			{Name: "benign: registry emptied by delete in the snapshot loop", File: "proxy/serve.go", Old: "\t\tsrvs[k] = v\n\t}\n\tservers = make(map[string]Server)\n\tmu.Unlock()\n", New: "\t\tsrvs[k] = v\n\t\tdelete(servers, k)\n\t}\n\tmu.Unlock()\n", Expect: ""},
			{Name: "signal registration released before the exit handler", File: "exit/listen.go", Old: "\t\t\tif fn != nil {\n\t\t\t\tfn(sig)\n\t\t\t}\n", New: "\t\t\tsignal.Stop(sigchan)\n\t\t\tif fn != nil {\n\t\t\t\tfn(sig)\n\t\t\t}\n", Expect: "C18.X1"},
			{Name: "benign: signal registration released after the exit handler", File: "exit/listen.go", Old: "\t\t\tif fn != nil {\n\t\t\t\tfn(sig)\n\t\t\t}\n", New: "\t\t\tif fn != nil {\n\t\t\t\tfn(sig)\n\t\t\t}\n\t\t\tsignal.Stop(sigchan)\n", Expect: ""},

			{Name: "gRPC shutdown ignores ctx again", File: "proxy/grpc_handler.go", Old: "\tdone := make(chan struct{})\n\tgo func() {\n\t\ts.server.GracefulStop()\n\t\tclose(done)\n\t}()\n\tselect {\n\tcase <-done:\n\tcase <-ctx.Done():\n\t\ts.server.Stop()\n\t}\n\treturn nil", New: "\ts.server.GracefulStop()\n\treturn nil", Expect: "C18.D1"},
			{Name: "GracefulStop synchronously, ctx only looked at afterwards", File: "proxy/grpc_handler.go", Old: "\tdone := make(chan struct{})\n\tgo func() {\n\t\ts.server.GracefulStop()\n\t\tclose(done)\n\t}()\n\tselect {", New: "\tdone := make(chan struct{})\n\ts.server.GracefulStop()\n\tclose(done)\n\tselect {", Expect: "C18.D1"},
			{Name: "return before Unlock in CloseProxy", File: "proxy/serve.go", Old: "\tmu.Lock()\n\tdefer mu.Unlock()\n\tif srv, ok := servers[address]; ok {", New: "\tmu.Lock()\n\tif srv, ok := servers[address]; ok {", Expect: "C18.L1"},
			{Name: "wait before closing listeners", File: "proxy/tcp/server.go", Old: "\ts.closeListeners()\n\tif ctx != nil {\n\t\t<-ctx.Done()\n\t}\n\treturn s.closeConns()", New: "\tif ctx != nil {\n\t\t<-ctx.Done()\n\t}\n\ts.closeListeners()\n\treturn s.closeConns()", Expect: "C18.O1"},
			{Name: "connections closed before the wait", File: "proxy/tcp/server.go", Old: "\ts.closeListeners()\n\tif ctx != nil {\n\t\t<-ctx.Done()\n\t}\n\treturn s.closeConns()", New: "\ts.closeListeners()\n\ts.closeConns()\n\tif ctx != nil {\n\t\t<-ctx.Done()\n\t}\n\treturn nil", Expect: "C18.O1"},
			{Name: "srv.Serve called directly in ListenAndServeTCP", File: "proxy/serve.go", Old: "\t\tReadTimeout:  l.ReadTimeout,\n\t\tWriteTimeout: l.WriteTimeout,\n\t}\n\treturn serve(ln, srv)\n}\n\nfunc serve(", New: "\t\tReadTimeout:  l.ReadTimeout,\n\t\tWriteTimeout: l.WriteTimeout,\n\t}\n\treturn srv.Serve(ln)\n}\n\nfunc serve(", Expect: "C18.R1"},
			{Name: "Shutdown before DeregisterAll", File: "main.go", Old: "\t\tif registry.Default != nil {\n\t\t\tregistry.Default.DeregisterAll()\n\t\t}\n\t\ttime.Sleep(cfg.Proxy.DeregisterGracePeriod)\n\t\tproxy.Shutdown(cfg.Proxy.ShutdownWait)", New: "\t\tproxy.Shutdown(cfg.Proxy.ShutdownWait)\n\t\tif registry.Default != nil {\n\t\t\tregistry.Default.DeregisterAll()\n\t\t}\n\t\ttime.Sleep(cfg.Proxy.DeregisterGracePeriod)", Expect: "C18.E1"},
			{Name: "wg.Wait inside the loop body", File: "proxy/serve.go", Old: "\t\t}(srv)\n\t}\n\twg.Wait()\n}", New: "\t\t}(srv)\n\t\twg.Wait()\n\t}\n}", Expect: "C18.J1"},
			{Name: "no wg.Add", File: "proxy/serve.go", Old: "\t\twg.Add(1)\n\t\tgo func(srv Server) {\n\t\t\tdefer wg.Done()\n\t\t\tctx, cancel := context.WithTimeout", New: "\t\tgo func(srv Server) {\n\t\t\tdefer wg.Done()\n\t\t\tctx, cancel := context.WithTimeout", Expect: "C18.J1"},
			{Name: "per-server timeout is a constant", File: "proxy/serve.go", Old: "context.WithTimeout(context.Background(), timeout)\n\t\t\tdefer cancel()\n\t\t\tsrv.Shutdown(ctx)", New: "context.WithTimeout(context.Background(), time.Hour)\n\t\t\tdefer cancel()\n\t\t\tsrv.Shutdown(ctx)", Expect: "C18.D2"},
			{Name: "main passes the grace period as wait", File: "main.go", Old: "proxy.Shutdown(cfg.Proxy.ShutdownWait)", New: "proxy.Shutdown(cfg.Proxy.DeregisterGracePeriod)", Expect: "C18.D2"},
			{Name: "waiting while holding the registry lock", File: "proxy/serve.go", Old: "\tservers = make(map[string]Server)\n\tmu.Unlock()\n\n\tvar wg sync.WaitGroup", New: "\tservers = make(map[string]Server)\n\tdefer mu.Unlock()\n\n\tvar wg sync.WaitGroup", Expect: "C18.J1"},
			{Name: "benign: WithDeadline instead of WithTimeout", File: "proxy/serve.go", Old: "context.WithTimeout(context.Background(), timeout)\n\t\t\tdefer cancel()\n\t\t\tsrv.Shutdown(ctx)", New: "context.WithDeadline(context.Background(), time.Now().Add(timeout))\n\t\t\tdefer cancel()\n\t\t\tsrv.Shutdown(ctx)", Expect: ""},
		},
	})
}

var unboundedBlocking = map[string]bool{
	"(*google.golang.org/grpc.Server).GracefulStop": true,
	"(*sync.WaitGroup).Wait":                        true,
	"(*sync.Cond).Wait":                             true,
}

func runC18(c *Ctx) {
	runC18D1(c)
	runC18D2J1(c)
	runLockPairing(c, "C18.L1", []string{"proxy", "proxy/tcp"})
	runC18O1(c)
	runC18R1(c)
	runC18E1(c)
	runC18R3(c)
	runC18X1(c)
}

// shutdownImpls: repo methods named Shutdown with a single context.Context parameter on types implementing proxy.Server.
func shutdownImpls(c *Ctx) []*ssa.Function {
	var out []*ssa.Function
	sp := c.spkg("proxy")
	var iface *types.Interface
	if sp != nil {
		if t := sp.Type("Server"); t != nil {
			iface, _ = t.Type().Underlying().(*types.Interface)
		}
	}
	for _, f := range c.AllFns {
		if f.Name() != "Shutdown" || f.Signature.Recv() == nil || f.Signature.Params().Len() != 1 {
			continue
		}
		if typeStr(f.Signature.Params().At(0).Type()) != "context.Context" {
			continue
		}
		recv := f.Signature.Recv().Type()
		if iface != nil && !types.Implements(recv, iface) && !types.Implements(types.NewPointer(recv), iface) {
			continue
		}
		out = append(out, f)
	}
	return out
}

func runC18D1(c *Ctx) {
	impls := shutdownImpls(c)
	c.atLeast("C18.D1", "implementations of proxy.Server.Shutdown(ctx)", len(impls), 3)
	for _, f := range impls {
		ctx := f.Params[1]
		// ctx must reach a call argument, an invoke receiver, or a receive
		used := false
		var visit func(v ssa.Value, depth int)
		seen := map[ssa.Value]bool{}
		visit = func(v ssa.Value, depth int) {
			if seen[v] || depth > 6 {
				return
			}
			seen[v] = true
			refs := v.Referrers()
			if refs == nil {
				return
			}
			for _, r := range *refs {
				switch x := r.(type) {
				case *ssa.Call, *ssa.Go, *ssa.Defer:
					cc := callCommon(x)
					if cc.IsInvoke() && cc.Value == v && cc.Method.Name() == "Done" {
						if val, ok := x.(ssa.Value); ok {
							visit(val, depth+1)
						}
						continue
					}
					if cc.IsInvoke() && cc.Value == v {
						continue // ctx.Err(), ctx.Value(): not a use that bounds anything
					}
					used = true
				case *ssa.UnOp:
					if x.Op == token.ARROW {
						used = true
					} else {
						visit(x, depth+1)
					}
				case *ssa.Select:
					used = true
				case *ssa.MakeClosure:
					// captured by a goroutine/closure: look inside
					if fn, ok := x.Fn.(*ssa.Function); ok {
						for k, b := range x.Bindings {
							if b == v && k < len(fn.FreeVars) {
								visit(fn.FreeVars[k], depth+1)
							}
						}
					}
				case *ssa.Store:
					if x.Val == v {
						visit(x.Addr, depth+1)
					}
				case ssa.Value:
					visit(x, depth+1)
				}
			}
		}
		visit(ctx, 0)
		c.check("C18.D1", fnKey(f)+"|ctx bounds the shutdown", f.Pos(), used,
			"Shutdown(ctx) ignores its context: proxy.Shutdown waits for this call with wg.Wait(), so one never-ending stream or tunnel keeps shutdown from returning at all")
		// no synchronous unbounded blocking call
		bad := ""
		var badPos token.Pos
		seenF := map[*ssa.Function]bool{}
		var scan func(g *ssa.Function, depth int)
		scan = func(g *ssa.Function, depth int) {
			if seenF[g] || depth > 3 {
				return
			}
			seenF[g] = true
			eachInstr(g, func(i ssa.Instruction) {
				call, ok := i.(*ssa.Call) // synchronous only: Go/Defer excluded
				if !ok {
					return
				}
				n := calleeName(&call.Call)
				if unboundedBlocking[n] {
					bad, badPos = n, call.Pos()
				}
				if sc := call.Call.StaticCallee(); sc != nil && isRepoFn(sc) && len(sc.Blocks) > 0 {
					scan(sc, depth+1)
				}
			})
		}
		scan(f, 0)
		pos := f.Pos()
		if bad != "" {
			pos = badPos
		}
		c.check("C18.D1", fnKey(f)+"|no synchronous unbounded wait", pos, bad == "",
			"Shutdown(ctx) calls "+bad+" synchronously: it returns only when all open work ends, whatever the deadline; run it in a goroutine and race its completion against ctx.Done()")
	}
}

func runC18D2J1(c *Ctx) {
	sd := c.fn("proxy", "Shutdown")
	if !c.need("C18.D2", sd, "proxy.Shutdown") {
		return
	}
	timeout := sd.Params[0]
	fns := withAnon(sd)
	// D2: every Shutdown(ctx) invoke inside gets a ctx from WithTimeout/WithDeadline(Background, <timeout-derived>)
	n := 0
	for _, f := range fns {
		eachInstr(f, func(i ssa.Instruction) {
			cc := callCommon(i)
			if cc == nil || !cc.IsInvoke() || cc.Method.Name() != "Shutdown" || len(cc.Args) != 1 {
				return
			}
			n++
			ok := false
			derives(cc.Args[0], func(v ssa.Value) bool {
				call, isCall := v.(*ssa.Call)
				if !isCall {
					return false
				}
				name := calleeName(&call.Call)
				if name != "context.WithTimeout" && name != "context.WithDeadline" {
					return false
				}
				_, bg := isCallTo(call.Call.Args[0], "context.Background")
				fromParam := derivesAcrossClosure(call.Call.Args[1], timeout, f)
				if bg && fromParam {
					ok = true
				}
				return true
			})
			c.check("C18.D2", "proxy.Shutdown|per-server context carries the wait", i.Pos(), ok,
				"each server's Shutdown must receive context.WithTimeout(context.Background(), timeout) with the timeout parameter of proxy.Shutdown; otherwise the configured proxy.shutdownwait does not bound it")
		})
	}
	c.atLeast("C18.D2", "Server.Shutdown invocations in proxy.Shutdown", n, 1)
	// the context of one server is not cancelled by another: a cancel function captured by a closure that is started
	// with `go` (once per server) belongs to a context shared by all of them — the first server to finish cancels it
	for _, f := range c.region(sd) {
		eachInstr(f, func(i ssa.Instruction) {
			g, isGo := i.(*ssa.Go)
			if !isGo {
				return
			}
			mc, isMC := g.Call.Value.(*ssa.MakeClosure)
			if !isMC {
				return
			}
			shared := false
			for _, b := range mc.Bindings {
				if derives(b, func(v ssa.Value) bool {
					ex, ok := v.(*ssa.Extract)
					if !ok || ex.Index != 1 {
						return false
					}
					_, isCtx := isCallTo(ex.Tuple, "context.WithTimeout", "context.WithDeadline", "context.WithCancel")
					return isCtx
				}) {
					shared = true
				}
			}
			c.check("C18.D2", fnKey(f)+"|no cancel function shared between the per-server goroutines", i.Pos(), !shared,
				"a goroutine started per server captures the cancel function of a context created outside it: the first server that finishes its Shutdown cancels the context of all the others, whose in-flight work is then cut before the wait has elapsed")
		})
	}
	// main passes cfg.Proxy.ShutdownWait
	nm := 0
	for _, f := range c.AllFns {
		eachInstr(f, func(i ssa.Instruction) {
			if !staticCalleeIs(i, sd) {
				return
			}
			nm++
			cc := callCommon(i)
			_, ok := fieldOf(cc.Args[0], "config.Proxy", "ShutdownWait")
			c.check("C18.D2", fnKey(f)+"|proxy.Shutdown(cfg.Proxy.ShutdownWait)", i.Pos(), ok, "proxy.Shutdown must be given the configured proxy.shutdownwait; got "+shortPath(cc.Args[0]))
		})
	}
	c.atLeast("C18.D2", "calls of proxy.Shutdown", nm, 1)

	// J1
	var goI *ssa.Go
	var adds, waits []ssa.Instruction
	eachInstr(sd, func(i ssa.Instruction) {
		if g, ok := i.(*ssa.Go); ok {
			goI = g
		}
		if cc := callCommon(i); cc != nil {
			switch calleeName(cc) {
			case "(*sync.WaitGroup).Add":
				adds = append(adds, i)
			case "(*sync.WaitGroup).Wait":
				if _, isCall := i.(*ssa.Call); isCall {
					waits = append(waits, i)
				}
			}
		}
	})
	if goI == nil {
		c.undecided("C18.J1", "proxy.Shutdown|fan-out goroutine", "no go statement found")
		return
	}
	okAdd := false
	for _, a := range adds {
		if dominatesInstr(a, goI) && a.Block() == goI.Block() {
			okAdd = true
		}
	}
	c.check("C18.J1", "proxy.Shutdown|wg.Add before go", goI.Pos(), okAdd, "wg.Add(1) must precede each go statement in the same iteration; otherwise Wait can return before the server shutdowns ran")
	// Done deferred in the goroutine
	okDone := false
	if mc, ok := goI.Call.Value.(*ssa.MakeClosure); ok {
		g := mc.Fn.(*ssa.Function)
		eachInstr(g, func(i ssa.Instruction) {
			if d, ok := i.(*ssa.Defer); ok && calleeName(&d.Call) == "(*sync.WaitGroup).Done" && d.Block() == g.Blocks[0] {
				okDone = true
			}
		})
	}
	c.check("C18.J1", "proxy.Shutdown|Done deferred in the goroutine", goI.Pos(), okDone, "the goroutine must defer wg.Done() at its start so that a panicking or early-returning server shutdown still releases the waiter")
	// Wait after the loop: not inside any loop containing the go, and reachable only after it
	okWait := len(waits) > 0
	for _, w := range waits {
		for _, l := range loopsOf(sd) {
			if l.Body[goI.Block()] && l.Body[w.Block()] {
				okWait = false
			}
		}
		if !pathAvoiding(goI, w, nil) {
			okWait = false
		}
	}
	// every return must pass through Wait
	if okWait {
		if _, open := exitReachableAvoiding(goI, func(i ssa.Instruction) bool {
			for _, w := range waits {
				if i == w {
					return true
				}
			}
			return false
		}); open {
			okWait = false
		}
	}
	c.check("C18.J1", "proxy.Shutdown|Wait after the fan-out loop", goI.Pos(), okWait, "wg.Wait() must follow the loop that starts the per-server shutdowns (outside the loop, on every path to return): waiting inside the loop serialises the servers, so total time is the sum of the waits")
	// the registry lock is not held while waiting
	held := false
	for _, w := range waits {
		if len(heldAt(w, false)) > 0 {
			held = true
		}
		// deferred unlocks keep the lock until return
		eachInstr(sd, func(i ssa.Instruction) {
			if _, k := lockCallKind(i); k == "defer-unlock" {
				held = true
			}
		})
	}
	c.check("C18.J1", "proxy.Shutdown|registry lock released before waiting", goI.Pos(), !held, "the servers map lock must be released before wg.Wait(): serve()/CloseProxy block on it for the whole shutdown otherwise")
}

// derivesAcrossClosure: v (in closure f) derives from parameter p of the enclosing function, possibly via a captured cell.
func derivesAcrossClosure(v ssa.Value, p *ssa.Parameter, f *ssa.Function) bool {
	return derives(v, func(x ssa.Value) bool {
		if x == p {
			return true
		}
		fv, ok := x.(*ssa.FreeVar)
		if !ok || f.Parent() == nil {
			return false
		}
		// find binding in parent
		for _, b := range f.Parent().Blocks {
			for _, in := range b.Instrs {
				mc, ok := in.(*ssa.MakeClosure)
				if !ok || mc.Fn != f {
					continue
				}
				for k, fvv := range f.FreeVars {
					if fvv != fv {
						continue
					}
					bind := mc.Bindings[k]
					if bind == p {
						return true
					}
					if a, ok := bind.(*ssa.Alloc); ok {
						for _, r := range *a.Referrers() {
							if st, ok := r.(*ssa.Store); ok && st.Addr == a && (st.Val == p || derives(st.Val, func(y ssa.Value) bool { return y == p })) {
								return true
							}
						}
					}
				}
			}
		}
		return false
	})
}

// runLockPairing (E7): every non-deferred Lock/RLock is released on every path to every return.
func runLockPairing(c *Ctx, rule string, pkgs []string) {
	n := 0
	for _, f := range c.AllFns {
		in := false
		for _, p := range pkgs {
			if f.Pkg != nil && f.Pkg == c.spkg(p) || (f.Parent() != nil && rootPkg(f) == c.spkg(p)) {
				in = true
			}
		}
		if !in {
			continue
		}
		eachInstr(f, func(l ssa.Instruction) {
			path, kind := lockCallKind(l)
			if kind != "lock" && kind != "rlock" {
				return
			}
			n++
			want := "unlock"
			if kind == "rlock" {
				want = "runlock"
			}
			ret, open := exitReachableAvoiding(l, func(i ssa.Instruction) bool {
				p, k := lockCallKind(i)
				return p == path && (k == want || k == "defer-"+want)
			})
			pos := l.Pos()
			if open {
				pos = ret.Pos()
			}
			c.check(rule, fnKey(f)+"|"+kind+" "+strings.TrimPrefix(path, "proxy.")+" released on every path", pos, !open,
				"a path from this "+kind+" reaches a return without releasing the mutex: every later Lock (e.g. in proxy.Shutdown) blocks forever")
		})
	}
	c.atLeast(rule, "lock acquisitions", n, 8)
}

func rootPkg(f *ssa.Function) *ssa.Package {
	for f.Parent() != nil {
		f = f.Parent()
	}
	return f.Pkg
}

func runC18O1(c *Ctx) {
	sd := c.method("proxy/tcp", "Server", "Shutdown")
	if !c.need("C18.O1", sd, "tcp.Server.Shutdown") {
		return
	}
	closesField := func(g *ssa.Function, field string) bool {
		// g (transitively, depth 2) calls Close on elements of s.<field>
		found := false
		var scan func(h *ssa.Function, d int)
		scan = func(h *ssa.Function, d int) {
			if d > 2 || h == nil {
				return
			}
			eachInstr(h, func(i ssa.Instruction) {
				cc := callCommon(i)
				if cc == nil {
					return
				}
				if cc.IsInvoke() && cc.Method.Name() == "Close" {
					if derives(cc.Value, func(v ssa.Value) bool { _, ok := fieldOf(v, "tcp.Server", field); return ok }) {
						found = true
					}
					// ranging over a map: key/value extracted from a Range over the field
					if derives(cc.Value, func(v ssa.Value) bool {
						if e, ok := v.(*ssa.Extract); ok {
							if nx, ok := e.Tuple.(*ssa.Next); ok {
								if rg, ok := nx.Iter.(*ssa.Range); ok {
									_, isF := fieldOf(rg.X, "tcp.Server", field)
									return isF
								}
							}
						}
						return false
					}) {
						found = true
					}
				}
				if sc := cc.StaticCallee(); sc != nil && isRepoFn(sc) {
					scan(sc, d+1)
				}
			})
		}
		scan(g, 0)
		return found
	}
	var lisCall, connCall ssa.Instruction
	var waitI ssa.Instruction
	eachInstr(sd, func(i ssa.Instruction) {
		if cc := callCommon(i); cc != nil {
			if sc := cc.StaticCallee(); sc != nil && isRepoFn(sc) {
				if closesField(sc, "listeners") && lisCall == nil {
					lisCall = i
				}
				if closesField(sc, "conns") {
					connCall = i
				}
			}
		}
		if u, ok := i.(*ssa.UnOp); ok && u.Op == token.ARROW {
			if call, ok := u.X.(*ssa.Call); ok && call.Call.IsInvoke() && call.Call.Method.Name() == "Done" {
				waitI = i
			}
		}
	})
	if lisCall == nil || connCall == nil || waitI == nil {
		c.undecided("C18.O1", "(*proxy/tcp.Server).Shutdown|close listeners / wait on ctx / close connections", "one of the three steps was not found")
		return
	}
	c.check("C18.O1", "(*proxy/tcp.Server).Shutdown|listeners closed before the wait", lisCall.Pos(), dominatesInstr(lisCall, waitI),
		"the listeners must be closed before waiting on ctx.Done(): otherwise new connections are accepted during the whole shutdown wait")
	c.check("C18.O1", "(*proxy/tcp.Server).Shutdown|connections closed after the wait", connCall.Pos(), !pathAvoiding(connCall, waitI, nil) && pathAvoiding(waitI, connCall, nil),
		"open connections must be closed only after the wait: closing them first cuts tunnels that would have finished within the configured wait")
}

func runC18R1(c *Ctx) {
	sp := c.spkg("proxy")
	serve := c.fn("proxy", "serve")
	if sp == nil || !c.need("C18.R1", serve, "proxy.serve") {
		return
	}
	// serve registers the server under the lock before serving
	reg := false
	var regI, srvI ssa.Instruction
	eachInstr(serve, func(i ssa.Instruction) {
		if mu, ok := i.(*ssa.MapUpdate); ok {
			if u, ok := mu.Map.(*ssa.UnOp); ok {
				if g, ok := u.X.(*ssa.Global); ok && g.Name() == "servers" {
					reg = len(heldAt(i, true)) > 0
					regI = i
				}
			}
		}
		if cc := callCommon(i); cc != nil && cc.IsInvoke() && cc.Method.Name() == "Serve" {
			srvI = i
		}
	})
	c.check("C18.R1", "proxy.serve|registers the server under the lock before serving", serve.Pos(), reg && regI != nil && srvI != nil && dominatesInstr(regI, srvI),
		"serve() must enter the server into the registry (under mu) before calling Serve: proxy.Shutdown only reaches registered servers")
	n := 0
	for _, f := range c.AllFns {
		if rootPkg(f) != sp {
			continue
		}
		eachInstr(f, func(i ssa.Instruction) {
			cc := callCommon(i)
			if cc == nil || !cc.IsInvoke() || cc.Method.Name() != "Serve" || !namedIs(cc.Value.Type(), "proxy.Server") {
				return
			}
			n++
			root := f
			for root.Parent() != nil {
				root = root.Parent()
			}
			ok := root == serve || (root.Signature.Recv() != nil && root.Name() == "Serve")
			c.check("C18.R1", fnKey(root)+"|Serve called on a proxy.Server", i.Pos(), ok,
				"a server started without going through serve() is not in the registry, so proxy.Shutdown never stops it (its listener keeps accepting after shutdown began)")
		})
	}
	c.atLeast("C18.R1", "Serve invocations on proxy.Server", n, 2)
	// every ListenAndServe* returns through serve()
	nl := 0
	for _, m := range sp.Members {
		f, ok := m.(*ssa.Function)
		if !ok || !strings.HasPrefix(f.Name(), "ListenAndServe") {
			continue
		}
		nl++
		calls := false
		eachInstr(f, func(i ssa.Instruction) {
			if staticCalleeIs(i, serve) {
				calls = true
			}
		})
		c.check("C18.R1", fnKey(f)+"|serves through serve()", f.Pos(), calls, "every ListenAndServe* must start its server through serve() so that it is registered for shutdown")
	}
	c.atLeast("C18.R1", "ListenAndServe* functions", nl, 4)
}

func runC18E1(c *Ctx) {
	mainFn := c.fn("main", "main")
	sd := c.fn("proxy", "Shutdown")
	if !c.need("C18.E1", mainFn, "main.main") || sd == nil {
		return
	}
	var cb *ssa.Function
	for _, f := range withAnon(mainFn) {
		eachInstr(f, func(i ssa.Instruction) {
			if staticCalleeIs(i, sd) {
				cb = f
			}
		})
	}
	if cb == nil {
		c.undecided("C18.E1", "main.main|exit callback", "no closure of main calls proxy.Shutdown")
		return
	}
	// it is the argument of exit.Listen
	registered := false
	eachInstr(mainFn, func(i ssa.Instruction) {
		cc := callCommon(i)
		if cc == nil || calleeName(cc) != repoMod+"/exit.Listen" {
			return
		}
		if mc, ok := cc.Args[0].(*ssa.MakeClosure); ok && mc.Fn == cb {
			registered = true
		}
	})
	c.check("C18.E1", "main.main|exit callback registered with exit.Listen", cb.Pos(), registered, "the shutdown sequence must be the callback given to exit.Listen")
	var dereg, sleep, shut ssa.Instruction
	eachInstr(cb, func(i ssa.Instruction) {
		cc := callCommon(i)
		if cc == nil {
			return
		}
		switch {
		case cc.IsInvoke() && cc.Method.Name() == "DeregisterAll":
			dereg = i
		case calleeName(cc) == "time.Sleep":
			if _, ok := fieldOf(cc.Args[0], "config.Proxy", "DeregisterGracePeriod"); ok {
				sleep = i
			}
		case cc.StaticCallee() == sd:
			shut = i
		}
	})
	if dereg == nil || sleep == nil || shut == nil {
		c.check("C18.E1", "main.main$exit|deregister, grace sleep, shutdown all present", cb.Pos(), false, "the exit callback must deregister from the registry, sleep proxy.deregistergraceperiod and then call proxy.Shutdown")
		return
	}
	order := !pathAvoiding(sleep, dereg, nil) && !pathAvoiding(shut, sleep, nil) && !pathAvoiding(shut, dereg, nil) && dominatesInstr(sleep, shut)
	c.check("C18.E1", "main.main$exit|deregister -> grace sleep -> proxy.Shutdown", shut.Pos(), order,
		"order matters: the instance must leave the registry and wait the grace period before listeners stop accepting, otherwise balancers still send new connections to closed listeners")
}
