package main

// C02, publication side: who holds the active table (A1), which values reach the holder and through which functions
// (publication sites), that only non-nil tables are stored (L3), that every table that enters the chain is a
// constructor's result that is nil whenever the configuration was invalid (L1, L2), and that nothing writes a table
// after it entered the chain (A2, for the publishing wrappers the shared rule does not see).
//
// Everything is found by ROLE: the holder is "the package-level variable whose sync/atomic cell is stored a
// route.Table", whatever its spelling (atomic.Value, atomic.Pointer[Table], either of them wrapped in a small struct
// with load/store methods, a pointer to one of them); a setter is "a function that hands its parameter to the atomic
// store", directly or through such wrappers; a getter is "a parameterless function that returns what the atomic load
// yields".

import (
	"go/token"
	"go/types"
	"strings"

	"golang.org/x/tools/go/ssa"
)

// c02op is one sync/atomic operation on the holder's cell.
type c02op struct {
	kind  string // "load" | "store" (store, swap, compare-and-swap)
	instr ssa.Instruction
	fn    *ssa.Function
	vals  []ssa.Value // store: the published value(s), interface box / address-of-a-cell stripped
	cell  *ssa.Alloc  // store of &v: the local cell whose address is published (assigned exactly once)
}

// c02holder describes one package-level variable that contains a sync/atomic cell and every use of it.
type c02holder struct {
	g        *ssa.Global
	ops      []c02op
	bad      []ssa.Instruction      // uses that are not an atomic operation on the cell
	wrappers map[*ssa.Function]bool // repository functions that receive the cell's address (methods of a wrapper type)
	seen     map[ssa.Value]bool     // addresses already expanded
	uses     map[*ssa.Global][]ssa.Instruction
}

func c02typeHasAtomic(t types.Type, depth int) bool {
	if depth > 4 {
		return false
	}
	switch x := t.(type) {
	case *types.Alias:
		return c02typeHasAtomic(types.Unalias(x), depth)
	case *types.Named:
		if o := x.Obj(); o.Pkg() != nil && o.Pkg().Path() == "sync/atomic" {
			return true
		}
		return c02typeHasAtomic(x.Underlying(), depth+1)
	case *types.Pointer:
		return c02typeHasAtomic(x.Elem(), depth+1)
	case *types.Array:
		return c02typeHasAtomic(x.Elem(), depth+1)
	case *types.Struct:
		for i := 0; i < x.NumFields(); i++ {
			if c02typeHasAtomic(x.Field(i).Type(), depth+1) {
				return true
			}
		}
	}
	return false
}

// c02strip removes the representation-only wrappers around a value.
func c02strip(v ssa.Value) ssa.Value {
	for {
		switch x := v.(type) {
		case *ssa.MakeInterface:
			v = x.X
		case *ssa.ChangeInterface:
			v = x.X
		case *ssa.ChangeType:
			v = x.X
		default:
			return v
		}
	}
}

func c02isTableType(t types.Type) bool { return namedIs(t, "route.Table") }

// use classifies one instruction that has addr (the holder, a field of it, or a wrapper's parameter bound to it)
// among its operands.
func (h *c02holder) use(addr ssa.Value, user ssa.Instruction, depth int) {
	switch x := user.(type) {
	case *ssa.DebugRef:
		return
	case *ssa.FieldAddr:
		if x.X == addr {
			if pt, ok := x.Type().Underlying().(*types.Pointer); ok && !c02typeHasAtomic(pt.Elem(), 0) {
				return // another field of the structure the cell lives in
			}
			h.usesOf(x, depth)
			return
		}
	case *ssa.UnOp:
		// var table = new(atomic.Value): the holder is a pointer that is loaded before every operation
		if x.Op == token.MUL && x.X == addr {
			if _, isPtr := x.Type().Underlying().(*types.Pointer); isPtr {
				h.usesOf(x, depth)
				return
			}
		}
	case *ssa.Store:
		if x.Addr == addr && isInitFn(x.Parent()) {
			if _, isPtr := x.Val.Type().Underlying().(*types.Pointer); isPtr {
				return // package initialisation allocates the cell
			}
		}
	}
	if cc := callCommon(user); cc != nil {
		if kind, cell, val, ok := atomicOp(cc); ok && cell == addr {
			op := c02op{instr: user, fn: user.Parent()}
			switch kind {
			case "load":
				op.kind = "load"
			case "store", "swap", "cas":
				op.kind = "store"
				if val != nil {
					for _, pv := range publishedValue(val) {
						op.vals = append(op.vals, c02strip(pv))
					}
					if a, ok := stripIface(val).(*ssa.Alloc); ok && len(op.vals) == 1 {
						op.cell = a
					}
				}
			default:
				h.bad = append(h.bad, user)
				return
			}
			h.ops = append(h.ops, op)
			return
		}
		if sc := cc.StaticCallee(); sc != nil && !cc.IsInvoke() && cc.Value != addr && isRepoFn(sc) && len(sc.Blocks) > 0 && depth < 3 {
			passed := false
			for k, a := range cc.Args {
				if a == addr && k < len(sc.Params) {
					passed = true
					h.wrappers[sc] = true
					h.usesOf(sc.Params[k], depth+1)
				}
			}
			if passed {
				return
			}
		}
	}
	h.bad = append(h.bad, user)
}

func (h *c02holder) usesOf(v ssa.Value, depth int) {
	if h.seen[v] {
		return
	}
	h.seen[v] = true
	if g, ok := v.(*ssa.Global); ok {
		for _, u := range h.uses[g] {
			h.use(v, u, depth)
		}
		return
	}
	if refs := v.Referrers(); refs != nil {
		for _, r := range *refs {
			h.use(v, r, depth)
		}
	}
}

func (h *c02holder) holdsTable() bool {
	for _, op := range h.ops {
		for _, v := range op.vals {
			if c02isTableType(v.Type()) {
				return true
			}
		}
	}
	return false
}

// c02site is a place where a table value enters, or moves along, the publication chain: an atomic store to the
// holder, or a static call of a function that hands the corresponding parameter on to one.
type c02site struct {
	instr     ssa.Instruction
	fn        *ssa.Function
	val       ssa.Value
	direct    bool   // the atomic store itself
	callee    string // fnKey of the publishing function called ("" for direct)
	forwarded bool   // val is fn's own publishing parameter: the value entered the chain further up
	cell      *ssa.Alloc
}

// c02pubs is the result of the publication analysis, shared by A1, A2, L1, L3 and L4.
type c02pubs struct {
	c       *Ctx
	holder  *c02holder
	pubs    map[*ssa.Function]int // function -> index (in Params) of the parameter that is published
	sites   []c02site
	getters []*ssa.Function // functions that yield the loaded table
	ctors   []*ssa.Function
	text    *ssa.Function // the constructor that parses configuration text (NewTable)
	invoked map[string][]*types.Interface
}

// c02onlyStatic: every caller of fn is a static call site in the repository. Like onlyStaticallyCalled, but a method
// counts as reachable through an interface only if its receiver type implements an interface through which a method
// of that name is actually invoked somewhere.
func (x *c02pubs) onlyStatic(fn *ssa.Function) bool {
	if fn == nil || gAddrTaken[fn] {
		return false
	}
	if fn.Parent() != nil {
		return true
	}
	if token.IsExported(fn.Name()) || fn.Name() == "init" || fn.Name() == "main" {
		return false
	}
	if recv := fn.Signature.Recv(); recv != nil {
		if x.invoked == nil {
			x.invoked = map[string][]*types.Interface{}
			for _, f := range c02fns(x.c) {
				eachInstr(f, func(i ssa.Instruction) {
					if cc := callCommon(i); cc != nil && cc.IsInvoke() {
						if it, ok := cc.Value.Type().Underlying().(*types.Interface); ok {
							x.invoked[cc.Method.Name()] = append(x.invoked[cc.Method.Name()], it)
						}
					}
				})
			}
		}
		rt := recv.Type()
		for _, it := range x.invoked[fn.Name()] {
			if types.Implements(rt, it) || types.Implements(types.NewPointer(rt), it) {
				return false
			}
		}
	}
	return true
}

// initLike: package initialisation - an init function, or an unexported helper that only init functions call.
func (x *c02pubs) initLike(f *ssa.Function, depth int) bool {
	if f == nil {
		return false
	}
	if isInitFn(f) {
		return true
	}
	sites := c02sites(f)
	if depth > 2 || len(sites) == 0 || !x.onlyStatic(f) {
		return false
	}
	for _, s := range sites {
		if s.Parent() == f || !x.initLike(s.Parent(), depth+1) {
			return false
		}
	}
	return true
}

func c02paramIndex(p *ssa.Parameter) int {
	if p == nil || p.Parent() == nil {
		return -1
	}
	for k, q := range p.Parent().Params {
		if q == p {
			return k
		}
	}
	return -1
}

// runC02A1 finds the atomic holder of the active table by role and checks how it is used.
func runC02A1(c *Ctx) *c02pubs {
	x := &c02pubs{c: c, pubs: map[*ssa.Function]int{}}
	sp := c.spkg("route")
	if sp == nil {
		c.undecided("C02.A1", "anchor|package route", "package not loaded")
		return x
	}
	// plain package-level variables of a table type are forbidden
	for _, m := range sp.Members {
		gl, ok := m.(*ssa.Global)
		if !ok {
			continue
		}
		if c02isTableType(gl.Type().(*types.Pointer).Elem()) {
			c.check("C02.A1", "route."+gl.Name()+"|plain table variable", gl.Pos(), false,
				"a package-level variable of type route.Table can be read while it is being replaced; the active table must be held in a sync/atomic value")
		}
	}
	// every package-level variable of the repository that contains a sync/atomic cell, and all uses of it
	uses := map[*ssa.Global][]ssa.Instruction{}
	for _, f := range c02fns(c) {
		eachInstr(f, func(i ssa.Instruction) {
			for _, op := range i.Operands(nil) {
				if op == nil || *op == nil {
					continue
				}
				if g, ok := (*op).(*ssa.Global); ok && g.Pkg != nil && strings.HasPrefix(g.Pkg.Pkg.Path(), repoMod) {
					uses[g] = append(uses[g], i)
					break
				}
			}
		})
	}
	var cands []*ssa.Global
	for g := range uses {
		if c02typeHasAtomic(g.Type().(*types.Pointer).Elem(), 0) {
			cands = append(cands, g)
		}
	}
	var holders []*c02holder
	for _, g := range cands {
		h := &c02holder{g: g, wrappers: map[*ssa.Function]bool{}, seen: map[ssa.Value]bool{}, uses: uses}
		h.usesOf(g, 0)
		if h.holdsTable() {
			holders = append(holders, h)
		}
	}
	if len(holders) == 0 {
		c.undecided("C02.A1", "anchor|atomic holder of the active table", "no package-level sync/atomic value of the repository is stored a route.Table")
		return x
	}
	if len(holders) > 1 {
		for _, h := range holders {
			c.check("C02.A1", h.g.Pkg.Pkg.Name()+"."+h.g.Name()+"|single holder of the active table", h.g.Pos(), false,
				"more than one package-level atomic value is stored a route.Table: lookups that read different holders are answered from different tables")
		}
	}
	h := holders[0]
	for _, o := range holders {
		if o.g.Pkg == sp {
			h = o
		}
	}
	x.holder = h
	gname := h.g.Pkg.Pkg.Name() + "." + h.g.Name()
	for _, i := range h.bad {
		c.check("C02.A1", fnKey(i.Parent())+"|use of "+gname, i.Pos(), false, "the holder of the active table may only be used as the receiver of an atomic Load or Store (directly or through the methods of its wrapper type)")
	}
	nLoad, nStore := 0, 0
	loaders := map[*ssa.Function]token.Pos{}
	for _, op := range h.ops {
		f := op.fn
		c.check("C02.A1", fnKey(f)+"|use of "+gname, op.instr.Pos(), true, "atomic "+op.kind)
		switch {
		case op.kind == "load":
			nLoad++
			if !x.initLike(f, 0) {
				if _, ok := loaders[f]; !ok {
					loaders[f] = op.instr.Pos()
				}
			}
		case x.initLike(f, 0):
		default:
			nStore++
			isParam := false
			for _, v := range op.vals {
				if p, ok := v.(*ssa.Parameter); ok && p.Parent() == f {
					isParam = true
					x.pubs[f] = c02paramIndex(p)
				}
			}
			c.check("C02.A1", fnKey(f)+"|setter stores its parameter", op.instr.Pos(), isParam, "outside package init the holder must be stored only the table parameter of the function that contains the store")
		}
	}
	c.atLeast("C02.A1", "atomic loads of the table holder", nLoad, 1)
	c.atLeast("C02.A1", "atomic stores to the table holder outside package init", nStore, 1)

	// getters: the function that loads, and every function that calls an unexported loader, only passes the table on
	work := []*ssa.Function{}
	for f := range loaders {
		work = append(work, f)
	}
	sortFns(work)
	done := map[*ssa.Function]bool{}
	for len(work) > 0 {
		f := work[0]
		work = work[1:]
		if done[f] {
			continue
		}
		done[f] = true
		shape := f.Signature.Params().Len() == 0
		hasTable := false
		for k := 0; k < f.Signature.Results().Len(); k++ {
			if c02isTableType(f.Signature.Results().At(k).Type()) {
				hasTable = true
			}
		}
		c.check("C02.A1", fnKey(f)+"|getter returns the loaded table", loaders[f], shape && hasTable,
			"the atomic holder must be read only in a getter (no parameters, returns the table): every other reader bypasses the one-snapshot-per-lookup rule")
		x.getters = append(x.getters, f)
		if !x.onlyStatic(f) {
			continue // exported getter: its callers are judged by A4
		}
		for _, s := range c02sites(f) {
			caller := s.Parent()
			if caller == nil || x.initLike(caller, 0) {
				continue
			}
			if _, ok := loaders[caller]; !ok {
				loaders[caller] = s.Pos()
			}
			work = append(work, caller)
		}
	}

	// publishing functions, transitively: f hands its parameter k to the atomic store or to another publishing function
	for changed := true; changed; {
		changed = false
		for _, f := range c02fns(c) {
			if _, ok := x.pubs[f]; ok {
				continue
			}
			eachInstr(f, func(i ssa.Instruction) {
				cc := callCommon(i)
				if cc == nil {
					return
				}
				sc := cc.StaticCallee()
				k, isPub := x.pubs[sc]
				if sc == nil || !isPub || k >= len(cc.Args) {
					return
				}
				if p, ok := c02strip(cc.Args[k]).(*ssa.Parameter); ok && p.Parent() == f {
					if _, ok := x.pubs[f]; !ok {
						x.pubs[f] = c02paramIndex(p)
						changed = true
					}
				}
			})
		}
	}
	// publication sites
	for _, op := range h.ops {
		if op.kind != "store" {
			continue
		}
		for _, v := range op.vals {
			s := c02site{instr: op.instr, fn: op.fn, val: v, direct: true, cell: op.cell}
			if p, ok := v.(*ssa.Parameter); ok && p.Parent() == op.fn {
				if k, isPub := x.pubs[op.fn]; isPub && k == c02paramIndex(p) {
					s.forwarded = true
				}
			}
			x.sites = append(x.sites, s)
		}
	}
	for _, f := range c02fns(c) {
		ff := f
		eachInstr(f, func(i ssa.Instruction) {
			cc := callCommon(i)
			if cc == nil {
				return
			}
			sc := cc.StaticCallee()
			k, isPub := x.pubs[sc]
			if sc == nil || !isPub || k >= len(cc.Args) {
				return
			}
			v := c02strip(cc.Args[k])
			s := c02site{instr: i, fn: ff, val: v, callee: fnKey(sc)}
			if p, ok := v.(*ssa.Parameter); ok && p.Parent() == ff {
				if kk, isPub := x.pubs[ff]; isPub && kk == c02paramIndex(p) {
					s.forwarded = true
				}
			}
			x.sites = append(x.sites, s)
		})
	}
	return x
}

func sortFns(fns []*ssa.Function) {
	for i := 1; i < len(fns); i++ {
		for j := i; j > 0 && fns[j].String() < fns[j-1].String(); j-- {
			fns[j], fns[j-1] = fns[j-1], fns[j]
		}
	}
}

// ---- A2 for publishing wrappers --------------------------------------------------------------------------------

// runC02A2wrappers applies "no write after the value was handed to the publishing function" to the call sites of
// functions that publish only through another repository function (SetTable -> (*activeTable).store -> Store): the
// shared rule recognises the innermost wrapper only.
func runC02A2wrappers(c *Ctx, x *c02pubs) {
	inner := publishers(c)
	for _, s := range x.sites {
		if s.direct {
			continue
		}
		cc := callCommon(s.instr)
		sc := cc.StaticCallee()
		if _, known := inner[sc]; known {
			continue // judged by the shared rule
		}
		v := cc.Args[x.pubs[sc]]
		bad := ""
		pos := s.instr.Pos()
		eachInstr(s.fn, func(j ssa.Instruction) {
			if j == s.instr || !pathAvoiding(s.instr, j, nil) {
				return
			}
			if w, ok := writesVia(c, j, v); ok {
				bad, pos = w, j.Pos()
			}
		})
		c.check("C02.A2", fnKey(s.fn)+"|no write after "+s.callee, pos, bad == "",
			"after "+s.callee+" the value is published; "+bad+" afterwards mutates the table concurrent lookups are reading")
	}
}

// ---- L3 ------------------------------------------------------------------------------------------------------------

// nonNilAt: v is not nil whenever control reaches block at: a fresh map, a dominating v != nil test, or the parameter
// of a helper all of whose (static) callers pass a non-nil value.
func (x *c02pubs) nonNilAt(v ssa.Value, at *ssa.BasicBlock, depth int) bool {
	return x.nonNilCell(v, nil, at, depth)
}

// nonNilCell: like nonNilAt; cell is the local variable (assigned once, with v) whose loads stand for v as well
// (`table.Store(&t)` makes the parameter t a memory cell, and `t == nil` tests a load of it).
func (x *c02pubs) nonNilCell(v ssa.Value, cell *ssa.Alloc, at *ssa.BasicBlock, depth int) bool {
	v = c02strip(v)
	same := func(o ssa.Value) bool {
		if o == v {
			return true
		}
		if u, ok := o.(*ssa.UnOp); ok && cell != nil && u.Op == token.MUL && u.X == ssa.Value(cell) {
			return true
		}
		return false
	}
	switch y := v.(type) {
	case *ssa.MakeMap, *ssa.Alloc, *ssa.MakeSlice:
		return true
	case *ssa.Parameter:
		if knownNonNil(at, same) || c02nonNilByPredicate(at, same) {
			return true
		}
		fn := y.Parent()
		k := c02paramIndex(y)
		sites := c02sites(fn)
		if depth >= 3 || k < 0 || len(sites) == 0 || !x.onlyStatic(fn) {
			return false
		}
		for _, s := range sites {
			cc := s.Common()
			if k >= len(cc.Args) || s.Block() == nil || !x.nonNilAt(cc.Args[k], s.Block(), depth+1) {
				return false
			}
		}
		return true
	}
	return knownNonNil(at, same) || c02nonNilByPredicate(at, same)
}

func runC02L3(c *Ctx, x *c02pubs) {
	if x.holder == nil {
		c.undecided("C02.L3", "anchor|table setter", "the atomic holder of the active table was not found")
		return
	}
	n := 0
	for _, s := range x.sites {
		if !s.direct {
			continue
		}
		if x.initLike(s.fn, 0) {
			c.check("C02.L3", fnKey(s.fn)+"|store only a non-nil table", s.instr.Pos(), !isNilConst(s.val), "package init must install a non-nil (empty) table: GetTable promises a non-nil table")
			continue
		}
		n++
		c.check("C02.L3", fnKey(s.fn)+"|store only a non-nil table", s.instr.Pos(), x.nonNilCell(s.val, s.cell, s.instr.Block(), 0),
			"the store must be dominated by the t != nil edge (in the function that stores or in every caller of that unexported helper): GetTable promises a non-nil table and the custom backend passes the constructor's nil result on errors")
	}
	c.atLeast("C02.L3", "atomic stores of a table outside package init", n, 1)
}

// ---- L2 ------------------------------------------------------------------------------------------------------------

func c02returnsTableErr(sig *types.Signature) bool {
	r := sig.Results()
	return r.Len() == 2 && c02isTableType(r.At(0).Type()) && typeStr(r.At(1).Type()) == "error"
}

// c02defNil: v is nil whenever control is at block at: the constant, a dominating v == nil test, or a merge of such.
func c02defNil(v ssa.Value, at *ssa.BasicBlock, seen map[ssa.Value]bool) bool {
	if isNilConst(v) {
		return true
	}
	if seen[v] {
		return true // a cycle adds nothing
	}
	seen[v] = true
	if at != nil && knownNil(at, sameVal(v)) {
		return true
	}
	if phi, ok := v.(*ssa.Phi); ok {
		for k, e := range phi.Edges {
			p := phi.Block().Preds[k]
			if c02edgeNil(p, phi.Block(), e) {
				continue
			}
			if !c02defNil(e, p, seen) {
				return false
			}
		}
		return true
	}
	return false
}

// c02edgeNil: the branch that ends block p establishes v == nil on its edge to q (`if err != nil {return}` directly
// followed by the merge).
func c02edgeNil(p, q *ssa.BasicBlock, v ssa.Value) bool {
	if len(p.Instrs) == 0 || len(p.Succs) != 2 || p.Succs[0] == p.Succs[1] {
		return false
	}
	iff, ok := p.Instrs[len(p.Instrs)-1].(*ssa.If)
	if !ok {
		return false
	}
	cond, truth := iff.Cond, p.Succs[0] == q
	for {
		u, isNot := cond.(*ssa.UnOp)
		if !isNot || u.Op != token.NOT {
			break
		}
		cond, truth = u.X, !truth
	}
	nn, ok := nilFact(Fact{cond, truth}, sameVal(v))
	return ok && !nn
}

// c02passThrough: the return hands on both results of one call of a (table, error) function: `return build(defs)`.
func c02passThrough(r *ssa.Return) *ssa.Call {
	if len(r.Results) != 2 {
		return nil
	}
	e0, ok0 := r.Results[0].(*ssa.Extract)
	e1, ok1 := r.Results[1].(*ssa.Extract)
	if !ok0 || !ok1 || e0.Tuple != e1.Tuple || e0.Index != 0 || e1.Index != 1 {
		return nil
	}
	call, _ := e0.Tuple.(*ssa.Call)
	return call
}

func runC02L2(c *Ctx, x *c02pubs) {
	x.text = c.fn("route", "NewTable")
	for _, n := range []string{"NewTable", "NewTableCustom"} {
		f := c.fn("route", n)
		if c.need("C02.L2", f, "route table constructor route."+n) {
			x.ctors = append(x.ctors, f)
		}
	}
	work := append([]*ssa.Function{}, x.ctors...)
	done := map[*ssa.Function]bool{}
	nRet := 0
	for len(work) > 0 {
		f := work[0]
		work = work[1:]
		if done[f] {
			continue
		}
		done[f] = true
		// judged per source-level return: a function that returns through result variables (deferred call, `return`
		// inside the body of a range-over-func loop) is judged where the variables are assigned
		rets, followed := c02logicalReturns(f)
		if !followed {
			c.check("C02.L2", fnKey(f)+"|result variables are only assigned and returned", f.Pos(), false,
				"the address of a result variable of this table constructor is handed to code that is not followed: it cannot be decided what the constructor returns with an error")
		}
		for _, r := range rets {
			if len(r.results) != 2 {
				continue
			}
			nRet++
			if c02defNil(r.results[1], r.block, map[ssa.Value]bool{}) {
				c.check("C02.L2", fnKey(f)+"|success return", r.pos, true, "error is nil")
				continue
			}
			if c02errReplaced(r) {
				c.check("C02.L2", fnKey(f)+"|error replaced by an error", r.pos, true, "only the error result is assigned, where it is non-nil already")
				continue
			}
			if call := c02passThroughVals(r.results[0], r.results[1]); call != nil {
				if sc := call.Call.StaticCallee(); sc != nil && isRepoFn(sc) && len(sc.Blocks) > 0 && c02returnsTableErr(sc.Signature) {
					// both results of a helper handed on unchanged: the helper's returns are judged instead
					c.check("C02.L2", fnKey(f)+"|hands on the results of "+fnKey(sc), r.pos, true, "judged at the returns of "+fnKey(sc))
					work = append(work, unwrap(sc))
					continue
				}
			}
			c.check("C02.L2", fnKey(f)+"|error return carries no table", r.pos, c02nilWhenErr(r.results[0], r.results[1], r.block, 0),
				"a constructor return whose error may be non-nil must return a nil table: a partially built table must never reach SetTable (the custom backend installs whatever it gets, relying on nil being ignored)")
		}
	}
	c.atLeast("C02.L2", "returns of the table constructors", nRet, 2)
}

// ---- L1 ------------------------------------------------------------------------------------------------------------

func (x *c02pubs) isCtor(f *ssa.Function) bool {
	for _, ct := range x.ctors {
		if ct != nil && f == ct {
			return true
		}
	}
	return false
}

// producer summarises a repository function that returns (route.Table, error) and is not a constructor itself:
// successBad - some return with a nil error carries a table that is not a constructor's valid result;
// errCarries - some return with a possibly non-nil error carries a table (the caller must test the error).
func (x *c02pubs) producer(f *ssa.Function, depth int) (successBad, errCarries bool) {
	if x.isCtor(f) {
		return false, false // judged by L2
	}
	if depth > 3 || len(f.Blocks) == 0 {
		return true, true
	}
	rets, followed := c02logicalReturns(f)
	if !followed {
		return true, true
	}
	for _, r := range rets {
		if len(r.results) != 2 {
			continue
		}
		if call := c02passThroughVals(r.results[0], r.results[1]); call != nil {
			if sc := call.Call.StaticCallee(); sc != nil && isRepoFn(sc) && c02returnsTableErr(sc.Signature) {
				sb, ec := x.producer(unwrap(sc), depth+1)
				successBad = successBad || sb
				errCarries = errCarries || ec
				continue
			}
		}
		if c02defNil(r.results[1], r.block, map[ssa.Value]bool{}) {
			if ok, _ := x.validTable(r.results[0], r.block, depth+1, map[ssa.Value]bool{}); !ok {
				successBad = true
			}
			continue
		}
		if c02errReplaced(r) {
			continue
		}
		if !c02nilWhenErr(r.results[0], r.results[1], r.block, 0) {
			errCarries = true
		}
	}
	return
}

// validTable: at block at, v is nil or the table a constructor returned without an error.
func (x *c02pubs) validTable(v ssa.Value, at *ssa.BasicBlock, depth int, seen map[ssa.Value]bool) (bool, string) {
	v = c02strip(v)
	if isNilConst(v) {
		return true, "nil (ignored by the setter, L3)"
	}
	if depth > 4 {
		return false, ""
	}
	if seen[v] {
		return true, "merge"
	}
	seen[v] = true
	switch y := v.(type) {
	case *ssa.Extract:
		call, isCall := y.Tuple.(*ssa.Call)
		if !isCall || y.Index != 0 {
			break
		}
		sc := call.Call.StaticCallee()
		if sc == nil || !isRepoFn(sc) || !c02returnsTableErr(sc.Signature) {
			break
		}
		sc = unwrap(sc)
		errNil := at != nil && knownNil(at, func(o ssa.Value) bool {
			e, isE := o.(*ssa.Extract)
			return isE && e.Tuple == call && e.Index == 1
		})
		if x.isCtor(sc) {
			if errNil {
				return true, "dominated by the constructor's err == nil edge"
			}
			return true, "the constructor's own table result: nil on every error return (L2) and ignored by the setter (L3)"
		}
		successBad, errCarries := x.producer(sc, depth+1)
		if successBad {
			return false, ""
		}
		if !errCarries {
			return true, "result of " + fnKey(sc) + ", which returns a constructor's result and nil with every error"
		}
		if errNil {
			return true, "result of " + fnKey(sc) + " on its err == nil edge"
		}
		return false, ""
	case *ssa.Call:
		sc := y.Call.StaticCallee()
		if sc == nil || !isRepoFn(sc) || len(sc.Blocks) == 0 || sc.Signature.Results().Len() != 1 {
			break
		}
		sc = unwrap(sc)
		all, n := true, 0
		eachInstr(sc, func(i ssa.Instruction) {
			if r, ok := i.(*ssa.Return); ok && len(r.Results) == 1 {
				n++
				if ok, _ := x.validTable(r.Results[0], r.Block(), depth+1, seen); !ok {
					all = false
				}
			}
		})
		if all && n > 0 {
			return true, "result of " + fnKey(sc) + ", every return of which is nil or a constructor's valid result"
		}
		return false, ""
	case *ssa.Phi:
		for k, e := range y.Edges {
			if ok, _ := x.validTable(e, y.Block().Preds[k], depth, seen); !ok {
				return false, ""
			}
		}
		return true, "every merged value is nil or a constructor's valid result"
	case *ssa.Parameter:
		fn := y.Parent()
		k := c02paramIndex(y)
		sites := c02sites(fn)
		if k < 0 || len(sites) == 0 || !x.onlyStatic(fn) {
			return false, ""
		}
		for _, s := range sites {
			cc := s.Common()
			if k >= len(cc.Args) || s.Block() == nil {
				return false, ""
			}
			if ok, _ := x.validTable(cc.Args[k], s.Block(), depth+1, seen); !ok {
				return false, ""
			}
		}
		return true, "every caller of " + fnKey(fn) + " passes nil or a constructor's valid result"
	case *ssa.UnOp:
		if a, isAlloc := y.X.(*ssa.Alloc); isAlloc && y.Op == token.MUL {
			n := 0
			for _, r := range *a.Referrers() {
				if st, ok := r.(*ssa.Store); ok && st.Addr == a {
					n++
					if ok, _ := x.validTable(st.Val, st.Block(), depth, seen); !ok {
						return false, ""
					}
				}
			}
			if n > 0 {
				return true, "every value assigned to the variable is nil or a constructor's valid result"
			}
		}
	}
	// shapes not modelled above: the value derives from a constructor call of this function whose err == nil edge dominates
	var ctorCall *ssa.Call
	derives(v, func(o ssa.Value) bool {
		if call, ok := o.(*ssa.Call); ok && x.isCtor(call.Call.StaticCallee()) {
			ctorCall = call
			return true
		}
		return false
	})
	if ctorCall != nil && at != nil && knownNil(at, func(o ssa.Value) bool {
		e, isE := o.(*ssa.Extract)
		return isE && e.Tuple == ctorCall && e.Index == 1
	}) {
		return true, "derived from the constructor's result on its err == nil edge"
	}
	return false, ""
}

func runC02L1(c *Ctx, x *c02pubs) {
	n := 0
	for _, s := range x.sites {
		if s.forwarded || x.initLike(s.fn, 0) {
			continue
		}
		n++
		what := "atomic store"
		if !s.direct {
			what = s.callee
		}
		ok, why := x.validTable(s.val, s.instr.Block(), 0, map[ssa.Value]bool{})
		detail := "the table handed to " + what + " must be nil or the result of NewTable/NewTableCustom obtained without an error"
		if ok {
			detail = why
		}
		c.check("C02.L1", fnKey(s.fn)+"|table handed to "+what, s.instr.Pos(), ok, detail+" — otherwise an invalid configuration replaces the last good table")
	}
	c.atLeast("C02.L1", "places where a table enters the publication chain", n, 1)
}
