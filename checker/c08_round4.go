package main

// Rules of C08 added after the fourth round of independently authored breaking changes (DESIGN 11.12); wired in
// zzz_round4.go.

import (
	"go/token"
	"go/types"
	"net/textproto"
	"strings"

	"golang.org/x/tools/go/ssa"
)

// ---- C08.X4: fabio never stores a possibly-nil value list under X-Forwarded-For ---------------------------------------
//
// "the real peer address is appended as the last element of X-Forwarded-For" rests on a TRUSTED step for plain requests
// (httputil.ReverseProxy appends the peer) and on fabio's copy of that step for websocket upgrades. Both give one state
// of the header map a special meaning: key present with a nil value list = "do not populate the header" (Go issue
// 38079). net/http never produces that state from what a client sends (an empty header line is []string{""}), so on
// today's tree the state cannot occur. It occurs as soon as fabio's own code stores a value list that can be nil
// directly into the map (h[k] = v): a filter that starts from `var res []string` and keeps nothing, the result of
// Header.Values for an absent key, a plain lookup of an absent key stored back, the constant nil. Then a client
// chooses (by sending only blank X-Forwarded-For lines, say) that the upstream never sees the peer address.
//
// The rule looks at every direct store into the request's header map (ssa.MapUpdate; the map found by role: r.Header,
// a copy, a helper parameter that is passed it, a fresh map that is stored into Request.Header) in the region of
// ServeHTTP whose key is, or can be, X-Forwarded-For (a constant of that canonical spelling, a helper parameter
// resolved per call site, a computed key such as the variable of a loop over all headers), and asks which values the
// stored operand can take. The walk back to the sources is PATH SENSITIVE in the way of C08.A4: a value that a fact on
// the way says is non-nil / non-empty (`if len(clean) > 0 { h[k] = clean } else { h.Del(k) }`), or that was read from
// the map under its own `ok`, contributes nothing. Unknown library calls are taken to return non-nil (no alarm).

const c08xffKey = "X-Forwarded-For"

func init() {
	const xffAnchor = "\t// set the X-Forwarded-For header for websocket\n"
	const tail = "var tlsver = map[uint16]string{"
	nonBlankNil := "func nonBlank(vals []string) []string {\n\tvar res []string\n\tfor _, v := range vals {\n\t\tif strings.TrimSpace(v) != \"\" {\n\t\t\tres = append(res, v)\n\t\t}\n\t}\n\treturn res\n}\n\n" + tail
	nonBlankInPlace := "func nonBlank(vals []string) []string {\n\tres := vals[:0]\n\tfor _, v := range vals {\n\t\tif strings.TrimSpace(v) != \"\" {\n\t\t\tres = append(res, v)\n\t\t}\n\t}\n\treturn res\n}\n\n" + tail
	nonBlankMake := "func nonBlank(vals []string) []string {\n\tres := make([]string, 0, len(vals))\n\tfor _, v := range vals {\n\t\tif strings.TrimSpace(v) != \"\" {\n\t\t\tres = append(res, v)\n\t\t}\n\t}\n\treturn res\n}\n\n" + tail
	addRound4("C08", "(X4) no code on the request path stores a value list that can be nil directly into the request's header map (h[k] = v) under a key that is or can be X-Forwarded-For: 'present with a nil list' is the state in which httputil.ReverseProxy and fabio's websocket copy of it do NOT append the peer address, and only fabio's own code can create it (from a filter that keeps nothing, Header.Values / a lookup of an absent key, nil); the possible values of the stored operand are found path-sensitively through helpers, merges, append/slicing and the facts (len(v) > 0, v != nil, the lookup's ok) known on the way.", runC08X4,
		mutant{Name: "blank X-Forwarded-For values filtered into a nil list and stored back (seed 8)", File: "proxy/http_headers.go", Old: xffAnchor, New: "\tif xff, ok := r.Header[\"X-Forwarded-For\"]; ok {\n\t\tr.Header[\"X-Forwarded-For\"] = nonBlank(xff)\n\t}\n\n" + xffAnchor, Expect: "C08.X4", More: []repl{{tail, nonBlankNil}}},
		mutant{Name: "benign: blank X-Forwarded-For values filtered in place (empty, never nil)", File: "proxy/http_headers.go", Old: xffAnchor, New: "\tif xff, ok := r.Header[\"X-Forwarded-For\"]; ok {\n\t\tr.Header[\"X-Forwarded-For\"] = nonBlank(xff)\n\t}\n\n" + xffAnchor, Expect: "", More: []repl{{tail, nonBlankInPlace}}},
		mutant{Name: "benign: blank values filtered into a made list", File: "proxy/http_headers.go", Old: xffAnchor, New: "\tif xff, ok := r.Header[\"X-Forwarded-For\"]; ok {\n\t\tr.Header[\"X-Forwarded-For\"] = nonBlank(xff)\n\t}\n\n" + xffAnchor, Expect: "", More: []repl{{tail, nonBlankMake}}},
		mutant{Name: "benign: nil-returning filter, the key is deleted when nothing is left", File: "proxy/http_headers.go", Old: xffAnchor, New: "\tif xff, ok := r.Header[\"X-Forwarded-For\"]; ok {\n\t\tif clean := nonBlank(xff); len(clean) > 0 {\n\t\t\tr.Header[\"X-Forwarded-For\"] = clean\n\t\t} else {\n\t\t\tr.Header.Del(\"X-Forwarded-For\")\n\t\t}\n\t}\n\n" + xffAnchor, Expect: "", More: []repl{{tail, nonBlankNil}}},
		mutant{Name: "benign: nil-returning filter, nil replaced by an empty list before the store", File: "proxy/http_headers.go", Old: xffAnchor, New: "\tif xff, ok := r.Header[\"X-Forwarded-For\"]; ok {\n\t\tclean := nonBlank(xff)\n\t\tif clean == nil {\n\t\t\tclean = []string{}\n\t\t}\n\t\tr.Header[\"X-Forwarded-For\"] = clean\n\t}\n\n" + xffAnchor, Expect: "", More: []repl{{tail, nonBlankNil}}},
		mutant{Name: "in-place filter of a plain lookup stored back although the key may be absent", File: "proxy/http_headers.go", Old: xffAnchor, New: "\txff := r.Header[\"X-Forwarded-For\"]\n\tr.Header[\"X-Forwarded-For\"] = nonBlank(xff)\n\n" + xffAnchor, Expect: "C08.X4", More: []repl{{tail, nonBlankInPlace}}},
		mutant{Name: "every header cleaned in a loop through a generic helper", File: "proxy/http_headers.go", Old: xffAnchor, New: "\tfor k, vv := range r.Header {\n\t\tsetValues(r.Header, k, nonBlank(vv))\n\t}\n\n" + xffAnchor, Expect: "C08.X4", More: []repl{{tail, "func setValues(h http.Header, key string, vals []string) {\n\th[key] = vals\n}\n\n" + nonBlankNil}}},
		mutant{Name: "X-Forwarded-For de-duplicated with Header.Values stored back unconditionally", File: "proxy/http_headers.go", Old: xffAnchor, New: "\tr.Header[\"X-Forwarded-For\"] = r.Header.Values(\"X-Forwarded-For\")\n\n" + xffAnchor, Expect: "C08.X4"},
		mutant{Name: "untrusted X-Forwarded-For dropped by storing nil", File: "proxy/http_headers.go", Old: xffAnchor, New: "\tif cfg.ClientIPHeader == \"X-Forwarded-For\" {\n\t\tr.Header[\"X-Forwarded-For\"] = nil\n\t}\n\n" + xffAnchor, Expect: "C08.X4"},
		mutant{Name: "benign: untrusted X-Forwarded-For dropped with Del", File: "proxy/http_headers.go", Old: xffAnchor, New: "\tif cfg.ClientIPHeader == \"X-Forwarded-For\" {\n\t\tr.Header.Del(\"X-Forwarded-For\")\n\t}\n\n" + xffAnchor, Expect: ""},
		mutant{Name: "header map rebuilt with filtered values and swapped in", File: "proxy/http_headers.go", Old: xffAnchor, New: "\tclean := make(http.Header, len(r.Header))\n\tfor k, vv := range r.Header {\n\t\tclean[k] = nonBlank(vv)\n\t}\n\tr.Header = clean\n\n" + xffAnchor, Expect: "C08.X4", More: []repl{{tail, nonBlankNil}}},
		mutant{Name: "benign: another header's values stored directly, possibly nil", File: "proxy/http_headers.go", Old: xffAnchor, New: "\tif via, ok := r.Header[\"Via\"]; ok {\n\t\tr.Header[\"Via\"] = nonBlank(via)\n\t}\n\n" + xffAnchor, Expect: "", More: []repl{{tail, nonBlankNil}}},
	)
}

// ---- C08.A2 (extended): the default port follows the connection, not the claimed scheme ------------------------------
//
// Seed 7 (the default of X-Forwarded-Port chosen by scheme(r), the HEURISTIC scheme that prefers a client-supplied
// X-Forwarded-Proto / Forwarded proto= over the connection) is a case of A2's condition "the value of a default header
// derives from the connection / the Host, and from no header the client sent" and is reported by it: the dependence
// walk (c08deps) follows the control dependence of the constant returns of the port helper into the scheme helper and
// finds the Get of X-Forwarded-Proto / Forwarded. Round 4 makes the message say so, follows the index of a table lookup
// (defaultPort[scheme(r)]) and stops counting the Upgrade header for X-Forwarded-Port: whether the request asks for a
// websocket upgrade is a fact about the request itself, and the CORRECT variant of the seed's idea - the default port of
// the connection's scheme (http/https/ws/wss from r.TLS and Upgrade) - depends on it without being steerable.

// c08a2ClientDep: the client-controlled headers that decide the value written for the default header k.
func c08a2ClientDep(k string, v ssa.Value, ctx c08ctx) (string, bool) {
	if v == nil {
		return "", false
	}
	d := c08deps(v, ctx)
	if k == "X-Forwarded-Port" {
		delete(d, "Upgrade")
	}
	if len(d) > 0 {
		return depsStr(d), true
	}
	key, dep := dependsOnClientHeader(v)
	if dep && k == "X-Forwarded-Port" && key == "Upgrade" {
		return "", false
	}
	return key, dep
}

func init() {
	const portDefault = "\tif r.TLS != nil {\n\t\treturn \"443\"\n\t}\n\treturn \"80\"\n"
	const connSwitch = "\tws := isWebsocketUpgrade(r)\n\tswitch {\n\tcase ws && r.TLS != nil:\n\t\treturn \"wss\"\n\tcase ws && r.TLS == nil:\n\t\treturn \"ws\"\n\tcase r.TLS != nil:\n\t\treturn \"https\"\n\tdefault:\n\t\treturn \"http\"\n\t}\n}\n"
	const localPortFn = "func localPort(r *http.Request) string {\n\tif r == nil {\n\t\treturn \"\"\n\t}\n\t// r.Host may be an IPv6 literal like [::1]:8080\n\tif _, port, err := net.SplitHostPort(r.Host); err == nil && port != \"\" {\n\t\treturn port\n\t}\n\tif r.TLS != nil {\n\t\treturn \"443\"\n\t}\n\treturn \"80\"\n}\n"
	addRound4("C08", "(A2, extended) the value of a default header - in particular the default X-Forwarded-Port for a Host without a port - is decided by the connection (r.TLS) and the Host only, never by the claimed scheme (X-Forwarded-Proto / Forwarded proto=, directly, through the scheme heuristic, a parameter or the key of a table lookup); that the port differs between plain and websocket requests (Upgrade) is not counted.", func(*Ctx) {},
		mutant{Name: "default port chosen by the heuristic scheme (seed 7)", File: "proxy/http_headers.go", Old: portDefault, New: "\tswitch scheme(r) {\n\tcase \"https\", \"wss\":\n\t\treturn \"443\"\n\t}\n\treturn \"80\"\n", Expect: "C08.A2"},
		mutant{Name: "default port chosen by the claimed scheme passed down as a parameter", File: "proxy/http_headers.go", Old: "r.Header.Set(\"X-Forwarded-Port\", localPort(r))", New: "r.Header.Set(\"X-Forwarded-Port\", localPort(r, proto))", Expect: "C08.A2", More: []repl{{"func localPort(r *http.Request) string {", "func localPort(r *http.Request, proto string) string {"}, {portDefault, "\tif proto == \"https\" || proto == \"wss\" {\n\t\treturn \"443\"\n\t}\n\treturn \"80\"\n"}}},
		mutant{Name: "default port looked up in a table by the heuristic scheme", File: "proxy/http_headers.go", Old: portDefault, New: "\tif p, ok := defaultPort[scheme(r)]; ok {\n\t\treturn p\n\t}\n\treturn \"80\"\n", Expect: "C08.A2", More: []repl{{"var tlsver = map[uint16]string{", "var defaultPort = map[string]string{\"http\": \"80\", \"ws\": \"80\", \"https\": \"443\", \"wss\": \"443\"}\n\nvar tlsver = map[uint16]string{"}}},
		mutant{Name: "default port 443 also when the client claims https", File: "proxy/http_headers.go", Old: portDefault, New: "\tif r.TLS != nil || r.Header.Get(\"X-Forwarded-Proto\") == \"https\" {\n\t\treturn \"443\"\n\t}\n\treturn \"80\"\n", Expect: "C08.A2"},
		mutant{Name: "default port from the suffix of the claimed scheme, in a helper", File: "proxy/http_headers.go", Old: portDefault, New: "\treturn schemePort(scheme(r))\n", Expect: "C08.A2", More: []repl{{"var tlsver = map[uint16]string{", "func schemePort(s string) string {\n\tif strings.HasSuffix(s, \"s\") {\n\t\treturn \"443\"\n\t}\n\treturn \"80\"\n}\n\nvar tlsver = map[uint16]string{"}}},
		mutant{Name: "benign: default port of the CONNECTION's scheme (scheme detection split into header part and connection part)", File: "proxy/http_headers.go", Old: connSwitch, New: "\treturn connScheme(r)\n}\n\n// connScheme is the scheme of the client's connection.\nfunc connScheme(r *http.Request) string {\n" + connSwitch, Expect: "", More: []repl{{portDefault, "\tswitch connScheme(r) {\n\tcase \"https\", \"wss\":\n\t\treturn \"443\"\n\t}\n\treturn \"80\"\n"}}},
		mutant{Name: "benign: port helper is told the host and whether the connection is secure", File: "proxy/http_headers.go", Old: "r.Header.Set(\"X-Forwarded-Port\", localPort(r))", New: "r.Header.Set(\"X-Forwarded-Port\", localPort(r.Host, r.TLS != nil))", Expect: "", More: []repl{{localPortFn, "func localPort(host string, secure bool) string {\n\t// host may be an IPv6 literal like [::1]:8080\n\tif _, port, err := net.SplitHostPort(host); err == nil && port != \"\" {\n\t\treturn port\n\t}\n\tif secure {\n\t\treturn \"443\"\n\t}\n\treturn \"80\"\n}\n"}}},
		mutant{Name: "port helper is told 'secure' from the claimed scheme", File: "proxy/http_headers.go", Old: "r.Header.Set(\"X-Forwarded-Port\", localPort(r))", New: "r.Header.Set(\"X-Forwarded-Port\", localPort(r.Host, proto == \"https\" || proto == \"wss\"))", Expect: "C08.A2", More: []repl{{localPortFn, "func localPort(host string, secure bool) string {\n\t// host may be an IPv6 literal like [::1]:8080\n\tif _, port, err := net.SplitHostPort(host); err == nil && port != \"\" {\n\t\treturn port\n\t}\n\tif secure {\n\t\treturn \"443\"\n\t}\n\treturn \"80\"\n}\n"}}},
	)
}

// ---- C08.X3 (repaired): branches that both websocket decisions pass through are not counted ---------------------------
//
// X3 compared ALL request headers on which reaching the X-Forwarded-For write resp. the tunnel construction depends and
// demanded that this be {Upgrade} alone. A request predicate in front of both (C12's seed 8: `!isCORSPreflight(r) &&
// !t.Authorized(...)` in ServeHTTP's auth gate, reading Origin and Access-Control-Request-Method) is a dependence of
// both sites and made the rule fire although the forwarding headers are untouched. The rule now leaves out every
// branch that all sites of both kinds depend on with the same outcome (see runC08X3 in c08_extra.go).

func init() {
	const gate = "\tif !t.Authorized(r, w, p.AuthSchemes) {"
	const helper = "func isCORSPreflight(r *http.Request) bool {\n\treturn r.Method == http.MethodOptions && r.Header.Get(\"Origin\") != \"\" && r.Header.Get(\"Access-Control-Request-Method\") != \"\"\n}\n\nfunc key(code int) string {"
	addRound4("C08", "(X3, repaired) branch conditions that every X-Forwarded-For write and every tunnel site depend on with the same outcome (an auth gate, a CORS-preflight or maintenance test in front of both) cannot make the two websocket decisions disagree and are not counted, whatever request headers they read.", func(*Ctx) {},
		mutant{Name: "benign: an unrelated request predicate (CORS preflight) in ServeHTTP's auth gate", File: "proxy/http_proxy.go", Old: gate, New: "\tif !isCORSPreflight(r) && !t.Authorized(r, w, p.AuthSchemes) {", Expect: "", More: []repl{{"func key(code int) string {", helper}}},
		mutant{Name: "benign: requests with a probe header are answered before anything is forwarded", File: "proxy/http_proxy.go", Old: gate, New: "\tif r.Header.Get(\"X-Fabio-Probe\") != \"\" {\n\t\tw.WriteHeader(http.StatusNoContent)\n\t\treturn\n\t}\n" + gate, Expect: ""},
		mutant{Name: "tunnel chosen only when the client also sent an Origin header", File: "proxy/http_proxy.go", Old: "\tcase isWebsocketUpgrade(r):", New: "\tcase isWebsocketUpgrade(r) && r.Header.Get(\"Origin\") != \"\":", Expect: "C08.X3"},
		mutant{Name: "unrelated predicate in the auth gate, and the tunnel chosen by the derived scheme", File: "proxy/http_proxy.go", Old: gate, New: "\tif !isCORSPreflight(r) && !t.Authorized(r, w, p.AuthSchemes) {", Expect: "C08.X3", More: []repl{{"func key(code int) string {", helper}, {"\tcase isWebsocketUpgrade(r):", "\tcase scheme(r) == \"ws\" || scheme(r) == \"wss\":"}}},
	)
}

// c08nilSrc is one place where a nil value list enters the stored value.
type c08nilSrc struct {
	pos  token.Pos
	what string
}

type c08nilWalk struct {
	seen map[ssa.Value]bool
	out  []c08nilSrc
}

func (w *c08nilWalk) add(pos token.Pos, what string) {
	src := c08nilSrc{pos, what}
	for _, o := range w.out {
		if o == src {
			return
		}
	}
	w.out = append(w.out, src)
}

// c08nonNilKnown: a fact says the slice v is not nil (v != nil, len(v) > 0 and its spellings).
func c08nonNilKnown(v ssa.Value, facts []c08fact) bool {
	if isNil, ok := c08nilKnown(v, facts); ok && !isNil {
		return true
	}
	return c08factKnows(facts, func(c ssa.Value, truth bool, ctx c08ctx) bool {
		// (inside a predicate helper - hasValues(vals) - the subject is the helper's parameter: c08sameIn maps it back)
		empty, ok := c08emptyTest(c, truth, func(x ssa.Value) bool { return c08sameIn(x, ctx, v) })
		return ok && !empty
	})
}

// c08sameIn: x, read in call context ctx, is the value v (directly, or as the helper parameter v is passed for).
func c08sameIn(x ssa.Value, ctx c08ctx, v ssa.Value) bool {
	if x == v {
		return true
	}
	rx, _ := c08arg(x, ctx)
	return rx == v || c08strip(rx) == c08strip(v)
}

// c08keyExcludesXFF: a fact says the computed key of a direct store is not X-Forwarded-For
// (`if k == "X-Forwarded-For" { continue }`, a switch case, strings.EqualFold, a predicate helper on the key).
func c08keyExcludesXFF(key ssa.Value, facts []c08fact) bool {
	isXFF := func(v ssa.Value, ctx c08ctx) bool {
		r, _ := c08arg(v, ctx)
		s, ok := constString(r)
		return ok && textproto.CanonicalMIMEHeaderKey(s) == c08xffKey
	}
	return c08factKnows(facts, func(c ssa.Value, truth bool, ctx c08ctx) bool {
		switch x := c.(type) {
		case *ssa.BinOp:
			if x.Op != token.EQL && x.Op != token.NEQ {
				return false
			}
			for _, p := range [][2]ssa.Value{{x.X, x.Y}, {x.Y, x.X}} {
				if isXFF(p[0], ctx) && c08sameIn(p[1], ctx, key) {
					return (x.Op == token.NEQ) == truth
				}
			}
		case *ssa.Call:
			if calleeName(&x.Call) == "strings.EqualFold" && len(x.Call.Args) == 2 && !truth {
				a, b := x.Call.Args[0], x.Call.Args[1]
				return (isXFF(a, ctx) && c08sameIn(b, ctx, key)) || (isXFF(b, ctx) && c08sameIn(a, ctx, key))
			}
		}
		return false
	})
}

// c08isHeaderMapType: net/http.Header, net/textproto.MIMEHeader or a plain map[string][]string.
func c08isHeaderMapType(t types.Type) bool {
	m, ok := t.Underlying().(*types.Map)
	if !ok {
		return false
	}
	s, ok := m.Elem().Underlying().(*types.Slice)
	return ok && isStringType(m.Key()) && isStringType(s.Elem())
}

// c08becomesReqHeader: the map (a fresh one, a clone) is stored into Request.Header later on, directly or through a
// conversion / a merge.
func c08becomesReqHeader(m ssa.Value) bool {
	seen := map[ssa.Value]bool{}
	var flows func(v ssa.Value, d int) bool
	flows = func(v ssa.Value, d int) bool {
		if v == nil || seen[v] || d > 4 || v.Referrers() == nil {
			return false
		}
		seen[v] = true
		for _, r := range *v.Referrers() {
			switch x := r.(type) {
			case *ssa.Store:
				if x.Val != v {
					continue
				}
				if _, ok := fieldOf(x.Addr, "http.Request", "Header"); ok {
					return true
				}
				// a local variable that lives in a cell: what is loaded from it
				if a, ok := x.Addr.(*ssa.Alloc); ok && a.Referrers() != nil {
					for _, r2 := range *a.Referrers() {
						if u, ok := r2.(*ssa.UnOp); ok && u.Op == token.MUL && flows(u, d+1) {
							return true
						}
					}
				}
			case *ssa.ChangeType:
				if flows(x, d+1) {
					return true
				}
			case *ssa.Phi:
				if flows(x, d+1) {
					return true
				}
			}
		}
		return false
	}
	return flows(m, 0)
}

// c08passesFirstArg: library functions whose result is nil exactly when their first argument is.
func c08passesFirstArg(callee string) bool {
	switch stripTypeArgs(callee) {
	case "slices.DeleteFunc", "slices.Delete", "slices.Compact", "slices.CompactFunc", "slices.Clip", "slices.Clone", "slices.Grow":
		return true
	}
	return false
}

// walk: collect the places from which a nil list can flow into v, given the facts known on the way to its use.
func (w *c08nilWalk) walk(v ssa.Value, at token.Pos, ctx c08ctx, facts []c08fact, depth int) {
	if v == nil || depth > 14 {
		return
	}
	if c08nonNilKnown(v, facts) {
		return
	}
	v, ctx = c08arg(v, ctx)
	if isNilConst(v) {
		w.add(at, "nil")
		return
	}
	if w.seen[v] { // on the current path only: another path may know less about the value
		return
	}
	w.seen[v] = true
	defer delete(w.seen, v)
	if c08nonNilKnown(v, facts) {
		return
	}
	if v.Pos().IsValid() {
		at = v.Pos()
	}
	switch x := v.(type) {
	case *ssa.Phi:
		for k, e := range x.Edges {
			pred := x.Block().Preds[k]
			f2 := append(append(append([]c08fact{}, facts...), c08localFacts(pred, ctx)...), c08edgeFacts(pred, x.Block(), ctx)...)
			pos := at
			if n := len(pred.Instrs); n > 0 && pred.Instrs[n-1].Pos().IsValid() {
				pos = pred.Instrs[n-1].Pos()
			}
			if isNilConst(e) {
				// `var res []string`: the declaration is where the nil comes from
				pos = x.Pos()
			}
			w.walk(e, pos, ctx, f2, depth+1)
		}
	case *ssa.ChangeType:
		w.walk(x.X, at, ctx, facts, depth+1)
	case *ssa.MakeSlice:
		// never nil
	case *ssa.Slice:
		// a[:] of an array (a literal) is never nil; s[i:j] of a slice is nil exactly when s is
		if _, isSlice := x.X.Type().Underlying().(*types.Slice); isSlice {
			w.walk(x.X, at, ctx, facts, depth+1)
		}
	case *ssa.UnOp:
		if x.Op != token.MUL {
			return
		}
		switch a := x.X.(type) {
		case *ssa.Alloc:
			// a local variable that lives in a cell (captured by a closure, address taken): its stores, and the zero
			// value when no store comes before the load
			if a.Referrers() == nil {
				return
			}
			initialised := false
			for _, r := range *a.Referrers() {
				st, ok := r.(*ssa.Store)
				if !ok || st.Addr != a {
					continue
				}
				if st.Parent() == x.Parent() && dominatesInstr(st, x) {
					initialised = true
				}
				f2 := append(append([]c08fact{}, facts...), c08localFacts(st.Block(), ctx)...)
				w.walk(st.Val, st.Pos(), ctx, f2, depth+1)
			}
			if !initialised {
				w.add(a.Pos(), "the zero value of a list variable")
			}
		case *ssa.FieldAddr:
			for _, st := range c08storesToField(a.X.Type(), a.Field) {
				w.walk(st.Val, st.Pos(), nil, append(append([]c08fact{}, facts...), c08facts(st.Block(), nil)...), depth+1)
			}
		}
	case *ssa.Lookup:
		// h[k] without `ok`: nil when the key is absent
		if !x.CommaOk && c08isHeaderMapType(x.X.Type()) {
			w.add(at, "the value of a map lookup whose key may be absent")
		}
	case *ssa.Extract:
		switch t := x.Tuple.(type) {
		case *ssa.Lookup:
			// v, ok := h[k]: nil when the key is absent, unless ok is known
			if x.Index != 0 || !c08isHeaderMapType(t.X.Type()) || t.Referrers() == nil {
				return
			}
			for _, r := range *t.Referrers() {
				if ok, isE := r.(*ssa.Extract); isE && ok.Index == 1 {
					if known, is := c08boolKnown(ok, facts); is && known {
						return // present: what the client (net/http: never nil) or earlier code put there is kept
					}
				}
			}
			w.add(at, "the value of a map lookup whose key may be absent")
		case *ssa.Call:
			sc := t.Call.StaticCallee()
			if sc == nil || !isRepoFn(sc) || len(sc.Blocks) == 0 {
				return
			}
			inner := append(c08ctx{t}, ctx...)
			eachInstr(sc, func(i ssa.Instruction) {
				ret, ok := i.(*ssa.Return)
				if !ok || x.Index >= len(ret.Results) {
					return
				}
				assume, feasible := c08returnFeasible(t, ret, x.Index, facts, inner)
				if !feasible {
					return
				}
				f2 := append(append(append([]c08fact{}, facts...), c08localFacts(ret.Block(), inner)...), assume...)
				w.walk(ret.Results[x.Index], ret.Pos(), inner, f2, depth+1)
			})
		}
	case *ssa.Call:
		n := calleeName(&x.Call)
		switch {
		case n == "builtin.append" && len(x.Call.Args) == 2:
			// append(s, e1, ...) with at least one element is never nil; append(s, t...) is nil when s is nil and t is empty
			if sl, ok := x.Call.Args[1].(*ssa.Slice); ok {
				if _, isArr := sl.X.Type().Underlying().(*types.Pointer); isArr {
					return
				}
			}
			w.walk(x.Call.Args[0], at, ctx, facts, depth+1)
			return
		case (n == "(net/http.Header).Values" || n == "(net/textproto.MIMEHeader).Values") && !x.Call.IsInvoke():
			w.add(at, "the result of Header.Values, which is nil when the header is absent")
			return
		case c08passesFirstArg(n) && len(x.Call.Args) >= 1:
			w.walk(x.Call.Args[0], at, ctx, facts, depth+1)
			return
		}
		sc := x.Call.StaticCallee()
		if sc == nil || !isRepoFn(sc) || len(sc.Blocks) == 0 || sc.Signature.Results().Len() != 1 {
			return // a library call: taken to return a non-nil list
		}
		inner := append(c08ctx{x}, ctx...)
		eachInstr(sc, func(i ssa.Instruction) {
			if ret, ok := i.(*ssa.Return); ok && len(ret.Results) == 1 {
				f2 := append(append([]c08fact{}, facts...), c08localFacts(ret.Block(), inner)...)
				w.walk(ret.Results[0], ret.Pos(), inner, f2, depth+1)
			}
		})
	case *ssa.Parameter:
		// not resolvable through the chain: what the callers pass
		idx := c08paramIndex(x)
		for _, s := range c08sitesOf(x.Parent()) {
			args := s.Common().Args
			if idx < 0 || idx >= len(args) || s.Block() == nil {
				continue
			}
			f2 := append(append([]c08fact{}, facts...), c08facts(s.Block(), nil)...)
			w.walk(args[idx], s.Pos(), nil, f2, depth+1)
		}
	case *ssa.FreeVar:
		fn := x.Parent()
		if fn == nil || fn.Parent() == nil {
			return
		}
		for k, fv := range fn.FreeVars {
			if fv != x {
				continue
			}
			eachInstr(fn.Parent(), func(i ssa.Instruction) {
				if mc, ok := i.(*ssa.MakeClosure); ok && mc.Fn == fn && k < len(mc.Bindings) {
					w.walk(mc.Bindings[k], mc.Pos(), nil, append([]c08fact{}, facts...), depth+1)
				}
			})
		}
	}
}

func runC08X4(c *Ctx) {
	serve := c.method("proxy", "HTTPProxy", "ServeHTTP")
	if serve == nil {
		return // reported by runC08
	}
	c08setCtx(c)
	reg := c08region(c, 6, serve)
	nMut := len(c08writes(reg))
	nStores := 0
	eachInstrOf(reg, func(f *ssa.Function, i ssa.Instruction) {
		mu, ok := i.(*ssa.MapUpdate)
		if !ok || !c08isHeaderMapType(mu.Map.Type()) {
			return
		}
		for _, ka := range c08keys(mu.Key, nil, 0) {
			recv, _ := c08arg(mu.Map, ka.ctx)
			if !c08reqHeader(recv) && !c08becomesReqHeader(recv) {
				continue
			}
			nMut++
			switch ka.key.kind {
			case "const":
				if textproto.CanonicalMIMEHeaderKey(ka.key.name) != c08xffKey {
					continue // a nil list under another name is an absent header for everybody who reads it
				}
			case "cfg":
				continue // a configured header name: the operator's choice, not X-Forwarded-For by construction
			default:
				if c08keyExcludesXFF(mu.Key, c08facts(mu.Block(), ka.ctx)) {
					continue // a computed key that the code has just told apart from X-Forwarded-For
				}
			}
			nStores++
			keyText := "X-Forwarded-For"
			if ka.key.kind != "const" {
				keyText = "a computed key (" + ka.key.name + "), which can be X-Forwarded-For"
			}
			where := fnKey(f)
			if len(ka.ctx) > 0 {
				where = fnKey(ka.ctx[len(ka.ctx)-1].Parent())
			}
			nw := &c08nilWalk{seen: map[ssa.Value]bool{}}
			nw.walk(mu.Value, mu.Pos(), ka.ctx, c08facts(mu.Block(), ka.ctx), 0)
			var why []string
			for _, src := range nw.out {
				why = append(why, src.what+" ("+c.pos(src.pos)+")")
			}
			c.check("C08.X4", where+"|value list stored under X-Forwarded-For is never nil", mu.Pos(), len(nw.out) == 0,
				"the list stored directly into the request's header map under "+keyText+" can be nil: "+strings.Join(why, "; ")+". 'Key present with a nil list' tells httputil.ReverseProxy (and fabio's websocket copy of that logic) NOT to add X-Forwarded-For at all, so for the client input that produces the nil (e.g. only blank X-Forwarded-For lines) the upstream never learns the real peer address; store an empty non-nil list, or delete the key when nothing is left")
		}
	})
	// the rule is a "never": with no direct store there is nothing to verify; the guard makes sure the header code of
	// the request path was in view at all
	c.atLeast("C08.X4", "mutations of the request's header map reachable from ServeHTTP (Set/Add/Del and direct stores)", nMut, 1)
	if nStores == 0 {
		c.ob("C08.X4", "proxy|no value list is stored directly under X-Forwarded-For", serve.Pos(), OK,
			"no h[k] = v on the request's header map with a key that can be X-Forwarded-For in the region of ServeHTTP")
	}
}
