package main

import (
	"go/token"

	"golang.org/x/tools/go/ssa"
)

// ---- O2 / O3: Table.Lookup ---------------------------------------------------------------------------------------

// c03TriedList: the []string whose elements are the host keys tried by a loop of the Lookup region: the loop calls a
// route-scanning function (or indexes the table itself) with an element of that list.
func c03TriedLists(c *Ctx, lk *ssa.Function, r *c03Roles) (lists []ssa.Value, at []ssa.Instruction) {
	elemList := func(v ssa.Value) ssa.Value {
		for d := 0; d < 6; d++ {
			switch x := v.(type) {
			case *ssa.UnOp:
				if x.Op != token.MUL {
					return nil
				}
				if ia, ok := x.X.(*ssa.IndexAddr); ok && c03IsStringSlice(ia.X.Type()) {
					return ia.X
				}
				return nil
			case *ssa.ChangeType:
				v = x.X
			case *ssa.Convert:
				v = x.X
			case *ssa.Call:
				if isTransparent(calleeName(&x.Call)) && len(x.Call.Args) > 0 {
					v = x.Call.Args[0]
					continue
				}
				return nil
			default:
				return nil
			}
		}
		return nil
	}
	seen := map[ssa.Value]bool{}
	for _, f := range c.region(lk) {
		for _, l := range loopsOf(f) {
			for b := range l.Body {
				for _, in := range b.Instrs {
					var keys []ssa.Value
					switch x := in.(type) {
					case *ssa.Call:
						sc := x.Call.StaticCallee()
						if sc == nil || !r.scans(c, sc) {
							continue
						}
						for _, a := range x.Call.Args {
							if c03IsString(a.Type()) {
								keys = append(keys, a)
							}
						}
					case *ssa.Lookup:
						if !c03IsTableT(x.X.Type()) {
							continue
						}
						keys = append(keys, x.Index)
					default:
						continue
					}
					for _, kv := range keys {
						if lst := elemList(kv); lst != nil && !seen[lst] {
							seen[lst] = true
							lists = append(lists, lst)
							at = append(at, in)
						}
					}
				}
			}
		}
	}
	return
}

// scans: calling g scans the routes of a host with the path matcher.
func (r *c03Roles) scans(c *Ctx, g *ssa.Function) bool {
	for _, h := range c.regionDepth(2, g) {
		if r.innerFns[h] {
			return true
		}
	}
	return false
}

func runC03O2O3(c *Ctx, r *c03Roles) {
	lk := c.method("route", "Table", "Lookup")
	if !c.need("C03.O3", lk, "route.Table.Lookup") {
		c.undecided("C03.O2", "anchor|route.Table.Lookup", "anchor does not resolve")
		return
	}
	lists, ats := c03TriedLists(c, lk, r)
	if len(lists) == 0 {
		c.undecided("C03.O3", "anchor|list of host keys tried by Table.Lookup", "no loop in Table.Lookup (or its helpers) hands an element of a []string to the route scan: the rule cannot be evaluated")
		c.undecided("C03.O2", "anchor|list of host keys tried by Table.Lookup", "no loop in Table.Lookup (or its helpers) hands an element of a []string to the route scan: the rule cannot be evaluated")
	}
	sk := &c03sortCk{c: c, seen: map[ssa.Value]bool{}}
	ranO2 := false
	fromTable := func(v ssa.Value) bool {
		return derives(v, func(x ssa.Value) bool {
			if _, ok := c03TableKey(x); ok {
				return true
			}
			if c03KeyList(x) {
				return true
			}
			if call, ok := x.(*ssa.Call); ok {
				if sc := call.Call.StaticCallee(); sc != nil {
					for _, h := range c.regionDepth(2, sc) {
						if r.matcherFns[h] {
							return true
						}
					}
				}
			}
			return false
		})
	}
	for li, lst := range lists {
		// resolve the list to the appends that produce it (through a phi, through the parameter of a helper)
		var appends []*ssa.Call
		okShape := true
		seen := map[ssa.Value]bool{}
		var resolve func(v ssa.Value, d int)
		resolve = func(v ssa.Value, d int) {
			if v == nil || seen[v] || d > 6 {
				return
			}
			seen[v] = true
			switch x := v.(type) {
			case *ssa.Call:
				if calleeName(&x.Call) == "builtin.append" && len(x.Call.Args) == 2 {
					appends = append(appends, x)
					return
				}
				okShape = false
			case *ssa.Phi:
				for _, e := range x.Edges {
					resolve(e, d+1)
				}
			case *ssa.Slice:
				resolve(x.X, d+1)
			case *ssa.Parameter:
				fn := x.Parent()
				sites := gSites[fn]
				if len(sites) == 0 || !c03SitesComplete(fn) {
					okShape = false
					return
				}
				for k, p := range fn.Params {
					if p == x {
						for _, s := range sites {
							if k < len(s.Common().Args) {
								resolve(s.Common().Args[k], d+1)
							}
						}
					}
				}
			default:
				okShape = false
			}
		}
		resolve(lst, 0)
		if len(appends) == 0 {
			// other spelling: the loop tries the matched hosts only and the host-less key is tried afterwards, when
			// the loop found nothing
			if c03FallbackAfterLoop(c, lk, r, ats[li]) && fromTable(lst) {
				ranO2 = true
				sk.check(lst, ats[li], 0)
				c.check("C03.O3", "(route.Table).Lookup|host-less routes tried after all matching hosts", ats[li].Pos(), true, "explicit fallback after the loop")
				continue
			}
		}
		okAppend := okShape && len(appends) > 0
		for _, call := range appends {
			first := call.Call.Args[0]
			// appended: exactly [""]
			emptyLast := false
			if sl, ok := call.Call.Args[1].(*ssa.Slice); ok {
				if arr, ok := sl.X.(*ssa.Alloc); ok {
					cnt := 0
					for _, ref := range *arr.Referrers() {
						if ia, ok := ref.(*ssa.IndexAddr); ok {
							for _, r2 := range *ia.Referrers() {
								if st, ok := r2.(*ssa.Store); ok {
									cnt++
									if s, isS := constString(st.Val); isS && s == "" {
										emptyLast = true
									}
								}
							}
						}
					}
					if cnt != 1 {
						emptyLast = false
					}
				}
			}
			if !emptyLast || !fromTable(first) {
				okAppend = false
				continue
			}
			// O2: the matched hosts in front of "" are specificity-sorted on every path
			ranO2 = true
			sk.check(first, call, 0)
		}
		c.check("C03.O3", "(route.Table).Lookup|host-less routes tried after all matching hosts", ats[li].Pos(), okAppend,
			"the list of host keys to try must be the matched hosts (keys of the table) followed by \"\" (append(hosts, \"\")): host-less routes are a fallback and must not shadow host-specific routes")
	}
	if ranO2 {
		c.atLeast("C03.O2", "specificity sorts feeding the host list of Table.Lookup", sk.okLeaves+c03countViol(c, "C03.O2"), 1)
	}

	// first non-nil target ends the loop (the only way back to the head with a target is the self-redirect skip)
	okStop := true
	nLoops := 0
	for _, f := range c.region(lk) {
		for _, l := range loopsOf(f) {
			hasInner := false
			for b := range l.Body {
				for _, in := range b.Instrs {
					if call, ok := in.(*ssa.Call); ok {
						if sc := call.Call.StaticCallee(); sc != nil && r.scans(c, sc) && c03TargetResult(sc) {
							hasInner = true
						}
					}
					if c03IsMatchCall(in) {
						hasInner = true // the scan is written out in the loop
					}
				}
			}
			if !hasInner {
				continue
			}
			nLoops++
			for k, p := range l.Head.Preds {
				if !l.Body[p] {
					continue
				}
				for _, in := range l.Head.Instrs {
					phi, ok := in.(*ssa.Phi)
					if !ok || !namedIs(phi.Type(), "route.Target") {
						continue
					}
					if c03NilOnEdge(phi.Edges[k], p, l.Head, 0) {
						continue
					}
					okStop = false
				}
			}
		}
	}
	c.check("C03.O3", "(route.Table).Lookup|first host that yields a target decides", lk.Pos(), okStop,
		"the loop over host keys must stop at the first key whose lookup returns a target (most specific host wins); continuing with a target in hand lets a less specific host overwrite it")
	c.atLeast("C03.O3", "loops of Table.Lookup that scan a host's routes for a target", nLoops, 1)
}

// c03FallbackAfterLoop: the region of Lookup scans the routes of the constant key "" at a place that the loop around
// `tried` dominates and that executes only when a *route.Target is known to be nil.
func c03FallbackAfterLoop(c *Ctx, lk *ssa.Function, r *c03Roles, tried ssa.Instruction) bool {
	l := c03InnermostLoop(tried.Parent(), tried.Block())
	if l == nil {
		return false
	}
	found := false
	eachInstr(tried.Parent(), func(i ssa.Instruction) {
		if found || l.Body[i.Block()] || !l.Head.Dominates(i.Block()) {
			return
		}
		emptyKey := false
		switch x := i.(type) {
		case *ssa.Call:
			sc := x.Call.StaticCallee()
			if sc == nil || !r.scans(c, sc) {
				return
			}
			for _, a := range x.Call.Args {
				if s, ok := constString(a); ok && s == "" && c03IsString(a.Type()) {
					emptyKey = true
				}
			}
			// only the key may be the empty constant: (host, path, trace ...) — require that the position of the
			// empty argument is the one the loop fills with the list element
			if tc, ok := tried.(*ssa.Call); ok && emptyKey {
				emptyKey = false
				for k, a := range tc.Call.Args {
					if k < len(x.Call.Args) && c03IsString(a.Type()) {
						if _, isConst := a.(*ssa.Const); !isConst {
							if s, ok := constString(x.Call.Args[k]); ok && s == "" {
								if u, isU := a.(*ssa.UnOp); isU {
									if _, isIA := u.X.(*ssa.IndexAddr); isIA {
										emptyKey = true
									}
								}
							}
						}
					}
				}
			}
		case *ssa.Lookup:
			if s, ok := constString(x.Index); ok && s == "" && c03IsTableT(x.X.Type()) {
				emptyKey = true
			}
		}
		if !emptyKey {
			return
		}
		for _, ft := range factsAt(i.Block()) {
			if nn, ok := nilFact(ft, func(v ssa.Value) bool { return namedIs(v.Type(), "route.Target") }); ok && !nn {
				found = true
			}
		}
	})
	return found
}

// c03NilOnEdge: value e is nil whenever control passes from block `from` to block `to`: a nil constant, a value
// known nil at `from` (branch facts), the value whose nil test ends `from` with the nil branch leading to `to`, or a
// phi all of whose incoming values are nil on their edges (the post block of a three-clause for merges `continue`
// and the fall-through).
func c03NilOnEdge(e ssa.Value, from, to *ssa.BasicBlock, depth int) bool {
	if isNilConst(e) || knownNil(from, sameVal(e)) {
		return true
	}
	if len(from.Instrs) > 0 && len(from.Succs) == 2 {
		if iff, ok := from.Instrs[len(from.Instrs)-1].(*ssa.If); ok && from.Succs[0] != from.Succs[1] {
			if nn, isN := nilFact(Fact{iff.Cond, from.Succs[0] == to}, sameVal(e)); isN && !nn {
				return true
			}
		}
	}
	if phi, ok := e.(*ssa.Phi); ok && depth < 4 {
		for k, in := range phi.Edges {
			if in == e {
				continue
			}
			if !c03NilOnEdge(in, phi.Block().Preds[k], phi.Block(), depth+1) {
				return false
			}
		}
		return true
	}
	return false
}

func c03TargetResult(f *ssa.Function) bool {
	res := f.Signature.Results()
	for k := 0; k < res.Len(); k++ {
		if namedIs(res.At(k).Type(), "route.Target") {
			return true
		}
	}
	return false
}

func c03countViol(c *Ctx, rule string) int {
	n := 0
	for _, o := range c.Obs {
		if o.Rule == rule && o.st != OK {
			n++
		}
	}
	return n
}
