package main

// Rules of C11 added after the rounds of independently authored breaking changes (DESIGN 11.6, 11.7).

import (
	"go/token"
	"go/types"
	"strings"

	"golang.org/x/tools/go/ssa"
)

// ---- C11.M3: wildcard candidates keep the label count ------------------------------------------------------------

// c11labelsInPlace: s is strings.Split(x, ".") (possibly handed down through helper parameters) and the only stores into
// its elements are "*".
func c11labelsInPlace(s ssa.Value, depth int) bool {
	if s == nil || depth > 3 {
		return false
	}
	if refs := s.Referrers(); refs != nil {
		for _, r := range *refs {
			if ia, isIA := r.(*ssa.IndexAddr); isIA && ia.X == s {
				for _, r2 := range *ia.Referrers() {
					if st, isSt := r2.(*ssa.Store); isSt && st.Addr == ia {
						if v, isK := constString(st.Val); !isK || v != "*" {
							return false
						}
					}
				}
			}
		}
	}
	switch x := s.(type) {
	case *ssa.Call:
		if calleeName(&x.Call) == "strings.Split" && len(x.Call.Args) == 2 {
			sep, _ := constString(x.Call.Args[1])
			return sep == "."
		}
	case *ssa.Parameter:
		fn := x.Parent()
		sites := gSites[fn]
		if fn == nil || len(sites) == 0 || !onlyStaticallyCalled(fn) {
			return false
		}
		for k, p := range fn.Params {
			if p != x {
				continue
			}
			for _, site := range sites {
				cc := site.Common()
				if k >= len(cc.Args) || !c11labelsInPlace(cc.Args[k], depth+1) {
					return false
				}
			}
			return true
		}
	}
	return false
}

func runC11M3(c *Ctx, m *c11Model) {
	if len(m.cbs) == 0 || m.idxFld == "" {
		return // reported by M1 / the model
	}
	n := 0
	eachInstrOf(m.hsReg, func(f *ssa.Function, i ssa.Instruction) {
		lk, ok := i.(*ssa.Lookup)
		if !ok || !m.isIndexMap(lk.X) {
			return
		}
		// what the key is made of: "*" constants in its data flow (concatenated wildcards) and strings.Join calls
		star := false
		var joins []*ssa.Call
		derives(lk.Index, func(v ssa.Value) bool {
			if s, isK := constString(v); isK && strings.Contains(s, "*") {
				star = true
			}
			if call, isC := v.(*ssa.Call); isC && calleeName(&call.Call) == "strings.Join" {
				joins = append(joins, call)
			}
			return false
		})
		if !star && len(joins) == 0 {
			return // exact lookup: the key is the normalised name itself
		}
		n++
		ok2 := !star && len(joins) > 0
		for _, join := range joins {
			sep, _ := constString(join.Call.Args[1])
			if sep != "." || !c11labelsInPlace(join.Call.Args[0], 0) {
				ok2 = false
			}
		}
		c.check("C11.M3", fnKey(f)+"|wildcard candidate keeps the label count of the requested name", lk.Pos(), ok2,
			"a wildcard certificate covers exactly the labels it replaces: candidates must be the requested name with labels replaced by \"*\" in place (strings.Split / store \"*\" / strings.Join), so '*.bar.com' is tried for 'a.bar.com' but never for 'a.b.bar.com'; building candidates as \"*.\"+<parent domain> presents a wildcard certificate for names it does not cover instead of the default certificate (or none with strict matching)")
	})
	c.atLeast("C11.M3", "wildcard lookups in the name index below the handshake callbacks", n, 1)
}

// ---- C11.M4: only names are indexed ----------------------------------------------------------------------------------

// c11keyIsName: at block b the index key is known non-empty or is an element of a certificate's DNSNames. A key that is
// the parameter of an unexported helper is judged at every call site of the helper. leaves counts the judged origins.
func c11keyIsName(b *ssa.BasicBlock, key ssa.Value, depth int, leaves *int) bool {
	for {
		call, isCall := key.(*ssa.Call)
		if isCall && len(call.Call.Args) == 1 && (calleeName(&call.Call) == "strings.ToLower" || calleeName(&call.Call) == "strings.TrimSpace") {
			key = call.Call.Args[0]
			continue
		}
		break
	}
	nonEmpty := lenLowerBound(b, key, 0) >= 1
	for _, f := range factsAt(b) {
		if bo, isB := f.Cond.(*ssa.BinOp); isB && (bo.Op == token.NEQ || bo.Op == token.EQL) {
			for _, p := range [][2]ssa.Value{{bo.X, bo.Y}, {bo.Y, bo.X}} {
				if s, isK := constString(p[1]); isK && s == "" && samePath(key)(p[0]) && f.Truth == (bo.Op == token.NEQ) {
					nonEmpty = true
				}
			}
		}
	}
	if nonEmpty || strings.Contains(accessPath(key), ".DNSNames[") {
		*leaves++
		if p, ok := key.(*ssa.Parameter); ok && p.Parent() != nil && len(gSites[p.Parent()]) > 1 {
			*leaves += len(gSites[p.Parent()]) - 1 // a guarded helper: every call site hands it one origin
		}
		return true
	}
	// an element of a list of names (built by a helper, appended to step by step): every element the list can hold
	if u, ok := key.(*ssa.UnOp); ok && u.Op == token.MUL && depth < 3 {
		if ia, ok := u.X.(*ssa.IndexAddr); ok {
			if elems, known := c11elems(ia.X, 0, map[ssa.Value]bool{}); known && len(elems) > 0 {
				all := true
				for _, e := range elems {
					if e.whole {
						if !strings.HasSuffix(accessPath(e.v), ".DNSNames") {
							all = false
						}
						*leaves++
						continue
					}
					if !c11keyIsName(e.b, e.v, depth+1, leaves) {
						all = false
					}
				}
				return all
			}
		}
	}
	if p, ok := key.(*ssa.Parameter); ok && depth < 3 {
		fn := p.Parent()
		sites := gSites[fn]
		if fn != nil && len(sites) > 0 && onlyStaticallyCalled(fn) {
			for k, q := range fn.Params {
				if q != p {
					continue
				}
				all := true
				for _, s := range sites {
					cc := s.Common()
					if k >= len(cc.Args) || s.Block() == nil || !c11keyIsName(s.Block(), cc.Args[k], depth+1, leaves) {
						all = false
					}
				}
				return all
			}
		}
	}
	*leaves++
	return false
}

func runC11M4(c *Ctx, m *c11Model) {
	if m.idxFld == "" {
		return // reported by the model
	}
	// the index is told from other maps of the same type (a map[string]tls.Certificate of the PEM loader or of an issuing
	// source) by where it is filled: below the publish entry or a function that installs the index field, or in a map
	// read from the index field
	var builders []*ssa.Function
	if m.entry != nil {
		builders = append(builders, m.entry)
	}
	for _, f := range c.fnsWhere("cert", func(f *ssa.Function) bool {
		hit := false
		eachInstr(f, func(i ssa.Instruction) {
			if _, isStore := i.(*ssa.Store); isStore && m.isIndexWrite(i) {
				hit = true
			}
		})
		return hit
	}) {
		builders = append(builders, f)
	}
	inBuilder := map[*ssa.Function]bool{}
	for _, f := range c11region(c, builders...) {
		inBuilder[f] = true
	}
	fromIndexField := func(v ssa.Value) bool {
		return derives(v, func(x ssa.Value) bool {
			switch y := x.(type) {
			case *ssa.FieldAddr:
				return m.idxPath[c11fieldKey(y.X.Type(), y.Field)]
			case *ssa.Field:
				return m.idxPath[c11fieldKey(y.X.Type(), y.Field)]
			}
			return false
		})
	}
	n := 0
	for _, f := range c.fnsWhere("cert", func(*ssa.Function) bool { return true }) {
		eachInstr(f, func(i ssa.Instruction) {
			mu, ok := i.(*ssa.MapUpdate)
			if !ok || !m.isIndexMap(mu.Map) || !(inBuilder[f] || fromIndexField(mu.Map)) {
				return
			}
			c.check("C11.M4", fnKey(f)+"|index key "+shortPath(mu.Key)+" is a name", i.Pos(), c11keyIsName(i.Block(), mu.Key, 0, &n),
				"an index key must be known non-empty (len(name) > 0) or be an element of the certificate's DNSNames: a SAN-only certificate has an empty common name, and an entry under \"\" is what a client hello without a server name looks up — it would get that certificate instead of the first one (or instead of none with strict matching)")
		})
	}
	c.atLeast("C11.M4", "origins of keys stored into the name index (common name, SANs)", n, 2)
}

// ---- C11.M5: the publish entry publishes every set it is given -------------------------------------------------------

func runC11M5(c *Ctx, m *c11Model) {
	set := m.entry
	if set == nil || len(set.Blocks) == 0 || len(set.Blocks[0].Instrs) == 0 {
		return // reported by A1
	}
	first := set.Blocks[0].Instrs[0]
	exit, skip := exitReachableAvoiding(first, m.isPublish)
	if liftMust(m.isPublish, 1)(first) {
		skip = false
	}
	pos := set.Pos()
	if exit != nil {
		pos = exit.Pos()
	}
	c.check("C11.M5", fnKey(set)+"|every path publishes the new set", pos, !skip,
		"the function that is given a new certificate set can return without storing it: whatever notion of 'unchanged' guards the store, the default certificate is the FIRST of the most recently loaded set, so a reordered or otherwise 'equal' set must still replace the old one")
}

// c11elem: one origin of the elements of a []string: a single value added at block b, or a whole slice spliced in.
type c11elem struct {
	v     ssa.Value
	b     *ssa.BasicBlock
	whole bool
}

// c11elems enumerates what a []string can hold: nil, append chains (single values and spliced slices), merges, the
// result of a repository helper (its returned lists), re-slicings. known=false when some origin is not understood.
func c11elems(s ssa.Value, depth int, seen map[ssa.Value]bool) (out []c11elem, known bool) {
	if s == nil || depth > 8 {
		return nil, false
	}
	if seen[s] {
		return nil, true
	}
	seen[s] = true
	switch x := s.(type) {
	case *ssa.Const:
		return nil, x.Value == nil
	case *ssa.Phi:
		for _, e := range x.Edges {
			o, k := c11elems(e, depth+1, seen)
			if !k {
				return nil, false
			}
			out = append(out, o...)
		}
		return out, true
	case *ssa.Slice:
		return c11elems(x.X, depth+1, seen)
	case *ssa.MakeSlice:
		return nil, true // elements come through later stores; none here (append chains start from it)
	case *ssa.UnOp:
		if x.Op == token.MUL {
			if _, isField := x.X.(*ssa.FieldAddr); isField {
				return []c11elem{{v: x, whole: true}}, true
			}
			if a, isAlloc := x.X.(*ssa.Alloc); isAlloc {
				for _, r := range *a.Referrers() {
					if st, ok := r.(*ssa.Store); ok && st.Addr == a {
						o, k := c11elems(st.Val, depth+1, seen)
						if !k {
							return nil, false
						}
						out = append(out, o...)
					}
				}
				return out, true
			}
		}
		return nil, false
	case *ssa.Call:
		if calleeName(&x.Call) == "builtin.append" && len(x.Call.Args) == 2 {
			o, k := c11elems(x.Call.Args[0], depth+1, seen)
			if !k {
				return nil, false
			}
			out = append(out, o...)
			if pack := c01Variadic(x.Call.Args[1]); len(pack) > 0 {
				for _, v := range pack {
					out = append(out, c11elem{v: v, b: x.Block()})
				}
				return out, true
			}
			o, k = c11elems(x.Call.Args[1], depth+1, seen)
			if !k {
				return nil, false
			}
			return append(out, o...), true
		}
		if sc := x.Call.StaticCallee(); sc != nil && isRepoFn(sc) && len(sc.Blocks) > 0 {
			ok := true
			eachInstr(sc, func(i ssa.Instruction) {
				r, isRet := i.(*ssa.Return)
				if !isRet {
					return
				}
				for _, res := range r.Results {
					if _, isSlice := res.Type().Underlying().(*types.Slice); !isSlice {
						continue
					}
					o, k := c11elems(res, depth+1, seen)
					if !k {
						ok = false
					}
					out = append(out, o...)
				}
			})
			return out, ok
		}
	}
	return nil, false
}
