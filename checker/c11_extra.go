package main

// Rules of C11 added after the rounds of independently authored breaking changes (DESIGN 11.6, 11.7).

import (
	"go/token"
	"strings"

	"golang.org/x/tools/go/ssa"
)

func runC11M3(c *Ctx) {
	getCert := c.fn("cert", "getCertificate")
	if getCert == nil {
		return
	}
	n := 0
	eachInstr(getCert, func(i ssa.Instruction) {
		lk, ok := i.(*ssa.Lookup)
		if !ok || !strings.HasSuffix(accessPath(lk.X), "NameToCertificate") {
			return
		}
		// exact lookup: the key is the normalised name itself (no "*" involved)
		star := derives(lk.Index, func(v ssa.Value) bool { s, ok := constString(v); return ok && strings.Contains(s, "*") })
		join, isJoin := lk.Index.(*ssa.Call)
		if !star && !(isJoin && calleeName(&join.Call) == "strings.Join") {
			return
		}
		n++
		ok2 := false
		if isJoin && calleeName(&join.Call) == "strings.Join" {
			if sep, _ := constString(join.Call.Args[1]); sep == "." {
				// joined slice = strings.Split(name, ".") with in-place "*" stores only
				if sp, isSp := join.Call.Args[0].(*ssa.Call); isSp && calleeName(&sp.Call) == "strings.Split" {
					if s, _ := constString(sp.Call.Args[1]); s == "." {
						ok2 = true
						for _, r := range *sp.Referrers() {
							if ia, isIA := r.(*ssa.IndexAddr); isIA {
								for _, r2 := range *ia.Referrers() {
									if st, isSt := r2.(*ssa.Store); isSt {
										if v, isK := constString(st.Val); !isK || v != "*" {
											ok2 = false
										}
									}
								}
							}
						}
					}
				}
			}
		}
		c.check("C11.M3", "cert.getCertificate|wildcard candidate keeps the label count of the requested name", lk.Pos(), ok2,
			"a wildcard certificate covers exactly the labels it replaces: candidates must be the requested name with labels replaced by \"*\" in place (strings.Split / store \"*\" / strings.Join), so '*.bar.com' is tried for 'a.bar.com' but never for 'a.b.bar.com'; building candidates as \"*.\"+<parent domain> presents a wildcard certificate for names it does not cover instead of the default certificate (or none with strict matching)")
	})
	c.atLeast("C11.M3", "wildcard lookups in the name index", n, 1)
}

// ---- C12.A1: an auth scheme's positive verdict comes from the credential matcher, per request ------------------

func runC11M4(c *Ctx) {
	build := c.method("cert", "certstore", "BuildNameToCertificate")
	if !c.need("C11.M4", build, "cert.certstore.BuildNameToCertificate") {
		return
	}
	n := 0
	eachInstr(build, func(i ssa.Instruction) {
		mu, ok := i.(*ssa.MapUpdate)
		if !ok || !strings.HasSuffix(accessPath(mu.Map), "NameToCertificate") {
			return
		}
		n++
		key := mu.Key
		for {
			call, isCall := key.(*ssa.Call)
			if isCall && calleeName(&call.Call) == "strings.ToLower" {
				key = call.Call.Args[0]
				continue
			}
			break
		}
		nonEmpty := lenLowerBound(i.Block(), key, 0) >= 1
		for _, f := range factsAt(i.Block()) {
			if b, isB := f.Cond.(*ssa.BinOp); isB && (b.Op == token.NEQ || b.Op == token.EQL) {
				if s, isK := constString(b.Y); isK && s == "" && samePath(key)(b.X) && f.Truth == (b.Op == token.NEQ) {
					nonEmpty = true
				}
			}
		}
		san := strings.Contains(accessPath(key), ".DNSNames[")
		c.check("C11.M4", "cert.certstore.BuildNameToCertificate|index key "+shortPath(mu.Key)+" is a name", i.Pos(), nonEmpty || san,
			"an index key must be known non-empty (len(name) > 0) or be an element of the certificate's DNSNames: a SAN-only certificate has an empty common name, and an entry under \"\" is what a client hello without a server name looks up — it would get that certificate instead of the first one (or instead of none with strict matching)")
	})
	c.atLeast("C11.M4", "stores into the name index", n, 2)
}

// ---- C11.M5: SetCertificates publishes every set it is given -------------------------------------------------

func runC11M5(c *Ctx) {
	set := c.method("cert", "Store", "SetCertificates")
	if !c.need("C11.M5", set, "cert.Store.SetCertificates") {
		return
	}
	isPublish := func(i ssa.Instruction) bool {
		cc := callCommon(i)
		return cc != nil && calleeName(cc) == "(*sync/atomic.Value).Store"
	}
	if len(set.Blocks) == 0 || len(set.Blocks[0].Instrs) == 0 {
		return
	}
	first := set.Blocks[0].Instrs[0]
	exit, skip := exitReachableAvoiding(first, isPublish)
	if isPublish(first) {
		skip = false
	}
	pos := set.Pos()
	if exit != nil {
		pos = exit.Pos()
	}
	c.check("C11.M5", "(*cert.Store).SetCertificates|every path publishes the new set", pos, !skip,
		"SetCertificates can return without storing the set it was given: whatever notion of 'unchanged' guards the store, the default certificate is the FIRST of the most recently loaded set, so a reordered or otherwise 'equal' set must still replace the old one")
}

// ---- C12.X1: X-Forwarded-For elements are judged as written -------------------------------------------------
