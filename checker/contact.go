package main

import (
	"strings"

	"golang.org/x/tools/go/ssa"
)

// Upstream-contact primitives (DESIGN §4 E4 G1), by resolved callee.
var contactPrims = map[string]bool{
	"net.Dial":                                       true,
	"net.DialTimeout":                                true,
	"net.DialTCP":                                    true,
	"(*net.Dialer).Dial":                             true,
	"(*net.Dialer).DialContext":                      true,
	"crypto/tls.Dial":                                true,
	"crypto/tls.DialWithDialer":                      true,
	"(*crypto/tls.Dialer).Dial":                      true,
	"(*crypto/tls.Dialer).DialContext":               true,
	"google.golang.org/grpc.Dial":                    true,
	"google.golang.org/grpc.DialContext":             true,
	"google.golang.org/grpc.NewClient":               true,
	"(net/http.RoundTripper).RoundTrip":              true,
	"(*net/http.Transport).RoundTrip":                true,
	"(*net/http.Client).Do":                          true,
	"(*net/http.Client).Get":                         true,
	"net/http.Get":                                   true,
	"(*net/http/httputil.ReverseProxy).ServeHTTP":    true,
	"net/http/httputil.NewSingleHostReverseProxy":    true,
	"(net/http.Handler).ServeHTTP":                   true, // a dynamic handler may be a reverse proxy
	"(*google.golang.org/grpc.ClientConn).NewStream": true,
}

type contactInfo struct {
	memo map[*ssa.Function]int // 0 unknown, 1 computing, 2 no, 3 yes
}

// isContactInstr reports whether instruction i (in some repo function) contacts
// an upstream directly or through a repo callee, and describes how.
func (c *Ctx) isContactInstr(ci *contactInfo, i ssa.Instruction) (string, bool) {
	if a, ok := i.(*ssa.Alloc); ok {
		if namedIs(a.Type(), "httputil.ReverseProxy") {
			return "builds httputil.ReverseProxy", true
		}
	}
	cc := callCommon(i)
	if cc != nil {
		n := calleeName(cc)
		if contactPrims[n] {
			return "calls " + n, true
		}
		if sc := cc.StaticCallee(); sc != nil && isRepoFn(sc) && c.fnContacts(ci, unwrap(sc)) {
			return "calls " + fnKey(sc) + " (reaches an upstream-contact primitive)", true
		}
	}
	// function values: primitives or contacting closures used as values
	for _, op := range i.Operands(nil) {
		if op == nil || *op == nil {
			continue
		}
		if cc != nil && !cc.IsInvoke() && *op == cc.Value {
			continue
		}
		switch x := (*op).(type) {
		case *ssa.Function:
			if contactPrims[funcName(x)] {
				return "passes " + funcName(x) + " as a value", true
			}
			if isRepoFn(x) && c.fnContacts(ci, unwrap(x)) {
				return "passes " + fnKey(x) + " as a value", true
			}
		case *ssa.MakeClosure:
			if fn, ok := x.Fn.(*ssa.Function); ok {
				t := unwrap(fn)
				if contactPrims[funcName(t)] {
					return "binds " + funcName(t), true
				}
				if c.fnContacts(ci, t) {
					return "builds closure " + fnKey(fn) + " (reaches an upstream-contact primitive)", true
				}
			}
		}
	}
	return "", false
}

func (c *Ctx) fnContacts(ci *contactInfo, f *ssa.Function) bool {
	if ci.memo == nil {
		ci.memo = map[*ssa.Function]int{}
	}
	switch ci.memo[f] {
	case 1, 2:
		return false
	case 3:
		return true
	}
	ci.memo[f] = 1
	res := false
	if len(f.Blocks) > 0 {
		for _, b := range f.Blocks {
			for _, i := range b.Instrs {
				if _, ok := c.isContactInstr(ci, i); ok {
					res = true
				}
			}
		}
	}
	if res {
		ci.memo[f] = 3
	} else {
		ci.memo[f] = 2
	}
	return res
}

// contactSites lists the instructions of f that contact an upstream.
func (c *Ctx) contactSites(f *ssa.Function) map[ssa.Instruction]string {
	ci := &contactInfo{}
	out := map[ssa.Instruction]string{}
	eachInstr(f, func(i ssa.Instruction) {
		if how, ok := c.isContactInstr(ci, i); ok {
			out[i] = how
		}
	})
	return out
}

func siteKey(how string) string {
	// symbolic: strip the explanatory tail
	if k := strings.Index(how, " (reaches"); k >= 0 {
		how = how[:k]
	}
	return how
}
