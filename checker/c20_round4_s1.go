package main

// C20.S1 (round 4, seeded/C20-8): the access-log event describes the request AS THE CLIENT SENT IT. ServeHTTP rewrites
// the request for the upstream while it handles it (Host for host=dst / host=<name>, the forwarding headers, r.URL for
// websockets, whatever the inner handler does), and logs afterwards. So every component of the request that flows into
// Event.RequestURL has to be READ before anything on the request path WRITES that component: a value "put together for
// the log" next to the Log call is put together from the rewritten request.
//
// The rule follows the value stored into Event.RequestURL backwards (url.URL literal, its members, locals, helpers and
// their parameters) to the places where a component of a *http.Request is read (r.Host, r.URL.Path, r.Header.Get(k),
// r.TLS; a helper that is handed the request reads what its body reads), lists the places where the request path writes
// a component (stores to the request's fields, Header.Set/Add/Del with a constant key, helpers that do so, the inner
// handler), and requires that no write of a component can be followed by a read of the same component.

import (
	"go/token"
	"go/types"
	"net/textproto"
	"sort"
	"strings"

	"golang.org/x/tools/go/ssa"
)

func init() {
	const build = "\t// build the request url since r.URL will get modified\n\t// by the reverse proxy and contains only the RequestURI anyway\n\trequestURL := &url.URL{\n\t\tScheme:   scheme(r),\n\t\tHost:     r.Host,\n\t\tPath:     r.URL.Path,\n\t\tRawQuery: r.URL.RawQuery,\n\t}\n"
	const logIf = "\tif p.Logger != nil {\n\t\tp.Logger.Log(&logger.Event{\n"
	const lateLit = "\t\trequestURL := &url.URL{\n\t\t\tScheme:   scheme(r),\n\t\t\tHost:     r.Host,\n\t\t\tPath:     reqPath,\n\t\t\tRawQuery: reqQuery,\n\t\t}\n"
	addRound4("C20", "(S1) the event's RequestURL is put together from the request as the client sent it: every component of the request that flows into it (r.Host, r.URL.Path/RawQuery, the headers and TLS state a helper such as scheme(r) looks at) is read before anything on the request path writes that component (r.Host = ... for host=dst, the forwarding headers set by addHeaders, r.URL = targetURL, the inner handler) - otherwise $request_url / $request_scheme describe the rewritten upstream request, not the client's.", runC20S1,
		// ---- breaks ----
		mutant{Name: "request URL assembled next to the Log call, only path and query saved (seeded C20-8)", File: "proxy/http_proxy.go", Old: build,
			New:    "\treqPath, reqQuery := r.URL.Path, r.URL.RawQuery\n",
			More:   []repl{{logIf, "\tif p.Logger != nil {\n" + lateLit + "\t\tp.Logger.Log(&logger.Event{\n"}},
			Expect: "C20.S1"},
		mutant{Name: "the host of the request URL filled in after the request was handled", File: "proxy/http_proxy.go", Old: "\t\tHost:     r.Host,\n\t\tPath:     r.URL.Path,\n", New: "\t\tPath:     r.URL.Path,\n",
			More:   []repl{{"\t// write access log\n", "\trequestURL.Host = r.Host\n\n\t// write access log\n"}},
			Expect: "C20.S1"},
		mutant{Name: "request URL built by a helper that is called in the event literal", File: "proxy/http_proxy.go", Old: build, New: "",
			More: []repl{{"\t\t\tRequestURL:      requestURL,\n", "\t\t\tRequestURL:      clientURL(r),\n"},
				{"func key(code int) string {", "func clientURL(r *http.Request) *url.URL {\n\treturn &url.URL{Scheme: scheme(r), Host: r.Host, Path: r.URL.Path, RawQuery: r.URL.RawQuery}\n}\n\nfunc key(code int) string {"}},
			Expect: "C20.S1"},
		mutant{Name: "the Host header is rewritten before the request URL is built", File: "proxy/http_proxy.go", Old: build,
			New:    "\tif t.Host == \"dst\" {\n\t\tr.Host = t.URL.Host\n\t}\n" + build,
			Expect: "C20.S1"},
		mutant{Name: "the forwarding headers are added before the request URL is built", File: "proxy/http_proxy.go", Old: build,
			New:    "\tif err := addHeaders(r, p.Config, t.StripPath); err != nil {\n\t\thttp.Error(w, \"cannot parse \"+r.RemoteAddr, http.StatusInternalServerError)\n\t\treturn\n\t}\n" + build,
			Expect: "C20.S1"},
		mutant{Name: "the event points at r.URL itself", File: "proxy/http_proxy.go", Old: build, New: "",
			More:   []repl{{"\t\t\tRequestURL:      requestURL,\n", "\t\t\tRequestURL:      r.URL,\n"}},
			Expect: "C20.S1"},
		mutant{Name: "scheme derived from a header that was set a few lines above", File: "proxy/http_proxy.go", Old: build,
			New:    "\tif r.TLS != nil {\n\t\tr.Header.Set(\"X-Forwarded-Proto\", \"https\")\n\t}\n" + build,
			Expect: "C20.S1"},
		mutant{Name: "the access log is written by a helper that puts the request URL together itself", File: "proxy/http_proxy.go", Old: build, New: "",
			More: []repl{{"\t// write access log\n\tif p.Logger != nil {\n\t\tp.Logger.Log(&logger.Event{\n\t\t\tStart:   start,\n\t\t\tEnd:     end,\n\t\t\tRequest: r,\n\t\t\tResponse: &http.Response{\n\t\t\t\tStatusCode:    rw.code,\n\t\t\t\tContentLength: int64(rw.size),\n\t\t\t},\n\t\t\tRequestURL:      requestURL,\n\t\t\tUpstreamAddr:    targetURL.Host,\n\t\t\tUpstreamService: t.Service,\n\t\t\tUpstreamURL:     targetURL,\n\t\t})\n\t}\n}\n",
				"\tp.accessLog(start, end, r, rw.code, rw.size, targetURL, t.Service)\n}\n\nfunc (p *HTTPProxy) accessLog(start, end time.Time, r *http.Request, code, size int, targetURL *url.URL, service string) {\n\tif p.Logger == nil {\n\t\treturn\n\t}\n\tu := url.URL{Scheme: scheme(r), Path: r.URL.Path, RawQuery: r.URL.RawQuery}\n\tu.Host = r.Host\n\tp.Logger.Log(&logger.Event{\n\t\tStart:           start,\n\t\tEnd:             end,\n\t\tRequest:         r,\n\t\tResponse:        &http.Response{StatusCode: code, ContentLength: int64(size)},\n\t\tRequestURL:      &u,\n\t\tUpstreamAddr:    targetURL.Host,\n\t\tUpstreamService: service,\n\t\tUpstreamURL:     targetURL,\n\t})\n}\n"}},
			Expect: "C20.S1"},
		// ---- the same ideas done correctly ----
		mutant{Name: "benign: all four inputs saved before the rewrite, URL assembled only when a logger is configured", File: "proxy/http_proxy.go", Old: build,
			New:    "\treqScheme, reqHost, reqPath, reqQuery := scheme(r), r.Host, r.URL.Path, r.URL.RawQuery\n",
			More:   []repl{{logIf, "\tif p.Logger != nil {\n\t\trequestURL := &url.URL{Scheme: reqScheme, Host: reqHost, Path: reqPath, RawQuery: reqQuery}\n\t\tp.Logger.Log(&logger.Event{\n"}},
			Expect: ""},
		mutant{Name: "benign: request URL built by a helper before the request is touched", File: "proxy/http_proxy.go", Old: build, New: "\trequestURL := clientURL(r)\n",
			More:   []repl{{"func key(code int) string {", "func clientURL(r *http.Request) *url.URL {\n\tu := new(url.URL)\n\tu.Scheme = scheme(r)\n\tu.Host = r.Host\n\tu.Path, u.RawQuery = r.URL.Path, r.URL.RawQuery\n\treturn u\n}\n\nfunc key(code int) string {"}},
			Expect: ""},
		mutant{Name: "benign: the rewriting of the request moved into a helper method, request URL built before it is called", File: "proxy/http_proxy.go",
			Old:    "\t// rewrite the Host header only after the forwarding headers have\n\t// been derived from the host the client asked for\n\tif t.Host == \"dst\" {\n\t\tr.Host = targetURL.Host\n\t} else if t.Host != \"\" {\n\t\tr.Host = t.Host\n\t}\n",
			New:    "\tp.rewriteHost(r, t, targetURL)\n",
			More:   []repl{{"func key(code int) string {", "func (p *HTTPProxy) rewriteHost(r *http.Request, t *route.Target, targetURL *url.URL) {\n\tswitch t.Host {\n\tcase \"\":\n\tcase \"dst\":\n\t\tr.Host = targetURL.Host\n\tdefault:\n\t\tr.Host = t.Host\n\t}\n}\n\nfunc key(code int) string {"}},
			Expect: ""},
		mutant{Name: "the rewriting of the request moved into a helper method that runs before the request URL is built", File: "proxy/http_proxy.go", Old: build,
			New:    "\tp.rewriteHost(r, t)\n" + build,
			More:   []repl{{"func key(code int) string {", "func (p *HTTPProxy) rewriteHost(r *http.Request, t *route.Target) {\n\tswitch t.Host {\n\tcase \"\":\n\tcase \"dst\":\n\t\tr.Host = t.URL.Host\n\tdefault:\n\t\tr.Host = t.Host\n\t}\n}\n\nfunc key(code int) string {"}},
			Expect: "C20.S1"},
		mutant{Name: "benign: the upstream request is a shallow copy whose Host is rewritten, the URL is built late from the original", File: "proxy/http_proxy.go", Old: build,
			New:    "\treqScheme, reqPath, reqQuery := scheme(r), r.URL.Path, r.URL.RawQuery\n\torig := r\n\tr = r.WithContext(r.Context())\n",
			More:   []repl{{logIf, "\tif p.Logger != nil {\n\t\trequestURL := &url.URL{Scheme: reqScheme, Host: orig.Host, Path: reqPath, RawQuery: reqQuery}\n\t\tp.Logger.Log(&logger.Event{\n"}},
			Expect: ""},
	)
}

// ---- accesses to the request -----------------------------------------------------------------------------------------

type c20reqAcc struct {
	at    ssa.Instruction
	part  string    // "Host", "TLS", "URL" (the pointer), "URL.Path", "URL.*", "Header" (the map), "Header[Forwarded]", "Header[*]", "*"
	base  ssa.Value // the request accessed, a value of at's function; nil: unknown
	write bool
	how   string
}

func c20isReqPtr(t types.Type) bool {
	p, ok := t.Underlying().(*types.Pointer)
	return ok && namedIs(p.Elem(), "net/http.Request")
}

func c20load(v ssa.Value) (addr ssa.Value, ok bool) {
	for {
		ct, isCT := v.(*ssa.ChangeType)
		if !isCT {
			break
		}
		v = ct.X
	}
	u, isU := v.(*ssa.UnOp)
	if !isU || u.Op != token.MUL {
		return nil, false
	}
	return u.X, true
}

// c20reqFieldAddr: addr is &req.F (part "F") or &req.URL.F (part "URL.F").
func c20reqFieldAddr(addr ssa.Value) (base ssa.Value, part string, ok bool) {
	fa, isFA := addr.(*ssa.FieldAddr)
	if !isFA {
		return nil, "", false
	}
	if c20isReqPtr(fa.X.Type()) {
		return fa.X, fieldName(fa.X.Type(), fa.Field), true
	}
	if inner, isLoad := c20load(fa.X); isLoad {
		if b, p, ok := c20reqFieldAddr(inner); ok && p == "URL" {
			return b, "URL." + fieldName(fa.X.Type(), fa.Field), true
		}
	}
	return nil, "", false
}

// c20reqMember: v is the loaded member `name` of a request (r.Header, r.URL).
func c20reqMember(v ssa.Value, name string) (base ssa.Value, ok bool) {
	addr, isLoad := c20load(v)
	if !isLoad {
		return nil, false
	}
	b, p, ok := c20reqFieldAddr(addr)
	return b, ok && p == name
}

func c20headerKey(v ssa.Value) string {
	if s, ok := constString(v); ok {
		return "Header[" + textproto.CanonicalMIMEHeaderKey(s) + "]"
	}
	return "Header[*]"
}

// c20innerHandler: a dynamic call that hands the request to the next handler: an interface method ServeHTTP, or a
// function value of the shape func(http.ResponseWriter, *http.Request).
func c20innerHandler(cc *ssa.CallCommon) bool {
	if cc.IsInvoke() {
		return cc.Method.Name() == "ServeHTTP"
	}
	if sc := cc.StaticCallee(); sc != nil {
		return sc.Synthetic != "" && strings.HasPrefix(sc.Name(), "ServeHTTP$") // the method value h.ServeHTTP
	}
	sig, ok := cc.Value.Type().Underlying().(*types.Signature)
	if !ok || sig.Results().Len() != 0 || sig.Params().Len() != 2 {
		return false
	}
	return namedIs(sig.Params().At(0).Type(), "net/http.ResponseWriter") && c20isReqPtr(sig.Params().At(1).Type())
}

var c20reqMethods = map[string]struct {
	part  string
	write bool
}{
	"(*net/http.Request).AddCookie":    {"Header[Cookie]", true},
	"(*net/http.Request).SetBasicAuth": {"Header[Authorization]", true},
	"(*net/http.Request).UserAgent":    {"Header[User-Agent]", false},
	"(*net/http.Request).Referer":      {"Header[Referer]", false},
	"(*net/http.Request).Cookie":       {"Header[Cookie]", false},
	"(*net/http.Request).Cookies":      {"Header[Cookie]", false},
	"(*net/http.Request).BasicAuth":    {"Header[Authorization]", false},
}

type c20reqScanner struct {
	memo map[*ssa.Function][]c20reqAcc
	busy map[*ssa.Function]bool
}

// scan lists the accesses the body of f makes to requests: its own loads, stores and header calls, and - at the call -
// what the repository helpers it hands a request to do with it.
func (s *c20reqScanner) scan(f *ssa.Function, depth int) []c20reqAcc {
	if f == nil || len(f.Blocks) == 0 {
		return nil
	}
	if a, ok := s.memo[f]; ok {
		return a
	}
	if s.busy[f] || depth > 4 {
		return nil
	}
	s.busy[f] = true
	defer delete(s.busy, f)
	var out []c20reqAcc
	add := func(at ssa.Instruction, part string, base ssa.Value, write bool, how string) {
		out = append(out, c20reqAcc{at, part, base, write, how})
	}
	eachInstr(f, func(i ssa.Instruction) {
		switch x := i.(type) {
		case *ssa.Store:
			if b, p, ok := c20reqFieldAddr(x.Addr); ok {
				add(i, p, b, true, "assignment to the request's "+p)
			}
			return
		case *ssa.UnOp:
			if x.Op == token.MUL {
				if b, p, ok := c20reqFieldAddr(x.X); ok && p != "Header" {
					add(i, p, b, false, "read of the request's "+p)
				}
			}
			return
		case *ssa.MapUpdate:
			if b, ok := c20reqMember(x.Map, "Header"); ok {
				add(i, c20headerKey(x.Key), b, true, "assignment to the request header map")
			}
			return
		case *ssa.Lookup:
			if b, ok := c20reqMember(x.X, "Header"); ok {
				add(i, c20headerKey(x.Index), b, false, "read of the request header map")
			}
			return
		}
		cc := callCommon(i)
		if cc == nil {
			return
		}
		name := calleeName(cc)
		switch name {
		case "(net/http.Header).Get", "(net/http.Header).Values", "(net/http.Header).Set", "(net/http.Header).Add", "(net/http.Header).Del":
			if len(cc.Args) >= 2 {
				if b, ok := c20reqMember(cc.Args[0], "Header"); ok {
					write := !strings.HasSuffix(name, ".Get") && !strings.HasSuffix(name, ".Values")
					add(i, c20headerKey(cc.Args[1]), b, write, name[strings.LastIndex(name, ".")+1:]+" on the request's header")
				}
			}
			return
		}
		if m, ok := c20reqMethods[name]; ok && len(cc.Args) > 0 {
			add(i, m.part, cc.Args[0], m.write, name)
			return
		}
		// a pointer to the request's URL handed on: whoever gets it reads the members when it runs
		for _, a := range cc.Args {
			if b, ok := c20reqMember(a, "URL"); ok {
				add(i, "URL.*", b, false, "the request's URL handed to "+name)
			}
		}
		var reqArgs []int
		for k, a := range cc.Args {
			if c20isReqPtr(a.Type()) {
				reqArgs = append(reqArgs, k)
			}
		}
		if len(reqArgs) == 0 {
			return
		}
		if sc := cc.StaticCallee(); sc != nil && isRepoFn(sc) && len(sc.Blocks) > 0 && !c20innerHandler(cc) {
			for _, k := range reqArgs {
				for _, sub := range s.summary(sc, k, depth+1) {
					add(i, sub.part, cc.Args[k], sub.write, sub.how+" in "+fnKey(sc))
				}
			}
			return
		}
		if c20innerHandler(cc) {
			for _, k := range reqArgs {
				add(i, "*", cc.Args[k], true, "the request handed to the next handler")
			}
		}
	})
	s.memo[f] = out
	return out
}

// summary: what sc does with the request it receives as parameter k.
func (s *c20reqScanner) summary(sc *ssa.Function, k, depth int) []c20reqAcc {
	if k >= len(sc.Params) {
		return nil
	}
	var out []c20reqAcc
	seen := map[string]bool{}
	for _, a := range s.scan(sc, depth) {
		if a.base != nil && !c20reqRoots(a.base, true)[sc.Params[k]] {
			continue
		}
		key := a.part
		if a.write {
			key = "w:" + key
		}
		if !seen[key] {
			seen[key] = true
			out = append(out, a)
		}
	}
	return out
}

// c20reqRoots: the request values v may denote: itself, the inputs of a merge and - when deep, i.e. for what a shallow
// copy shares with its original (the header map, the URL the pointer points to) - the receiver of WithContext.
func c20reqRoots(v ssa.Value, deep bool) map[ssa.Value]bool {
	out := map[ssa.Value]bool{}
	var walk func(v ssa.Value, d int)
	walk = func(v ssa.Value, d int) {
		if v == nil || out[v] || d > 8 {
			return
		}
		out[v] = true
		switch x := v.(type) {
		case *ssa.Phi:
			for _, e := range x.Edges {
				walk(e, d+1)
			}
		case *ssa.Call:
			if deep && calleeName(&x.Call) == "(*net/http.Request).WithContext" && len(x.Call.Args) > 0 {
				walk(x.Call.Args[0], d+1)
			}
		case *ssa.UnOp:
			if x.Op == token.MUL { // a request kept in a local cell
				for _, st := range c20cellStores(x.X) {
					walk(st, d+1)
				}
			}
		}
	}
	walk(v, 0)
	return out
}

func c20deepPart(part string) bool {
	return part == "*" || strings.HasPrefix(part, "Header[") || strings.HasPrefix(part, "URL.")
}

// c20partsClash: a write of part w changes what a read of part r sees.
func c20partsClash(w, r string) bool {
	switch {
	case w == "*" || r == "*":
		return true
	case w == "Header[*]":
		return false // a header whose name the operator configures (request id, client ip): not one the proxy itself reads back
	case w == r:
		return true
	case w == "URL":
		return strings.HasPrefix(r, "URL.")
	case w == "URL.*":
		return strings.HasPrefix(r, "URL.")
	case strings.HasPrefix(w, "URL."):
		return r == "URL.*"
	case w == "Header":
		return strings.HasPrefix(r, "Header[")
	case strings.HasPrefix(w, "Header["):
		return r == "Header[*]"
	}
	return false
}

// ---- what flows into the request URL ---------------------------------------------------------------------------------------

type c20urlWalk struct {
	sc    *c20reqScanner
	reads []c20reqAcc
	seen  map[ssa.Value]bool
}

func (w *c20urlWalk) read(at ssa.Instruction, part string, base ssa.Value, how string) {
	for _, r := range w.reads {
		if r.at == at && r.part == part {
			return
		}
	}
	w.reads = append(w.reads, c20reqAcc{at, part, base, false, how})
}

// value follows v backwards to the request components it is made of.
func (w *c20urlWalk) value(v ssa.Value, d int) {
	if v == nil || w.seen[v] || d > 40 {
		return
	}
	w.seen[v] = true
	switch x := v.(type) {
	case *ssa.Const, *ssa.Global, *ssa.Function:
		return
	case *ssa.Alloc:
		// a literal / local struct: whatever is stored into its members, here or in a helper that fills it; a plain cell:
		// whatever is stored into it
		for _, st := range c20cellStores(x) {
			w.value(st, d+1)
		}
		if p, ok := x.Type().Underlying().(*types.Pointer); ok {
			if st, ok := p.Elem().Underlying().(*types.Struct); ok {
				for k := 0; k < st.NumFields(); k++ {
					for _, s := range c20FieldStores(x, st.Field(k).Name(), 0) {
						w.value(s.Val, d+1)
					}
				}
			}
		}
	case *ssa.UnOp:
		if x.Op != token.MUL {
			w.value(x.X, d+1)
			return
		}
		if b, p, ok := c20reqFieldAddr(x.X); ok {
			if p != "Header" {
				w.read(x, p, b, "the request's "+p+" is read")
			}
			return
		}
		if sts := c20cellStores(x.X); len(sts) > 0 {
			for _, s := range sts {
				w.value(s, d+1)
			}
			return
		}
	case *ssa.Phi:
		for _, e := range x.Edges {
			w.value(e, d+1)
		}
	case *ssa.BinOp:
		w.value(x.X, d+1)
		w.value(x.Y, d+1)
	case *ssa.Convert:
		w.value(x.X, d+1)
	case *ssa.ChangeType:
		w.value(x.X, d+1)
	case *ssa.MakeInterface:
		w.value(x.X, d+1)
	case *ssa.TypeAssert:
		w.value(x.X, d+1)
	case *ssa.Slice:
		w.value(x.X, d+1)
	case *ssa.Field:
		w.value(x.X, d+1)
	case *ssa.FieldAddr:
		w.value(x.X, d+1)
	case *ssa.IndexAddr:
		w.value(x.X, d+1)
	case *ssa.Index:
		w.value(x.X, d+1)
	case *ssa.Extract:
		w.value(x.Tuple, d+1)
	case *ssa.Lookup:
		if b, ok := c20reqMember(x.X, "Header"); ok {
			w.read(x, c20headerKey(x.Index), b, "the request header map is read")
			return
		}
		w.value(x.X, d+1)
	case *ssa.Parameter:
		fn := x.Parent()
		if fn == nil {
			return
		}
		for k, p := range fn.Params {
			if p != x {
				continue
			}
			sites := gSites[fn]
			if len(sites) > maxHelperSites {
				return
			}
			for _, s := range sites {
				if args := s.Common().Args; k < len(args) {
					w.value(args[k], d+1)
				}
			}
		}
	case *ssa.FreeVar:
		for _, st := range c20cellStores(x) {
			w.value(st, d+1)
		}
	case *ssa.Call:
		cc := &x.Call
		name := calleeName(cc)
		if name == "(net/http.Header).Get" || name == "(net/http.Header).Values" {
			if len(cc.Args) >= 2 {
				if b, ok := c20reqMember(cc.Args[0], "Header"); ok {
					w.read(x, c20headerKey(cc.Args[1]), b, "the request header "+strings.Trim(c20headerKey(cc.Args[1])[6:], "[]")+" is read")
					return
				}
			}
		}
		if m, ok := c20reqMethods[name]; ok && !m.write && len(cc.Args) > 0 {
			w.read(x, m.part, cc.Args[0], name+" is called")
			return
		}
		sc := cc.StaticCallee()
		repo := sc != nil && isRepoFn(sc) && len(sc.Blocks) > 0
		for k, a := range cc.Args {
			if b, ok := c20reqMember(a, "URL"); ok {
				w.read(x, "URL.*", b, "the request's URL is handed to "+name)
				continue
			}
			if !c20isReqPtr(a.Type()) {
				w.value(a, d+1)
				continue
			}
			switch {
			case repo:
				for _, sub := range w.sc.summary(sc, k, 1) {
					if !sub.write {
						w.read(x, sub.part, a, fnKey(sc)+" is called, which reads the request's "+sub.part)
					}
				}
			case strings.HasPrefix(name, "(*net/http.Request).WithContext"), strings.HasPrefix(name, "(*net/http.Request).Context"):
			default:
				w.read(x, "*", a, "the request is handed to "+name)
			}
		}
		if repo && len(cc.Args) == 0 {
			// a closure or helper without arguments: what it returns
			eachInstr(sc, func(i ssa.Instruction) {
				if r, ok := i.(*ssa.Return); ok {
					for _, res := range r.Results {
						w.value(res, d+1)
					}
				}
			})
		}
	}
}

// ---- the rule -----------------------------------------------------------------------------------------------------------------

func runC20S1(c *Ctx) {
	serve := c.method("proxy", "HTTPProxy", "ServeHTTP")
	if !c.need("C20.S1", serve, "proxy.HTTPProxy.ServeHTTP") {
		return
	}
	isLog := func(i ssa.Instruction) bool {
		call, ok := i.(*ssa.Call)
		return ok && c20IsLogCall(&call.Call)
	}
	var logs []*ssa.Call
	for _, f := range c.region(serve) {
		eachInstr(f, func(i ssa.Instruction) {
			if isLog(i) {
				logs = append(logs, i.(*ssa.Call))
			}
		})
	}
	if len(logs) == 0 {
		c.undecided("C20.S1", "anchor|Logger.Log calls reachable from ServeHTTP", "none found")
		return
	}
	sc := &c20reqScanner{memo: map[*ssa.Function][]c20reqAcc{}, busy: map[*ssa.Function]bool{}}
	nReads := 0
	for _, l := range logs {
		where := fnKey(l.Parent())
		evs := c20Allocs(l.Call.Args[0], "logger.Event")
		w := &c20urlWalk{sc: sc, seen: map[ssa.Value]bool{}}
		for _, ev := range evs {
			for _, st := range c20FieldStores(ev, "RequestURL", 0) {
				// the event points at the request's own URL: the renderers read its members when Log runs
				for _, leaf := range valueLeaves(st.Val) {
					if b, ok := c20reqMember(leaf, "URL"); ok {
						w.read(l, "URL.*", b, "the event's RequestURL is the request's own URL, which the logger reads when Log is called")
					}
				}
				w.value(st.Val, 0)
			}
		}
		// one obligation per component
		byPart := map[string][]c20reqAcc{}
		for _, r := range w.reads {
			byPart[r.part] = append(byPart[r.part], r)
		}
		var parts []string
		for p := range byPart {
			parts = append(parts, p)
		}
		sort.Strings(parts)
		for _, part := range parts {
			nReads++
			ok, pos, detail := true, byPart[part][0].at.Pos(), ""
			for _, r := range byPart[part] {
				if wr, at := c20writtenBefore(sc, r); wr != nil {
					ok, pos = false, r.at.Pos()
					detail = r.how + " at " + c.pos(r.at.Pos()) + " after " + wr.how + " (" + c.pos(at.Pos()) + ") may have rewritten it"
					break
				}
			}
			c.check("C20.S1", where+"|event.RequestURL: "+c20partName(part)+" of the request is read before the proxy rewrites it", pos, ok,
				"Event.RequestURL ($request_url, $request_scheme) must describe the request as the client sent it, but "+detail+
					": the log then shows the rewritten upstream request (the host of host=dst / host=<name>, the scheme of the connection instead of the client's X-Forwarded-Proto / Forwarded) - read the component before the request is touched and keep the value")
		}
	}
	c.atLeast("C20.S1", "components of the client request that flow into Event.RequestURL", nReads, 2)
}

func c20partName(part string) string {
	switch {
	case part == "*":
		return "the whole request"
	case strings.HasPrefix(part, "Header["):
		return "header " + strings.Trim(part[6:], "[]")
	}
	return part
}

// c20writtenBefore: a write of the component that read r reads which can execute before r: in r's own function, or -
// when r sits in a helper - before the call of that helper in its callers (up to the request handler).
func c20writtenBefore(sc *c20reqScanner, r c20reqAcc) (*c20reqAcc, ssa.Instruction) {
	type frame struct {
		at   ssa.Instruction
		base ssa.Value
	}
	frames := []frame{{r.at, r.base}}
	seen := map[ssa.Instruction]bool{r.at: true}
	for k := 0; k < len(frames) && k < 24; k++ {
		fr := frames[k]
		fn := fr.at.Parent()
		if fn == nil {
			continue
		}
		deep := c20deepPart(r.part)
		var rroots map[ssa.Value]bool
		if fr.base != nil {
			rroots = c20reqRoots(fr.base, deep)
		}
		for _, wr := range sc.scan(fn, 0) {
			if !wr.write || wr.at == fr.at || !c20partsClash(wr.part, r.part) {
				continue
			}
			if rroots != nil && wr.base != nil {
				related := false
				for x := range c20reqRoots(wr.base, deep) {
					if rroots[x] {
						related = true
					}
					// the request kept in a member (c.req.Host = ...; ... c.req.Host): two loads of one access path
					if _, isLoad := c20load(x); isLoad {
						for y := range rroots {
							if _, isLoad2 := c20load(y); isLoad2 && accessPath(x) == accessPath(y) {
								related = true
							}
						}
					}
				}
				if !related {
					continue
				}
			}
			_, deferred := fr.at.(*ssa.Defer) // a deferred helper runs when the function returns: after everything else
			if deferred || canReach(wr.at, fr.at) {
				wr := wr
				return &wr, wr.at
			}
		}
		// one level up: the calls of this function
		for _, s := range gSites[fn] {
			if seen[s] || s.Parent() == nil {
				continue
			}
			seen[s] = true
			var base ssa.Value
			if rroots != nil {
				for i, p := range fn.Params {
					if rroots[p] && i < len(s.Common().Args) {
						base = s.Common().Args[i]
					}
				}
			}
			frames = append(frames, frame{s, base})
		}
	}
	return nil, nil
}
