package main

// Rules of C12 added after the fourth round of independently authored breaking changes (DESIGN 11.12); wired in
// zzz_round4.go.
//
// C12.B1 and C12.B2 look at the BUILDER of the rule set (the region of Target.ProcessAccessRules): what the operator
// configured must be what the per-address decision later walks. The decision rules (F1, F3) judge the walk over the
// list; they cannot see that the list is shorter than the configured one.

import (
	"fmt"
	"go/token"
	"go/types"
	"sort"
	"strings"

	"golang.org/x/tools/go/ssa"
)

func init() {
	addRound4("C12", "(B1) in the region of ProcessAccessRules every address block that was parsed successfully (net.ParseCIDR / netip.ParsePrefix) is put into the target's rule set on every path that goes on to the next element or returns without an error - stored into the rules field directly, through a helper, a method, a method value, a func literal or an interface method (every implementation), or appended to a list that is carried round the loop and stored afterwards; a struct that carries the one block from the step that parses to the step that stores (`return accessItem{tag, block}, nil`) hands the obligation to its receiver, path by path; a block rebuilt from the parsed one (normalised, netip.Prefix converted to *net.IPNet) counts as the parsed one; the builder may live in a package of its own; a block may be left out only where the code decides on the block's WIDTH (its Mask / prefix length, or the whole block as text: whether an earlier block makes this one redundant depends on both widths, the network address alone cannot tell) or where the list is known to be an allow list (leaving a block out of an allow list only narrows access); a configured deny block that never reaches the rule set admits every address inside it.", runC12B1, c12B1Mutants()...)
	addRound4("C12", "(B2) in the region of ProcessAccessRules the failure edge of a parse of the configured text (net.ParseCIDR / netip.ParsePrefix answering an error, net.ParseIP / netip.ParseAddr answering no address) leads to a return with an error (which F2 turns into deny-all), to the installation of a deny-all rule set, or to another parse of the same text - never to the next element or to a return without error; where the failing path ends in a helper's `return ..., <error>` the same is asked of the branches on that error in the helper's callers, up to ProcessAccessRules itself (an error that no caller looks at is a dropped element); the failure may travel round the loop in a variable (`if failed == nil { failed = err }; continue`) when that variable is what is returned in the end: a deny list from which the unparsable element was silently dropped is wider than the configured one ('a rule that cannot be parsed never widens access').", runC12B2, c12B2Mutants()...)
}

// ---- roles ------------------------------------------------------------------------------------------------------------

func c12IsBlockType(t types.Type) bool {
	if p, ok := types.Unalias(t).(*types.Pointer); ok {
		t = types.NewPointer(types.Unalias(p.Elem()))
	}
	switch typeStr(types.Unalias(t)) {
	case "*net.IPNet", "net.IPNet", "net/netip.Prefix":
		return true
	}
	return false
}

func c12IsErrorType(t types.Type) bool {
	return types.Identical(t, types.Universe.Lookup("error").Type())
}

// c12BlockResults: call parses the text of an address block; the indexes of its results that are the block (-1: the
// value of the call itself).
func c12BlockResults(call *ssa.Call) []int {
	switch c12BaseName(calleeName(&call.Call)) {
	case "net.ParseCIDR", "net/netip.ParsePrefix", "net/netip.MustParsePrefix":
	default:
		return nil
	}
	res := call.Call.Signature().Results()
	var out []int
	for k := 0; k < res.Len(); k++ {
		if c12IsBlockType(res.At(k).Type()) {
			if res.Len() == 1 {
				out = append(out, -1)
			} else {
				out = append(out, k)
			}
		}
	}
	return out
}

// c12ResultValues: the values that are result idx of call (idx -1: the call).
func c12ResultValues(call *ssa.Call, idx int) []ssa.Value {
	if idx < 0 {
		return []ssa.Value{call}
	}
	var out []ssa.Value
	for _, r := range c12Refs(call) {
		if ex, ok := r.(*ssa.Extract); ok && ex.Index == idx {
			out = append(out, ex)
		}
	}
	return out
}

func c12Refs(v ssa.Value) []ssa.Instruction {
	if v == nil {
		return nil
	}
	if r := v.Referrers(); r != nil {
		return *r
	}
	return nil
}

func c12Deref(t types.Type) types.Type {
	if p, ok := t.Underlying().(*types.Pointer); ok {
		return p.Elem()
	}
	return t
}

// c12IsScalar: a value of type t cannot hold an address block (string, number, bool).
func c12IsScalar(t types.Type) bool {
	_, ok := t.Underlying().(*types.Basic)
	return ok
}

// c12IsStructCell: a is the cell of a local struct value that is not itself an address block.
func c12IsStructCell(a *ssa.Alloc) bool {
	t := c12Deref(a.Type())
	_, ok := t.Underlying().(*types.Struct)
	return ok && !c12IsBlockType(t)
}

// ---- forward flow -------------------------------------------------------------------------------------------------------

// c12CellLoads: the loads of the local cell a, also inside the closures that capture it.
func c12CellLoads(a ssa.Value) []ssa.Value {
	var out []ssa.Value
	for _, r := range c12Refs(a) {
		switch x := r.(type) {
		case *ssa.UnOp:
			if x.Op == token.MUL && x.X == a {
				out = append(out, x)
			}
		case *ssa.MakeClosure:
			fn, _ := x.Fn.(*ssa.Function)
			for k, bnd := range x.Bindings {
				if bnd == a && fn != nil && k < len(fn.FreeVars) {
					out = append(out, c12CellLoads(fn.FreeVars[k])...)
				}
			}
		}
	}
	return out
}

// c12PlainCallee: the repository function with a body that the call enters with its arguments as written (no wrapper).
func c12PlainCallee(cc *ssa.CallCommon) *ssa.Function {
	g, off := c12CalleeOff(cc)
	if off != 0 {
		return nil
	}
	return g
}

// c12CalleeOff: the repository function with a body that the call enters, and the offset of its parameters against
// the arguments of the call: 0 for a plain call (also of a closure and of a method expression `(*T).m`), 1 for a call
// of a method value (`add := t.addBlock; add(tag, b)`: the receiver is bound, argument k is parameter k+1).
func c12CalleeOff(cc *ssa.CallCommon) (*ssa.Function, int) {
	if cc == nil || cc.IsInvoke() {
		return nil, 0
	}
	sc := cc.StaticCallee()
	if sc == nil {
		return nil, 0
	}
	g := unwrap(sc)
	if g == nil || !isRepoFn(g) || len(g.Blocks) == 0 {
		return nil, 0
	}
	off := len(g.Params) - len(cc.Args)
	if g == sc && off != 0 {
		return nil, 0
	}
	if off != 0 && !(off == 1 && strings.HasPrefix(sc.Synthetic, "bound method wrapper")) {
		return nil, 0
	}
	return g, off
}

type c12Callee struct {
	fn  *ssa.Function
	off int
}

// c12Cur: the context of the running rule (for the method sets an interface call can reach).
var c12Cur *Ctx

// c12Callees: the repository functions the call can enter, each with the offset of its parameters against the call's
// arguments: the static callee; for a call through an interface the repository methods of that name whose receiver
// implements the interface; for a call of a function value the functions that value can denote (funcsOf: a local
// closure variable, a method value kept in a variable or a struct member, a callback parameter's visible feeds).
func c12Callees(cc *ssa.CallCommon) []c12Callee {
	if cc == nil {
		return nil
	}
	if g, off := c12CalleeOff(cc); g != nil {
		return []c12Callee{{g, off}}
	}
	var out []c12Callee
	if cc.IsInvoke() {
		iface, ok := cc.Value.Type().Underlying().(*types.Interface)
		if !ok || c12Cur == nil {
			return nil
		}
		for _, f := range c12Cur.AllFns {
			recv := f.Signature.Recv()
			if recv == nil || f.Name() != cc.Method.Name() || len(f.Blocks) == 0 || !isRepoFn(f) || len(f.Params) != len(cc.Args)+1 {
				continue
			}
			if types.Implements(recv.Type(), iface) {
				out = append(out, c12Callee{f, 1})
			}
		}
		return out
	}
	if cc.StaticCallee() != nil {
		return nil
	}
	for _, g := range funcsOf(cc.Value) {
		if g == nil || !isRepoFn(g) || len(g.Blocks) == 0 {
			continue
		}
		if off := len(g.Params) - len(cc.Args); off == 0 || (off == 1 && g.Signature.Recv() != nil) {
			out = append(out, c12Callee{g, off})
		}
	}
	return out
}

// c12ParamsFor: the parameters of the repository callee that receive v at this call.
func c12ParamsFor(ci ssa.CallInstruction, v ssa.Value) []ssa.Value {
	cc := ci.Common()
	var out []ssa.Value
	for _, ce := range c12Callees(cc) {
		for k, a := range cc.Args {
			if a == v && k+ce.off < len(ce.fn.Params) {
				out = append(out, ce.fn.Params[k+ce.off])
			}
		}
	}
	return out
}

// c12ResultsAt: the values at the static call sites of ret's function that receive v.
func c12ResultsAt(ret *ssa.Return, v ssa.Value) []ssa.Value {
	fn := ret.Parent()
	var out []ssa.Value
	for j, res := range ret.Results {
		if res != v {
			continue
		}
		for _, s := range gSites[fn] {
			call, ok := s.(*ssa.Call)
			if !ok {
				continue
			}
			if len(ret.Results) == 1 {
				out = append(out, call)
			} else {
				out = append(out, c12ResultValues(call, j)...)
			}
		}
	}
	return out
}

// c12IdentNext: the values that ARE v one step later (phi, conversion, boxing, copy through a local cell, captured
// variable, argument -> parameter, returned value -> value of the call).
func c12IdentNext(v ssa.Value) []ssa.Value {
	var out []ssa.Value
	for _, r := range c12Refs(v) {
		switch x := r.(type) {
		case *ssa.Phi:
			out = append(out, x)
		case *ssa.ChangeType:
			out = append(out, x)
		case *ssa.ChangeInterface:
			out = append(out, x)
		case *ssa.MakeInterface:
			out = append(out, x)
		case *ssa.Convert:
			out = append(out, x)
		case *ssa.TypeAssert:
			if x.X != v {
				continue
			}
			if !x.CommaOk {
				out = append(out, x)
				continue
			}
			for _, r2 := range c12Refs(x) {
				if ex, ok := r2.(*ssa.Extract); ok && ex.Index == 0 {
					out = append(out, ex)
				}
			}
		case *ssa.UnOp:
			if x.Op == token.MUL && x.X == v {
				out = append(out, x)
			}
		case *ssa.Store:
			if x.Val != v {
				continue
			}
			switch a := x.Addr.(type) {
			case *ssa.Alloc:
				out = append(out, c12CellLoads(a)...)
			case *ssa.FreeVar:
				out = append(out, c12CellLoads(a)...)
			}
		case *ssa.MakeClosure:
			fn, _ := x.Fn.(*ssa.Function)
			for k, bnd := range x.Bindings {
				if bnd == v && fn != nil && k < len(fn.FreeVars) {
					out = append(out, fn.FreeVars[k])
				}
			}
		case *ssa.Return:
			out = append(out, c12ResultsAt(x, v)...)
		case ssa.CallInstruction:
			out = append(out, c12ParamsFor(x, v)...)
		}
	}
	return out
}

// c12IdentClosure: every value that is one of the seeds, anywhere in the repository.
func c12IdentClosure(seeds []ssa.Value) map[ssa.Value]bool {
	is := map[ssa.Value]bool{}
	work := append([]ssa.Value(nil), seeds...)
	for len(work) > 0 && len(is) < 400 {
		v := work[len(work)-1]
		work = work[:len(work)-1]
		if v == nil || is[v] {
			continue
		}
		is[v] = true
		work = append(work, c12IdentNext(v)...)
	}
	return is
}

// c12AddDerived: a block that is REBUILT from the parsed one is the parsed one as far as "does it reach the rule set" goes:
// `&net.IPNet{IP: b.IP.Mask(b.Mask), Mask: b.Mask}` (normalised), `p.Masked()`, a netip.Prefix converted to a
// *net.IPNet (`&net.IPNet{IP: p.Addr().AsSlice(), Mask: net.CIDRMask(p.Bits(), ...)}`). Adds to `is` every value of a
// block type that a library call computes from a value in `is`, and every block-typed cell a member of which is
// written with something computed from a value in `is` (members read, library calls, conversions; no repository calls).
func c12AddDerived(is map[ssa.Value]bool) {
	for round := 0; round < 3; round++ {
		seen := map[ssa.Value]bool{}
		var work []ssa.Value
		for v := range is {
			work = append(work, v)
		}
		var found []ssa.Value
		for len(work) > 0 && len(seen) < 600 {
			v := work[len(work)-1]
			work = work[:len(work)-1]
			if v == nil || seen[v] {
				continue
			}
			seen[v] = true
			for _, r := range c12Refs(v) {
				switch x := r.(type) {
				case *ssa.Field, *ssa.FieldAddr, *ssa.Slice, *ssa.Convert, *ssa.ChangeType, *ssa.Phi, *ssa.Extract, *ssa.Index, *ssa.IndexAddr:
					work = append(work, x.(ssa.Value))
				case *ssa.UnOp:
					if x.Op == token.MUL {
						work = append(work, x)
					}
				case *ssa.Call:
					if sc := x.Call.StaticCallee(); sc == nil || isRepoFn(sc) {
						continue
					}
					work = append(work, x)
				case *ssa.Store:
					if x.Val != v {
						continue
					}
					if fa, ok := x.Addr.(*ssa.FieldAddr); ok && c12IsBlockType(c12Deref(fa.X.Type())) && !is[fa.X] {
						found = append(found, fa.X)
					}
				}
			}
			if !is[v] && c12IsBlockType(v.Type()) {
				if call, ok := v.(*ssa.Call); ok && call.Call.StaticCallee() != nil {
					found = append(found, v)
				}
			}
		}
		if len(found) == 0 {
			return
		}
		for w := range c12IdentClosure(found) {
			is[w] = true
		}
	}
}

// c12IsCollector: a call whose result contains its arguments (append, slices.Insert / Concat / Grow ...).
func c12IsCollector(cc *ssa.CallCommon) bool {
	n := c12BaseName(calleeName(cc))
	return n == "builtin.append" || n == "append" || strings.HasPrefix(n, "slices.") || strings.HasPrefix(n, "maps.")
}

// c12ContainNext: the values that CONTAIN v one step later (appended to, sliced, stored into an element / member / map).
func c12ContainNext(v ssa.Value) []ssa.Value {
	var out []ssa.Value
	for _, r := range c12Refs(v) {
		switch x := r.(type) {
		case *ssa.Slice:
			if x.X == v {
				out = append(out, x)
			}
		case *ssa.Call:
			if c12IsCollector(&x.Call) {
				out = append(out, x)
			}
		case *ssa.Store:
			if x.Val != v {
				continue
			}
			switch a := x.Addr.(type) {
			case *ssa.IndexAddr:
				out = append(out, a.X)
			case *ssa.FieldAddr:
				out = append(out, a.X)
			case *ssa.Alloc:
				// a struct value kept in a local cell: its members are read through the cell's address
				if c12IsStructCell(a) {
					out = append(out, a)
				}
			}
		case *ssa.MapUpdate:
			if x.Value == v {
				out = append(out, x.Map)
			}
		// reading a member back out of a struct that carries the block (or a list of blocks) from one step to the next
		case *ssa.Field:
			if x.X == v && !c12IsScalar(x.Type()) {
				out = append(out, x)
			}
		case *ssa.FieldAddr:
			if x.X == v && !c12IsScalar(c12Deref(x.Type())) {
				out = append(out, x)
			}
		// reading an element back out of a container (the blocks parsed in a first pass are stored in a second one)
		case *ssa.IndexAddr:
			if x.X == v {
				out = append(out, x)
			}
		case *ssa.Index:
			if x.X == v {
				out = append(out, x)
			}
		case *ssa.Lookup:
			if x.X == v {
				out = append(out, x)
			}
		case *ssa.Range:
			if x.X == v {
				out = append(out, x)
			}
		case *ssa.Next:
			if x.Iter == v {
				out = append(out, x)
			}
		case *ssa.Extract:
			if x.Tuple == v {
				out = append(out, x)
			}
		}
	}
	return out
}

// c12RulesAddr: a store to addr writes the target's rule set: the rules field of a route.Target, a member or an
// element of the rule set, or the rule set through a pointer (`*rs = ...`).
func c12RulesAddr(addr ssa.Value) bool {
	switch a := addr.(type) {
	case *ssa.FieldAddr:
		if c12IsTargetRulesField(a) {
			return true
		}
		return c12IsRulesBase(a.X)
	case *ssa.IndexAddr:
		if c12IsRulesBase(a.X) {
			return true
		}
		_, isMember := c12Member(a.X)
		return isMember
	case *ssa.Alloc:
		return false
	}
	return c12IsRulesType(addr.Type())
}

// c12RulesSink: instruction r puts x into the target's rule set.
func c12RulesSink(r ssa.Instruction, x ssa.Value) bool {
	switch y := r.(type) {
	case *ssa.MapUpdate:
		return y.Value == x && c12IsRulesBase(y.Map)
	case *ssa.Store:
		return y.Val == x && c12RulesAddr(y.Addr)
	}
	return false
}

type c12Build struct {
	c     *Ctx
	inReg map[*ssa.Function]bool
	reach map[ssa.Value]bool
}

// reaches: v (or a container that v is put into) is stored into the target's rule set somewhere - flow-insensitive.
func (b *c12Build) reaches(v ssa.Value) bool {
	if r, ok := b.reach[v]; ok {
		return r
	}
	seen := map[ssa.Value]bool{}
	work := []ssa.Value{v}
	found := false
	for len(work) > 0 && len(seen) < 600 && !found {
		x := work[len(work)-1]
		work = work[:len(work)-1]
		if x == nil || seen[x] {
			continue
		}
		seen[x] = true
		for _, r := range c12Refs(x) {
			if c12RulesSink(r, x) {
				found = true
				break
			}
		}
		work = append(work, c12IdentNext(x)...)
		work = append(work, c12ContainNext(x)...)
	}
	b.reach[v] = found
	return found
}

// ---- the walk: what happens to the parsed value on each path ----------------------------------------------------------

type c12Exit struct {
	pos  token.Pos
	what string
}

// c12Obl is one obligation: "the value(s) `is` end up in the rule set". walk explores the paths after a start point;
// held is the path's set of containers that hold the value by now.
type c12Obl struct {
	b      *c12Build
	is     map[ssa.Value]bool
	exits  []c12Exit
	sunk   bool
	subs   map[string]bool
	budget int
	blown  bool
	// member: struct values (their cells, pointers to them) that hold the block itself as a member - an item that
	// carries one parsed element from the step that parses to the step that stores - as opposed to lists of blocks
	member map[ssa.Value]bool
	// mode "fail": the obligation of B2 (the path must end in an error); the value plays no part
	fail bool
	// failSubj: the values whose nil-ness IS the failure (the parse's error / address, wherever it was handed to);
	// failNil: failing means the subject is nil. An edge that states the contrary is not part of a failing path.
	failSubj map[ssa.Value]bool
	failNil  bool
	// carrying (B2): the path has gone round the loop with the failure kept in a variable: another parse is no second chance
	carrying bool
	// errRets: the returns with a certainly non-nil error at which failing paths ended (B2 goes on in the callers)
	errRets []*ssa.Return
}

// promote: v is the block (read back out of an item that carries it): it and everything that is v joins `is`.
func (o *c12Obl) promote(v ssa.Value) {
	for w := range c12IdentClosure([]ssa.Value{v}) {
		o.is[w] = true
	}
	c12AddDerived(o.is)
}

func (o *c12Obl) exit(pos token.Pos, what string) {
	for _, e := range o.exits {
		if e.pos == pos && e.what == what {
			return
		}
	}
	o.exits = append(o.exits, c12Exit{pos, what})
}

func c12HeldKey(b *ssa.BasicBlock, held map[ssa.Value]bool) string {
	names := make([]string, 0, len(held))
	for v := range held {
		names = append(names, v.Name())
	}
	sort.Strings(names)
	return fmt.Sprint(b.Index, names)
}

func c12CopyHeld(h map[ssa.Value]bool) map[ssa.Value]bool {
	out := make(map[ssa.Value]bool, len(h)+2)
	for k := range h {
		out[k] = true
	}
	return out
}

// c12Persistent: the object v exists before the start point (sb, si) and outlives one element: a parameter, a captured
// variable, a global, memory reached from one of these, or a value defined before the start point.
func c12Persistent(v ssa.Value, sb *ssa.BasicBlock, si int) bool {
	switch x := v.(type) {
	case *ssa.Parameter, *ssa.FreeVar, *ssa.Global:
		return true
	case *ssa.UnOp:
		if x.Op == token.MUL {
			return c12Persistent(x.X, sb, si)
		}
	case *ssa.FieldAddr:
		return c12Persistent(x.X, sb, si)
	case *ssa.IndexAddr:
		return c12Persistent(x.X, sb, si)
	}
	in, ok := v.(ssa.Instruction)
	if !ok || in.Block() == nil || in.Parent() != sb.Parent() {
		return false
	}
	if in.Block() == sb {
		return instrIndex(in) < si
	}
	return in.Block().Dominates(sb)
}

func (o *c12Obl) walk(sb *ssa.BasicBlock, si int, origin ssa.Value, held0 map[ssa.Value]bool, fallback token.Pos, depth int) {
	type item struct {
		b    *ssa.BasicBlock
		k    int
		held map[ssa.Value]bool
		pos  token.Pos
	}
	seen := map[string]bool{}
	stack := []item{{sb, si, c12CopyHeld(held0), fallback}}
	for len(stack) > 0 {
		it := stack[len(stack)-1]
		stack = stack[:len(stack)-1]
		if o.budget++; o.budget > 20000 {
			o.blown = true
			return
		}
		held := it.held
		done := false
		for k := it.k; k < len(it.b.Instrs) && !done; k++ {
			done = o.instr(it.b.Instrs[k], held, sb, si, it.pos, depth)
		}
		if done {
			continue
		}
		for _, s := range it.b.Succs {
			pos := it.pos
			if f, ok := c12EdgeFact(it.b, s); ok {
				if o.pruned(f, origin) {
					continue
				}
				if p := f.Cond.Pos(); p.IsValid() {
					pos = p
				}
			}
			if s.Dominates(sb) {
				// control is back at (or before) the start point: the next element's turn
				if !o.fail && o.carried(it.b, s, held) {
					o.sunk = true
				} else {
					o.exit(pos, "goes on to the next element")
				}
				continue
			}
			h2 := c12CopyHeld(held)
			for _, in := range s.Instrs {
				phi, ok := in.(*ssa.Phi)
				if !ok {
					break
				}
				for k, p := range s.Preds {
					if p == it.b && k < len(phi.Edges) && held[phi.Edges[k]] {
						h2[phi] = true
						if o.member[phi.Edges[k]] {
							o.member[phi] = true
						}
					}
				}
			}
			key := c12HeldKey(s, h2)
			if seen[key] {
				continue
			}
			seen[key] = true
			stack = append(stack, item{s, 0, h2, pos})
		}
	}
}

// carried: on the edge p -> s (s a loop header before the start point) a loop-carried variable takes a list that
// holds the value, and that variable is stored into the rule set later (`blocks = append(blocks, b)` ... `rules[tag] = blocks`).
func (o *c12Obl) carried(p, s *ssa.BasicBlock, held map[ssa.Value]bool) bool {
	for _, in := range s.Instrs {
		phi, ok := in.(*ssa.Phi)
		if !ok {
			break
		}
		for k, q := range s.Preds {
			if q == p && k < len(phi.Edges) && (held[phi.Edges[k]] || o.is[phi.Edges[k]]) && o.b.reaches(phi) {
				return true
			}
		}
	}
	return false
}

// pruned: the edge is not part of the obligation: the failure edge of the parse (of the helper that parsed), the
// edge on which the parsed block is nil, and an edge on which the list is known to be an allow list.
func (o *c12Obl) pruned(f Fact, origin ssa.Value) bool {
	x, cons := c12ConsOfFact(f.Cond, f.Truth)
	if o.fail && !o.carrying && cons.kind == 'n' && o.failSubj[x] && cons.eq != o.failNil {
		return true // `if err == nil { ... }` further down a path on which err is not nil
	}
	if !o.fail {
		if cons.kind == 'n' && !cons.eq && c12IsErrorType(x.Type()) && origin != nil {
			if ex, ok := x.(*ssa.Extract); ok && ex.Tuple == origin {
				return true
			}
			if x == origin {
				return true
			}
		}
		if cons.kind == 'n' && cons.eq && o.is[x] {
			return true
		}
	}
	if b, ok := f.Cond.(*ssa.BinOp); ok && (b.Op == token.EQL || b.Op == token.NEQ) {
		for _, side := range []ssa.Value{b.X, b.Y} {
			s, isK := constString(side)
			if !isK {
				continue
			}
			same := (b.Op == token.EQL) == f.Truth
			switch c12TagKind(s) {
			case "allow":
				if same {
					return true
				}
			case "deny":
				if !same {
					return true
				}
			}
		}
	}
	return false
}

// instr interprets one instruction of a path; true = the path ends here (obligation met, handed on, or an exit recorded).
func (o *c12Obl) instr(i ssa.Instruction, held map[ssa.Value]bool, sb *ssa.BasicBlock, si int, pos token.Pos, depth int) bool {
	in := func(v ssa.Value) bool { return v != nil && (o.is[v] || held[v]) }
	if o.fail {
		return o.failInstr(i, held, pos)
	}
	switch x := i.(type) {
	case *ssa.Store:
		if _, isFV := x.Addr.(*ssa.FreeVar); isFV && c12IsErrorType(x.Val.Type()) && c12NonNil(x.Val) {
			return true // the body of a range-over-func loop reports an error through the captured result
		}
		if !in(x.Val) {
			return false
		}
		if c12RulesAddr(x.Addr) {
			o.sunk = true
			return true
		}
		var base ssa.Value
		whole := false
		switch a := x.Addr.(type) {
		case *ssa.IndexAddr:
			base = a.X
		case *ssa.FieldAddr:
			base = a.X
		case *ssa.Alloc:
			base, whole = a, true
		case *ssa.FreeVar:
			base, whole = a, true
		}
		if base == nil {
			return false
		}
		if whole && o.is[x.Val] && !held[x.Val] {
			// the block kept in a local variable's cell (a variable that a func literal captures): the loads of the cell
			// are the block already (identity closure); the cell itself is no part of the rule set
			return false
		}
		if _, isElem := x.Addr.(*ssa.IndexAddr); !isElem && !c12IsBlockType(c12Deref(base.Type())) {
			// the block itself becomes a member of a struct (or such a struct is copied as a whole): an item, not a list;
			// where it goes is followed on the paths, a cell declared early does not make it part of the rule set
			if (!whole && (o.is[x.Val] || o.member[x.Val])) || (whole && o.member[x.Val]) {
				o.member[base] = true
				held[base] = true
				return false
			}
		}
		if c12Persistent(base, sb, si) && o.b.reaches(base) {
			o.sunk = true
			return true
		}
		held[base] = true
	case *ssa.MapUpdate:
		if !in(x.Value) {
			return false
		}
		if c12IsRulesBase(x.Map) || (c12Persistent(x.Map, sb, si) && o.b.reaches(x.Map)) {
			o.sunk = true
			return true
		}
		held[x.Map] = true
	case *ssa.Slice:
		if held[x.X] {
			held[x] = true
		}
	case *ssa.ChangeType:
		if held[x.X] {
			held[x] = true
		}
	case *ssa.Convert:
		if held[x.X] {
			held[x] = true
		}
	case *ssa.MakeInterface:
		if held[x.X] {
			held[x] = true
		}
	case *ssa.UnOp:
		if x.Op == token.MUL && held[x.X] && !c12IsScalar(x.Type()) {
			if fa, ok := x.X.(*ssa.FieldAddr); ok && o.member[fa.X] && c12IsBlockType(x.Type()) {
				o.promote(x) // the block read back out of the item
				return false
			}
			held[x] = true
			if o.member[x.X] {
				o.member[x] = true
			}
		}
	case *ssa.FieldAddr:
		if held[x.X] && !c12IsScalar(c12Deref(x.Type())) {
			held[x] = true
			if _, nested := c12Deref(x.Type()).Underlying().(*types.Struct); nested && o.member[x.X] && !c12IsBlockType(c12Deref(x.Type())) {
				o.member[x] = true
			}
		}
	case *ssa.Field:
		if held[x.X] && !c12IsScalar(x.Type()) {
			if o.member[x.X] && c12IsBlockType(x.Type()) {
				o.promote(x)
				return false
			}
			held[x] = true
			if _, nested := x.Type().Underlying().(*types.Struct); nested && o.member[x.X] {
				o.member[x] = true
			}
		}
	case *ssa.IndexAddr:
		if held[x.X] {
			held[x] = true
		}
	case *ssa.Index:
		if held[x.X] {
			held[x] = true
		}
	case *ssa.Lookup:
		if held[x.X] {
			held[x] = true
		}
	case *ssa.Range:
		if held[x.X] {
			held[x] = true
		}
	case *ssa.Next:
		if held[x.Iter] {
			held[x] = true
		}
	case *ssa.Extract:
		if held[x.Tuple] {
			held[x] = true
		}
	case *ssa.Return:
		return o.ret(x, held, pos, depth)
	case ssa.CallInstruction:
		cc := x.Common()
		any := false
		for _, a := range cc.Args {
			any = any || in(a)
		}
		if !any {
			return false
		}
		if c12IsCollector(cc) {
			if v, ok := x.(ssa.Value); ok {
				held[v] = true
			}
			return false
		}
		ces := c12Callees(cc)
		for k, a := range cc.Args {
			if !in(a) || len(ces) == 0 {
				continue
			}
			all := true
			for _, ce := range ces {
				all = all && k+ce.off < len(ce.fn.Params) && o.b.reaches(ce.fn.Params[k+ce.off])
			}
			if !all {
				continue
			}
			// the callee (every function the call can enter) is to store it: the obligation goes on at the callee's entry
			for _, ce := range ces {
				if o.member[a] {
					o.member[ce.fn.Params[k+ce.off]] = true
				}
				o.sub(ce.fn, k+ce.off, held[a], depth)
			}
			return true
		}
	}
	return false
}

func (o *c12Obl) ret(x *ssa.Return, held map[ssa.Value]bool, pos token.Pos, depth int) bool {
	fn := x.Parent()
	if p := x.Pos(); p.IsValid() {
		pos = p
	}
	handed := false
	for j, res := range x.Results {
		if res != nil && (o.is[res] || held[res]) {
			handed = true
			o.handUp(fn, j, len(x.Results), held[res], held[res] && o.member[res], depth)
		}
	}
	if handed {
		return true
	}
	if c12ErrorReturn(x) {
		return true
	}
	o.exit(pos, "returns without an error")
	return true
}

// c12ErrorReturn: the return hands a non-nil error to the caller.
func c12ErrorReturn(x *ssa.Return) bool {
	n := len(x.Results)
	if n == 0 || !c12IsErrorType(x.Results[n-1].Type()) {
		return false
	}
	e := x.Results[n-1]
	return c12NonNilDeep(e, 0) || knownNonNil(x.Block(), sameVal(e))
}

// c12NonNilDeep: v is certainly not nil, also as the result of a repository helper all of whose returns are
// (`return t.ruleError(c, err)`), or a phi of such values.
func c12NonNilDeep(v ssa.Value, depth int) bool {
	if c12Sat(v, c12Cons{kind: 'n', eq: true}) == c12No {
		return true
	}
	if depth > 3 {
		return false
	}
	idx := 0
	if ex, ok := v.(*ssa.Extract); ok {
		v, idx = ex.Tuple, ex.Index
	}
	switch x := v.(type) {
	case *ssa.Phi:
		for _, e := range x.Edges {
			if !c12NonNilDeep(e, depth+1) {
				return false
			}
		}
		return len(x.Edges) > 0
	case *ssa.Call:
		if c12ErrorWrapper(calleeName(&x.Call)) {
			// errors.Join(err, ...), errors.Wrap(err, "..."): not nil when an error argument is not nil
			args := append([]ssa.Value(nil), x.Call.Args...)
			for _, a := range x.Call.Args {
				// the elements of a variadic argument list written at the call
				if sl, ok := a.(*ssa.Slice); ok {
					for _, r := range c12Refs(sl.X) {
						if ia, ok := r.(*ssa.IndexAddr); ok {
							for _, r2 := range c12Refs(ia) {
								if st, ok := r2.(*ssa.Store); ok && st.Addr == ia {
									args = append(args, st.Val)
								}
							}
						}
					}
				}
			}
			for _, a := range args {
				if c12IsErrorType(a.Type()) && (c12NonNilDeep(a, depth+1) || (x.Block() != nil && knownNonNil(x.Block(), sameVal(a)))) {
					return true
				}
			}
			return false
		}
		// a repository function all of whose returns are not nil; a call through a function value or an interface:
		// every function it can enter
		ces := c12Callees(&x.Call)
		for _, ce := range ces {
			sc := ce.fn
			n, all := 0, true
			eachInstr(sc, func(i ssa.Instruction) {
				if r, ok := i.(*ssa.Return); ok && idx < len(r.Results) && r.Parent() == sc {
					n++
					all = all && (c12NonNilDeep(r.Results[idx], depth+1) || knownNonNil(r.Block(), sameVal(r.Results[idx])))
				}
			})
			if n == 0 || !all {
				return false
			}
		}
		return len(ces) > 0
	}
	return false
}

// c12ErrorWrapper: a library function that hands back a non-nil error whenever it is given one.
func c12ErrorWrapper(name string) bool {
	switch c12BaseName(name) {
	case "errors.Join", "github.com/pkg/errors.Wrap", "github.com/pkg/errors.Wrapf", "github.com/pkg/errors.WithStack",
		"github.com/pkg/errors.WithMessage", "github.com/pkg/errors.WithMessagef", "github.com/hashicorp/go-multierror.Append":
		return true
	}
	return false
}

// handUp: the function returns the value (a helper that parses and hands the block back): the obligation goes on
// after each call site in the region.
func (o *c12Obl) handUp(fn *ssa.Function, j, nres int, container, item bool, depth int) {
	if depth > 3 {
		return
	}
	for _, s := range gSites[fn] {
		call, ok := s.(*ssa.Call)
		if !ok || call.Parent() == nil || !o.b.inReg[call.Parent()] {
			continue
		}
		key := fmt.Sprint("up ", call.Parent().String(), " ", call.Name(), " ", j)
		if o.subs[key] {
			continue
		}
		o.subs[key] = true
		if container && item {
			// a struct that carries the one block (`return accessItem{tag, block}, nil`): the caller has to store its
			// block on every path, exactly as if the block had been handed back by itself
			idx := j
			if nres == 1 {
				idx = -1
			}
			held0 := map[ssa.Value]bool{}
			for _, v := range c12ResultValues(call, idx) {
				held0[v] = true
				o.member[v] = true
			}
			o.walk(call.Block(), instrIndex(call)+1, call, held0, call.Pos(), depth+1)
			continue
		}
		if container {
			// a list of blocks handed back (a first pass that parses, a second one that stores): whether the loop of
			// the second pass runs is not decided on paths; the list has to be stored into the rule set somewhere
			idx := j
			if nres == 1 {
				idx = -1
			}
			ok := false
			for _, v := range c12ResultValues(call, idx) {
				ok = ok || o.b.reaches(v)
			}
			if ok {
				o.sunk = true
			} else {
				o.exit(call.Pos(), "hands the list with the block to a caller that does not store it")
			}
			continue
		}
		idx := j
		if nres == 1 {
			idx = -1
		}
		used := false
		for _, v := range c12ResultValues(call, idx) {
			used = used || len(c12Refs(v)) > 0
		}
		if !used {
			continue // this caller only validates the text (`if _, err := parseBlock(v); err != nil`), like a direct parse whose block is dropped
		}
		o.walk(call.Block(), instrIndex(call)+1, call, nil, call.Pos(), depth+1)
	}
}

// sub: the value was handed to a callee that stores it into the rule set somewhere: every path of the callee must.
func (o *c12Obl) sub(g *ssa.Function, k int, container bool, depth int) {
	key := fmt.Sprint("sub ", g.String(), " ", k)
	if o.subs[key] || depth > 3 {
		o.sunk = o.sunk || o.subs[key]
		return
	}
	o.subs[key] = true
	held0 := map[ssa.Value]bool{}
	if container {
		held0[g.Params[k]] = true
	}
	o.walk(g.Blocks[0], 0, nil, held0, g.Pos(), depth+1)
}

// ---- is the block's width looked at? ------------------------------------------------------------------------------------

// c12WidthReader: a call on the block that yields (something containing) its width.
func c12WidthReader(name string) bool {
	switch c12BaseName(name) {
	case "(*net.IPNet).String", "(net/netip.Prefix).Bits", "(net/netip.Prefix).String", "(net/netip.Prefix).Masked",
		"(net/netip.Prefix).Overlaps", "(net/netip.Prefix).MarshalText", "(net/netip.Prefix).AppendTo", "reflect.DeepEqual":
		return true
	}
	return false
}

// c12WidthAware: some branch of the program depends on the width of a value in `is`.
func c12WidthAware(is map[ssa.Value]bool) bool {
	for v := range is {
		for _, r := range c12Refs(v) {
			var w ssa.Value
			switch x := r.(type) {
			case *ssa.FieldAddr:
				if x.X == v && fieldName(x.X.Type(), x.Field) == "Mask" {
					w = x
				}
			case *ssa.Field:
				if x.X == v && fieldName(x.X.Type(), x.Field) == "Mask" {
					w = x
				}
			case *ssa.Call:
				if c12WidthReader(calleeName(&x.Call)) {
					w = x
				}
			case *ssa.BinOp:
				if (x.Op == token.EQL || x.Op == token.NEQ) && typeStr(v.Type()) == "net/netip.Prefix" {
					w = x
				}
			}
			if w != nil && c12FlowsToBranch(w) {
				return true
			}
		}
	}
	return false
}

// c12FlowsToBranch: the value w (or something computed from it) is the condition of a branch.
func c12FlowsToBranch(w ssa.Value) bool {
	seen := map[ssa.Value]bool{}
	work := []ssa.Value{w}
	for len(work) > 0 && len(seen) < 400 {
		x := work[len(work)-1]
		work = work[:len(work)-1]
		if x == nil || seen[x] {
			continue
		}
		seen[x] = true
		for _, r := range c12Refs(x) {
			switch y := r.(type) {
			case *ssa.If:
				return true
			case *ssa.Store:
				if y.Val == x {
					switch a := y.Addr.(type) {
					case *ssa.Alloc:
						work = append(work, c12CellLoads(a)...)
					case *ssa.FreeVar:
						work = append(work, c12CellLoads(a)...)
					}
				}
			case *ssa.Return:
				if fn := y.Parent(); fn != nil && fn.Parent() != nil && len(gSites[fn]) == 0 && len(y.Results) == 1 {
					if bt, ok := y.Results[0].Type().Underlying().(*types.Basic); ok && bt.Kind() == types.Bool {
						// the verdict of a predicate handed to a library walk (slices.ContainsFunc(list, func(x) bool {...})):
						// the walk branches on it
						return true
					}
				}
				work = append(work, c12ResultsAt(y, x)...)
			case *ssa.Call:
				work = append(work, y)
				work = append(work, c12ParamsFor(y, x)...)
			case ssa.Value:
				work = append(work, y)
			}
		}
	}
	return false
}

// ---- C12.B1 -------------------------------------------------------------------------------------------------------------

func c12NewBuild(c *Ctx, rule string) (*c12Build, []*ssa.Function) {
	par := c.method("route", "Target", "ProcessAccessRules")
	if !c.need(rule, par, "route.Target.ProcessAccessRules") {
		return nil, nil
	}
	c12Cur = c
	reg := c12BuildRegion(c, par)
	b := &c12Build{c: c, inReg: map[*ssa.Function]bool{}, reach: map[ssa.Value]bool{}}
	for _, f := range reg {
		b.inReg[f] = true
	}
	return b, reg
}

// c12BuildRegion: the builder's region: c12Region(root) plus the repository functions of OTHER packages that the region
// statically calls (a rule-set package of its own: `acl.Parse(text)`), each with its own region; root stays first.
func c12BuildRegion(c *Ctx, root *ssa.Function) []*ssa.Function {
	out := c12Region(c, root)
	seen := map[*ssa.Function]bool{}
	for _, f := range out {
		seen[f] = true
	}
	for k, depth := 0, map[*ssa.Function]int{}; k < len(out) && len(out) < 400; k++ {
		f := out[k]
		if depth[f] >= 3 {
			continue
		}
		eachInstr(f, func(i ssa.Instruction) {
			cc := callCommon(i)
			if cc == nil {
				return
			}
			g, _ := c12CalleeOff(cc)
			if g == nil || seen[g] || rootPkg(g) == rootPkg(f) {
				return
			}
			for _, h := range c12Region(c, g) {
				if !seen[h] {
					seen[h] = true
					depth[h] = depth[f] + 1
					out = append(out, h)
				}
			}
		})
	}
	return out
}

func runC12B1(c *Ctx) {
	b, reg := c12NewBuild(c, "C12.B1")
	if b == nil {
		return
	}
	n, nSunk := 0, 0
	eachInstrOf(reg, func(f *ssa.Function, i ssa.Instruction) {
		call, ok := i.(*ssa.Call)
		if !ok {
			return
		}
		var seeds []ssa.Value
		for _, idx := range c12BlockResults(call) {
			seeds = append(seeds, c12ResultValues(call, idx)...)
		}
		if len(seeds) == 0 {
			return // not a block parse, or one that only validates the text
		}
		n++
		is := c12IdentClosure(seeds)
		c12AddDerived(is)
		o := &c12Obl{b: b, is: is, subs: map[string]bool{}, member: map[ssa.Value]bool{}}
		o.walk(call.Block(), instrIndex(call)+1, call, nil, call.Pos(), 0)
		key := fnKey(f) + "|every parsed block reaches the rule set"
		if o.blown {
			c.undecided("C12.B1", key, "too many paths after the parse of the block at "+c.pos(call.Pos()))
			return
		}
		if o.sunk {
			nSunk++
		}
		if len(o.exits) == 0 {
			c.check("C12.B1", key, call.Pos(), true, "every path after the successful parse stores the block into the rule set or fails the rule")
			return
		}
		if c12WidthAware(o.is) {
			c.check("C12.B1", key, call.Pos(), true, "a parsed block can be left out of the rule set, by a decision that looks at the block's width (coverage by / equality with an earlier block; the arithmetic is not decided)")
			return
		}
		for _, e := range o.exits {
			c.check("C12.B1", key, e.pos, false,
				"after "+c12BaseName(calleeName(&call.Call))+" accepted the block at "+c.pos(call.Pos())+" this path "+e.what+" without the block having been put into the target's rule set, and no branch of the program depends on the block's width (Mask / prefix length): whether an earlier element makes a block redundant depends on both widths (10.0.0.0/24 followed by 10.0.0.0/8 - the /8 starts inside the /24 and is NOT covered by it), so a deny list loses a configured block and every address inside it is admitted and forwarded to the upstream (HTTP peer, X-Forwarded-For elements and TCP alike)")
		}
	})
	c.atLeast("C12.B1", "address blocks parsed on behalf of ProcessAccessRules (net.ParseCIDR / netip.ParsePrefix)", n, 1)
	c.atLeast("C12.B1", "parsed blocks that some path puts into the target's rule set", nSunk, 1)
}

// ---- C12.B2 -------------------------------------------------------------------------------------------------------------

// c12TextParse: the call parses configured text into an address or a block; failure is `result idx == nil` (isErr
// false: the address is nil / invalid) or `error != nil`.
func c12TextParse(call *ssa.Call) (errIdx int, nilResult bool, ok bool) {
	switch c12BaseName(calleeName(&call.Call)) {
	case "net.ParseCIDR":
		return 2, false, true
	case "net/netip.ParsePrefix", "net/netip.ParseAddr":
		return 1, false, true
	case "net.ParseIP":
		return -1, true, true
	}
	return 0, false, false
}

// failInstr (mode B2): the path ends well in a return with an error, the installation of a deny-all rule set, or
// another parse (the text gets a second chance: `if ip := net.ParseIP(v); ip == nil { _, n, err = net.ParseCIDR(v) ...`).
func (o *c12Obl) failInstr(i ssa.Instruction, nn map[ssa.Value]bool, pos token.Pos) bool {
	switch x := i.(type) {
	case *ssa.Store:
		if _, isFV := x.Addr.(*ssa.FreeVar); isFV && c12IsErrorType(x.Val.Type()) && c12NonNil(x.Val) {
			return true
		}
		if cl, op := c12ClosesRules(x, 0); cl && !op {
			return true
		}
		if _, isCell := x.Addr.(*ssa.Alloc); isCell && c12IsErrorType(x.Val.Type()) {
			if nn[x.Val] || c12NonNilDeep(x.Val, 0) {
				nn[x.Addr] = true
			} else {
				delete(nn, x.Addr)
			}
		}
	case *ssa.UnOp:
		if x.Op == token.MUL && nn[x.X] {
			nn[x] = true
		}
	case *ssa.Call:
		if _, _, isParse := c12TextParse(x); isParse && !o.carrying {
			return true
		}
		if cl, op := c12ClosesRules(x, 0); cl && !op {
			return true
		}
	case *ssa.Panic:
		return true
	case *ssa.Return:
		if c12ErrorReturn(x) || (len(x.Results) > 0 && nn[x.Results[len(x.Results)-1]]) {
			o.errRets = append(o.errRets, x)
			return true
		}
		if p := x.Pos(); p.IsValid() {
			pos = p
		}
		// a helper that hands the failure to its caller as a value (`return nil`, `return netip.Prefix{}, false`)
		// is not followed (the branches on that value in the callers are, when the value is the parse's own result)
		res := x.Parent().Signature.Results()
		if c12IsYield(x.Parent()) {
			// the body of a range-over-func loop: it reports an error by storing it into the captured result first
			o.exit(pos, "goes on to the next element (or leaves the loop) with no error set")
			return true
		}
		if res.Len() > 0 && !c12IsErrorType(res.At(res.Len()-1).Type()) {
			return true
		}
		o.exit(pos, "returns without an error")
		return true
	}
	return false
}

func runC12B2(c *Ctx) {
	b, reg := c12NewBuild(c, "C12.B2")
	if b == nil {
		return
	}
	root := reg[0]
	n := 0
	eachInstrOf(reg, func(f *ssa.Function, i ssa.Instruction) {
		call, ok := i.(*ssa.Call)
		if !ok {
			return
		}
		errIdx, nilResult, isParse := c12TextParse(call)
		if !isParse {
			return
		}
		name := c12BaseName(calleeName(&call.Call))
		// the failure edges: the branches on `err != nil` / `ip == nil` of this call's result, here or - the result
		// handed back by a helper - in a caller. A failing path that ends in `return ..., <error>` of a helper goes on at
		// the branches on that error in the helper's callers, up to ProcessAccessRules itself (whose error F2 follows).
		type subject struct {
			is      map[ssa.Value]bool
			nilFail bool
			level   int
		}
		work := []subject{{c12IdentClosure(c12ResultValues(call, errIdx)), nilResult, 0}}
		doneRet := map[*ssa.Return]bool{}
		for len(work) > 0 {
			sj := work[0]
			work = work[1:]
			for _, g := range reg {
				for _, blk := range g.Blocks {
					for _, s := range blk.Succs {
						fact, ok := c12EdgeFact(blk, s)
						if !ok {
							continue
						}
						x, cons := c12ConsOfFact(fact.Cond, fact.Truth)
						if cons.kind != 'n' || !sj.is[x] || cons.eq != sj.nilFail {
							continue
						}
						// the start point: where the tested value came into being in this function
						var start ssa.Instruction
						switch d := x.(type) {
						case *ssa.Extract:
							start, _ = d.Tuple.(ssa.Instruction)
						case ssa.Instruction:
							start = d
						}
						if start == nil || start.Block() == nil {
							continue
						}
						n++
						o := &c12Obl{b: b, fail: true, subs: map[string]bool{}, member: map[ssa.Value]bool{}, failSubj: sj.is, failNil: sj.nilFail}
						o.walkFrom(start, blk, s, x, fact.Cond.Pos())
						key := fnKey(g) + "|unparsable element fails the rule"
						for _, r := range o.errRets {
							if doneRet[r] || r.Parent() == root || sj.level >= 4 || len(r.Results) == 0 {
								continue
							}
							doneRet[r] = true
							e := r.Results[len(r.Results)-1]
							up := c12IdentClosure(c12ResultsAtIn(r, e, b.inReg))
							used := false
							for v := range up {
								used = used || len(c12Refs(v)) > 0
							}
							if !used {
								if c12CalledIn(r.Parent(), b.inReg) {
									c.check("C12.B2", key, r.Pos(), false,
										"the text of a configured element was rejected by "+name+" at "+c.pos(call.Pos())+" and "+fnKey(r.Parent())+" reports that with an error, but no caller in the region of ProcessAccessRules looks at that error: the element is dropped and the rest of the list stays in force; the failure must fail the whole rule (error => deny-all, F2)")
								}
								continue
							}
							work = append(work, subject{up, false, sj.level + 1})
						}
						if len(o.exits) == 0 {
							c.check("C12.B2", key, call.Pos(), true, "the failure edge of the parse ends in an error")
							continue
						}
						for _, e := range o.exits {
							c.check("C12.B2", key, e.pos, false,
								"the text of a configured element was rejected by "+name+" at "+c.pos(call.Pos())+", and this path "+e.what+": the element is dropped and the rest of the list stays in force. For a deny list that is a list with a hole - the addresses the operator meant to block are admitted and forwarded; the failure must fail the whole rule (error => deny-all, F2)")
						}
					}
				}
			}
		}
	})
	c.atLeast("C12.B2", "failure edges of text parses (ParseCIDR / ParseIP ...) in the region of ProcessAccessRules", n, 1)
}

// c12ResultsAtIn: the values that receive result v of ret at the static call sites inside the region.
func c12ResultsAtIn(ret *ssa.Return, v ssa.Value, inReg map[*ssa.Function]bool) []ssa.Value {
	var out []ssa.Value
	for _, w := range c12ResultsAt(ret, v) {
		if in, ok := w.(ssa.Instruction); ok && in.Parent() != nil && inReg[in.Parent()] {
			out = append(out, w)
		}
	}
	return out
}

// c12CalledIn: fn has a static call site (whose value is used as a call) inside the region.
func c12CalledIn(fn *ssa.Function, inReg map[*ssa.Function]bool) bool {
	for _, s := range gSites[fn] {
		if call, ok := s.(*ssa.Call); ok && call.Parent() != nil && inReg[call.Parent()] {
			return true
		}
	}
	return false
}

// walkFrom: like walk, entering block first (the target of the failure edge) with the parse as the start point. The
// path's set holds the error values known to be non-nil on this path (`err = fmt.Errorf(...); break` ... `return err`).
func (o *c12Obl) walkFrom(start ssa.Instruction, from, first *ssa.BasicBlock, tested ssa.Value, pos token.Pos) {
	sb, si := start.Block(), instrIndex(start)+1
	if !pos.IsValid() {
		pos = start.Pos()
	}
	type item struct {
		b     *ssa.BasicBlock
		nn    map[ssa.Value]bool
		pos   token.Pos
		carry bool
	}
	seen := map[string]bool{}
	var stack []item
	// enter: the path takes the edge p -> s
	enter := func(p, s *ssa.BasicBlock, nn0 map[ssa.Value]bool, pos token.Pos, carry bool) {
		nn := c12CopyHeld(nn0)
		carried := false
		for _, in := range s.Instrs {
			phi, ok := in.(*ssa.Phi)
			if !ok {
				break
			}
			if !c12IsErrorType(phi.Type()) {
				continue
			}
			delete(nn, phi)
			for k, q := range s.Preds {
				if q == p && k < len(phi.Edges) && (nn0[phi.Edges[k]] || c12NonNilDeep(phi.Edges[k], 0)) {
					nn[phi] = true
					carried = true
				}
			}
		}
		if !carry && s.Dominates(sb) {
			// control is back at (or before) the start point: the next element's turn - unless the failure travels with it,
			// in a variable that lives across the elements (`if failed == nil { failed = err }; continue` ... `return failed`):
			// then the walk goes on round the loop, and whatever is returned in the end must still be that error
			for v := range nn0 {
				if a, ok := v.(*ssa.Alloc); ok && c12Persistent(a, sb, si) {
					carried = true
				}
				if _, ok := v.(*ssa.FreeVar); ok {
					carried = true
				}
			}
			if !carried {
				o.exit(pos, "goes on to the next element")
				return
			}
			carry = true
		}
		key := c12HeldKey(s, nn) + fmt.Sprint(carry)
		if !seen[key] {
			seen[key] = true
			stack = append(stack, item{s, nn, pos, carry})
		}
	}
	nn0 := map[ssa.Value]bool{}
	if tested != nil && !o.failNil {
		nn0[tested] = true
	}
	enter(from, first, nn0, pos, false)
	for len(stack) > 0 {
		it := stack[len(stack)-1]
		stack = stack[:len(stack)-1]
		if o.budget++; o.budget > 20000 {
			return
		}
		o.carrying = it.carry
		done := false
		for _, in := range it.b.Instrs {
			if v, ok := in.(ssa.Value); ok && it.carry {
				if _, isPhi := in.(*ssa.Phi); !isPhi {
					delete(it.nn, v) // computed anew for the next element: what was known of the last one's is gone
				}
			}
			if done = o.instr(in, it.nn, sb, si, it.pos, 0); done {
				break
			}
		}
		if done {
			continue
		}
		for _, s := range it.b.Succs {
			p := it.pos
			nn := it.nn
			if f, ok := c12EdgeFact(it.b, s); ok {
				if o.pruned(f, nil) {
					continue
				}
				if x, cons := c12ConsOfFact(f.Cond, f.Truth); cons.kind == 'n' && c12IsErrorType(x.Type()) {
					if cons.eq && it.nn[x] {
						continue // `if failed == nil` on a path on which failed holds the error
					}
					if !cons.eq {
						nn = c12CopyHeld(it.nn)
						nn[x] = true // `if failed != nil`: on this edge it is
					}
				}
				if q := f.Cond.Pos(); q.IsValid() {
					p = q
				}
			}
			enter(it.b, s, nn, p, it.carry)
		}
	}
}

// ---- overlay mutants ----------------------------------------------------------------------------------------------------

const (
	c12SrcAR      = "route/access_rules.go"
	c12SrcParse   = "\t\t\t_, net, err := net.ParseCIDR(value)\n"
	c12SrcParseB  = "\t\t\t_, block, err := net.ParseCIDR(value)\n"
	c12SrcAdd     = "\t\t\t// add element to rule map\n\t\t\tt.accessRules[accessTag] = append(t.accessRules[accessTag], net)\n"
	c12SrcAddB    = "\t\t\tt.accessRules[accessTag] = append(t.accessRules[accessTag], block)\n"
	c12SrcFn      = "func (t *Target) parseAccessRule(allowDeny string) error {\n"
	c12SrcCIDRErr = "\t\t\t\treturn fmt.Errorf(\"failed to parse CIDR %s with error: %s\",\n\t\t\t\t\tc, err.Error())\n"
	c12SrcIPErr   = "\t\t\t\t\treturn fmt.Errorf(\"failed to parse IP %s\", value)\n"
	c12SrcLoop    = "\tfor _, c := range strings.Split(t.Opts[allowDeny], \",\") {\n"
	c12SrcLoopSeq = "\tfor c := range strings.SplitSeq(t.Opts[allowDeny], \",\") {\n"
	c12SrcTail    = "\t\tdefault:\n\t\t\treturn fmt.Errorf(\"unknown access item type: %s\", temps[0])\n\t\t}\n\t}\n\n\treturn nil\n"
)

// c12Covered: a helper `covered(tag, block)` whose loop body tests cond on the earlier block b and the new block.
func c12Covered(name, cond string) string {
	return "func (t *Target) " + name + "(tag string, block *net.IPNet) bool {\n\tfor _, x := range t.accessRules[tag] {\n\t\tif b, ok := x.(*net.IPNet); ok && " + cond + " {\n\t\t\treturn true\n\t\t}\n\t}\n\treturn false\n}\n\n"
}

func c12B1Mutants() []mutant {
	m := func(name, add, helper, expect string, more ...repl) mutant {
		rs := []repl{{c12SrcAdd, add}}
		if helper != "" {
			rs = append(rs, repl{c12SrcFn, helper + c12SrcFn})
		}
		return mutant{Name: name, File: c12SrcAR, Old: c12SrcParse, New: c12SrcParseB, Expect: expect, More: append(rs, more...)}
	}
	skip := func(cond string) string { return "\t\t\tif " + cond + " {\n\t\t\t\tcontinue\n\t\t\t}\n" }
	skipIf := func(cond string) string { return skip(cond) + c12SrcAddB }
	return []mutant{
		m("block skipped when an earlier block contains its network address (helper)", skipIf("t.covered(accessTag, block)"),
			c12Covered("covered", "b.Contains(block.IP)"), "C12.B1"),
		m("block skipped when an earlier block contains its network address (inline, flag)",
			"\t\t\tdup := false\n\t\t\tfor _, x := range t.accessRules[accessTag] {\n\t\t\t\tif b, ok := x.(*net.IPNet); ok && b.Contains(block.IP) {\n\t\t\t\t\tdup = true\n\t\t\t\t}\n\t\t\t}\n\t\t\tif dup {\n\t\t\t\tcontinue\n\t\t\t}\n"+c12SrcAddB,
			"", "C12.B1"),
		m("the helper that adds the block drops it when its network address is already covered", "\t\t\tt.addBlock(accessTag, block)\n",
			"func (t *Target) addBlock(tag string, block *net.IPNet) {\n\tfor _, x := range t.accessRules[tag] {\n\t\tif b, ok := x.(*net.IPNet); ok && b.Contains(block.IP) {\n\t\t\treturn\n\t\t}\n\t}\n\tt.accessRules[tag] = append(t.accessRules[tag], block)\n}\n\n", "C12.B1"),
		m("block skipped when an earlier block has the same base address", skipIf("t.covered(accessTag, block)"),
			c12Covered("covered", "b.IP.Equal(block.IP)"), "C12.B1"),
		m("blocks of private / loopback addresses are not installed", skipIf("block.IP.IsLoopback() || block.IP.IsPrivate()"), "", "C12.B1"),
		m("blocks collected in a list, a block skipped on its network address", skip("t.covered(accessTag, block)")+"\t\t\tblocks = append(blocks, block)\n",
			c12Covered("covered", "b.Contains(block.IP)"), "C12.B1",
			repl{"\tvar ip net.IP\n", "\tvar ip net.IP\n\tvar blocks []interface{}\n"},
			repl{c12SrcTail, strings.Replace(c12SrcTail, "\treturn nil\n", "\tt.accessRules[accessTag] = append(t.accessRules[accessTag], blocks...)\n\treturn nil\n", 1)}),
		m("the block is appended to a copy of the list that is stored only when the block is not 'covered'",
			"\t\t\tlist := append(t.accessRules[accessTag], block)\n\t\t\tif !t.covered(accessTag, block) {\n\t\t\t\tt.accessRules[accessTag] = list\n\t\t\t}\n",
			c12Covered("covered", "b.Contains(block.IP)"), "C12.B1"),

		m("benign: block skipped when an earlier block covers it - network address inside AND prefix not shorter", skipIf("t.covered(accessTag, block)"),
			"func (t *Target) covered(tag string, block *net.IPNet) bool {\n\tones, _ := block.Mask.Size()\n\tfor _, x := range t.accessRules[tag] {\n\t\tif b, ok := x.(*net.IPNet); ok && b.Contains(block.IP) {\n\t\t\tif o, _ := b.Mask.Size(); o <= ones {\n\t\t\t\treturn true\n\t\t\t}\n\t\t}\n\t}\n\treturn false\n}\n\n", ""),
		m("benign: exact duplicates skipped (compared as text)", skipIf("t.covered(accessTag, block)"),
			c12Covered("covered", "b.String() == block.String()"), ""),
		m("benign: exact duplicates skipped (seen set keyed by the block's text, inline)",
			"\t\t\tif seen[block.String()] {\n\t\t\t\tcontinue\n\t\t\t}\n\t\t\tseen[block.String()] = true\n"+c12SrcAddB, "", "",
			repl{"\tvar ip net.IP\n", "\tvar ip net.IP\n\tseen := map[string]bool{}\n"}),
		m("benign: blocks collected in a list that is stored after the loop", "\t\t\tblocks = append(blocks, block)\n", "", "",
			repl{"\tvar ip net.IP\n", "\tvar ip net.IP\n\tvar blocks []interface{}\n"},
			repl{c12SrcTail, strings.Replace(c12SrcTail, "\treturn nil\n", "\tt.accessRules[accessTag] = append(t.accessRules[accessTag], blocks...)\n\treturn nil\n", 1)}),
		m("benign: a block already covered by its network address is left out of an ALLOW list only (narrows access)",
			skipIf("accessTag == ipAllowTag && t.covered(accessTag, block)"), c12Covered("covered", "b.Contains(block.IP)"), ""),
		{Name: "benign: the block is parsed by a helper that hands it back", File: c12SrcAR, Old: c12SrcParse, New: "\t\t\tblock, err := parseBlock(value)\n", Expect: "",
			More: []repl{{c12SrcAdd, c12SrcAddB}, {c12SrcFn, "func parseBlock(value string) (*net.IPNet, error) {\n\t_, block, err := net.ParseCIDR(value)\n\tif err != nil {\n\t\treturn nil, err\n\t}\n\treturn block, nil\n}\n\n" + c12SrcFn}}},
		{Name: "the block is parsed by a helper that hands it back, the caller skips it on its network address", File: c12SrcAR, Old: c12SrcParse, New: "\t\t\tblock, err := parseBlock(value)\n", Expect: "C12.B1",
			More: []repl{{c12SrcAdd, skipIf("t.covered(accessTag, block)")}, {c12SrcFn, c12Covered("covered", "b.Contains(block.IP)") + "func parseBlock(value string) (*net.IPNet, error) {\n\t_, block, err := net.ParseCIDR(value)\n\tif err != nil {\n\t\treturn nil, err\n\t}\n\treturn block, nil\n}\n\n" + c12SrcFn}}},
		m("benign: the elements are walked with strings.SplitSeq (loop body is a closure)", c12SrcAddB, "", "", repl{c12SrcLoop, c12SrcLoopSeq}),
		m("elements walked with strings.SplitSeq, a block skipped on its network address", skipIf("t.covered(accessTag, block)"),
			c12Covered("covered", "b.Contains(block.IP)"), "C12.B1", repl{c12SrcLoop, c12SrcLoopSeq}),
		m("benign: the rule set is built in a local map that is stored after the loop", "\t\t\trules[accessTag] = append(rules[accessTag], block)\n", "", "",
			repl{"\tif t.accessRules == nil {\n\t\tt.accessRules = make(map[string][]interface{})\n\t}\n", "\trules := t.accessRules\n\tif rules == nil {\n\t\trules = make(map[string][]interface{})\n\t}\n"},
			repl{c12SrcTail, strings.Replace(c12SrcTail, "\treturn nil\n", "\tt.accessRules = rules\n\treturn nil\n", 1)}),
		m("benign: the block is added by a helper", "\t\t\tt.addBlock(accessTag, block)\n",
			"func (t *Target) addBlock(tag string, block *net.IPNet) {\n\tt.accessRules[tag] = append(t.accessRules[tag], block)\n}\n\n", ""),

		// ---- seeded/C12-8: more spellings of "a client-controlled attribute of the request opens a gate" (rule G1) ----
		{Name: "OPTIONS requests pass the auth gate, decided in a helper", File: "proxy/http_proxy.go",
			Old: "\tif !t.Authorized(r, w, p.AuthSchemes) {\n", New: "\tif !p.authorized(t, w, r) {\n", Expect: "C12.G1",
			More: []repl{{"func key(code int) string {", "func (p *HTTPProxy) authorized(t *route.Target, w http.ResponseWriter, r *http.Request) bool {\n\tif r.Method == http.MethodOptions {\n\t\treturn true\n\t}\n\treturn t.Authorized(r, w, p.AuthSchemes)\n}\n\nfunc key(code int) string {"}}},
		{Name: "websocket upgrades skip the auth gate", File: "proxy/http_proxy.go",
			Old: "\tif !t.Authorized(r, w, p.AuthSchemes) {\n", New: "\tif !isWebsocketUpgrade(r) && !t.Authorized(r, w, p.AuthSchemes) {\n", Expect: "C12.G1"},
		{Name: "requests that call themselves a health check skip the access rules", File: "proxy/http_proxy.go",
			Old: "\tif t.AccessDeniedHTTP(r) {\n", New: "\tif r.Header.Get(\"X-Health-Check\") == \"\" && t.AccessDeniedHTTP(r) {\n", Expect: "C12.G1"},
		{Name: "benign: CORS preflights are answered by fabio itself (204, no upstream) before the auth gate", File: "proxy/http_proxy.go",
			Old: "\tif !t.Authorized(r, w, p.AuthSchemes) {\n", New: "\tif r.Method == http.MethodOptions && r.Header.Get(\"Origin\") != \"\" && r.Header.Get(\"Access-Control-Request-Method\") != \"\" {\n\t\tw.WriteHeader(http.StatusNoContent)\n\t\treturn\n\t}\n\n\tif !t.Authorized(r, w, p.AuthSchemes) {\n", Expect: ""},
	}
}

func c12B2Mutants() []mutant {
	return []mutant{
		{Name: "an element that is not a CIDR block is logged and skipped", File: c12SrcAR, Old: c12SrcCIDRErr,
			New: "\t\t\t\tlog.Printf(\"[WARN] skipping access item %s: %s\", c, err.Error())\n\t\t\t\tcontinue\n", Expect: "C12.B2"},
		{Name: "an element that is not an IP address is logged and skipped", File: c12SrcAR, Old: c12SrcIPErr,
			New: "\t\t\t\t\tlog.Printf(\"[WARN] skipping access item %s\", value)\n\t\t\t\t\tcontinue\n", Expect: "C12.B2"},
		{Name: "parsing stops at the first bad block and keeps what it has", File: c12SrcAR, Old: c12SrcCIDRErr,
			New: "\t\t\t\tlog.Printf(\"[WARN] ignoring access items from %s on: %s\", c, err.Error())\n\t\t\t\treturn nil\n", Expect: "C12.B2"},
		{Name: "benign: text that is not an IP address gets its verdict from ParseCIDR", File: c12SrcAR,
			Old: "\t\t\t\tif ip = net.ParseIP(value); ip == nil {\n" + c12SrcIPErr + "\t\t\t\t}\n\t\t\t\tif ip.To4() != nil {\n\t\t\t\t\tvalue = ip.String() + \"/32\"\n\t\t\t\t} else {\n\t\t\t\t\tvalue = ip.String() + \"/128\"\n\t\t\t\t}\n",
			New: "\t\t\t\tif ip = net.ParseIP(value); ip != nil {\n\t\t\t\t\tif ip.To4() != nil {\n\t\t\t\t\t\tvalue = ip.String() + \"/32\"\n\t\t\t\t\t} else {\n\t\t\t\t\t\tvalue = ip.String() + \"/128\"\n\t\t\t\t\t}\n\t\t\t\t}\n", Expect: ""},
		{Name: "an element that is not a CIDR block is logged and skipped (strings.SplitSeq loop)", File: c12SrcAR, Old: c12SrcCIDRErr,
			New: "\t\t\t\tlog.Printf(\"[WARN] skipping access item %s: %s\", c, err.Error())\n\t\t\t\tcontinue\n", Expect: "C12.B2", More: []repl{{c12SrcLoop, c12SrcLoopSeq}}},
		{Name: "benign: the failure is kept in a variable, the loop is left and the variable returned", File: c12SrcAR, Old: c12SrcCIDRErr,
			New: "\t\t\t\tfailed = fmt.Errorf(\"failed to parse CIDR %s with error: %s\", c, err.Error())\n\t\t\t\tbreak elements\n", Expect: "",
			More: []repl{{c12SrcLoop, "\tvar failed error\nelements:\n" + c12SrcLoop}, {c12SrcTail, strings.Replace(c12SrcTail, "\treturn nil\n", "\treturn failed\n", 1)}}},
		{Name: "benign: the errors are built by a helper", File: c12SrcAR, Old: c12SrcCIDRErr, New: "\t\t\t\treturn ruleError(c, err)\n", Expect: "",
			More: []repl{{c12SrcFn, "func ruleError(item string, err error) error {\n\treturn fmt.Errorf(\"failed to parse CIDR %s with error: %s\", item, err.Error())\n}\n\n" + c12SrcFn}}},
	}
}
