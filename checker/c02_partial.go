package main

// C02.P* — no route configuration text can crash the table builder or the lookup path. The rules look at what an
// instruction does (indexes a split/submatch result, divides, allocates a computed size, lets a parsed float escape,
// dereferences the definition list) in the region reachable from the exported entry points; no unexported function
// is named.

import (
	"fmt"
	"go/constant"
	"go/token"
	"go/types"
	"regexp"
	"strings"

	"golang.org/x/tools/go/ssa"
)

func runC02P(c *Ctx, x *c02pubs) {
	var roots, builders []*ssa.Function
	for _, n := range []string{"NewTable", "NewTableCustom", "Parse", "ParseAliases"} {
		f := c.fn("route", n)
		if !c.need("C02.P1", f, "route."+n) {
			continue
		}
		roots = append(roots, f)
		builders = append(builders, f)
	}
	for _, m := range []string{"Lookup", "LookupHost"} {
		if f := c.method("route", "Table", m); f != nil {
			roots = append(roots, f)
		}
	}
	scope := c.c02reach(roots...)
	// stay inside the repository
	for f := range scope {
		if f.Pkg == nil && f.Parent() == nil {
			delete(scope, f)
		}
	}
	n := c02PartialOps(c, "C02.P1", scope)
	c.atLeast("C02.P1", "constant indices into split/submatch results in the table builder", n, 3)

	// P3: divisions in scope
	nDiv := 0
	for _, f := range c02fns(c) {
		if !scope[f] {
			continue
		}
		eachInstr(f, func(i ssa.Instruction) {
			b, ok := i.(*ssa.BinOp)
			if !ok || (b.Op != token.QUO && b.Op != token.REM) {
				return
			}
			bt, ok := b.X.Type().Underlying().(*types.Basic)
			if !ok || bt.Info()&types.IsInteger == 0 {
				return
			}
			if _, isConst := b.Y.(*ssa.Const); isConst {
				return
			}
			nDiv++
			ok2, why := divisorNonZero(b)
			if !ok2 && (x.nonZeroAt(b.Y, b.Block(), 0) || x.symHolds(b.Y, b.Block(), c02acceptNonZero)) {
				ok2 = true
			}
			c.check("C02.P3", fnKey(f)+"|integer division by "+shortPath(b.Y), b.Pos(), ok2, "a route configuration must not be able to crash the builder or the lookup: "+why)
		})
	}
	c.atLeast("C02.P3", "integer divisions in the table builder / lookup path", nDiv, 1)

	// P4: non-finite weights are rejected where they are parsed; computed allocation sizes are guarded
	build := c.c02reach(builders...)
	runC02FiniteWeight(c, build)
	runC02Alloc(c, x, build)

	// P7: nothing that can panic on a configured pattern below the exported lookup entries. The pickers and matchers
	// (function values chosen by configuration) are reached through the call graph's resolution of `pick(r)` /
	// `match(path, r)`, not through the registry maps they are listed in.
	var lookups []*ssa.Function
	for _, m := range []string{"Lookup", "LookupHost"} {
		f := c.method("route", "Table", m)
		if c.need("C02.P7", f, "route.Table."+m) {
			lookups = append(lookups, f)
		}
	}
	nP7 := nDiv
	for f := range c.c02reach(lookups...) {
		eachInstr(f, func(i ssa.Instruction) {
			if cc := callCommon(i); cc != nil {
				name := calleeName(cc)
				if (strings.HasSuffix(name, ".MustCompile") || strings.HasSuffix(name, ".MustParse")) && len(cc.Args) > 0 {
					nP7++
					_, isConst := cc.Args[0].(*ssa.Const)
					c.check("C02.P7", fnKey(f)+"|"+name, i.Pos(), isConst,
						name+" of a non-constant pattern panics on the request path when the pattern does not compile (e.g. host pattern '['): the lookup must skip or report the pattern instead")
				}
			}
			if p, ok := i.(*ssa.Panic); ok {
				nP7++
				c.check("C02.P7", fnKey(f)+"|panic", p.Pos(), false, "explicit panic reachable from a table lookup")
			}
		})
	}
	c.atLeast("C02.P7", "partial operations reachable from table lookups", nP7, 1)

	// P8: the custom backend's definition list (a pointer that is nil after decoding the JSON text null) is
	// dereferenced only under a nil test - in NewTableCustom or in the helpers it hands the pointer to
	ntc := c.fn("route", "NewTableCustom")
	if ntc != nil && len(ntc.Params) > 0 {
		pt := ntc.Params[0].Type()
		nd := 0
		for _, f := range c.region(ntc) {
			eachInstr(f, func(i ssa.Instruction) {
				u, ok := i.(*ssa.UnOp)
				if !ok || u.Op != token.MUL {
					return
				}
				if !types.Identical(u.X.Type(), pt) {
					return
				}
				if _, isPtr := pt.Underlying().(*types.Pointer); !isPtr {
					return
				}
				// the pointer is a parameter of the function - or, inside a function literal (an iterator over the
				// list, a callback), the captured parameter of the enclosing function
				if p, _, _ := c02paramOrigin(u.X); p == nil {
					return
				}
				nd++
				c.check("C02.P8", fnKey(f)+"|dereference of the definition list", u.Pos(), x.nonNilOrigin(u.X, u.Block()),
					"the custom backend decodes JSON into *[]RouteDef; the JSON text null leaves the pointer nil without an error, and dereferencing it panics in a goroutine without recover (process exit)")
			})
		}
		c.atLeast("C02.P8", "dereferences of the definition list", nd, 1)
	}
}

// ---- P1 / P2 -------------------------------------------------------------------------------------------------------

// c02splitSource: src is the result of a strings.Split-family call, or of a repository helper every return of which
// is such a call; min is the guaranteed length of the result.
func c02splitSource(src ssa.Value, depth int) (name string, min int64, ok bool) {
	call, isCall := src.(*ssa.Call)
	if !isCall {
		return "", 0, false
	}
	name = calleeName(&call.Call)
	if m, isSplit := splitFamily[name]; isSplit {
		min = int64(m)
		if name == "strings.SplitN" || name == "strings.SplitAfterN" {
			if cnt, ok := constInt(call.Call.Args[2]); !ok || cnt == 0 {
				min = 0
			}
		}
		return name, min, true
	}
	sc := call.Call.StaticCallee()
	if sc == nil || !isRepoFn(sc) || len(sc.Blocks) == 0 || depth > 1 || sc.Signature.Results().Len() != 1 {
		return "", 0, false
	}
	first := true
	all := true
	eachInstr(sc, func(i ssa.Instruction) {
		r, isR := i.(*ssa.Return)
		if !isR || len(r.Results) != 1 {
			return
		}
		n, m, ok := c02splitSource(r.Results[0], depth+1)
		if !ok {
			all = false
			return
		}
		if first || m < min {
			min = m
		}
		name, first = n, false
	})
	if first || !all {
		return "", 0, false
	}
	return name, min, true
}

// c02regexpGroups: the capture groups of the regexp value - a local regexp.MustCompile(constant), or a package-level
// regexp assigned a compiled constant pattern (in the variable's declaration or in an init function), in both cases
// possibly through a repository wrapper of the form MustCompile(strings.Replace(pattern, constant, constant)).
func c02regexpGroups(c *Ctx, re ssa.Value) (int, string, bool) {
	pattern := func(v ssa.Value) (string, bool) {
		call, ok := v.(*ssa.Call)
		if !ok || len(call.Call.Args) != 1 {
			return "", false
		}
		pat, ok := constString(call.Call.Args[0])
		if !ok {
			return "", false
		}
		if n := calleeName(&call.Call); n == "regexp.MustCompile" || n == "regexp.MustCompilePOSIX" {
			return pat, true
		}
		sc := call.Call.StaticCallee()
		if sc == nil || !isRepoFn(sc) || len(sc.Blocks) == 0 {
			return "", false
		}
		compiles := false
		eachInstr(sc, func(j ssa.Instruction) {
			cc := callCommon(j)
			if cc == nil {
				return
			}
			switch calleeName(cc) {
			case "regexp.MustCompile", "regexp.MustCompilePOSIX":
				compiles = true
			case "strings.Replace", "strings.ReplaceAll":
				o, ok1 := constString(cc.Args[1])
				nw, ok2 := constString(cc.Args[2])
				if ok1 && ok2 {
					pat = strings.ReplaceAll(pat, o, nw)
				}
			}
		})
		return pat, compiles
	}
	count := func(pat string) (int, string, bool) {
		r, err := regexp.Compile(pat)
		if err != nil {
			return 0, pat, false
		}
		return r.NumSubexp(), pat, true
	}
	if pat, ok := pattern(re); ok {
		return count(pat)
	}
	if u, ok := re.(*ssa.UnOp); ok && u.Op == token.MUL {
		if g, ok := u.X.(*ssa.Global); ok && g.Pkg != nil {
			inits := []*ssa.Function{}
			if f := g.Pkg.Func("init"); f != nil {
				inits = append(inits, f)
			}
			for _, f := range c02fns(c) {
				if f.Pkg == g.Pkg && isInitFn(f) {
					inits = append(inits, f)
				}
			}
			var pats []string
			for _, f := range inits {
				eachInstr(f, func(i ssa.Instruction) {
					if st, ok := i.(*ssa.Store); ok && st.Addr == ssa.Value(g) {
						if pat, ok := pattern(st.Val); ok {
							pats = append(pats, pat)
						} else {
							pats = append(pats, "\x00")
						}
					}
				})
			}
			if len(pats) == 1 && pats[0] != "\x00" {
				return count(pats[0])
			}
		}
	}
	return c.regexpGroups(re)
}

// c02PartialOps: like the shared runPartialOps; additionally a submatch index is protected by a dominating length
// fact (len(m) > k / len(m) == n) as well as by m != nil, split results may come out of a small helper, and the
// regexp may be a local constant pattern.
func c02PartialOps(c *Ctx, rule string, scope map[*ssa.Function]bool) int {
	n := 0
	for _, f := range c02fns(c) {
		if !scope[f] {
			continue
		}
		eachInstr(f, func(i ssa.Instruction) {
			switch x := i.(type) {
			case *ssa.IndexAddr:
				k, isConst := constInt(x.Index)
				if !isConst {
					return
				}
				src := x.X
				if name, min, isSplit := c02splitSource(src, 0); isSplit {
					n++
					lb := lenLowerBound(x.Block(), src, min)
					c.check(rule, fnKey(f)+"|"+name+" result ["+fmt.Sprint(k)+"]", x.Pos(), lb > k,
						fmt.Sprintf("index %d into the result of %s is not protected: only len >= %d is known here, so an input without the separator panics (index out of range)", k, name, lb))
					return
				}
				if call, ok := src.(*ssa.Call); ok && submatchFamily[calleeName(&call.Call)] {
					n++
					groups, pat, resolved := c02regexpGroups(c, call.Call.Args[0])
					nonNil := knownNonNil(x.Block(), sameVal(src))
					lb := lenLowerBound(x.Block(), src, 0)
					detail := fmt.Sprintf("index %d into a submatch result needs a dominating `m != nil` and at most %d capture groups in %q (or a dominating len(m) > %d)", k, groups, pat, k)
					key := fnKey(f) + "|submatch [" + fmt.Sprint(k) + "]"
					switch {
					case lb > k:
						c.check(rule, key, x.Pos(), true, detail)
					case !resolved:
						c.ob(rule, key, x.Pos(), Undecided, "cannot resolve the regexp's constant pattern: "+detail)
					default:
						c.check(rule, key, x.Pos(), nonNil && k <= int64(groups), detail)
					}
				}
			case *ssa.Slice:
				for _, bnd := range []ssa.Value{x.Low, x.High} {
					if bnd == nil {
						continue
					}
					var idxCall *ssa.Call
					derives(bnd, func(v ssa.Value) bool {
						if call, ok := v.(*ssa.Call); ok && indexFamily[calleeName(&call.Call)] {
							idxCall = call
							return true
						}
						return false
					})
					if idxCall == nil {
						continue
					}
					n++
					ok := indexNonNegative(x.Block(), idxCall)
					c.check(rule, fnKey(f)+"|slice bound from "+calleeName(&idxCall.Call), x.Pos(), ok,
						"a slice bound computed from "+calleeName(&idxCall.Call)+" is used without a dominating test that the index is >= 0: when the separator is absent the result is -1 and the slice expression panics")
				}
			}
		})
	}
	return n
}

// ---- sign facts ------------------------------------------------------------------------------------------------------

func c02stripConv(v ssa.Value) ssa.Value {
	for {
		if cv, ok := v.(*ssa.Convert); ok {
			if bt, ok := cv.X.Type().Underlying().(*types.Basic); ok && bt.Info()&types.IsInteger != 0 {
				v = cv.X
				continue
			}
		}
		return v
	}
}

// c02signFact: a dominating branch fact at block at shows d > 0 (strict) or d >= 0 (!strict).
func c02signFact(d ssa.Value, at *ssa.BasicBlock, strict bool) bool {
	d = c02stripConv(d)
	same := samePath(d)
	for _, f := range factsAt(at) {
		cmp, ok := f.Cond.(*ssa.BinOp)
		if !ok {
			continue
		}
		xv, yv := c02stripConv(cmp.X), c02stripConv(cmp.Y)
		op := cmp.Op
		var k int64
		switch {
		case same(xv):
			n, ok := constInt(yv)
			if !ok {
				continue
			}
			k = n
		case same(yv):
			n, ok := constInt(xv)
			if !ok {
				continue
			}
			k = n
			switch op {
			case token.LSS:
				op = token.GTR
			case token.GTR:
				op = token.LSS
			case token.LEQ:
				op = token.GEQ
			case token.GEQ:
				op = token.LEQ
			}
		default:
			continue
		}
		if !f.Truth {
			switch op {
			case token.LSS:
				op = token.GEQ
			case token.GEQ:
				op = token.LSS
			case token.GTR:
				op = token.LEQ
			case token.LEQ:
				op = token.GTR
			case token.EQL:
				op = token.NEQ
			case token.NEQ:
				op = token.EQL
			}
		}
		// now: d op k holds
		low := int64(1)
		if !strict {
			low = 0
		}
		switch op {
		case token.GTR:
			if k >= low-1 {
				return true
			}
		case token.GEQ:
			if k >= low {
				return true
			}
		case token.EQL:
			if k >= low {
				return true
			}
		case token.NEQ:
			// d != 0 proves non-zero, not a sign: used by nonZeroAt only
		}
	}
	return false
}

// nonZeroAt: d != 0 at block at - by a fact on d here, or, for the parameter of a helper, at every call site.
func (x *c02pubs) nonZeroAt(d ssa.Value, at *ssa.BasicBlock, depth int) bool {
	d = c02stripConv(d)
	if n, ok := constInt(d); ok {
		return n != 0
	}
	if c02signFact(d, at, true) {
		return true
	}
	// d != 0 / d == 0 facts
	same := samePath(d)
	for _, f := range factsAt(at) {
		cmp, ok := f.Cond.(*ssa.BinOp)
		if !ok || (cmp.Op != token.EQL && cmp.Op != token.NEQ) {
			continue
		}
		xv, yv := c02stripConv(cmp.X), c02stripConv(cmp.Y)
		var other ssa.Value
		switch {
		case same(xv):
			other = yv
		case same(yv):
			other = xv
		default:
			continue
		}
		if n, ok := constInt(other); ok && n == 0 && (cmp.Op == token.NEQ) == f.Truth {
			return true
		}
	}
	return x.liftParam(d, depth, func(arg ssa.Value, blk *ssa.BasicBlock) bool { return x.nonZeroAt(arg, blk, depth+1) })
}

// liftParam: v is the parameter of a helper that is only called statically, and ok holds for the argument at every
// call site.
func (x *c02pubs) liftParam(v ssa.Value, depth int, ok func(arg ssa.Value, at *ssa.BasicBlock) bool) bool {
	p, isParam := v.(*ssa.Parameter)
	if !isParam || depth >= 3 {
		return false
	}
	fn := p.Parent()
	k := c02paramIndex(p)
	sites := c02sites(fn)
	if k < 0 || len(sites) == 0 || !x.onlyStatic(fn) {
		return false
	}
	for _, s := range sites {
		cc := s.Common()
		if k >= len(cc.Args) || s.Block() == nil || !ok(cc.Args[k], s.Block()) {
			return false
		}
	}
	return true
}

// nonNegAt: v >= 0 at block at.
func (x *c02pubs) nonNegAt(v ssa.Value, at *ssa.BasicBlock, depth int, seen map[ssa.Value]bool) bool {
	v = c02stripConv(v)
	if n, ok := constInt(v); ok {
		return n >= 0
	}
	if seen[v] || depth > 4 {
		return false
	}
	seen[v] = true
	switch y := v.(type) {
	case *ssa.Call:
		if n := calleeName(&y.Call); n == "builtin.len" || n == "builtin.cap" {
			return true
		}
	case *ssa.BinOp:
		switch y.Op {
		case token.ADD, token.MUL:
			// sums and products of small non-negative sizes (overflow is not modelled)
			if x.nonNegAt(y.X, at, depth+1, seen) && x.nonNegAt(y.Y, at, depth+1, seen) {
				return true
			}
		}
	}
	if c02signFact(v, at, false) {
		return true
	}
	if depth == 0 && x.symHolds(v, at, c02acceptNonNeg) {
		return true
	}
	return x.liftParam(v, depth, func(arg ssa.Value, blk *ssa.BasicBlock) bool {
		return x.nonNegAt(arg, blk, depth+1, map[ssa.Value]bool{})
	})
}

// runC02Alloc: every allocation in the table builder whose size is computed (not a constant, not a length) is
// dominated by a test that the size is not negative: slot counts come from configured weights.
func runC02Alloc(c *Ctx, x *c02pubs, build map[*ssa.Function]bool) {
	n := 0
	for _, f := range c02fns(c) {
		if !build[f] || rootPkg(f) != c.spkg("route") {
			continue
		}
		eachInstr(f, func(i ssa.Instruction) {
			ms, ok := i.(*ssa.MakeSlice)
			if !ok {
				return
			}
			for k, sz := range []ssa.Value{ms.Len, ms.Cap} {
				if sz == nil || (k == 1 && sz == ms.Len) {
					continue
				}
				if _, isConst := sz.(*ssa.Const); isConst {
					continue
				}
				if call, isCall := c02stripConv(sz).(*ssa.Call); isCall && strings.HasPrefix(calleeName(&call.Call), "builtin.") {
					continue // len(x), cap(x): not a computed size
				}
				n++
				c.check("C02.P4", fnKey(f)+"|allocation size >= 0", ms.Pos(), x.nonNegAt(sz, ms.Block(), 0, map[ssa.Value]bool{}),
					"make([]T, n) panics for a negative size (slot counts computed from non-finite or overflowing weights); it must be dominated by a test that n is not negative (usedSlots > 0)")
			}
		})
	}
	if n == 0 {
		// a ring built by append has no computed allocation to protect; the rule is not vacuous as long as the region
		// it searched is the table builder
		nf := 0
		for _, f := range c02fns(c) {
			if build[f] && rootPkg(f) == c.spkg("route") {
				nf++
			}
		}
		if nf >= 5 {
			c.ob("C02.P4", "route|no computed-size allocation in the table builder", token.NoPos, OK, fmt.Sprintf("%d functions of package route reachable from the constructors searched", nf))
			return
		}
	}
	c.atLeast("C02.P4", "computed-size allocations in the table builder", n, 1)
}

// ---- finiteness ------------------------------------------------------------------------------------------------------

// c02retCases: the branch facts that hold when the boolean function h returns want - one list per way to return it.
func c02retCases(h *ssa.Function, want bool, depth int) [][]Fact {
	var out [][]Fact
	var cases func(v ssa.Value, blk *ssa.BasicBlock, want bool, seen map[ssa.Value]bool)
	cases = func(v ssa.Value, blk *ssa.BasicBlock, want bool, seen map[ssa.Value]bool) {
		for {
			u, ok := v.(*ssa.UnOp)
			if !ok || u.Op != token.NOT {
				break
			}
			v, want = u.X, !want
		}
		if b, ok := constBool(v); ok {
			if b == want {
				out = append(out, factsAt(blk))
			}
			return
		}
		if phi, ok := v.(*ssa.Phi); ok && !seen[v] {
			seen[v] = true
			for k, e := range phi.Edges {
				cases(e, phi.Block().Preds[k], want, seen)
			}
			return
		}
		out = append(out, append(append([]Fact{}, factsAt(blk)...), Fact{v, want}))
	}
	eachInstr(h, func(i ssa.Instruction) {
		if r, ok := i.(*ssa.Return); ok && len(r.Results) == 1 {
			cases(r.Results[0], r.Block(), want, map[ssa.Value]bool{})
		}
	})
	return out
}

func c02floatConst(v ssa.Value) (float64, bool) {
	k, ok := v.(*ssa.Const)
	if !ok || k.Value == nil || (k.Value.Kind() != constant.Float && k.Value.Kind() != constant.Int) {
		return 0, false
	}
	f, _ := constant.Float64Val(k.Value)
	return f, true
}

// c02finite: the facts exclude NaN and both infinities for some float (which float is not tracked, as in the rule
// this generalises: the guard stands next to the parse).
func c02finite(facts []Fact, depth int) (notNaN, notInf bool) {
	posInf, negInf := false, false
	for _, f := range facts {
		cond := f.Cond
		switch y := cond.(type) {
		case *ssa.Call:
			switch calleeName(&y.Call) {
			case "math.IsNaN":
				if !f.Truth {
					notNaN = true
				}
			case "math.IsInf":
				if !f.Truth && len(y.Call.Args) == 2 {
					sign, ok := constInt(y.Call.Args[1])
					switch {
					case !ok:
					case sign == 0:
						posInf, negInf = true, true
					case sign > 0:
						posInf = true
					default:
						negInf = true
					}
				}
			default:
				sc := y.Call.StaticCallee()
				if sc == nil || !isRepoFn(sc) || len(sc.Blocks) == 0 || depth > 1 || sc.Signature.Results().Len() != 1 {
					continue
				}
				cs := c02retCases(sc, f.Truth, depth+1)
				if len(cs) == 0 {
					continue
				}
				allNaN, allInf := true, true
				for _, cfacts := range cs {
					a, b := c02finite(cfacts, depth+1)
					allNaN, allInf = allNaN && a, allInf && b
				}
				if allNaN {
					notNaN = true
				}
				if allInf {
					posInf, negInf = true, true
				}
			}
		case *ssa.BinOp:
			// f != f is the NaN test
			if (y.Op == token.NEQ || y.Op == token.EQL) && accessPath(y.X) == accessPath(y.Y) {
				if (y.Op == token.NEQ) != f.Truth {
					notNaN = true
				}
				continue
			}
			// |f| <= MaxFloat64 excludes the infinities (and, being false for NaN on the excluded side, is combined with the NaN test)
			cst, okc := c02floatConst(y.Y)
			if !okc || cst < 1e308 && cst > -1e308 {
				continue
			}
			op := y.Op
			if !f.Truth {
				switch op {
				case token.GTR:
					op = token.LEQ
				case token.GEQ:
					op = token.LSS
				case token.LSS:
					op = token.GEQ
				case token.LEQ:
					op = token.GTR
				}
			}
			isAbs := false
			if call, ok := y.X.(*ssa.Call); ok && calleeName(&call.Call) == "math.Abs" {
				isAbs = true
			}
			switch {
			case cst > 0 && (op == token.LEQ || op == token.LSS):
				posInf = true
				if isAbs {
					negInf = true
				}
			case cst < 0 && (op == token.GEQ || op == token.GTR):
				negInf = true
			}
		}
	}
	return notNaN, posInf && negInf
}

// c02factsOnEdge: the branch facts that hold when control passes from block p to its successor q.
func c02factsOnEdge(p, q *ssa.BasicBlock) []Fact {
	out := append([]Fact{}, factsAt(p)...)
	if len(p.Instrs) == 0 || len(p.Succs) != 2 || p.Succs[0] == p.Succs[1] {
		return out
	}
	iff, ok := p.Instrs[len(p.Instrs)-1].(*ssa.If)
	if !ok {
		return out
	}
	cond, truth := iff.Cond, p.Succs[0] == q
	for {
		u, isNot := cond.(*ssa.UnOp)
		if !isNot || u.Op != token.NOT {
			break
		}
		cond, truth = u.X, !truth
	}
	return append(out, Fact{cond, truth})
}

// runC02FiniteWeight: wherever the table builder parses a float (strconv.ParseFloat), the parsed value leaves the
// parsing function (is returned, or stored into a structure) only under tests that exclude NaN and the infinities.
func runC02FiniteWeight(c *Ctx, build map[*ssa.Function]bool) {
	n := 0
	for _, f := range c02fns(c) {
		if !build[f] || rootPkg(f) != c.spkg("route") {
			continue
		}
		var parses []*ssa.Call
		eachInstr(f, func(i ssa.Instruction) {
			if call, ok := i.(*ssa.Call); ok && calleeName(&call.Call) == "strconv.ParseFloat" {
				parses = append(parses, call)
			}
		})
		if len(parses) == 0 {
			continue
		}
		fromParse := func(v ssa.Value) bool {
			if _, isFloat := v.Type().Underlying().(*types.Basic); !isFloat {
				return false
			}
			if bt := v.Type().Underlying().(*types.Basic); bt.Info()&types.IsFloat == 0 {
				return false
			}
			hit := false
			seen := map[ssa.Value]bool{}
			var walk func(o ssa.Value)
			walk = func(o ssa.Value) {
				if o == nil || seen[o] || hit {
					return
				}
				seen[o] = true
				switch y := o.(type) {
				case *ssa.Extract:
					for _, p := range parses {
						if y.Tuple == ssa.Value(p) && y.Index == 0 {
							hit = true
						}
					}
				case *ssa.Phi:
					for _, e := range y.Edges {
						walk(e)
					}
				case *ssa.BinOp:
					walk(y.X)
					walk(y.Y)
				case *ssa.Convert:
					walk(y.X)
				case *ssa.ChangeType:
					walk(y.X)
				case *ssa.UnOp:
					if a, ok := y.X.(*ssa.Alloc); ok && y.Op == token.MUL {
						for _, r := range *a.Referrers() {
							if st, ok := r.(*ssa.Store); ok && st.Addr == a {
								walk(st.Val)
							}
						}
					} else if y.Op == token.SUB {
						walk(y.X)
					}
				}
			}
			walk(v)
			return hit
		}
		eachInstr(f, func(i ssa.Instruction) {
			var escaping ssa.Value
			what := ""
			switch y := i.(type) {
			case *ssa.Return:
				for _, r := range y.Results {
					if fromParse(r) {
						escaping, what = r, "returned"
					}
				}
			case *ssa.Store:
				if _, isLocal := y.Addr.(*ssa.Alloc); !isLocal && fromParse(y.Val) {
					escaping, what = y.Val, "stored"
				}
			case *ssa.MapUpdate:
				if fromParse(y.Value) {
					escaping, what = y.Value, "stored"
				}
			}
			if escaping == nil {
				return
			}
			n++
			// the value is finite here, or - for a merge - on every edge on which it is the parsed value
			var finiteAt func(v ssa.Value, facts []Fact, seen map[ssa.Value]bool) bool
			finiteAt = func(v ssa.Value, facts []Fact, seen map[ssa.Value]bool) bool {
				if nan, inf := c02finite(facts, 0); nan && inf {
					return true
				}
				phi, ok := v.(*ssa.Phi)
				if !ok || seen[v] {
					return false
				}
				seen[v] = true
				for k, e := range phi.Edges {
					if !fromParse(e) {
						continue
					}
					if !finiteAt(e, c02factsOnEdge(phi.Block().Preds[k], phi.Block()), seen) {
						return false
					}
				}
				return true
			}
			c.check("C02.P4", fnKey(f)+"|parsed weight is finite", i.Pos(), finiteAt(escaping, factsAt(i.Block()), map[ssa.Value]bool{}),
				"strconv.ParseFloat accepts 'Inf' and 'NaN'; a non-finite weight becomes a NaN share in weighTargets, int(NaN) is a huge negative slot count and make() panics in the table update loop (no recover) - the parsed value is "+what+" here without tests that exclude NaN and both infinities")
		})
	}
	c.atLeast("C02.P4", "places where a parsed float leaves its parser", n, 1)
}
