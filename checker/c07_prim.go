package main

// Primitives of C07 that do not depend on how fabio's proxy code is cut into functions: must-style expansion of a
// value into its leaves (through phis, local cells, results and parameters of repository helpers), "holds on every
// path" branch facts, the alias set of the upstream URL and the recognition of the route lookup.

import (
	"go/token"
	"go/types"
	"strings"

	"golang.org/x/tools/go/ssa"
)

// ---- must-style expansion ------------------------------------------------------------------------------------------

// c07alt is one way a value can be composed: the ordered leaves of a concatenation together with the program points
// at which this alternative is selected (a phi edge, the block of a return, the block of a store, the call site of a
// helper). Facts that hold at any of the guards hold when the alternative is taken.
type c07alt struct {
	Seq    []ssa.Value
	Guards []c07guard
	Bind   map[*ssa.Parameter]ssa.Value // helper parameters met on the way -> the argument of the call we came through
}

func c07mergeBind(a, b map[*ssa.Parameter]ssa.Value) map[*ssa.Parameter]ssa.Value {
	if len(a) == 0 {
		return b
	}
	if len(b) == 0 {
		return a
	}
	out := map[*ssa.Parameter]ssa.Value{}
	for k, v := range a {
		out[k] = v
	}
	for k, v := range b {
		out[k] = v
	}
	return out
}

// c07guard: the edge From->To (To != nil), or "control is in block From".
type c07guard struct {
	From, To *ssa.BasicBlock
}

const (
	c07maxAlts  = 96
	c07maxSites = 24 // a small header or path helper may well be called a dozen times
)

type c07expander struct {
	concat  bool // expand string concatenation into its operands (ordered)
	stack   []ssa.CallInstruction
	active  map[ssa.Value]bool
	hops    int
	toomany bool
}

// c07alts expands v. With concat=false every alternative has exactly one leaf.
func c07alts(v ssa.Value, concat bool) (alts []c07alt, complete bool) {
	e := &c07expander{concat: concat, active: map[ssa.Value]bool{}}
	alts = e.expand(v)
	return alts, !e.toomany
}

// c07leaves: the leaves of all alternatives of v (no concatenation splitting).
func c07leaves(v ssa.Value) []ssa.Value {
	out, _ := c07leavesAll(v)
	return out
}

// c07leavesAll also says whether the enumeration is complete (rules that require something of EVERY leaf must fail
// when it is not).
func c07leavesAll(v ssa.Value) ([]ssa.Value, bool) {
	alts, complete := c07alts(v, false)
	var out []ssa.Value
	seen := map[ssa.Value]bool{}
	for _, a := range alts {
		for _, l := range a.Seq {
			if !seen[l] {
				seen[l] = true
				out = append(out, l)
			}
		}
	}
	return out, complete
}

func c07withGuard(alts []c07alt, g c07guard) []c07alt {
	out := make([]c07alt, 0, len(alts))
	for _, a := range alts {
		gs := append(append([]c07guard{}, a.Guards...), g)
		out = append(out, c07alt{Seq: a.Seq, Guards: gs, Bind: a.Bind})
	}
	return out
}

func (e *c07expander) leaf(v ssa.Value) []c07alt {
	return []c07alt{{Seq: []ssa.Value{v}}}
}

func (e *c07expander) expand(v ssa.Value) []c07alt {
	if v == nil {
		return nil
	}
	if e.toomany {
		return e.leaf(v)
	}
	if e.active[v] {
		return nil // a cycle (loop-carried phi) contributes nothing new
	}
	e.active[v] = true
	defer delete(e.active, v)
	out := e.expand1(v)
	if len(out) > c07maxAlts {
		e.toomany = true
		out = out[:c07maxAlts]
	}
	return out
}

func (e *c07expander) expand1(v ssa.Value) []c07alt {
	switch x := v.(type) {
	case *ssa.Phi:
		var out []c07alt
		for k, ed := range x.Edges {
			out = append(out, c07withGuard(e.expand(ed), c07guard{x.Block().Preds[k], x.Block()})...)
		}
		return out
	case *ssa.ChangeType:
		return e.expand(x.X)
	case *ssa.MakeInterface:
		return e.expand(x.X)
	case *ssa.BinOp:
		if e.concat && x.Op == token.ADD && isStringType(x.Type()) {
			var out []c07alt
			for _, l := range e.expand(x.X) {
				for _, r := range e.expand(x.Y) {
					seq := append(append([]ssa.Value{}, l.Seq...), r.Seq...)
					gs := append(append([]c07guard{}, l.Guards...), r.Guards...)
					out = append(out, c07alt{Seq: seq, Guards: gs, Bind: c07mergeBind(l.Bind, r.Bind)})
					if len(out) > c07maxAlts {
						e.toomany = true
						return out
					}
				}
			}
			return out
		}
	case *ssa.UnOp:
		if x.Op == token.MUL {
			if a, ok := x.X.(*ssa.Alloc); ok && a.Referrers() != nil {
				// a local cell (escaping or captured variable): whatever is stored into it
				var out []c07alt
				n := 0
				for _, r := range *a.Referrers() {
					if st, ok := r.(*ssa.Store); ok && st.Addr == a {
						n++
						out = append(out, c07withGuard(e.expand(st.Val), c07guard{st.Block(), nil})...)
					}
				}
				if n > 0 {
					return out
				}
			}
			if out, ok := e.field(x); ok {
				return out
			}
			if out, ok := e.table(x); ok {
				return out
			}
			if out, ok := e.global(x); ok {
				return out
			}
		}
	case *ssa.Field:
		if out, ok := e.field(x); ok {
			return out
		}
		if out, ok := e.table(x); ok {
			return out
		}
	case *ssa.Parameter:
		fn := x.Parent()
		idx := -1
		if fn != nil {
			for k, p := range fn.Params {
				if p == x {
					idx = k
				}
			}
		}
		if idx < 0 {
			return e.leaf(v)
		}
		if n := len(e.stack); n > 0 && e.stack[n-1].Common().StaticCallee() == fn {
			top := e.stack[n-1]
			e.stack = e.stack[:n-1]
			defer func() { e.stack = append(e.stack, top) }()
			if cc := top.Common(); idx < len(cc.Args) {
				out := c07withGuard(e.expand(cc.Args[idx]), c07guard{top.Block(), nil})
				for k := range out {
					out[k].Bind = c07mergeBind(out[k].Bind, map[*ssa.Parameter]ssa.Value{x: cc.Args[idx]})
				}
				return out
			}
			return e.leaf(v)
		}
		sites := gSites[fn]
		if len(e.stack) > 0 || len(sites) == 0 || len(sites) > c07maxSites || e.hops >= maxHops+1 || !c07allCallsKnown(fn) {
			return e.leaf(v)
		}
		e.hops++
		defer func() { e.hops-- }()
		var out []c07alt
		for _, s := range sites {
			cc := s.Common()
			if idx >= len(cc.Args) {
				return e.leaf(v)
			}
			out = append(out, c07withGuard(e.expand(cc.Args[idx]), c07guard{s.Block(), nil})...)
		}
		return out
	case *ssa.FreeVar:
		fn := x.Parent()
		if fn == nil || fn.Parent() == nil || e.hops >= maxHops+1 {
			return e.leaf(v)
		}
		idx := -1
		for k, fv := range fn.FreeVars {
			if fv == x {
				idx = k
			}
		}
		var out []c07alt
		n := 0
		e.hops++
		eachInstr(fn.Parent(), func(i ssa.Instruction) {
			if mc, ok := i.(*ssa.MakeClosure); ok && mc.Fn == fn && idx >= 0 && idx < len(mc.Bindings) {
				n++
				out = append(out, e.expand(mc.Bindings[idx])...)
			}
		})
		e.hops--
		if n > 0 {
			return out
		}
	case *ssa.Extract:
		if call, ok := x.Tuple.(*ssa.Call); ok {
			if out, ok := e.results(call, x.Index); ok {
				return out
			}
		}
		if keys, ok := c07mapKeys(x); ok && e.hops < maxHops+2 {
			// the key variable of a range over a map literal (local or package level): any of its keys
			saved := e.stack
			e.stack = nil
			e.hops++
			var out []c07alt
			for _, k := range keys {
				out = append(out, e.expand(k)...)
			}
			e.stack = saved
			e.hops--
			return out
		}
	case *ssa.Call:
		if out, ok := e.results(x, 0); ok {
			return out
		}
	}
	return e.leaf(v)
}

// field: v reads a field of a carrier struct of the repository (c07_fields.go): whatever is stored to that field,
// anywhere. The hop is context-free: the calls entered so far say nothing about the function that stores the field.
func (e *c07expander) field(v ssa.Value) ([]c07alt, bool) {
	sts := c07fieldSources(v)
	if len(sts) == 0 || e.hops >= maxHops+2 {
		return nil, false
	}
	saved := e.stack
	e.stack = nil
	e.hops++
	defer func() { e.stack = saved; e.hops-- }()
	var out []c07alt
	for _, st := range sts {
		out = append(out, c07withGuard(e.expand(st.Val), c07guard{st.Block(), nil})...)
	}
	return out, true
}

// table: v reads an element of a table (slice / array literal, local or package level): any of its entries.
func (e *c07expander) table(v ssa.Value) ([]c07alt, bool) {
	vals, ok := c07tableSources(v)
	if !ok || e.hops >= maxHops+2 {
		return nil, false
	}
	saved := e.stack
	e.stack = nil
	e.hops++
	defer func() { e.stack = saved; e.hops-- }()
	var out []c07alt
	for _, val := range vals {
		out = append(out, e.expand(val)...)
	}
	return out, true
}

// global: v reads a package-level variable of a basic type (`var hdrRealIP = "X-Real-Ip"`): whatever the repository
// stores into it (its initialiser included). A variable whose address is handed out is left alone.
func (e *c07expander) global(v *ssa.UnOp) ([]c07alt, bool) {
	g, ok := v.X.(*ssa.Global)
	if !ok || e.hops >= maxHops+2 {
		return nil, false
	}
	if _, basic := v.Type().Underlying().(*types.Basic); !basic {
		return nil, false
	}
	var vals []ssa.Value
	escapes := false
	eachInstrOf(c07tableFns, func(_ *ssa.Function, i ssa.Instruction) {
		for _, op := range i.Operands(nil) {
			if op == nil || *op != ssa.Value(g) {
				continue
			}
			switch x := i.(type) {
			case *ssa.Store:
				if x.Addr == ssa.Value(g) {
					vals = append(vals, x.Val)
				} else {
					escapes = true
				}
			case *ssa.UnOp:
			default:
				escapes = true
			}
		}
	})
	if escapes || len(vals) == 0 {
		return nil, false
	}
	saved := e.stack
	e.stack = nil
	e.hops++
	defer func() { e.stack = saved; e.hops-- }()
	var out []c07alt
	for _, val := range vals {
		out = append(out, e.expand(val)...)
	}
	return out, true
}

// results: what a repository helper returns as its idx-th result.
func (e *c07expander) results(call *ssa.Call, idx int) ([]c07alt, bool) {
	sc := call.Call.StaticCallee()
	if sc == nil || !isRepoFn(sc) || len(sc.Blocks) == 0 || e.hops >= maxHops+1 {
		return nil, false
	}
	e.hops++
	e.stack = append(e.stack, ssa.CallInstruction(call))
	defer func() { e.hops--; e.stack = e.stack[:len(e.stack)-1] }()
	var out []c07alt
	n := 0
	eachInstr(sc, func(i ssa.Instruction) {
		if r, ok := i.(*ssa.Return); ok && idx < len(r.Results) {
			n++
			out = append(out, c07withGuard(e.expand(r.Results[idx]), c07guard{r.Block(), nil})...)
		}
	})
	if n == 0 {
		return nil, false
	}
	return out, true
}

// ---- branch facts that hold on every path --------------------------------------------------------------------------

// c07edgeFact: the condition established by taking the edge p -> s.
func c07edgeFact(p, s *ssa.BasicBlock) (Fact, bool) {
	if len(p.Instrs) == 0 || len(p.Succs) != 2 || p.Succs[0] == p.Succs[1] {
		return Fact{}, false
	}
	iff, ok := p.Instrs[len(p.Instrs)-1].(*ssa.If)
	if !ok {
		return Fact{}, false
	}
	cond, truth := iff.Cond, p.Succs[0] == s
	for {
		u, isNot := cond.(*ssa.UnOp)
		if !isNot || u.Op != token.NOT {
			break
		}
		cond, truth = u.X, !truth
	}
	return Fact{cond, truth}, true
}

// c07holdsBlock: on every path from the entry of the function to block b some branch fact satisfies P. Unlike
// factsAt this sees through joins (`a == "" || b == ""` establishes "one of them is empty" in the then-block). A
// helper whose calls are all static call sites inherits what holds at every one of them.
func c07holdsBlock(b *ssa.BasicBlock, P func(Fact) bool, seen map[*ssa.BasicBlock]bool) bool {
	if b == nil {
		return false
	}
	if seen[b] {
		return true // a failure anywhere is propagated to the root, so a revisit can only be a cycle or a success
	}
	seen[b] = true
	if len(b.Preds) == 0 {
		fn := b.Parent()
		if fn == nil || b != fn.Blocks[0] {
			return false
		}
		// a helper (or closure) all of whose calls are static call sites inherits what holds at every one of them
		sites := gSites[fn]
		if len(sites) == 0 || len(sites) > c07maxSites || !c07allCallsKnown(fn) {
			return false
		}
		for _, s := range sites {
			if _, isGo := s.(*ssa.Go); isGo || s.Block() == nil || s.Parent() == fn {
				return false
			}
			if !c07holdsBlock(s.Block(), P, seen) {
				return false
			}
		}
		return true
	}
	for _, p := range b.Preds {
		if !c07holdsEdge(p, b, P, seen) {
			return false
		}
	}
	return true
}

func c07holdsEdge(p, s *ssa.BasicBlock, P func(Fact) bool, seen map[*ssa.BasicBlock]bool) bool {
	if f, ok := c07edgeFact(p, s); ok && P(f) {
		return true
	}
	return c07holdsBlock(p, P, seen)
}

func c07holdsGuard(g c07guard, P func(Fact) bool) bool {
	if g.To != nil {
		return c07holdsEdge(g.From, g.To, P, map[*ssa.BasicBlock]bool{})
	}
	return c07holdsBlock(g.From, P, map[*ssa.BasicBlock]bool{})
}

// c07holds: P is established at one of the guards of the alternative.
func (a c07alt) holds(P func(Fact) bool) bool {
	for _, g := range a.Guards {
		if c07holdsGuard(g, P) {
			return true
		}
	}
	return false
}

// c07emptyFact: the fact says that string value v is empty (empty=true) or non-empty.
func c07emptyFact(f Fact) (v ssa.Value, empty bool, ok bool) {
	b, isB := f.Cond.(*ssa.BinOp)
	if !isB {
		return nil, false, false
	}
	x, y, op := b.X, b.Y, b.Op
	// constant on the right
	if _, isK := x.(*ssa.Const); isK {
		x, y = y, x
		switch op {
		case token.LSS:
			op = token.GTR
		case token.GTR:
			op = token.LSS
		case token.LEQ:
			op = token.GEQ
		case token.GEQ:
			op = token.LEQ
		}
	}
	if s, isS := constString(y); isS && s == "" {
		switch op {
		case token.EQL:
			return x, f.Truth, true
		case token.NEQ:
			return x, !f.Truth, true
		}
		return nil, false, false
	}
	if n, isN := constInt(y); isN {
		call, isCall := x.(*ssa.Call)
		if !isCall || calleeName(&call.Call) != "builtin.len" || len(call.Call.Args) != 1 || !isStringType(call.Call.Args[0].Type()) {
			return nil, false, false
		}
		s := call.Call.Args[0]
		switch {
		case n == 0 && op == token.EQL, n == 0 && op == token.LEQ, n == 1 && op == token.LSS:
			return s, f.Truth, true
		case n == 0 && op == token.NEQ, n == 0 && op == token.GTR, n == 1 && op == token.GEQ:
			return s, !f.Truth, true
		}
	}
	return nil, false, false
}

// ---- the route lookup ------------------------------------------------------------------------------------------------

// c07isLookup: v is the target returned by the proxy's lookup hook: a call of a func-typed struct field that yields a
// *route.Target, possibly handed on through repository helpers (as their result or as their parameter).
func c07isLookup(v ssa.Value) bool {
	return c07isLookupD(v, 0, map[ssa.Value]bool{})
}

func c07isLookupD(v ssa.Value, depth int, seen map[ssa.Value]bool) bool {
	if v == nil || depth > 4 {
		return false
	}
	if seen[v] {
		return true // every use of the verdict is a conjunction: a failure on the first visit has already decided
	}
	seen[v] = true
	switch x := v.(type) {
	case *ssa.Call:
		if x.Call.IsInvoke() {
			// the lookup hook as an interface instead of a callback (`p.Router.Lookup(r)`): a method of an interface kept
			// in a struct field that maps the request to a *route.Target
			switch fv := x.Call.Value.(type) {
			case *ssa.UnOp:
				if _, isField := fv.X.(*ssa.FieldAddr); fv.Op != token.MUL || !isField {
					return false
				}
			case *ssa.Field:
			default:
				return false
			}
			takesReq := false
			for _, a := range x.Call.Args {
				if typeStr(a.Type()) == "*net/http.Request" {
					takesReq = true
				}
			}
			return takesReq && namedIs(x.Type(), "route.Target")
		}
		if sc := x.Call.StaticCallee(); sc != nil {
			if !isRepoFn(sc) || len(sc.Blocks) == 0 {
				return false
			}
			return c07lookupOrNil(sc, 0, depth, seen)
		}
		// a call of a func-typed struct field (p.Lookup with a pointer or a value receiver)
		switch fv := x.Call.Value.(type) {
		case *ssa.UnOp:
			if _, isField := fv.X.(*ssa.FieldAddr); fv.Op != token.MUL || !isField {
				return false
			}
		case *ssa.Field:
		default:
			return false
		}
		return namedIs(x.Type(), "route.Target")
	case *ssa.Extract:
		if call, ok := x.Tuple.(*ssa.Call); ok {
			if sc := call.Call.StaticCallee(); sc != nil && isRepoFn(sc) && len(sc.Blocks) > 0 {
				return c07lookupOrNil(sc, x.Index, depth, seen)
			}
		}
	case *ssa.Phi:
		n := 0
		for _, e := range x.Edges {
			if isNilConst(e) {
				continue
			}
			if !c07isLookupD(e, depth+1, seen) {
				return false
			}
			n++
		}
		return n > 0
	case *ssa.Parameter:
		fn := x.Parent()
		sites := gSites[fn]
		if fn == nil || len(sites) == 0 || !onlyStaticallyCalled(fn) {
			return false
		}
		idx := -1
		for k, p := range fn.Params {
			if p == x {
				idx = k
			}
		}
		for _, s := range sites {
			cc := s.Common()
			if idx < 0 || idx >= len(cc.Args) || !c07isLookupD(cc.Args[idx], depth+1, seen) {
				return false
			}
		}
		return true
	case *ssa.UnOp:
		if x.Op == token.MUL {
			if a, ok := x.X.(*ssa.Alloc); ok && a.Referrers() != nil {
				n := 0
				for _, r := range *a.Referrers() {
					if st, ok := r.(*ssa.Store); ok && st.Addr == a {
						n++
						if !c07isLookupD(st.Val, depth+1, seen) {
							return false
						}
					}
				}
				return n > 0
			}
			return c07lookupField(x, depth, seen)
		}
	case *ssa.Field:
		return c07lookupField(x, depth, seen)
	}
	return false
}

// c07lookupField: v reads a field of a carrier struct (the target kept in a per-request struct): every value stored to
// that field is the lookup result.
func c07lookupField(v ssa.Value, depth int, seen map[ssa.Value]bool) bool {
	sts := c07fieldSources(v)
	for _, st := range sts {
		if !c07isLookupD(st.Val, depth+1, seen) {
			return false
		}
	}
	return len(sts) > 0
}

// c07lookupOrNil: every return of fn yields the lookup result or nil, and one of them the lookup result (a helper that
// answers the request itself when there is no route and returns nil then).
func c07lookupOrNil(fn *ssa.Function, idx, depth int, seen map[ssa.Value]bool) bool {
	n := 0
	ok := c07allReturns(fn, idx, func(r ssa.Value) bool {
		if isNilConst(r) {
			return true
		}
		n++
		return c07isLookupD(r, depth+1, seen)
	})
	return ok && n > 0
}

// c07allReturns: every return of fn has an idx-th result satisfying pred (and there is one).
func c07allReturns(fn *ssa.Function, idx int, pred func(ssa.Value) bool) bool {
	n, ok := 0, true
	eachInstr(fn, func(i ssa.Instruction) {
		if r, isR := i.(*ssa.Return); isR {
			n++
			if idx >= len(r.Results) || !pred(r.Results[idx]) {
				ok = false
			}
		}
	})
	return ok && n > 0
}

// c07targetIs: the fact establishes that the looked-up target is not nil (nonNil) / is nil (!nonNil) - directly
// (`t != nil`), or as the verdict of a repository helper: every return that can produce this verdict does so where the
// target is known to be (non-)nil - the return lies under such a test (`if t == nil { ...; return true }`), or the
// returned value is itself such a test (`return x.t == nil`, `return t != nil && allowed`).
func c07targetIs(f Fact, nonNil bool, depth int) bool {
	if nn, ok := nilFact(f, c07isLookup); ok {
		return nn == nonNil
	}
	// the verdict may be the only result or one of several (`t, ok := p.route(w, r)`)
	cond, idx := f.Cond, 0
	if ex, isEx := cond.(*ssa.Extract); isEx {
		cond, idx = ex.Tuple, ex.Index
	}
	call, ok := cond.(*ssa.Call)
	if !ok || depth > 2 {
		return false
	}
	sc := call.Call.StaticCallee()
	if sc == nil || !isRepoFn(sc) || len(sc.Blocks) == 0 || idx >= sc.Signature.Results().Len() {
		return false
	}
	n, all := 0, true
	eachInstr(sc, func(i ssa.Instruction) {
		r, isR := i.(*ssa.Return)
		if !isR || idx >= len(r.Results) {
			return
		}
		if bv, isK := constBool(r.Results[idx]); isK && bv != f.Truth {
			return
		}
		n++
		if !c07verdictImplies(r.Results[idx], f.Truth, c07guard{r.Block(), nil}, nonNil, depth+1, 0) {
			all = false
		}
	})
	return all && n > 0
}

// c07verdictImplies: whenever the boolean v has the value `truth` at the program point g, the target is (non-)nil.
func c07verdictImplies(v ssa.Value, truth bool, g c07guard, nonNil bool, depth, d int) bool {
	if bv, isK := constBool(v); isK && bv != truth {
		return true // this alternative never yields the verdict
	}
	if c07holdsGuard(g, func(h Fact) bool { return c07targetIs(h, nonNil, depth) }) {
		return true
	}
	if d > 6 {
		return false
	}
	switch x := v.(type) {
	case *ssa.Const:
		return false
	case *ssa.UnOp:
		if x.Op == token.NOT {
			return c07verdictImplies(x.X, !truth, g, nonNil, depth, d+1)
		}
	case *ssa.Phi:
		// `a && b`, `a || b`, a verdict variable assigned on several branches
		for k, e := range x.Edges {
			if !c07verdictImplies(e, truth, c07guard{x.Block().Preds[k], x.Block()}, nonNil, depth, d+1) {
				return false
			}
		}
		return len(x.Edges) > 0
	}
	return c07targetIs(Fact{v, truth}, nonNil, depth)
}

func c07targetNonNil(f Fact, depth int) bool { return c07targetIs(f, true, depth) }

func c07targetNil(f Fact) bool { return c07targetIs(f, false, 0) }

// c07knownNil / c07knownNonNil: the looked-up target is nil / not nil whenever control reaches b.
func c07knownNil(b *ssa.BasicBlock) bool {
	return c07holdsBlock(b, c07targetNil, map[*ssa.BasicBlock]bool{})
}

func c07knownNonNil(b *ssa.BasicBlock) bool {
	return c07holdsBlock(b, func(f Fact) bool { return c07targetNonNil(f, 0) }, map[*ssa.BasicBlock]bool{})
}

// ---- the upstream URL --------------------------------------------------------------------------------------------------

func isURLPtr(t types.Type) bool {
	p, ok := t.Underlying().(*types.Pointer)
	return ok && namedIs(p.Elem(), "net/url.URL") && !isPtrType(p.Elem())
}

func isPtrType(t types.Type) bool {
	_, ok := t.Underlying().(*types.Pointer)
	return ok
}

func isURLPtrCell(t types.Type) bool {
	p, ok := t.Underlying().(*types.Pointer)
	return ok && isURLPtr(p.Elem())
}

// c07aliases: all SSA values of the given functions that may denote the same *url.URL as one of the seeds: backwards
// through phis, helper results, helper parameters (to the arguments), captured variables and local cells to the
// allocation, and forwards from there into every helper the pointer is handed to or returned from.
func c07aliases(fns []*ssa.Function, seeds []ssa.Value) map[ssa.Value]bool {
	S := map[ssa.Value]bool{}     // *url.URL values
	cells := map[ssa.Value]bool{} // **url.URL cells (variables captured by closures / address-taken locals)
	var work []ssa.Value
	add := func(v ssa.Value) {
		if v == nil || S[v] || !isURLPtr(v.Type()) {
			return
		}
		if k, isK := v.(*ssa.Const); isK && k.Value == nil {
			return
		}
		S[v] = true
		work = append(work, v)
	}
	addCell := func(v ssa.Value) {
		if v == nil || cells[v] || !isURLPtrCell(v.Type()) {
			return
		}
		switch v.(type) {
		case *ssa.Alloc, *ssa.FreeVar:
		default:
			return // a field or element of some other object is not a variable of ours
		}
		cells[v] = true
		work = append(work, v)
	}
	inScope := map[*ssa.Function]bool{}
	for _, f := range fns {
		inScope[f] = true
	}
	paramIndex := func(p *ssa.Parameter) int {
		for k, q := range p.Parent().Params {
			if q == p {
				return k
			}
		}
		return -1
	}
	freeIndex := func(p *ssa.FreeVar) int {
		for k, q := range p.Parent().FreeVars {
			if q == p {
				return k
			}
		}
		return -1
	}
	bindings := func(fv *ssa.FreeVar, visit func(ssa.Value)) {
		fn := fv.Parent()
		idx := freeIndex(fv)
		if fn.Parent() == nil || idx < 0 {
			return
		}
		eachInstr(fn.Parent(), func(i ssa.Instruction) {
			if mc, ok := i.(*ssa.MakeClosure); ok && mc.Fn == fn && idx < len(mc.Bindings) {
				visit(mc.Bindings[idx])
			}
		})
	}
	for _, s := range seeds {
		add(s)
	}
	for len(work) > 0 {
		v := work[len(work)-1]
		work = work[:len(work)-1]
		if cells[v] {
			// a cell: loads yield aliases, stores put aliases in, closures share it
			if fv, ok := v.(*ssa.FreeVar); ok {
				bindings(fv, addCell)
			}
			if refs := v.Referrers(); refs != nil {
				for _, r := range *refs {
					switch y := r.(type) {
					case *ssa.UnOp:
						if y.Op == token.MUL && y.X == v {
							add(y)
						}
					case *ssa.Store:
						if y.Addr == v {
							add(y.Val)
						}
					case *ssa.MakeClosure:
						if fn, ok := y.Fn.(*ssa.Function); ok {
							for k, b := range y.Bindings {
								if b == v && k < len(fn.FreeVars) {
									addCell(fn.FreeVars[k])
								}
							}
						}
					}
				}
			}
			continue
		}
		// backwards
		switch x := v.(type) {
		case *ssa.Phi:
			for _, e := range x.Edges {
				add(e)
			}
		case *ssa.Parameter:
			if idx := paramIndex(x); idx >= 0 {
				for _, s := range gSites[x.Parent()] {
					if cc := s.Common(); idx < len(cc.Args) {
						add(cc.Args[idx])
					}
				}
			}
		case *ssa.FreeVar:
			bindings(x, add)
		case *ssa.Call:
			if sc := x.Call.StaticCallee(); sc != nil && isRepoFn(sc) {
				eachInstr(sc, func(i ssa.Instruction) {
					if r, ok := i.(*ssa.Return); ok && len(r.Results) == 1 {
						add(r.Results[0])
					}
				})
			}
		case *ssa.Extract:
			if call, ok := x.Tuple.(*ssa.Call); ok {
				if sc := call.Call.StaticCallee(); sc != nil && isRepoFn(sc) {
					eachInstr(sc, func(i ssa.Instruction) {
						if r, ok := i.(*ssa.Return); ok && x.Index < len(r.Results) {
							add(r.Results[x.Index])
						}
					})
				}
			}
		case *ssa.UnOp:
			if x.Op == token.MUL {
				addCell(x.X)
				// a field of a repository struct that holds the URL (`d.target`): whatever is stored into that field
				if fa, ok := x.X.(*ssa.FieldAddr); ok {
					for _, st := range c07storesToField(fns, fa) {
						add(st.Val)
					}
				}
			}
		case *ssa.Field:
			// the URL kept in a struct value (`u.target` with a value receiver)
			for _, st := range c07fieldSources(x) {
				add(st.Val)
			}
		case *ssa.ChangeType:
			add(x.X)
		}
		// forwards
		refs := v.Referrers()
		if refs == nil {
			continue
		}
		for _, r := range *refs {
			switch y := r.(type) {
			case *ssa.Phi:
				add(y)
			case *ssa.ChangeType:
				add(y)
			case *ssa.MakeClosure:
				if fn, ok := y.Fn.(*ssa.Function); ok {
					for k, b := range y.Bindings {
						if b == v && k < len(fn.FreeVars) {
							add(fn.FreeVars[k])
						}
					}
				}
			case *ssa.Store:
				if y.Val == v {
					addCell(y.Addr)
					if fa, ok := y.Addr.(*ssa.FieldAddr); ok && c07repoStruct(fa) {
						for _, ld := range c07loadsOfField(fns, fa) {
							add(ld)
						}
						if k, ok := c07carrierKey(fa.X.Type(), fa.Field); ok {
							for _, ld := range c07fields.loads[k] {
								add(ld) // also reads through a struct value (ssa.Field)
							}
						}
					}
				}
			case *ssa.Return:
				fn := y.Parent()
				for k, res := range y.Results {
					if res != v {
						continue
					}
					for _, s := range gSites[fn] {
						call, ok := s.(*ssa.Call)
						if !ok {
							continue
						}
						if len(y.Results) == 1 {
							add(call)
							continue
						}
						if crefs := call.Referrers(); crefs != nil {
							for _, cr := range *crefs {
								if ex, ok := cr.(*ssa.Extract); ok && ex.Index == k {
									add(ex)
								}
							}
						}
					}
				}
			}
			if ci, ok := r.(ssa.CallInstruction); ok {
				cc := ci.Common()
				if sc := cc.StaticCallee(); sc != nil && isRepoFn(sc) && len(sc.Blocks) > 0 {
					for k, a := range cc.Args {
						if a == v && k < len(sc.Params) {
							add(sc.Params[k])
						}
					}
				}
			}
		}
	}
	return S
}

// c07repoStruct: the field belongs to a struct type declared in the repository (not url.URL, http.Request ...).
func c07repoStruct(fa *ssa.FieldAddr) bool {
	t := fa.X.Type()
	if p, ok := t.Underlying().(*types.Pointer); ok {
		t = p.Elem()
	}
	n, ok := t.(*types.Named)
	return ok && n.Obj().Pkg() != nil && strings.HasPrefix(n.Obj().Pkg().Path(), repoMod)
}

func c07sameField(a, b *ssa.FieldAddr) bool {
	ta, tb := a.X.Type(), b.X.Type()
	return a.Field == b.Field && types.Identical(ta, tb)
}

// c07storesToField: the stores, in fns, to the same field of the same repository struct type as fa (any object).
func c07storesToField(fns []*ssa.Function, fa *ssa.FieldAddr) []*ssa.Store {
	if !c07repoStruct(fa) {
		return nil
	}
	var out []*ssa.Store
	eachInstrOf(fns, func(_ *ssa.Function, i ssa.Instruction) {
		if st, ok := i.(*ssa.Store); ok {
			if fb, ok := st.Addr.(*ssa.FieldAddr); ok && c07sameField(fa, fb) {
				out = append(out, st)
			}
		}
	})
	return out
}

func c07loadsOfField(fns []*ssa.Function, fa *ssa.FieldAddr) []ssa.Value {
	var out []ssa.Value
	eachInstrOf(fns, func(_ *ssa.Function, i ssa.Instruction) {
		if u, ok := i.(*ssa.UnOp); ok && u.Op == token.MUL {
			if fb, ok := u.X.(*ssa.FieldAddr); ok && c07sameField(fa, fb) {
				out = append(out, u)
			}
		}
	})
	return out
}

// c07fieldStores: the stores to field `field` of a URL in the alias set, in the given functions.
func c07fieldStores(fns []*ssa.Function, S map[ssa.Value]bool, field string) []*ssa.Store {
	var out []*ssa.Store
	eachInstrOf(fns, func(_ *ssa.Function, i ssa.Instruction) {
		st, ok := i.(*ssa.Store)
		if !ok {
			return
		}
		fa, ok := st.Addr.(*ssa.FieldAddr)
		if ok && S[fa.X] && fieldName(fa.X.Type(), fa.Field) == field {
			out = append(out, st)
		}
	})
	return out
}

// c07isFieldLoad: v is a load of field `field` of a URL in the alias set.
func c07isFieldLoad(v ssa.Value, S map[ssa.Value]bool, field string) bool {
	u, ok := v.(*ssa.UnOp)
	if !ok || u.Op != token.MUL {
		return false
	}
	fa, ok := u.X.(*ssa.FieldAddr)
	return ok && S[fa.X] && fieldName(fa.X.Type(), fa.Field) == field
}

// c07requestURLField: v is a load of r.URL.<field> of an *http.Request (the URL may have been handed to a helper).
func c07requestURLField(v ssa.Value, field string) bool {
	return c07urlFieldFrom(v, field, "net/http.Request")
}

// c07routeURLField: v is a load of t.URL.<field> of a *route.Target.
func c07routeURLField(v ssa.Value, field string) bool {
	return c07urlFieldFrom(v, field, "route.Target")
}

func c07urlFieldFrom(v ssa.Value, field, owner string) bool {
	base, ok := fieldOf(v, "net/url.URL", field)
	if !ok {
		return false
	}
	if _, ok := fieldOf(base, owner, "URL"); ok {
		return true
	}
	if _, isParam := base.(*ssa.Parameter); !isParam {
		if _, isFree := base.(*ssa.FreeVar); !isFree {
			if _, isPhi := base.(*ssa.Phi); !isPhi {
				return false
			}
		}
	}
	ls := c07leaves(base)
	for _, l := range ls {
		if _, ok := fieldOf(l, owner, "URL"); !ok {
			return false
		}
	}
	return len(ls) > 0
}

// c07allCallsKnown: every call of fn is a static call site of the loaded program. Unlike onlyStaticallyCalled this
// admits exported functions: fabio is an application, the callers of its packages are all in the repository.
func c07allCallsKnown(fn *ssa.Function) bool {
	if fn == nil || gAddrTaken[fn] {
		return false
	}
	if fn.Parent() != nil {
		return true
	}
	if fn.Name() == "init" || fn.Name() == "main" {
		return false
	}
	return fn.Signature.Recv() == nil || !gInvoked[fn.Name()]
}

// c07region: like Ctx.region, but follows static calls and function values into every package of the repository
// (the no-route answer may be written by a helper of package noroute).
func c07region(depth int, roots ...*ssa.Function) []*ssa.Function {
	var out []*ssa.Function
	seen := map[*ssa.Function]bool{}
	var add func(f *ssa.Function, d int)
	add = func(f *ssa.Function, d int) {
		if f == nil || seen[f] || len(f.Blocks) == 0 || !isRepoFn(f) {
			return
		}
		seen[f] = true
		out = append(out, f)
		if d >= depth {
			return
		}
		eachInstr(f, func(i ssa.Instruction) {
			for _, op := range i.Operands(nil) {
				if op == nil || *op == nil {
					continue
				}
				switch x := (*op).(type) {
				case *ssa.Function:
					add(unwrap(x), d+1)
				case *ssa.MakeClosure:
					if fn, ok := x.Fn.(*ssa.Function); ok {
						add(unwrap(fn), d+1)
					}
				}
			}
		})
	}
	for _, r := range roots {
		add(r, 0)
	}
	return out
}

func c07proxyFns(c *Ctx) []*ssa.Function {
	return c.fnsWhere("proxy", func(*ssa.Function) bool { return true })
}

func c07canonical(k string) string {
	// net/textproto.CanonicalMIMEHeaderKey for the plain token keys used here
	up := true
	b := []byte(k)
	for i, ch := range b {
		switch {
		case up && 'a' <= ch && ch <= 'z':
			b[i] = ch - 'a' + 'A'
		case !up && 'A' <= ch && ch <= 'Z':
			b[i] = ch - 'A' + 'a'
		}
		up = ch == '-'
	}
	return strings.TrimSpace(string(b))
}
