package main

// Rules of C16 added after the rounds of independently authored breaking changes (DESIGN 11.6, 11.7): P4, G2, H1.

import (
	"go/token"

	"golang.org/x/tools/go/ssa"
)

// c16unchanged: v is the value src itself on every path that runs after instruction from: src, the error component of
// src, a merge whose edges coming from code after `from` are all src, or a local cell that only src is stored into
// afterwards (and that no closure rewrites).
func c16unchanged(v, src ssa.Value, from ssa.Instruction, depth int) bool {
	if v == src {
		return true
	}
	if depth > 4 {
		return false
	}
	after := func(b *ssa.BasicBlock) bool {
		return b == from.Block() || reachableFrom([]*ssa.BasicBlock{from.Block()}, nil)[b]
	}
	switch x := v.(type) {
	case *ssa.Extract:
		return x.Tuple == src && c16isErrT(x.Type())
	case *ssa.ChangeInterface:
		return c16unchanged(x.X, src, from, depth+1)
	case *ssa.Phi:
		n := 0
		for k, e := range x.Edges {
			if !after(x.Block().Preds[k]) {
				continue
			}
			n++
			if !c16unchanged(e, src, from, depth+1) {
				return false
			}
		}
		return n > 0
	case *ssa.UnOp:
		a, ok := x.X.(*ssa.Alloc)
		if x.Op != token.MUL || !ok {
			return false
		}
		n := 0
		for _, r := range *a.Referrers() {
			switch y := r.(type) {
			case *ssa.Store:
				if y.Addr != a || !canReach(from, y) {
					continue
				}
				if ld, isLd := y.Val.(*ssa.UnOp); isLd && ld.Op == token.MUL && ld.X == a {
					continue // *a = *a (the epilogue of a function with defers re-stores its named results)
				}
				n++
				if !c16unchanged(y.Val, src, from, depth+1) {
					return false
				}
			case *ssa.MakeClosure:
				// a closure that captures the cell and writes to it may rewrite the error (deferred wrapper)
				fn, _ := y.Fn.(*ssa.Function)
				for k, b := range y.Bindings {
					if b != a || fn == nil || k >= len(fn.FreeVars) {
						continue
					}
					for _, fr := range *fn.FreeVars[k].Referrers() {
						if st, ok := fr.(*ssa.Store); ok && st.Addr == fn.FreeVars[k] {
							return false
						}
					}
				}
			}
		}
		return n > 0
	}
	return false
}

func runC16Extra(c *Ctx) {
	// P4: what a pool key function returns
	runC16P4(c)

	// G2: the handler's error travels unchanged from the call of the wrapped handler to the interceptor's caller
	R := c16resolve(c)
	if R.stream == nil {
		return
	}
	var follow func(f *ssa.Function, src ssa.Value, from ssa.Instruction, depth int) (bool, token.Pos)
	follow = func(f *ssa.Function, src ssa.Value, from ssa.Instruction, depth int) (bool, token.Pos) {
		ok, pos := true, from.Pos()
		isSrc := func(x ssa.Value) bool { return c16unchanged(x, src, from, 0) }
		// a literal nil returned where the handler's error is known to be nil is that error (`if err := handler(..);
		// err != nil { return err }; return nil`)
		nilWhereNil := func(v ssa.Value, b *ssa.BasicBlock) bool {
			return isNilConst(v) && b != nil && c16knownNil(b, isSrc)
		}
		sameStatus := func(res ssa.Value, b *ssa.BasicBlock) bool {
			if isSrc(res) || nilWhereNil(res, b) {
				return true
			}
			phi, isPhi := res.(*ssa.Phi)
			if !isPhi {
				return false
			}
			later := reachableFrom([]*ssa.BasicBlock{from.Block()}, nil)
			n := 0
			for k, e := range phi.Edges {
				pb := phi.Block().Preds[k]
				if pb != from.Block() && !later[pb] {
					continue
				}
				n++
				if !isSrc(e) && !nilWhereNil(e, pb) {
					return false
				}
			}
			return n > 0
		}
		eachInstr(f, func(j ssa.Instruction) {
			r, isR := j.(*ssa.Return)
			if !isR || !ok || !pathAvoiding(from, j, nil) {
				return
			}
			found := false
			for _, res := range r.Results {
				if c16isErrT(res.Type()) {
					found = true
					if !sameStatus(res, r.Block()) {
						ok, pos = false, r.Pos()
					}
				}
			}
			if !found {
				ok, pos = false, r.Pos() // the status is dropped
			}
		})
		if !ok || f == R.stream || depth >= 3 {
			return ok, pos
		}
		// the call sits in a helper of the interceptor: follow its result at the call sites in the region
		for _, s := range gSites[f] {
			if !c16inFns(R.sreg, s.Parent()) || s.Parent() == f {
				continue
			}
			call, isCall := s.(*ssa.Call)
			if !isCall {
				return false, s.Pos() // go / defer: the status is lost
			}
			if ok2, pos2 := follow(s.Parent(), call, call, depth+1); !ok2 {
				return false, pos2
			}
		}
		// a closure handed to a wrapper (timing, retry, recover): follow the wrapper's call of its parameter
		if f.Parent() != nil {
			eachInstr(f.Parent(), func(i ssa.Instruction) {
				mc, isMC := i.(*ssa.MakeClosure)
				if !isMC || mc.Fn != f || !ok {
					return
				}
				for _, r := range *mc.Referrers() {
					ci, isCI := r.(ssa.CallInstruction)
					if !isCI || ci.Common().Value == mc {
						continue
					}
					g := ci.Common().StaticCallee()
					if g == nil || !isRepoFn(g) || len(g.Blocks) == 0 {
						continue
					}
					for k, a := range ci.Common().Args {
						if a != mc || k >= len(g.Params) {
							continue
						}
						eachInstr(g, func(j ssa.Instruction) {
							dc, isC := j.(*ssa.Call)
							if !isC || dc.Call.Value != g.Params[k] || !ok {
								return
							}
							if ok2, pos2 := follow(g, dc, dc, depth+1); !ok2 {
								ok, pos = false, pos2
							}
						})
					}
				}
			})
		}
		return ok, pos
	}
	for _, call := range R.handlers {
		ok, pos := follow(call.Parent(), call, call, 0)
		c.check("C16.G2", "proxy.GrpcProxyInterceptor.Stream|backend status returned unchanged", pos, ok,
			"whatever the transparent handler returns is the backend's final status; the interceptor must return that error value as is on every path after the call — rewriting it (e.g. mapping codes.Unknown to Internal) changes the status code and message the caller receives")
	}
}

// ---- C16.P4: the pool key is the whole target URL -------------------------------------------------------------------------

func runC16P4(c *Ctx) {
	keys := c16poolKeys(c)
	if len(keys.keyFns) == 0 {
		// no key function: P1 has accepted only keys spelled target.URL.String() (or range keys) at the accesses themselves
		return
	}
	done := map[*ssa.Function]bool{}
	var judge func(f *ssa.Function, depth int) bool
	judge = func(f *ssa.Function, depth int) bool {
		ok, n := true, 0
		eachInstr(f, func(i ssa.Instruction) {
			r, isR := i.(*ssa.Return)
			if !isR || len(r.Results) != 1 {
				return
			}
			n++
			if !c16allDefs(r.Results[0], func(x ssa.Value) bool {
				if c16wholeURL(x) {
					return true
				}
				if g := c16keyFnCall(x); g != nil && g != f && depth < 3 {
					return judge(g, depth+1)
				}
				return false
			}) {
				ok = false
			}
		})
		return ok && n > 0
	}
	for _, f := range c.AllFns { // deterministic order
		if !keys.keyFns[f] || done[f] {
			continue
		}
		done[f] = true
		c.check("C16.P4", "proxy.makeGRPCTargetKey|pool key is the whole target URL", f.Pos(), judge(f, 0),
			"connections are pooled per backend: the key must be the target's full URL (Target.URL.String(): scheme + host). A key without the scheme lets grpc://a:1 and grpcs://a:1 share one connection — after a backend switches to TLS on the same address every call goes over the stale plaintext connection, and cleanup never drops it because the host is still in the table")
	}
}

// ---- C16.H1: the routing host comes from the dsthost metadata only --------------------------------------------------------

func runC16H1(c *Ctx) {
	R := c16resolve(c)
	if R.stream == nil || len(R.lookups) == 0 {
		c.undecided("C16.H1", "anchor|proxy.GrpcProxyInterceptor.getDestinationHostFromMetadata", "the interceptor's route lookup does not resolve, so the host it routes by cannot be examined")
		return
	}
	n := 0
	seen := map[ssa.Instruction]bool{}
	for _, call := range R.lookups {
		for _, alloc := range c16allocsOf(call.Call.Args[1], "http.Request") {
			for _, st := range fieldStores(alloc)["Host"] {
				reads, _ := c16mdReads(st.Val)
				for _, r := range reads {
					if seen[r.at] {
						continue
					}
					seen[r.at] = true
					n++
					c.check("C16.H1", "(proxy.GrpcProxyInterceptor).getDestinationHostFromMetadata|metadata key "+r.key, r.pos, r.known && r.key == "dsthost",
						"the routing host of a call is the dsthost metadata value, if any; reading another key (\":authority\" is set by every client to whatever name it dialled) routes calls without dsthost to host-specific routes — the wrong backend answers, and a call that must be NotFound is served")
				}
			}
		}
	}
	c.atLeast("C16.H1", "metadata reads that feed the routing host", n, 1)
}
