package main

// Rules of C16 added after the rounds of independently authored breaking changes (DESIGN 11.6, 11.7).

import (
	"go/token"
	"strings"

	"golang.org/x/tools/go/ssa"
)

func runC16Extra(c *Ctx) {
	keyFn := c.fn("proxy", "makeGRPCTargetKey")
	if keyFn != nil {
		ok := false
		eachInstr(keyFn, func(i ssa.Instruction) {
			r, isR := i.(*ssa.Return)
			if !isR || len(r.Results) != 1 {
				return
			}
			if call, isC := r.Results[0].(*ssa.Call); isC && calleeName(&call.Call) == "(*net/url.URL).String" {
				if _, isURL := fieldOf(call.Call.Args[0], "route.Target", "URL"); isURL {
					ok = true
				}
			}
		})
		c.check("C16.P4", "proxy.makeGRPCTargetKey|pool key is the whole target URL", keyFn.Pos(), ok,
			"connections are pooled per backend: the key must be the target's full URL (Target.URL.String(): scheme + host). A key without the scheme lets grpc://a:1 and grpcs://a:1 share one connection — after a backend switches to TLS on the same address every call goes over the stale plaintext connection, and cleanup never drops it because the host is still in the table")
	}
	stream := c.method("proxy", "GrpcProxyInterceptor", "Stream")
	if stream == nil {
		return
	}
	var handlerParam *ssa.Parameter
	for _, p := range stream.Params {
		if typeStr(p.Type()) == "google.golang.org/grpc.StreamHandler" {
			handlerParam = p
		}
	}
	eachInstr(stream, func(i ssa.Instruction) {
		call, ok := i.(*ssa.Call)
		if !ok || call.Call.Value != handlerParam {
			return
		}
		// every return reachable after the handler call returns the handler's error unchanged
		ok2 := true
		var pos token.Pos = call.Pos()
		eachInstr(stream, func(j ssa.Instruction) {
			r, isR := j.(*ssa.Return)
			if !isR || !pathAvoiding(call, j, nil) {
				return
			}
			if r.Results[0] != call {
				ok2 = false
				pos = r.Pos()
			}
		})
		c.check("C16.G2", "proxy.GrpcProxyInterceptor.Stream|backend status returned unchanged", pos, ok2,
			"whatever the transparent handler returns is the backend's final status; the interceptor must return that error value as is on every path after the call — rewriting it (e.g. mapping codes.Unknown to Internal) changes the status code and message the caller receives")
	})
}

// ---- C17.T3: the pooled writer is put back at most once ------------------------------------------------------------------

func runC16H1(c *Ctx) {
	f := c.method("proxy", "GrpcProxyInterceptor", "getDestinationHostFromMetadata")
	if !c.need("C16.H1", f, "proxy.GrpcProxyInterceptor.getDestinationHostFromMetadata") {
		return
	}
	n := 0
	eachInstr(f, func(i ssa.Instruction) {
		lk, ok := i.(*ssa.Lookup)
		if !ok || !namedIs(lk.X.Type(), "metadata.MD") {
			return
		}
		n++
		k, isK := constString(lk.Index)
		c.check("C16.H1", "(proxy.GrpcProxyInterceptor).getDestinationHostFromMetadata|metadata key "+k, i.Pos(), isK && k == "dsthost",
			"the routing host of a call is the dsthost metadata value, if any; reading another key (\":authority\" is set by every client to whatever name it dialled) routes calls without dsthost to host-specific routes — the wrong backend answers, and a call that must be NotFound is served")
	})
	// calls of MD.Get count as lookups too
	eachInstr(f, func(i ssa.Instruction) {
		cc := callCommon(i)
		if cc == nil || !strings.HasSuffix(calleeName(cc), "metadata.MD).Get") {
			return
		}
		n++
		k, isK := constString(cc.Args[len(cc.Args)-1])
		c.check("C16.H1", "(proxy.GrpcProxyInterceptor).getDestinationHostFromMetadata|metadata key "+k, i.Pos(), isK && k == "dsthost", "the routing host of a call is the dsthost metadata value, if any")
	})
	c.atLeast("C16.H1", "metadata lookups in getDestinationHostFromMetadata", n, 1)
}

// ---- C18.R1 / C18.X1 -------------------------------------------------------------------------------------------
