package main

import (
	"fmt"
	"os"
	"sort"
)

func main() {
	if len(os.Args) < 2 {
		fmt.Fprintln(os.Stderr, "usage: verifcheck <property> <quick|thorough> | explain <replay.json> | list")
		os.Exit(2)
	}
	switch os.Args[1] {
	case "list":
		var ids []string
		for id := range props {
			ids = append(ids, id)
		}
		sort.Strings(ids)
		for _, id := range ids {
			fmt.Println(id)
		}
	case "explain":
		if len(os.Args) < 3 {
			os.Exit(2)
		}
		os.Exit(explain(os.Args[2]))
	case "allprops":
		// development aid for the corpus regressions (tools/seedcheck.sh): ONE load of the tree, then the rules of every
		// property; prints what each property's quick tier would report (known findings left out), writes no evidence
		os.Exit(allProps())
	case "renames", "params":
		// development aid: mechanical renamings applied in memory; every report is a false alarm
		os.Exit(refactorTest(os.Args[1], os.Args[2:]))
	case "mutants":
		// development aid: run the overlay self-check of one property and print it
		p := props[os.Args[2]]
		if p == nil {
			os.Exit(2)
		}
		base := baselineViolations(p)
		bad := 0
		for _, m := range p.Mutants {
			r := runOneMutant(p, m, base)
			fmt.Printf("%-60s expect=%-10s %s %v\n", r.Name, r.Expect, r.Outcome, r.Reported)
			if r.Outcome == "SURVIVED" || r.Outcome == "FALSE-ALARM on benign rewrite" {
				bad++
			}
		}
		if bad > 0 {
			os.Exit(1)
		}
	default:
		tier := "quick"
		if len(os.Args) > 2 {
			tier = os.Args[2]
		}
		if t := os.Getenv("VERIF_TIER"); t != "" && len(os.Args) <= 2 {
			tier = t
		}
		if tier != "quick" && tier != "thorough" {
			tier = "quick"
		}
		os.Exit(runProp(os.Args[1], tier))
	}
}
