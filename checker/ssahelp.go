package main

import (
	"fmt"
	"go/ast"
	"go/constant"
	"go/token"
	"go/types"
	"strings"

	"golang.org/x/tools/go/packages"
	"golang.org/x/tools/go/ssa"
)

// ---- lookup ------------------------------------------------------------------

func (c *Ctx) spkg(short string) *ssa.Package {
	if short == "main" || short == "" {
		return c.spkgs[repoMod]
	}
	return c.spkgs[repoMod+"/"+short]
}

func (c *Ctx) ppkg(short string) *packages.Package {
	if short == "main" || short == "" {
		return c.ppkgs[repoMod]
	}
	return c.ppkgs[repoMod+"/"+short]
}

// fn finds a package-level function; nil if missing.
func (c *Ctx) fn(pkg, name string) *ssa.Function {
	sp := c.spkg(pkg)
	if sp == nil {
		return nil
	}
	return sp.Func(name)
}

// method finds method name on named type typ (value or pointer receiver).
func (c *Ctx) method(pkg, typ, name string) *ssa.Function {
	sp := c.spkg(pkg)
	if sp == nil {
		return nil
	}
	t := sp.Type(typ)
	if t == nil {
		return nil
	}
	for _, tt := range []types.Type{t.Type(), types.NewPointer(t.Type())} {
		ms := c.Prog.MethodSets.MethodSet(tt)
		for i := 0; i < ms.Len(); i++ {
			if ms.At(i).Obj().Name() == name {
				if f := c.Prog.MethodValue(ms.At(i)); f != nil && f.Synthetic == "" {
					return f
				}
			}
		}
	}
	return nil
}

func (c *Ctx) global(pkg, name string) *ssa.Global {
	sp := c.spkg(pkg)
	if sp == nil {
		return nil
	}
	g, _ := sp.Members[name].(*ssa.Global)
	return g
}

// need resolves a function anchor or records an undecided obligation.
func (c *Ctx) need(rule string, f *ssa.Function, what string) bool {
	if f == nil || len(f.Blocks) == 0 {
		c.undecided(rule, "anchor|"+what, "anchor "+what+" does not resolve to a function with a body")
		return false
	}
	return true
}

func isRepoFn(f *ssa.Function) bool {
	for f != nil && f.Parent() != nil {
		f = f.Parent()
	}
	if f == nil {
		return false
	}
	if f.Pkg != nil {
		return strings.HasPrefix(f.Pkg.Pkg.Path(), repoMod)
	}
	if o := f.Object(); o != nil && o.Pkg() != nil {
		return strings.HasPrefix(o.Pkg().Path(), repoMod)
	}
	return false
}

// fnKey is the symbolic, line-independent name of a function.
func fnKey(f *ssa.Function) string {
	if f == nil {
		return "<nil>"
	}
	s := f.String()
	s = strings.ReplaceAll(s, repoMod+"/", "")
	s = strings.ReplaceAll(s, repoMod+".", "main.")
	s = strings.ReplaceAll(s, repoMod, "main")
	return s
}

// withAnon returns f and all closures nested in it.
func withAnon(f *ssa.Function) []*ssa.Function {
	out := []*ssa.Function{f}
	for _, a := range f.AnonFuncs {
		out = append(out, withAnon(a)...)
	}
	return out
}

func eachInstr(f *ssa.Function, fn func(ssa.Instruction)) {
	for _, b := range f.Blocks {
		for _, i := range b.Instrs {
			fn(i)
		}
	}
}

// ---- calls -------------------------------------------------------------------

// calleeName returns a stable name for the callee of a call instruction:
// "net.DialTimeout", "(*sync.Mutex).Lock", "(net/http.Handler).ServeHTTP" (invoke),
// or "" for a dynamic call of a func value.
func calleeName(cc *ssa.CallCommon) string {
	if cc.IsInvoke() {
		return "(" + typeStr(cc.Value.Type()) + ")." + cc.Method.Name()
	}
	switch v := cc.Value.(type) {
	case *ssa.Function:
		return funcName(v)
	case *ssa.Builtin:
		return "builtin." + v.Name()
	case *ssa.MakeClosure:
		if f, ok := v.Fn.(*ssa.Function); ok {
			return funcName(f)
		}
	}
	return ""
}

func funcName(f *ssa.Function) string {
	if o := f.Object(); o != nil {
		if fo, ok := o.(*types.Func); ok {
			return fo.FullName()
		}
	}
	return f.String()
}

func typeStr(t types.Type) string {
	return types.TypeString(t, nil)
}

// callCommon extracts the CallCommon of Call/Go/Defer instructions.
func callCommon(i ssa.Instruction) *ssa.CallCommon {
	switch x := i.(type) {
	case *ssa.Call:
		return &x.Call
	case *ssa.Go:
		return &x.Call
	case *ssa.Defer:
		return &x.Call
	}
	return nil
}

// callsTo lists call instructions in f (not closures) whose callee name matches one of names.
func callsTo(f *ssa.Function, names ...string) []ssa.Instruction {
	var out []ssa.Instruction
	eachInstr(f, func(i ssa.Instruction) {
		if cc := callCommon(i); cc != nil {
			n := calleeName(cc)
			for _, w := range names {
				if n == w {
					out = append(out, i)
				}
			}
		}
	})
	return out
}

// isCallTo reports whether v is the result (or an extract of the result) of a call to one of names.
func isCallTo(v ssa.Value, names ...string) (*ssa.Call, bool) {
	if e, ok := v.(*ssa.Extract); ok {
		v = e.Tuple
	}
	call, ok := v.(*ssa.Call)
	if !ok {
		return nil, false
	}
	n := calleeName(&call.Call)
	for _, w := range names {
		if n == w {
			return call, true
		}
	}
	return nil, false
}

// ---- values --------------------------------------------------------------------

func constString(v ssa.Value) (string, bool) {
	if k, ok := v.(*ssa.Const); ok && k.Value != nil && k.Value.Kind() == constant.String {
		return constant.StringVal(k.Value), true
	}
	return "", false
}

func constInt(v ssa.Value) (int64, bool) {
	if k, ok := v.(*ssa.Const); ok && k.Value != nil && k.Value.Kind() == constant.Int {
		n, ok := constant.Int64Val(k.Value)
		return n, ok
	}
	return 0, false
}

func isNilConst(v ssa.Value) bool {
	k, ok := v.(*ssa.Const)
	return ok && k.Value == nil
}

// accessPath renders a value as a symbolic access path so that two loads of the
// same field chain compare equal: "t.RedirectCode", "p.Config.NoRouteStatus",
// "*transport.cfg .Proxy.DialTimeout".
func accessPath(v ssa.Value) string {
	switch x := v.(type) {
	case *ssa.Parameter:
		return x.Name()
	case *ssa.FreeVar:
		return x.Name()
	case *ssa.Global:
		return x.Pkg.Pkg.Name() + "." + x.Name()
	case *ssa.UnOp:
		if x.Op == token.MUL {
			return accessPath(x.X)
		}
		if x.Op == token.NOT {
			return "!" + accessPath(x.X)
		}
	case *ssa.FieldAddr:
		return accessPath(x.X) + "." + fieldName(x.X.Type(), x.Field)
	case *ssa.Field:
		return accessPath(x.X) + "." + fieldName(x.X.Type(), x.Field)
	case *ssa.Alloc:
		if x.Comment != "" {
			return x.Comment
		}
	case *ssa.Const:
		return x.String()
	case *ssa.ChangeType:
		return accessPath(x.X)
	case *ssa.Convert:
		return accessPath(x.X)
	case *ssa.MakeInterface:
		return accessPath(x.X)
	case *ssa.Extract:
		return fmt.Sprintf("%s#%d", accessPath(x.Tuple), x.Index)
	case *ssa.Call:
		if n := calleeName(&x.Call); n != "" {
			var as []string
			if x.Call.IsInvoke() {
				as = append(as, accessPath(x.Call.Value))
			}
			for _, a := range x.Call.Args {
				as = append(as, accessPath(a))
			}
			return n + "(" + strings.Join(as, ",") + ")"
		}
	case *ssa.IndexAddr:
		return accessPath(x.X) + "[" + accessPath(x.Index) + "]"
	case *ssa.Lookup:
		return accessPath(x.X) + "[" + accessPath(x.Index) + "]"
	case *ssa.Phi:
		return "phi:" + x.Comment + "@" + x.Name()
	}
	return v.Name()
}

func fieldName(t types.Type, idx int) string {
	if p, ok := t.Underlying().(*types.Pointer); ok {
		t = p.Elem()
	}
	if s, ok := t.Underlying().(*types.Struct); ok && idx < s.NumFields() {
		return s.Field(idx).Name()
	}
	return fmt.Sprintf("f%d", idx)
}

// fieldOf reports whether v is a load/address of field `field` of a value whose
// (pointer-stripped) named type is typ ("route.Target").
func fieldOf(v ssa.Value, typ, field string) (base ssa.Value, ok bool) {
	if u, isU := v.(*ssa.UnOp); isU && u.Op == token.MUL {
		v = u.X
	}
	switch x := v.(type) {
	case *ssa.FieldAddr:
		if fieldName(x.X.Type(), x.Field) == field && namedIs(x.X.Type(), typ) {
			return x.X, true
		}
	case *ssa.Field:
		if fieldName(x.X.Type(), x.Field) == field && namedIs(x.X.Type(), typ) {
			return x.X, true
		}
	}
	return nil, false
}

// namedIs reports whether t (through pointers) is the named type "pkgname.Type".
func namedIs(t types.Type, want string) bool {
	for {
		if p, ok := t.(*types.Pointer); ok {
			t = p.Elem()
			continue
		}
		break
	}
	if n, ok := t.(*types.Named); ok {
		o := n.Obj()
		if o.Pkg() == nil {
			return o.Name() == want
		}
		return o.Pkg().Name()+"."+o.Name() == want || o.Pkg().Path()+"."+o.Name() == want
	}
	if a, ok := t.(*types.Alias); ok {
		return namedIs(types.Unalias(a), want)
	}
	return false
}

// ---- branch facts ---------------------------------------------------------------

// Fact is a branch condition known to hold at a block.
type Fact struct {
	Cond  ssa.Value
	Truth bool
}

// factsAt collects the atomic branch conditions that hold whenever control
// reaches b: walk the immediate-dominator chain and keep the steps where the
// block has exactly one predecessor ending in an If.
func factsAt(b *ssa.BasicBlock) []Fact {
	return factsAtDepth(b, 0)
}

func factsAtDepth(b *ssa.BasicBlock, depth int) []Fact {
	out := localFactsAt(b)
	// a helper with exactly one static call site (and closures invoked where they are made) inherits the
	// conditions under which it is called
	if fn := b.Parent(); fn != nil && depth < maxHops {
		if sites := gSites[fn]; len(sites) == 1 && onlyStaticallyCalled(fn) {
			if _, isGo := sites[0].(*ssa.Go); !isGo && sites[0].Block() != nil && sites[0].Parent() != fn {
				out = append(out, factsAtDepth(sites[0].Block(), depth+1)...)
			}
		}
	}
	return out
}

// gAddrTaken: repository functions used as values (they may be called from anywhere).
var gAddrTaken map[*ssa.Function]bool

// gInvoked: method names called through an interface anywhere in the repository.
var gInvoked map[string]bool

// onlyStaticallyCalled: every call of fn is a static call site in the repository — it is not used as a value, is not
// exported, and (for a method) cannot be reached through an interface.
func onlyStaticallyCalled(fn *ssa.Function) bool {
	if gAddrTaken[fn] {
		return false
	}
	if fn.Parent() != nil {
		return true // closure: only its maker can hand it out, and that would make it address-taken
	}
	if token.IsExported(fn.Name()) || fn.Name() == "init" || fn.Name() == "main" {
		return false
	}
	if fn.Signature.Recv() != nil && gInvoked[fn.Name()] {
		return false
	}
	return true
}

func localFactsAt(b *ssa.BasicBlock) []Fact {
	var out []Fact
	for cur := b; cur != nil; cur = cur.Idom() {
		if len(cur.Preds) != 1 {
			continue
		}
		p := cur.Preds[0]
		if len(p.Instrs) == 0 {
			continue
		}
		iff, ok := p.Instrs[len(p.Instrs)-1].(*ssa.If)
		if !ok || p.Succs[0] == p.Succs[1] {
			continue
		}
		cond, truth := iff.Cond, p.Succs[0] == cur
		out = appendCondFacts(out, cond, truth, 0)
	}
	return out
}

// appendCondFacts records cond == truth and what it implies: negations are unfolded, and a verdict kept in a boolean
// (`ok := a && b`, `case a || b:` of a tagless switch — a phi of constants and conditions) is resolved when only one of
// its incoming edges can carry that truth value: then the facts of that edge hold as well.
func appendCondFacts(out []Fact, cond ssa.Value, truth bool, depth int) []Fact {
	for {
		u, isNot := cond.(*ssa.UnOp)
		if !isNot || u.Op != token.NOT {
			break
		}
		cond, truth = u.X, !truth
	}
	out = append(out, Fact{cond, truth})
	phi, ok := cond.(*ssa.Phi)
	if !ok || depth > 4 {
		return out
	}
	feasible := -1
	n := 0
	for k, e := range phi.Edges {
		if b, isK := constBool(e); isK && b != truth {
			continue // this edge carries the opposite constant
		}
		feasible = k
		n++
	}
	if n != 1 {
		return out
	}
	e := phi.Edges[feasible]
	pred := phi.Block().Preds[feasible]
	if _, isK := constBool(e); !isK {
		out = appendCondFacts(out, e, truth, depth+1)
	}
	// what held on the way into that predecessor (same-function facts only; no recursion into phis of the same block)
	if pred != phi.Block() {
		out = append(out, localFactsAt(pred)...)
	}
	return out
}

// nilFact: does f state something about v's nil-ness? returns (nonNil, ok).
func nilFact(f Fact, same func(ssa.Value) bool) (nonNil bool, ok bool) {
	b, isB := f.Cond.(*ssa.BinOp)
	if !isB || (b.Op != token.EQL && b.Op != token.NEQ) {
		return false, false
	}
	var other ssa.Value
	switch {
	case isNilConst(b.Y):
		other = b.X
	case isNilConst(b.X):
		other = b.Y
	default:
		return false, false
	}
	if !same(other) {
		return false, false
	}
	if b.Op == token.NEQ {
		return f.Truth, true
	}
	return !f.Truth, true
}

// knownNonNil: v != nil holds at block b.
func knownNonNil(b *ssa.BasicBlock, same func(ssa.Value) bool) bool {
	for _, f := range factsAt(b) {
		if nn, ok := nilFact(f, same); ok && nn {
			return true
		}
	}
	return false
}

// knownNil: v == nil holds at block b.
func knownNil(b *ssa.BasicBlock, same func(ssa.Value) bool) bool {
	for _, f := range factsAt(b) {
		if nn, ok := nilFact(f, same); ok && !nn {
			return true
		}
	}
	return false
}

func sameVal(v ssa.Value) func(ssa.Value) bool {
	return func(o ssa.Value) bool { return o == v }
}

// samePath compares by symbolic access path (field reloads).
func samePath(v ssa.Value) func(ssa.Value) bool {
	p := accessPath(v)
	return func(o ssa.Value) bool { return o == v || accessPath(o) == p }
}

// boolCallFact: the fact is the boolean result of a call to name; returns truth.
func boolCallFact(f Fact, names ...string) (*ssa.Call, bool, bool) {
	if call, ok := isCallTo(f.Cond, names...); ok {
		return call, f.Truth, true
	}
	return nil, false, false
}

// ---- CFG reachability ------------------------------------------------------------

// reachable computes the blocks reachable from `from` (inclusive of successors
// only, i.e. `from` itself is included only if on a cycle) without entering
// blocks in cut.
func reachableFrom(from []*ssa.BasicBlock, cut map[*ssa.BasicBlock]bool) map[*ssa.BasicBlock]bool {
	seen := map[*ssa.BasicBlock]bool{}
	var stack []*ssa.BasicBlock
	for _, f := range from {
		stack = append(stack, f.Succs...)
	}
	for len(stack) > 0 {
		b := stack[len(stack)-1]
		stack = stack[:len(stack)-1]
		if seen[b] || cut[b] {
			continue
		}
		seen[b] = true
		stack = append(stack, b.Succs...)
	}
	return seen
}

// instrIndex returns the index of i in its block.
func instrIndex(i ssa.Instruction) int {
	for k, x := range i.Block().Instrs {
		if x == i {
			return k
		}
	}
	return -1
}

// canReach: is there a CFG path on which a executes and later b executes?
func canReach(a, b ssa.Instruction) bool {
	if a.Block() == b.Block() && instrIndex(a) < instrIndex(b) {
		return true
	}
	return reachableFrom([]*ssa.BasicBlock{a.Block()}, nil)[b.Block()]
}

// dominatesInstr: a executes before b on every path to b.
func dominatesInstr(a, b ssa.Instruction) bool {
	if a.Block() == b.Block() {
		return instrIndex(a) < instrIndex(b)
	}
	return a.Block().Dominates(b.Block())
}

// exitsReachableAvoiding: starting after instruction `from`, can a function exit
// (Return; Panic blocks are ignored unless includePanic) be reached without
// executing any instruction for which pass returns true?
func exitReachableAvoiding(from ssa.Instruction, pass func(ssa.Instruction) bool) (ssa.Instruction, bool) {
	pass = liftMust(pass, 1) // a helper that does it on all of its paths counts
	type item struct {
		b     *ssa.BasicBlock
		start int
	}
	seen := map[*ssa.BasicBlock]bool{}
	stack := []item{{from.Block(), instrIndex(from) + 1}}
	for len(stack) > 0 {
		it := stack[len(stack)-1]
		stack = stack[:len(stack)-1]
		blocked := false
		for k := it.start; k < len(it.b.Instrs); k++ {
			in := it.b.Instrs[k]
			if pass(in) {
				blocked = true
				break
			}
			if r, ok := in.(*ssa.Return); ok {
				return r, true
			}
		}
		if blocked {
			continue
		}
		for _, s := range it.b.Succs {
			if !seen[s] {
				seen[s] = true
				stack = append(stack, item{s, 0})
			}
		}
	}
	return nil, false
}

// ---- backward value slice --------------------------------------------------------

// transparent callees: result derives from the arguments.
var transparentPrefixes = []string{"strings.", "strconv.", "fmt.Sprint", "net.JoinHostPort", "net.SplitHostPort",
	"net/url.Parse", "(*net/url.URL).String", "(*net/url.URL).EscapedPath", "(*net/url.URL).RequestURI", "path.", "bytes.", "time.Duration.", "(time.Time).Add", "(time.Duration).", "sort.Reverse", "io.MultiReader", "io.TeeReader", "io.LimitReader", "bufio.NewReader"}

func isTransparent(name string) bool {
	for _, p := range transparentPrefixes {
		if strings.HasPrefix(name, p) {
			return true
		}
	}
	return false
}

// derives walks the backward slice of v (through phi, conversions, arithmetic,
// field/element loads, extracts, transparent calls and local stores to allocs)
// and reports whether any visited value satisfies pred. stop(v) prunes.
func derives(v ssa.Value, pred func(ssa.Value) bool) bool {
	type key struct {
		v   ssa.Value
		ctx ssa.CallInstruction
	}
	seen := map[key]bool{}
	hops := 0                       // interprocedural steps taken (helper results, helper parameters, captured variables)
	var stack []ssa.CallInstruction // calls entered on the way (results of helpers): their parameters map back to these calls only
	var walk func(v ssa.Value) bool
	walk = func(v ssa.Value) bool {
		if v == nil {
			return false
		}
		var top ssa.CallInstruction
		if len(stack) > 0 {
			top = stack[len(stack)-1]
		}
		if seen[key{v, top}] {
			return false
		}
		seen[key{v, top}] = true
		if pred(v) {
			return true
		}
		switch x := v.(type) {
		case *ssa.Parameter:
			// a helper's parameter derives from what its (few, static) callers pass
			fn := x.Parent()
			sites := gSites[fn]
			if fn == nil || len(sites) == 0 || (top == nil && (len(sites) > maxHelperSites || hops >= maxHops)) {
				return false
			}
			idx := -1
			for k, p := range fn.Params {
				if p == x {
					idx = k
				}
			}
			if top != nil && top.Common().StaticCallee() == fn {
				// realizable path: back to the call we came in through
				stack = stack[:len(stack)-1]
				defer func() { stack = append(stack, top) }()
				cc := top.Common()
				return idx >= 0 && idx < len(cc.Args) && walk(cc.Args[idx])
			}
			if top != nil {
				return false
			}
			hops++
			defer func() { hops-- }()
			for _, s := range sites {
				if cc := s.Common(); idx >= 0 && idx < len(cc.Args) && walk(cc.Args[idx]) {
					return true
				}
			}
			return false
		case *ssa.FreeVar:
			fn := x.Parent()
			if fn == nil || fn.Parent() == nil || hops >= maxHops {
				return false
			}
			idx := -1
			for k, fv := range fn.FreeVars {
				if fv == x {
					idx = k
				}
			}
			hops++
			defer func() { hops-- }()
			found := false
			eachInstr(fn.Parent(), func(i ssa.Instruction) {
				if mc, ok := i.(*ssa.MakeClosure); ok && mc.Fn == fn && idx >= 0 && idx < len(mc.Bindings) && !found {
					if walk(mc.Bindings[idx]) {
						found = true
					}
				}
			})
			return found
		case *ssa.Phi:
			for _, e := range x.Edges {
				if walk(e) {
					return true
				}
			}
		case *ssa.UnOp:
			if x.Op == token.MUL {
				// load: follow the address, and stores into a local alloc
				if a, ok := x.X.(*ssa.Alloc); ok {
					for _, r := range *a.Referrers() {
						if st, ok := r.(*ssa.Store); ok && st.Addr == a && walk(st.Val) {
							return true
						}
					}
				}
				if fa, ok := x.X.(*ssa.FieldAddr); ok {
					// stores to the same field of a locally allocated struct
					if a, ok := fa.X.(*ssa.Alloc); ok {
						for _, r := range *a.Referrers() {
							if fa2, ok := r.(*ssa.FieldAddr); ok && fa2.Field == fa.Field {
								for _, r2 := range *fa2.Referrers() {
									if st, ok := r2.(*ssa.Store); ok && st.Addr == fa2 && walk(st.Val) {
										return true
									}
								}
							}
						}
					}
				}
			}
			return walk(x.X)
		case *ssa.Alloc:
			// a local cell / struct / array: whatever is stored into it (or into its fields/elements)
			if refs := x.Referrers(); refs != nil {
				for _, r := range *refs {
					switch y := r.(type) {
					case *ssa.Store:
						if y.Addr == x && walk(y.Val) {
							return true
						}
					case *ssa.FieldAddr:
						for _, r2 := range *y.Referrers() {
							if st, ok := r2.(*ssa.Store); ok && st.Addr == y && walk(st.Val) {
								return true
							}
						}
					case *ssa.IndexAddr:
						for _, r2 := range *y.Referrers() {
							if st, ok := r2.(*ssa.Store); ok && st.Addr == y && walk(st.Val) {
								return true
							}
						}
					}
				}
			}
			return false
		case *ssa.BinOp:
			return walk(x.X) || walk(x.Y)
		case *ssa.Convert:
			return walk(x.X)
		case *ssa.ChangeType:
			return walk(x.X)
		case *ssa.ChangeInterface:
			return walk(x.X)
		case *ssa.MakeInterface:
			return walk(x.X)
		case *ssa.TypeAssert:
			return walk(x.X)
		case *ssa.Extract:
			return walk(x.Tuple)
		case *ssa.Next:
			return walk(x.Iter) // key/value of a range over a map or string
		case *ssa.Range:
			return walk(x.X)
		case *ssa.FieldAddr:
			return walk(x.X)
		case *ssa.Field:
			return walk(x.X)
		case *ssa.IndexAddr:
			return walk(x.X) || walk(x.Index)
		case *ssa.Index:
			return walk(x.X) || walk(x.Index)
		case *ssa.Lookup:
			return walk(x.X) || walk(x.Index)
		case *ssa.Slice:
			return walk(x.X)
		case *ssa.Call:
			n := calleeName(&x.Call)
			if isTransparent(n) || strings.HasPrefix(n, "builtin.") {
				if x.Call.IsInvoke() && walk(x.Call.Value) {
					return true
				}
				for _, a := range x.Call.Args {
					if walk(a) {
						return true
					}
				}
				return false
			}
			// the result of a repository helper derives from what the helper returns
			if sc := x.Call.StaticCallee(); sc != nil && isRepoFn(sc) && len(sc.Blocks) > 0 && hops < maxHops {
				hops++
				stack = append(stack, ssa.CallInstruction(x))
				defer func() { hops--; stack = stack[:len(stack)-1] }()
				found := false
				eachInstr(sc, func(i ssa.Instruction) {
					if r, ok := i.(*ssa.Return); ok && !found {
						for _, res := range r.Results {
							if walk(res) {
								found = true
								return
							}
						}
					}
				})
				return found
			}
		}
		return false
	}
	return walk(v)
}

const (
	maxHops        = 3
	maxHelperSites = 6
)

// gSites: static call sites (call, go, defer) of every repository function, rebuilt at each load.
var gSites map[*ssa.Function][]ssa.CallInstruction

func buildSites(fns []*ssa.Function) {
	gSites = map[*ssa.Function][]ssa.CallInstruction{}
	for _, f := range fns {
		for _, b := range f.Blocks {
			for _, i := range b.Instrs {
				ci, ok := i.(ssa.CallInstruction)
				if !ok {
					continue
				}
				if sc := ci.Common().StaticCallee(); sc != nil && isRepoFn(sc) {
					gSites[sc] = append(gSites[sc], ci)
				}
			}
		}
	}
}

// ---- struct literal stores ---------------------------------------------------------

// fieldStores returns, for a struct value built in f (an Alloc of type *T or a
// composite literal), the value stored to each named field: field -> stored values.
func fieldStores(a ssa.Value) map[string][]*ssa.Store {
	out := map[string][]*ssa.Store{}
	refs := a.Referrers()
	if refs == nil {
		return out
	}
	for _, r := range *refs {
		if fa, ok := r.(*ssa.FieldAddr); ok && fa.X == a {
			name := fieldName(a.Type(), fa.Field)
			for _, r2 := range *fa.Referrers() {
				if st, ok := r2.(*ssa.Store); ok && st.Addr == fa {
					out[name] = append(out[name], st)
				}
			}
		}
	}
	return out
}

// allocsOf finds Allocs in f whose element type is the named type typ.
func allocsOf(f *ssa.Function, typ string) []*ssa.Alloc {
	var out []*ssa.Alloc
	eachInstr(f, func(i ssa.Instruction) {
		if a, ok := i.(*ssa.Alloc); ok {
			if p, ok := a.Type().(*types.Pointer); ok && namedIs(p.Elem(), typ) {
				out = append(out, a)
			}
		}
	})
	return out
}

// ---- AST helpers ---------------------------------------------------------------------

// funcDecl finds the AST declaration of a package-level function or method.
func (c *Ctx) funcDecl(pkg, recv, name string) (*ast.FuncDecl, *packages.Package) {
	pp := c.ppkg(pkg)
	if pp == nil {
		return nil, nil
	}
	for _, f := range pp.Syntax {
		for _, d := range f.Decls {
			fd, ok := d.(*ast.FuncDecl)
			if !ok || fd.Name.Name != name {
				continue
			}
			if recv == "" && fd.Recv == nil {
				return fd, pp
			}
			if recv != "" && fd.Recv != nil && len(fd.Recv.List) == 1 {
				t := fd.Recv.List[0].Type
				if s, ok := t.(*ast.StarExpr); ok {
					t = s.X
				}
				if id, ok := t.(*ast.Ident); ok && id.Name == recv {
					return fd, pp
				}
			}
		}
	}
	return nil, nil
}

// calleeObj resolves the called function object of an AST call (static calls and
// method calls, including interface methods).
func calleeObj(info *types.Info, call *ast.CallExpr) *types.Func {
	var id *ast.Ident
	switch f := ast.Unparen(call.Fun).(type) {
	case *ast.Ident:
		id = f
	case *ast.SelectorExpr:
		id = f.Sel
	case *ast.IndexExpr:
		if i, ok := f.X.(*ast.Ident); ok {
			id = i
		} else if s, ok := f.X.(*ast.SelectorExpr); ok {
			id = s.Sel
		}
	}
	if id == nil {
		return nil
	}
	fn, _ := info.Uses[id].(*types.Func)
	return fn
}

func astCalleeName(info *types.Info, call *ast.CallExpr) string {
	if f := calleeObj(info, call); f != nil {
		return f.FullName()
	}
	return ""
}

func constStringExpr(info *types.Info, e ast.Expr) (string, bool) {
	tv, ok := info.Types[e]
	if !ok || tv.Value == nil || tv.Value.Kind() != constant.String {
		return "", false
	}
	return constant.StringVal(tv.Value), true
}

// def is one reaching definition of a merged value together with the block in
// which that definition is chosen (the phi predecessor or the storing block).
type def struct {
	Val   ssa.Value
	Block *ssa.BasicBlock
	Pos   token.Pos
}

// defsOf enumerates the definitions merged into v: phi edges, or the stores
// into the local cell when v is a load of an escaping local (closure-captured
// variables are Allocs, not phis).
func defsOf(v ssa.Value) []def {
	switch x := v.(type) {
	case *ssa.Phi:
		var out []def
		for k, e := range x.Edges {
			out = append(out, def{e, x.Block().Preds[k], x.Pos()})
		}
		return out
	case *ssa.UnOp:
		if x.Op == token.MUL {
			if a, ok := x.X.(*ssa.Alloc); ok {
				var out []def
				for _, r := range *a.Referrers() {
					if st, ok := r.(*ssa.Store); ok && st.Addr == a {
						out = append(out, def{st.Val, st.Block(), st.Pos()})
					}
				}
				return out
			}
		}
	}
	if i, ok := v.(ssa.Instruction); ok {
		return []def{{v, i.Block(), v.Pos()}}
	}
	return []def{{v, nil, v.Pos()}}
}

// ---- natural loops --------------------------------------------------------------------

type loop struct {
	Head *ssa.BasicBlock
	Body map[*ssa.BasicBlock]bool // includes Head
}

// loopsOf computes the natural loops of f (one per header; bodies of back edges
// to the same header are merged).
func loopsOf(f *ssa.Function) []*loop {
	byHead := map[*ssa.BasicBlock]*loop{}
	var order []*ssa.BasicBlock
	for _, b := range f.Blocks {
		for _, s := range b.Succs {
			if s.Dominates(b) { // back edge b -> s
				l := byHead[s]
				if l == nil {
					l = &loop{Head: s, Body: map[*ssa.BasicBlock]bool{s: true}}
					byHead[s] = l
					order = append(order, s)
				}
				stack := []*ssa.BasicBlock{b}
				for len(stack) > 0 {
					x := stack[len(stack)-1]
					stack = stack[:len(stack)-1]
					if l.Body[x] {
						continue
					}
					l.Body[x] = true
					stack = append(stack, x.Preds...)
				}
			}
		}
	}
	var out []*loop
	for _, h := range order {
		out = append(out, byHead[h])
	}
	return out
}

// returnsConstBool reports whether block b ends in `return <const bool>` (single result).
func returnsConstBool(b *ssa.BasicBlock) (val bool, ok bool) {
	if len(b.Instrs) == 0 {
		return false, false
	}
	r, isR := b.Instrs[len(b.Instrs)-1].(*ssa.Return)
	if !isR || len(r.Results) != 1 {
		return false, false
	}
	k, isK := r.Results[0].(*ssa.Const)
	if !isK || k.Value == nil || k.Value.Kind() != constant.Bool {
		return false, false
	}
	return constant.BoolVal(k.Value), true
}

func constBool(v ssa.Value) (bool, bool) {
	k, isK := v.(*ssa.Const)
	if !isK || k.Value == nil || k.Value.Kind() != constant.Bool {
		return false, false
	}
	return constant.BoolVal(k.Value), true
}

// staticCalleeIs: call's static callee is the given function.
func staticCalleeIs(i ssa.Instruction, f *ssa.Function) bool {
	cc := callCommon(i)
	return cc != nil && f != nil && cc.StaticCallee() == f
}

// factCallTo: some fact at block b is a call to function f with the given truth; returns the call.
func factCallTo(b *ssa.BasicBlock, f *ssa.Function, truth bool) *ssa.Call {
	for _, ft := range factsAt(b) {
		if call, ok := ft.Cond.(*ssa.Call); ok && ft.Truth == truth && call.Call.StaticCallee() == f {
			return call
		}
	}
	return nil
}

// isInitFn: the synthetic package initialiser or a declared func init().
func isInitFn(f *ssa.Function) bool {
	return f.Parent() == nil && (f.Name() == "init" || strings.HasPrefix(f.Name(), "init#"))
}

// addrRootedAt: is the memory designated by addr reached from root by following fields, elements and
// pointer loads (no data flow through values stored into unrelated locals)?
func addrRootedAt(addr, root ssa.Value) bool {
	seen := map[ssa.Value]bool{}
	var walk func(v ssa.Value) bool
	walk = func(v ssa.Value) bool {
		if v == nil || seen[v] {
			return false
		}
		seen[v] = true
		if v == root {
			return true
		}
		switch x := v.(type) {
		case *ssa.FieldAddr:
			return walk(x.X)
		case *ssa.Field:
			return walk(x.X)
		case *ssa.IndexAddr:
			return walk(x.X)
		case *ssa.Index:
			return walk(x.X)
		case *ssa.Lookup:
			return walk(x.X)
		case *ssa.Slice:
			return walk(x.X)
		case *ssa.ChangeType:
			return walk(x.X)
		case *ssa.MakeInterface:
			return walk(x.X)
		case *ssa.TypeAssert:
			return walk(x.X)
		case *ssa.Phi:
			for _, e := range x.Edges {
				if walk(e) {
					return true
				}
			}
		case *ssa.Extract:
			if nx, ok := x.Tuple.(*ssa.Next); ok {
				if rg, ok := nx.Iter.(*ssa.Range); ok {
					return walk(rg.X)
				}
			}
		case *ssa.UnOp:
			if x.Op == token.MUL {
				if a, ok := x.X.(*ssa.Alloc); ok {
					// local variable cell: the pointers stored into the cell itself
					for _, r := range *a.Referrers() {
						if st, ok := r.(*ssa.Store); ok && st.Addr == a && walk(st.Val) {
							return true
						}
					}
					return false
				}
				return walk(x.X)
			}
		}
		return false
	}
	return walk(addr)
}

// gateReceiver: does some fact at block b establish that fn(recv, ...) returned `truth`, either directly or through a
// repo helper H whose every `return T` (T = the truth with which H's result is known at b) lies under such a fact?
// Returns the receiver of fn expressed in b's function (through H's parameters), or nil.
func gateReceiver(b *ssa.BasicBlock, fn *ssa.Function, truth bool, depth int) ssa.Value {
	for _, ft := range factsAt(b) {
		call, ok := ft.Cond.(*ssa.Call)
		if !ok {
			continue
		}
		sc := call.Call.StaticCallee()
		if sc == nil {
			continue
		}
		if sc == fn && ft.Truth == truth && len(call.Call.Args) > 0 {
			return call.Call.Args[0]
		}
		if depth >= 2 || !isRepoFn(sc) || len(sc.Blocks) == 0 || sc.Signature.Results().Len() != 1 {
			continue
		}
		// helper: every return that can yield ft.Truth must be gated inside
		var recvParam *ssa.Parameter
		okAll, n := true, 0
		eachInstr(sc, func(i ssa.Instruction) {
			r, isR := i.(*ssa.Return)
			if !isR {
				return
			}
			if bv, isK := constBool(r.Results[0]); isK && bv != ft.Truth {
				return
			}
			n++
			inner := gateReceiver(r.Block(), fn, truth, depth+1)
			p, isP := inner.(*ssa.Parameter)
			if inner == nil || !isP {
				// a non-constant result that is itself the gate's verdict: `return !t.AccessDenied(r) && t.Authorized(...)` is not modelled
				okAll = false
				return
			}
			if recvParam != nil && recvParam != p {
				okAll = false
			}
			recvParam = p
		})
		if !okAll || n == 0 || recvParam == nil {
			continue
		}
		for k, p := range sc.Params {
			if p == recvParam && k < len(call.Call.Args) {
				return call.Call.Args[k]
			}
		}
	}
	return nil
}
