package main

// C16.P3, the membership test of the sweep: "is the target of this pool entry still in the routing table?". The test is
// recognised by what it does — it compares the entry's key (the key variable of the range over the pool, however it
// gets there: argument, captured variable, field of a small matcher struct) with pool keys of the table's targets —
// and not by where the comparison is written: in a predicate of package proxy that is given key and table, in a closure
// handed to a method of route.Table that calls it per target, in a closure handed to slices.ContainsFunc, in a method of
// a matcher type called through an interface, or inlined into the sweep as a scan that sets a flag.

import (
	"go/token"
	"go/types"

	"golang.org/x/tools/go/ssa"
)

// c16membership describes a fact "G(key, table) == truth" at a block. has is the truth value with which G reports
// that the key IS in the table (read off what G returns where the keys compare equal; true when that cannot be read off).
type c16membership struct {
	fn    *ssa.Function
	truth bool
	has   bool
	miss  bool         // the truth value with which G reports that the key is in NO target (normally !has)
	cmp   []*ssa.BinOp // the key comparisons of the test (nil entries for set insertions)
	other []ssa.Value  // what the entry's key is compared with (parallel to cmp)
	pos   []token.Pos  // where (parallel to cmp)
}

// where: the function that holds the n-th comparison (the test itself when it is a set insertion).
func (m c16membership) where(n int) *ssa.Function {
	if n < len(m.cmp) && m.cmp[n] != nil && m.cmp[n].Parent() != nil {
		return m.cmp[n].Parent()
	}
	return m.fn
}

func c16memberFacts(b *ssa.BasicBlock, keys *c16keys) []c16membership {
	facts := factsAt(b)
	seen := map[Fact]bool{}
	for _, f := range facts {
		seen[f] = true
	}
	for _, f := range c16factsAt(b, 0) { // also into capturing closures and closures run by a wrapper
		if !seen[f] {
			seen[f] = true
			facts = append(facts, f)
		}
	}
	return c16memberOf(facts, keys)
}

func c16memberOf(facts []Fact, keys *c16keys) []c16membership {
	var out []c16membership
	for _, ft := range facts {
		if m, ok := c16setMembership(ft, keys); ok {
			out = append(out, m)
			continue
		}
		if m, ok := c16testMembership(ft, keys); ok {
			out = append(out, m)
		}
	}
	return out
}

// c16isTableVal: v is the routing table (a route.Table value, or the call that fetches it).
func c16isTableVal(v ssa.Value) bool {
	if v == nil {
		return false
	}
	t := v.Type()
	if p, ok := types.Unalias(t).(*types.Pointer); ok {
		t = p.Elem()
	}
	if namedIs(t, "route.Table") {
		return true
	}
	call, ok := v.(*ssa.Call)
	return ok && calleeName(&call.Call) == repoMod+"/route.GetTable"
}

// c16touchesTable: some function of fns has the routing table in hand (parameter, captured variable, local, GetTable()).
func c16touchesTable(fns []*ssa.Function) bool {
	for _, f := range fns {
		for _, p := range f.Params {
			if c16isTableVal(p) {
				return true
			}
		}
		for _, p := range f.FreeVars {
			if c16isTableVal(p) {
				return true
			}
		}
		hit := false
		eachInstr(f, func(i ssa.Instruction) {
			if v, ok := i.(ssa.Value); ok && c16isTableVal(v) {
				hit = true
			}
		})
		if hit {
			return true
		}
	}
	return false
}

// c16fieldCarriesEntryKey: v reads a string field of a repository struct into which only keys of pool entries are ever
// stored (a small matcher / entry type that carries the key into a method).
func c16fieldCarriesEntryKey(v ssa.Value) bool {
	var st types.Type
	idx := -1
	switch x := v.(type) {
	case *ssa.Field:
		st, idx = x.X.Type(), x.Field
	case *ssa.UnOp:
		fa, ok := x.X.(*ssa.FieldAddr)
		if !ok || x.Op != token.MUL {
			return false
		}
		st, idx = deref(fa.X.Type()), fa.Field
	default:
		return false
	}
	named, ok := types.Unalias(st).(*types.Named)
	if !ok || idx < 0 || c16cache.c == nil {
		return false
	}
	if named.Obj().Pkg() == nil || !isRepoPkgPath(named.Obj().Pkg().Path()) {
		return false
	}
	n, good := 0, true
	for _, s := range c16storesToField(named, idx) {
		n++
		if !c16allDefs(s.Val, c16rangeKey) {
			good = false
		}
	}
	return n > 0 && good
}

func isRepoPkgPath(p string) bool {
	return len(p) >= len(repoMod) && p[:len(repoMod)] == repoMod
}

// c16testMembership: the fact is the verdict of a membership test of the entry's key against the table's targets.
func c16testMembership(ft Fact, keys *c16keys) (c16membership, bool) {
	m := c16membership{truth: ft.Truth, has: true, miss: false}
	if ft.Cond == nil || typeStr(ft.Cond.Type().Underlying()) != "bool" {
		return m, false
	}
	var kp *ssa.Parameter // the parameter of a predicate that receives the key as an argument
	var body []*ssa.Function
	tbl := false
	switch x := ft.Cond.(type) {
	case *ssa.Call:
		sc := x.Call.StaticCallee()
		for k, a := range x.Call.Args {
			if typeStr(a.Type().Underlying()) == "string" && keys.ok(a) && sc != nil && isRepoFn(sc) && k < len(sc.Params) {
				kp = sc.Params[k]
			}
			if c16isTableVal(a) || derives(a, c16isTableVal) {
				tbl = true
			}
		}
		if x.Call.IsInvoke() {
			tbl = tbl || c16isTableVal(x.Call.Value)
		}
		for _, g := range c16syncCallees(x) {
			for _, h := range c16syncRegion(g) {
				if !c16inFns(body, h) {
					body = append(body, h)
				}
			}
		}
		if len(body) == 0 {
			return m, false
		}
		m.fn = body[0]
		tbl = tbl || c16touchesTable(body)
	case *ssa.Phi:
		// a flag set by a scan that is written out in the sweep itself
		m.fn = x.Parent()
		tbl = c16touchesTable([]*ssa.Function{x.Parent()})
	default:
		return m, false
	}
	isEntry := func(v ssa.Value) bool {
		if kp != nil && derives(v, func(x ssa.Value) bool { return x == kp }) {
			return true
		}
		return c16allDefs(v, func(x ssa.Value) bool { return c16rangeKey(x) || c16fieldCarriesEntryKey(x) })
	}
	noted := map[*ssa.BinOp]bool{}
	// keyCmp: bo compares the entry's key with something else; eq is the value bo has when the two are equal
	keyCmp := func(bo *ssa.BinOp) (eq bool, ok bool) {
		if (bo.Op != token.EQL && bo.Op != token.NEQ) || typeStr(bo.X.Type().Underlying()) != "string" {
			return false, false
		}
		var other ssa.Value
		switch ex, ey := isEntry(bo.X), isEntry(bo.Y); {
		case ex && !ey:
			other = bo.Y
		case ey && !ex:
			other = bo.X
		default:
			return false, false
		}
		if !noted[bo] {
			noted[bo] = true
			m.cmp, m.other, m.pos = append(m.cmp, bo), append(m.other, other), append(m.pos, bo.Pos())
		}
		return bo.Op == token.EQL, true
	}
	for _, f := range body {
		eachInstr(f, func(i ssa.Instruction) {
			if bo, ok := i.(*ssa.BinOp); ok {
				keyCmp(bo)
			}
		})
	}

	// polarity: the value the test yields where the entry's key equals the key of a target (has), and the value it yields
	// where the key is known to be in no target (miss). A single comparison is not a complete test: that one target
	// differs says nothing about the table; a scan of the table (a function that has the table in hand, a standard
	// library search given a predicate) is. Where a complete test returns only under "equal" facts and by falling out of
	// its loops, miss is the complement of has.
	type pol struct {
		has, miss bool
		ok        bool // has could be read off
		complete  bool // the value decides membership in the table, not equality with one target
	}
	type verdicts struct{ eq, neq []bool }
	var fnPol func(f *ssa.Function, d int) pol
	var condPol func(v ssa.Value, d int) pol
	var valPol func(v ssa.Value, at *ssa.BasicBlock, d int, seen map[ssa.Value]bool) verdicts
	agree := func(vs []bool) (bool, bool) {
		if len(vs) == 0 {
			return false, false
		}
		for _, v := range vs {
			if v != vs[0] {
				return false, false
			}
		}
		return vs[0], true
	}
	summarise := func(v verdicts, complete bool) pol {
		h, ok := agree(v.eq)
		if !ok {
			return pol{}
		}
		p := pol{has: h, miss: !h, ok: true, complete: complete}
		if ms, okM := agree(v.neq); okM {
			p.miss = ms
		}
		return p
	}
	condPol = func(v ssa.Value, d int) pol {
		if d > 6 {
			return pol{}
		}
		switch x := v.(type) {
		case *ssa.BinOp:
			if eq, ok := keyCmp(x); ok {
				return pol{has: eq, miss: !eq, ok: true}
			}
		case *ssa.UnOp:
			if x.Op == token.NOT {
				p := condPol(x.X, d+1)
				p.has, p.miss = !p.has, !p.miss
				return p
			}
		case *ssa.Call:
			if typeStr(x.Type().Underlying()) != "bool" {
				return pol{}
			}
			sc := x.Call.StaticCallee()
			stdlibScan := sc != nil && !isRepoFn(sc)
			var ps []pol
			for _, g := range c16syncCallees(x) {
				if g.Signature.Results().Len() != 1 || typeStr(g.Signature.Results().At(0).Type().Underlying()) != "bool" {
					continue
				}
				if p := fnPol(g, d+1); p.ok {
					ps = append(ps, p)
				}
			}
			if len(ps) == 0 {
				return pol{}
			}
			out := ps[0]
			for _, p := range ps[1:] {
				if p.has != out.has || p.miss != out.miss {
					return pol{}
				}
				out.complete = out.complete && p.complete
			}
			if stdlibScan {
				out.complete, out.miss = true, !out.has // slices.ContainsFunc & co. scan what they are given
			}
			return out
		}
		return pol{}
	}
	valPol = func(v ssa.Value, at *ssa.BasicBlock, d int, seen map[ssa.Value]bool) verdicts {
		var out verdicts
		if v == nil || seen[v] || d > 6 {
			return out
		}
		seen[v] = true
		if bv, isK := constBool(v); isK {
			if at == nil {
				return out
			}
			for _, f2 := range localFactsAt(at) {
				p := condPol(f2.Cond, d+1)
				switch {
				case !p.ok || p.has == p.miss:
				case f2.Truth == p.has:
					out.eq = append(out.eq, bv)
				case p.complete:
					out.neq = append(out.neq, bv)
				}
			}
			return out
		}
		if phi, isPhi := v.(*ssa.Phi); isPhi {
			for k, e := range phi.Edges {
				o := valPol(e, phi.Block().Preds[k], d+1, seen)
				out.eq, out.neq = append(out.eq, o.eq...), append(out.neq, o.neq...)
			}
			return out
		}
		if p := condPol(v, d+1); p.ok {
			out.eq = append(out.eq, p.has)
			if p.complete {
				out.neq = append(out.neq, p.miss)
			}
		}
		return out
	}
	inPol := map[*ssa.Function]bool{}
	fnPol = func(f *ssa.Function, d int) pol {
		if f == nil || d > 6 || inPol[f] {
			return pol{}
		}
		inPol[f] = true
		defer delete(inPol, f)
		var vs verdicts
		eachInstr(f, func(i ssa.Instruction) {
			if r, ok := i.(*ssa.Return); ok && len(r.Results) == 1 {
				o := valPol(r.Results[0], r.Block(), d+1, map[ssa.Value]bool{})
				vs.eq, vs.neq = append(vs.eq, o.eq...), append(vs.neq, o.neq...)
			}
		})
		return summarise(vs, c16touchesTable([]*ssa.Function{f}))
	}
	m.has, m.miss = true, false
	switch x := ft.Cond.(type) {
	case *ssa.Call:
		if p := condPol(x, 0); p.ok {
			m.has, m.miss = p.has, p.miss
		}
	case *ssa.Phi:
		p := summarise(valPol(x, nil, 0, map[ssa.Value]bool{}), true)
		if !p.ok {
			return m, false // not a flag of a key comparison
		}
		m.has, m.miss = p.has, p.miss
	}
	if !tbl || (kp == nil && len(m.other) == 0) {
		return m, false
	}
	return m, true
}
