package main

// Rules of C09 added after the fourth round of independently written breaking changes (DESIGN 11.12); wired in
// zzz_round4.go.
//
//   C09.M1  bytes in transit are not modified: nothing writes into a buffer between the read that filled it from one
//           side and the write that relays it to the other side ("... delivered ... unmodified").
//   C09.P1  a read loop that collects a message in a fixed buffer ends when the buffer is full: a Read that is handed
//           an empty window returns (0, nil) at once - no deadline, no error - and the loop never ends; nothing is
//           delivered in either direction ("however the bytes are split into segments").
//
// Both find their sites by role in the regions of the tunnels (c09.go): a FILL is a Read / io.ReadFull / io.ReadAtLeast
// into a byte buffer, a SEND is a Write of a byte buffer, buffers are compared by the identity of their backing array
// (c09backing: c09_flow.go's identity walk, continued through slice expressions).

import (
	"fmt"
	"go/token"
	"go/types"
	"os"

	"golang.org/x/tools/go/ssa"
)

func init() {
	const hello = "proxy/tcp/tls_clienthello.go"
	const sni = "proxy/tcp/sni_proxy.go"
	const cpb = "proxy/tcp/copy_buffer.go"
	const ws = "proxy/ws_handler.go"
	const name = "\t\t\t\t\tm.serverName = string(d[:nameLen])\n"
	const lowerFn = "func lowerASCII(b []byte) []byte {\n\tfor i, c := range b {\n\t\tif 'A' <= c && c <= 'Z' {\n\t\t\tb[i] = c + ('a' - 'A')\n\t\t}\n\t}\n\treturn b\n}\n\n"
	const unm = "func (m *clientHelloMsg) unmarshal("
	imp := func(pkgs string) repl { return repl{"import \"errors\"\n", "import (\n\t\"errors\"\n" + pkgs + ")\n"} }
	addRound4("C09", "(M1) bytes in transit are not modified: between the read that fills a buffer from one side of a tunnel (Read, io.ReadFull of the ClientHello, the websocket handshake read) and the Write that relays that buffer to the other side, nothing in the tunnel's region writes into the buffer's backing array - no element store, copy, append in place or in-place library call, directly or in a helper that is handed (a slice of) the buffer, e.g. the ClientHello parser (a helper with several callers counts at the calls that hand it this buffer, not at those that hand it another one); a parser that normalises in place changes the bytes the upstream receives (a rewritten server_name breaks the TLS transcript: bad record MAC).", runC09M1, c09devFilter(
		mutant{Name: "SNI name lower-cased in place by a helper that returns its argument (seed 7)", File: hello,
			Old: name, New: "\t\t\t\t\tm.serverName = string(lowerASCII(d[:nameLen]))\n", More: []repl{{unm, lowerFn + unm}}, Expect: "C09.M1"},
		mutant{Name: "SNI name lower-cased in place by a loop inside the parser", File: hello,
			Old: name, New: "\t\t\t\t\tfor i, ch := range d[:nameLen] {\n\t\t\t\t\t\tif 'A' <= ch && ch <= 'Z' {\n\t\t\t\t\t\t\td[i] = ch + 32\n\t\t\t\t\t\t}\n\t\t\t\t\t}\n" + name, Expect: "C09.M1"},
		mutant{Name: "SNI name normalised with copy(d, bytes.ToLower(d))", File: hello,
			Old: name, New: "\t\t\t\t\tcopy(d[:nameLen], bytes.ToLower(d[:nameLen]))\n" + name, More: []repl{imp("\t\"bytes\"\n")}, Expect: "C09.M1"},
		mutant{Name: "SNI name normalised with append into the parsed slice", File: hello,
			Old: name, New: "\t\t\t\t\tm.serverName = string(append(d[:0], bytes.ToLower(d[:nameLen])...))\n", More: []repl{imp("\t\"bytes\"\n")}, Expect: "C09.M1"},
		mutant{Name: "record version of the captured ClientHello rewritten before the replay", File: sni,
			Old: "\tif host == \"\" {\n", New: "\tdata[1], data[2] = 3, 1\n\tif host == \"\" {\n", Expect: "C09.M1"},
		mutant{Name: "record length of the captured ClientHello rewritten with binary.BigEndian.PutUint16 before the replay", File: sni,
			Old: "\tif host == \"\" {\n", New: "\tbinary.BigEndian.PutUint16(data[3:], uint16(bufferSize-5))\n\tif host == \"\" {\n",
			More: []repl{{"import (\n", "import (\n\t\"encoding/binary\"\n"}}, Expect: "C09.M1"},
		mutant{Name: "copy loop masks the bytes between Read and Write", File: cpb,
			Old: "\t\tif nr > 0 {\n", New: "\t\tfor i := range buf[:nr] {\n\t\t\tbuf[i] &= 0x7f\n\t\t}\n\t\tif nr > 0 {\n", Expect: "C09.M1"},
		mutant{Name: "websocket handshake relay rewrites the status line before it is sent to the client", File: ws,
			Old: "\t\tb = b[:n]\n", New: "\t\tb = b[:n]\n\t\tcopy(b, \"HTTP/1.1 101\")\n", Expect: "C09.M1"},
		func() mutant {
			m := c09sniSessionMutant("session object: ClientHello captured by one method, replayed by another, its record version rewritten in between", "s.hello", "s.r", "C09.M1")
			m.More = append(m.More, repl{"\tif host == \"\" {\n", "\tdata[1], data[2] = 3, 1\n\tif host == \"\" {\n"})
			return m
		}(),
		mutant{Name: "benign: SNI name lower-cased after the conversion to a string", File: hello,
			Old: name, New: "\t\t\t\t\tm.serverName = strings.ToLower(string(d[:nameLen]))\n", More: []repl{imp("\t\"strings\"\n")}, Expect: ""},
		mutant{Name: "benign: SNI name lower-cased with bytes.ToLower (a copy)", File: hello,
			Old: name, New: "\t\t\t\t\tm.serverName = string(bytes.ToLower(d[:nameLen]))\n", More: []repl{imp("\t\"bytes\"\n")}, Expect: ""},
		mutant{Name: "benign: in-place helper applied to a copy of the name", File: hello,
			Old: name, New: "\t\t\t\t\tm.serverName = string(lowerASCII(append([]byte(nil), d[:nameLen]...)))\n", More: []repl{{unm, lowerFn + unm}}, Expect: ""},
		mutant{Name: "benign: in-place helper applied to []byte(string(name))", File: hello,
			Old: name, New: "\t\t\t\t\tm.serverName = string(lowerASCII([]byte(string(d[:nameLen]))))\n", More: []repl{{unm, lowerFn + unm}}, Expect: ""},
		mutant{Name: "benign: the captured ClientHello is cleared after it has been replayed", File: sni,
			Old: "\terrc := make(chan error, 2)\n", New: "\tclear(data)\n\terrc := make(chan error, 2)\n", Expect: ""},
		mutant{Name: "benign: the copy loop scrubs its buffer after the write, before the next read", File: cpb,
			Old: "\t\tif er != nil {\n\t\t\tif er != io.EOF {", New: "\t\tclear(buf)\n\t\tif er != nil {\n\t\t\tif er != io.EOF {", Expect: ""},
	)...)
	const rd1 = "\t\tn, err := out.Read(b)\n\t\tif err != nil {\n\t\t\tlog.Printf(\"[ERROR] Error reading handshake for %s: %s\", r.URL, err)\n\t\t\thttp.Error(w, \"error reading handshake\", http.StatusInternalServerError)\n\t\t\treturn\n\t\t}\n"
	fail := "\t\t\tif err != nil {\n\t\t\t\tlog.Printf(\"[ERROR] Error reading handshake for %s: %s\", r.URL, err)\n\t\t\t\thttp.Error(w, \"error reading handshake\", http.StatusInternalServerError)\n\t\t\t\treturn\n\t\t\t}\n"
	const crlf = "[]byte(\"\\r\\n\\r\\n\")"
	loop := func(head, pre, post string) string {
		return "\t\tn := 0\n\t\tfor " + head + " {\n" + pre + "\t\t\tm, err := out.Read(b[n:])\n" + fail + "\t\t\tn += m\n" + post + "\t\t}\n"
	}
	addRound4("C09", "(P1) a read loop that collects a message in a fixed buffer ends when the buffer is full: where a Read in a loop of a tunnel's region fills a window buf[n:] (or a buffer re-sliced to its rest) that shrinks with every iteration, the loop has an exit that compares the fill level / the remaining room with a bound, or the count the Read returned with a constant (the comparison itself, a boolean computed from it with || / &&, or a predicate helper that is handed the level and compares it); net.Conn.Read and tls.Conn.Read return (0, nil) at once for an empty buffer whatever the read deadline, so without that exit a websocket handshake response longer than the buffer makes the handler spin forever and neither the response nor any later byte is delivered.", runC09P1, c09devFilter(
		mutant{Name: "handshake read loops until the blank line with no room check (seed 8)", File: ws,
			Old: rd1, New: loop("!bytes.Contains(b[:n], "+crlf+")", "", ""), Expect: "C09.P1"},
		mutant{Name: "handshake read loop with the end test after the read, no room check", File: ws,
			Old: rd1, New: loop("", "", "\t\t\tif bytes.Contains(b[:n], "+crlf+") {\n\t\t\t\tbreak\n\t\t\t}\n"), Expect: "C09.P1"},
		mutant{Name: "handshake read loop over a buffer re-sliced to its rest, no room check", File: ws,
			Old:    rd1,
			New:    "\t\trest := b\n\t\tfor !bytes.Contains(b[:len(b)-len(rest)], " + crlf + ") {\n\t\t\tm, err := out.Read(rest)\n" + fail + "\t\t\trest = rest[m:]\n\t\t}\n\t\tn := len(b) - len(rest)\n",
			Expect: "C09.P1"},
		mutant{Name: "handshake read loop whose room check does not leave the loop", File: ws,
			Old: rd1, New: loop("!bytes.Contains(b[:n], "+crlf+")", "\t\t\tif n >= len(b) {\n\t\t\t\tlog.Printf(\"[WARN] long handshake for %s\", r.URL)\n\t\t\t}\n", ""), Expect: "C09.P1"},
		mutant{Name: "bounded handshake read loop, but only the bytes up to the blank line are forwarded", File: ws,
			Old: rd1, New: loop("n < len(b) && !bytes.Contains(b[:n], "+crlf+")", "", ""),
			More: []repl{{"\t\tb = b[:n]\n", "\t\tb = b[:bytes.Index(b[:n], " + crlf + ")+4]\n\t\tn = len(b)\n"}}, Expect: "C09.B3"},
		mutant{Name: "bounded handshake read loop that leaves on io.EOF before it counts the bytes returned with it", File: ws,
			Old: rd1, New: "\t\tn := 0\n\t\tfor n < len(b) && !bytes.Contains(b[:n], " + crlf + ") {\n\t\t\tm, err := out.Read(b[n:])\n\t\t\tif err == io.EOF {\n\t\t\t\tbreak\n\t\t\t}\n" + fail + "\t\t\tn += m\n\t\t}\n", Expect: "C09.B3"},
		mutant{Name: "bounded handshake read loop that forwards the whole buffer after every read", File: ws,
			Old: rd1, New: loop("n < len(b) && !bytes.Contains(b[:n], "+crlf+")", "", "\t\t\tin.Write(b[:n])\n"), Expect: "C09.B3"},
		mutant{Name: "benign: handshake read loop bounded by the buffer (n < len(b) in the loop condition)", File: ws,
			Old: rd1, New: loop("n < len(b) && !bytes.Contains(b[:n], "+crlf+")", "", ""), Expect: ""},
		mutant{Name: "benign: handshake read loop that leaves when the buffer is full (test in the body)", File: ws,
			Old: rd1, New: loop("!bytes.Contains(b[:n], "+crlf+")", "\t\t\tif n == len(b) {\n\t\t\t\tbreak\n\t\t\t}\n", ""), Expect: ""},
		mutant{Name: "benign: handshake read loop that forwards what it has when the buffer is full (test after the read)", File: ws,
			Old: rd1, New: loop("", "", "\t\t\tif n >= cap(b) || bytes.Contains(b[:n], "+crlf+") {\n\t\t\t\tbreak\n\t\t\t}\n"), Expect: ""},
		mutant{Name: "benign: handshake read loop over the rest of the buffer, bounded by len(rest) > 0", File: ws,
			Old:    rd1,
			New:    "\t\tn := 0\n\t\tfor rest := b; len(rest) > 0 && !bytes.Contains(b[:n], " + crlf + "); rest = b[n:] {\n\t\t\tm, err := out.Read(rest)\n" + fail + "\t\t\tn += m\n\t\t}\n",
			Expect: ""},
	)...)
}

// ---- tunnels, buffers ---------------------------------------------------------------------------------------------

var (
	c09r4for     *Ctx
	c09r4tunnels []*c09tunnel
)

// c09tunnelsOf: the tunnels of runC09 (tcp.Handler implementations that dial, the hijacking HTTP handler), built once
// per loaded program.
func c09tunnelsOf(c *Ctx) []*c09tunnel {
	if c09r4for == c {
		return c09r4tunnels
	}
	var ts []*c09tunnel
	handlers, _ := c09handlers(c)
	for _, f := range handlers {
		ts = append(ts, c09newTunnel(c, f, c09recvLabel(f), true))
	}
	ws := c09hijackers(c)
	for _, f := range ws {
		label := c09recvLabel(f)
		if len(ws) == 1 {
			label = c09wsLabel
		}
		ts = append(ts, c09newTunnel(c, f, label, false))
	}
	c09r4for, c09r4tunnels = c, ts
	return ts
}

func c09isByteBuf(t types.Type) bool {
	if c09isByteSlice(t) {
		return true
	}
	if p, ok := t.Underlying().(*types.Pointer); ok {
		t = p.Elem()
	}
	if a, ok := t.Underlying().(*types.Array); ok {
		b, ok := a.Elem().Underlying().(*types.Basic)
		return ok && b.Kind() == types.Uint8
	}
	return false
}

// c09backing: the backing arrays v may be a view of: the identity roots of v (c09_flow.go), continued through slice
// expressions (b[i:j] shares b's array) and through append (the result may still be its first argument's array).
func c09backing(v ssa.Value) map[c09key]ssa.Value { return c09backingBound(v, nil) }

// c09backingBound: c09backing in the context of ONE call: the parameters in bind denote only the arguments listed for
// them (the other parameters denote what all their call sites pass, as always).
func c09backingBound(v ssa.Value, bind map[*ssa.Parameter][]ssa.Value) map[c09key]ssa.Value {
	out := map[c09key]ssa.Value{}
	seen := map[ssa.Value]bool{}
	roots := func(v ssa.Value) map[c09key]ssa.Value {
		w := c09newWalker()
		for p, as := range bind {
			w.bind[p] = as
		}
		w.walk(v)
		return w.roots
	}
	var rec func(v ssa.Value, d int)
	rec = func(v ssa.Value, d int) {
		if v == nil || seen[v] || d > 64 {
			return
		}
		seen[v] = true
		for k, r := range roots(v) {
			switch x := r.(type) {
			case *ssa.Slice:
				rec(x.X, d+1)
				continue
			case *ssa.Call:
				if b, ok := x.Call.Value.(*ssa.Builtin); ok && b.Name() == "append" && len(x.Call.Args) > 0 {
					rec(x.Call.Args[0], d+1)
				}
			}
			out[k] = r
		}
	}
	rec(v, 0)
	return out
}

// c09fillBuf: i reads from a stream into a byte buffer (Read of a reader, io.ReadFull, io.ReadAtLeast): the buffer.
func c09fillBuf(i ssa.Instruction) ssa.Value {
	call, ok := i.(*ssa.Call)
	if !ok {
		return nil
	}
	switch calleeName(&call.Call) {
	case "io.ReadFull", "io.ReadAtLeast":
		if len(call.Call.Args) >= 2 && c09isByteSlice(call.Call.Args[1].Type()) {
			return call.Call.Args[1]
		}
		return nil
	}
	if _, args, ok := c09ioCall(&call.Call, "Read"); ok && len(args) == 1 && c09isByteSlice(args[0].Type()) && !c09forwardingRead(call.Parent(), call) {
		return args[0]
	}
	return nil
}

// c09sendBuf: i writes a byte buffer to a stream (Write of a writer): the buffer.
func c09sendBuf(i ssa.Instruction) ssa.Value {
	call, ok := i.(*ssa.Call)
	if !ok {
		return nil
	}
	if f := call.Parent(); f != nil && f.Name() == "Write" && f.Signature.Recv() != nil && len(f.Params) == 2 {
		if _, args, ok := c09ioCall(&call.Call, "Write"); ok && len(args) == 1 && args[0] == ssa.Value(f.Params[1]) {
			return nil // a Write method that forwards its own argument (connection wrapper): not the relay
		}
	}
	if _, args, ok := c09ioCall(&call.Call, "Write"); ok && len(args) == 1 && c09isByteSlice(args[0].Type()) {
		return args[0]
	}
	// io.Copy(dst, bytes.NewReader(buf)) sends buf
	if n := calleeName(&call.Call); c09copyFns[n] && len(call.Call.Args) >= 2 {
		for _, rv := range c09roots(call.Call.Args[1]) {
			if nr, ok := rv.(*ssa.Call); ok && len(nr.Call.Args) == 1 && (calleeName(&nr.Call) == "bytes.NewReader" || calleeName(&nr.Call) == "bytes.NewBuffer") && c09isByteSlice(nr.Call.Args[0].Type()) {
				return nr.Call.Args[0]
			}
		}
	}
	return nil
}

// c09inPlaceLib: library functions that write INTO a byte slice they are given: name -> index of that argument.
// (Methods of library types are matched by method name, c09inPlaceMethod.) The list is what the rule knows; a library
// call that is not on it is taken to leave its arguments alone.
var c09inPlaceLib = map[string]int{
	"io.ReadFull": 1, "io.ReadAtLeast": 1, "crypto/rand.Read": 0, "math/rand.Read": 0,
	"encoding/hex.Decode": 0, "encoding/hex.Encode": 0,
	"crypto/subtle.XORBytes": 0, "crypto/subtle.ConstantTimeCopy": 1,
	"sort.Slice": 0, "sort.SliceStable": 0, "slices.Sort": 0, "slices.SortFunc": 0, "slices.SortStableFunc": 0, "slices.Reverse": 0,
	"unicode/utf8.EncodeRune": 0, "unicode/utf8.AppendRune": 0,
	"strconv.AppendInt": 0, "strconv.AppendUint": 0, "strconv.AppendQuote": 0, "strconv.AppendBool": 0, "strconv.AppendFloat": 0,
	"fmt.Append": 0, "fmt.Appendf": 0, "fmt.Appendln": 0,
}

// methods (of any library type) that write into their first argument
var c09inPlaceMethod = map[string]bool{
	"Read": true, "ReadAt": true, "PutUint16": true, "PutUint32": true, "PutUint64": true, "XORKeyStream": true,
	"Decode": true, "Encode": true, "CryptBlocks": true, "Encrypt": true, "Decrypt": true,
}

// c09writesInto: the byte buffers instruction i writes into, itself: an element store b[i] = x, copy(b, ..), clear(b),
// append(b[:k], ..) (writes behind b[:k] when there is room; a full slice expression b[:k:k] rules that out), or a
// library call that fills / rewrites the slice it is given.
func c09writesInto(i ssa.Instruction) []ssa.Value {
	switch x := i.(type) {
	case *ssa.Store:
		if ia, ok := x.Addr.(*ssa.IndexAddr); ok && c09isByteBuf(ia.X.Type()) {
			return []ssa.Value{ia.X}
		}
	case *ssa.Call:
		cc := &x.Call
		if b, ok := cc.Value.(*ssa.Builtin); ok {
			if len(cc.Args) == 0 || !c09isByteBuf(cc.Args[0].Type()) {
				return nil
			}
			switch b.Name() {
			case "copy", "clear":
				return []ssa.Value{cc.Args[0]}
			case "append":
				if _, isNil := cc.Args[0].(*ssa.Const); isNil {
					return nil
				}
				if sl, ok := cc.Args[0].(*ssa.Slice); ok && sl.Max != nil && sl.Max == sl.High {
					return nil
				}
				return []ssa.Value{cc.Args[0]}
			}
			return nil
		}
		if c09bodyOf(cc) != nil {
			return nil // a repository function: its own stores are found where they are
		}
		name := calleeName(cc)
		idx, known := c09inPlaceLib[name]
		args := cc.Args
		if !known {
			var mn string
			if cc.IsInvoke() {
				mn = cc.Method.Name()
			} else if sc := cc.StaticCallee(); sc != nil && sc.Signature.Recv() != nil && len(args) > 0 {
				mn, args = sc.Name(), args[1:]
			}
			if mn == "" || !c09inPlaceMethod[mn] {
				return nil
			}
			idx = 0
		}
		if idx < len(args) && c09isByteSlice(args[idx].Type()) {
			return []ssa.Value{args[idx]}
		}
	}
	return nil
}

// c09lift: instruction i satisfies pred, or is a (non-go) call of a repository function - static, or a local closure -
// that may execute such an instruction, at any depth (the shared liftMay stops three calls down: a parser reached
// through readServerName -> unmarshal -> helper is exactly at its limit).
func c09lift(pred func(ssa.Instruction) bool) func(ssa.Instruction) bool {
	memo := map[*ssa.Function]bool{}
	var may func(fn *ssa.Function, d int) bool
	may = func(fn *ssa.Function, d int) bool {
		if fn == nil || len(fn.Blocks) == 0 || d > 8 {
			return false
		}
		if r, ok := memo[fn]; ok {
			return r
		}
		memo[fn] = false
		hit := false
		eachInstr(fn, func(i ssa.Instruction) {
			if hit {
				return
			}
			if pred(i) {
				hit = true
				return
			}
			call, ok := i.(*ssa.Call)
			if !ok {
				return
			}
			if sc := c09bodyOf(&call.Call); sc != nil {
				hit = may(unwrap(sc), d+1)
			} else if !call.Call.IsInvoke() && call.Call.StaticCallee() == nil {
				for _, g := range funcsOf(call.Call.Value) {
					if may(g, d+1) {
						hit = true
					}
				}
			}
		})
		memo[fn] = hit
		return hit
	}
	return func(i ssa.Instruction) bool {
		if pred(i) {
			return true
		}
		call, ok := i.(*ssa.Call)
		if !ok {
			return false
		}
		if sc := c09bodyOf(&call.Call); sc != nil {
			return may(unwrap(sc), 1)
		}
		if !call.Call.IsInvoke() && call.Call.StaticCallee() == nil {
			for _, g := range funcsOf(call.Call.Value) {
				if may(g, 1) {
					return true
				}
			}
		}
		return false
	}
}

// c09bindAt: the parameters of the repository function(s) called at j -> the arguments of j.
func c09bindAt(j ssa.Instruction) map[*ssa.Parameter][]ssa.Value {
	call, ok := j.(*ssa.Call)
	if !ok || call.Call.IsInvoke() {
		return nil
	}
	var fns []*ssa.Function
	if sc := c09bodyOf(&call.Call); sc != nil {
		fns = append(fns, sc)
		if u := unwrap(sc); u != sc {
			fns = append(fns, u)
		}
	} else if call.Call.StaticCallee() == nil {
		fns = funcsOf(call.Call.Value)
	}
	bind := map[*ssa.Parameter][]ssa.Value{}
	for _, g := range fns {
		if len(g.Params) != len(call.Call.Args) {
			continue
		}
		for k, p := range g.Params {
			bind[p] = append(bind[p], call.Call.Args[k])
		}
	}
	return bind
}

// ---- M1 -----------------------------------------------------------------------------------------------------------

func runC09M1(c *Ctx) {
	type site struct {
		at   ssa.Instruction
		back map[c09key]ssa.Value
		buf  ssa.Value
	}
	done := map[ssa.Instruction]bool{}
	nTransit := 0
	counted := map[ssa.Instruction]bool{}
	for _, t := range c09tunnelsOf(c) {
		var fills, sends, muts []site
		eachInstrOf(t.reg, func(f *ssa.Function, i ssa.Instruction) {
			if b := c09fillBuf(i); b != nil {
				fills = append(fills, site{i, c09backing(b), b})
				return // the fill is the legitimate writer of the buffer
			}
			if b := c09sendBuf(i); b != nil {
				sends = append(sends, site{i, c09backing(b), b})
			}
			if call, ok := i.(*ssa.Call); ok && c09forwardingRead(f, call) {
				return // the Read method of a reader object fills its caller's buffer
			}
			for _, b := range c09writesInto(i) {
				muts = append(muts, site{i, c09backing(b), b})
			}
		})
		if os.Getenv("C09_DEBUG") != "" {
			for _, x := range fills {
				fmt.Fprintln(os.Stderr, "FILL", t.label, c.pos(x.at.Pos()), len(x.back))
			}
			for _, x := range sends {
				fmt.Fprintln(os.Stderr, "SEND", t.label, c.pos(x.at.Pos()), len(x.back))
			}
			for _, x := range muts {
				fmt.Fprintln(os.Stderr, "MUT", t.label, c.pos(x.at.Pos()), x.back)
			}
		}
		for _, fl := range fills {
			var snd, mut []site
			for _, s := range sends {
				if c09meet(s.back, fl.back) {
					snd = append(snd, s)
				}
			}
			if len(snd) == 0 {
				continue // not relayed (B3 / B4 ask for the relay)
			}
			if !counted[fl.at] {
				counted[fl.at] = true
				nTransit++
			}
			for _, m := range muts {
				if c09meet(m.back, fl.back) {
					mut = append(mut, m)
				}
			}
			if len(mut) == 0 {
				continue
			}
			isFill := func(i ssa.Instruction) bool { return i == fl.at }
			isSend := func(i ssa.Instruction) bool {
				for _, s := range snd {
					if s.at == i {
						return true
					}
				}
				return false
			}
			for _, m := range mut {
				if done[m.at] {
					continue
				}
				isMut := func(i ssa.Instruction) bool { return i == m.at }
				// in whichever function of the region the three meet (each directly or inside a helper that is called
				// there): fill ... write into the buffer ... send, with no new fill between the write and the send
				bad := false
				liftFill, liftMut, liftSend := c09lift(isFill), c09lift(isMut), c09lift(isSend)
				for _, g := range t.reg {
					var as, ms, bs []ssa.Instruction
					eachInstr(g, func(j ssa.Instruction) {
						if _, isGo := j.(*ssa.Go); isGo {
							return
						}
						if liftFill(j) {
							as = append(as, j)
						}
						if liftMut(j) && (j == m.at || c09meet(c09backingBound(m.buf, c09bindAt(j)), fl.back)) {
							// (a helper that writes into its parameter writes into THIS buffer at the calls that hand it
							// this buffer, not at its other calls)
							ms = append(ms, j)
						}
						if liftSend(j) {
							bs = append(bs, j)
						}
					})
					for _, a := range as {
						for _, mm := range ms {
							if mm == a || !pathAvoiding(a, mm, nil) {
								continue
							}
							for _, b := range bs {
								if b != mm && pathAvoiding(mm, b, func(j ssa.Instruction) bool { return j == a }) {
									bad = true
								}
							}
						}
					}
				}
				if !bad {
					continue
				}
				done[m.at] = true
				name := fnKey(m.at.Parent())
				if m.at.Parent() == t.entry {
					name = t.label
				}
				c.check("C09.M1", name+"|bytes in transit are not modified", m.at.Pos(), false,
					"this writes into a buffer after it was filled from one side of the tunnel (at "+c.pos(fl.at.Pos())+") and before it is written to the other side (at "+c.pos(snd[0].at.Pos())+"): the peer receives bytes the sender did not send - every byte must be delivered unmodified (a ClientHello whose server_name was normalised in place fails the TLS handshake with bad record MAC: the transcript differs); work on a copy (string conversion, bytes.ToLower, append([]byte(nil), ...))")
			}
		}
	}
	c.atLeast("C09.M1", "buffers that are filled from one side of a tunnel and written to the other", nTransit, 1)
	if len(done) == 0 {
		c.ob("C09.M1", "proxy, proxy/tcp|bytes in transit are not modified", token.NoPos, OK, "no write into a relayed buffer between its fill and its relay ("+itoa(nTransit)+" buffers)")
	}
}

// ---- P1 -----------------------------------------------------------------------------------------------------------

// c09dependsOn: v is computed from a value satisfying pred by integer arithmetic, merges, conversions, len/cap, or as
// a slice bounded by such a value.
func c09dependsOn(v ssa.Value, pred func(ssa.Value) bool) bool {
	seen := map[ssa.Value]bool{}
	var rec func(v ssa.Value, d int) bool
	rec = func(v ssa.Value, d int) bool {
		if v == nil || seen[v] || d > 12 {
			return false
		}
		seen[v] = true
		if pred(v) {
			return true
		}
		switch x := v.(type) {
		case *ssa.BinOp:
			return rec(x.X, d+1) || rec(x.Y, d+1)
		case *ssa.UnOp:
			return x.Op != token.MUL && x.Op != token.ARROW && rec(x.X, d+1)
		case *ssa.Phi:
			for _, e := range x.Edges {
				if rec(e, d+1) {
					return true
				}
			}
		case *ssa.Convert:
			return rec(x.X, d+1)
		case *ssa.ChangeType:
			return rec(x.X, d+1)
		case *ssa.Slice:
			return rec(x.X, d+1) || rec(x.Low, d+1) || rec(x.High, d+1)
		case *ssa.Call:
			if b, ok := x.Call.Value.(*ssa.Builtin); ok && (b.Name() == "len" || b.Name() == "cap" || b.Name() == "min" || b.Name() == "max") {
				for _, a := range x.Call.Args {
					if rec(a, d+1) {
						return true
					}
				}
			}
		}
		return false
	}
	return rec(v, 0)
}

// c09levelCmp: v is an integer comparison one side of which depends on the fill level (level), or that compares the
// count the read returned (isCount) with a constant.
func c09levelCmp(v ssa.Value, level, isCount func(ssa.Value) bool) bool {
	cmp, ok := v.(*ssa.BinOp)
	if !ok {
		return false
	}
	switch cmp.Op {
	case token.LSS, token.LEQ, token.GTR, token.GEQ, token.EQL, token.NEQ:
	default:
		return false
	}
	if bt, ok := cmp.X.Type().Underlying().(*types.Basic); !ok || bt.Info()&types.IsInteger == 0 {
		return false
	}
	_, kx := cmp.X.(*ssa.Const)
	_, ky := cmp.Y.(*ssa.Const)
	switch {
	case c09dependsOn(cmp.X, level) || c09dependsOn(cmp.Y, level):
		return true // fill level / remaining room against a bound
	case isCount != nil && ((isCount(cmp.X) && ky) || (isCount(cmp.Y) && kx)):
		return true // a read that returned nothing leaves the loop
	}
	return false
}

// c09levelTest: the condition of an exit branch of the loop tests the fill level. cond is
//   - such a comparison (c09levelCmp), possibly negated;
//   - a verdict kept in a boolean (`done := n >= len(b) || found`, a `case` with several conditions): a merge of
//     constants and conditions - an edge that carries the constant with which the branch LEAVES the loop
//     (exitOnTrue) comes from the branch on one operand of the || / &&: that operand is a level test; an edge that
//     carries a computed condition: that condition is;
//   - the result of a repository predicate (`full(b, n)`, `s.hasRoom()` is out of reach: a field) that is handed a
//     value depending on the fill level and compares what it was handed (integer comparison) on the way to its result.
func c09levelTest(cond ssa.Value, exitOnTrue bool, level, isCount func(ssa.Value) bool, depth int) bool {
	if depth > 4 {
		return false
	}
	for k := 0; k < 3; k++ {
		if u, ok := cond.(*ssa.UnOp); ok && u.Op == token.NOT {
			cond, exitOnTrue = u.X, !exitOnTrue
		}
	}
	switch x := cond.(type) {
	case *ssa.BinOp:
		return c09levelCmp(x, level, isCount)
	case *ssa.Phi:
		for k, e := range x.Edges {
			if kb, isK := constBool(e); isK {
				if kb != exitOnTrue || k >= len(x.Block().Preds) {
					continue
				}
				p := x.Block().Preds[k]
				if n := len(p.Instrs); n > 0 {
					// the operand of the || / && that decided (a || b yields true on a's true edge, a && b false on
					// a's false edge)
					if iff, ok := p.Instrs[n-1].(*ssa.If); ok && c09levelTest(iff.Cond, true, level, isCount, depth+1) {
						return true
					}
				}
				continue
			}
			if c09levelTest(e, exitOnTrue, level, isCount, depth+1) {
				return true
			}
		}
	case *ssa.Call:
		callee := c09bodyOf(&x.Call)
		if callee == nil {
			return false
		}
		callee = unwrap(callee)
		for k, a := range x.Call.Args {
			if k >= len(callee.Params) || !(c09dependsOn(a, level) || (isCount != nil && isCount(a))) {
				continue
			}
			p := ssa.Value(callee.Params[k])
			inner := func(v ssa.Value) bool { return v == p }
			hit := false
			eachInstr(callee, func(i ssa.Instruction) {
				if v, ok := i.(ssa.Value); ok && c09levelCmp(v, inner, nil) {
					hit = true
				}
			})
			if hit {
				return true
			}
		}
	}
	return false
}

func runC09P1(c *Ctx) {
	nReads, nFills := 0, 0
	seenRd := map[ssa.Instruction]bool{}
	for _, t := range c09tunnelsOf(c) {
		for _, g := range t.reg {
			loops := loopsOf(g)
			eachInstr(g, func(i ssa.Instruction) {
				buf := c09fillBuf(i)
				if buf == nil || seenRd[i] {
					return
				}
				rd := i.(*ssa.Call)
				if n := calleeName(&rd.Call); n == "io.ReadAtLeast" {
					return // fails with io.ErrShortBuffer when the buffer is too small
				}
				inLoop := false
				for _, l := range loops {
					if !l.Body[rd.Block()] {
						continue
					}
					inLoop = true
					inBody := func(v ssa.Value) bool {
						in, ok := v.(ssa.Instruction)
						return ok && in.Block() != nil && l.Body[in.Block()]
					}
					// the window shrinks from one iteration to the next: buf[lo:] with lo computed in the loop, or a
					// buffer variable of the loop that is re-sliced to its own rest
					var level func(ssa.Value) bool // "is the fill level / the remaining buffer"
					what := ""
					phi, _ := buf.(*ssa.Phi)
					var wins []*ssa.Slice
					if sl, ok := buf.(*ssa.Slice); ok {
						wins = append(wins, sl)
					} else if phi != nil && inBody(phi) {
						for _, e := range phi.Edges {
							if sl, ok := e.(*ssa.Slice); ok && inBody(sl) {
								wins = append(wins, sl)
							}
						}
					}
					for _, sl := range wins {
						if _, isK := sl.Low.(*ssa.Const); sl.Low == nil || isK || sl.High != nil {
							continue
						}
						if !c09isByteBuf(sl.X.Type()) {
							continue
						}
						rest := phi != nil && c09dependsOn(sl.X, func(v ssa.Value) bool { return v == ssa.Value(phi) })
						if !rest && (!inBody(sl.Low) || inBody(sl.X)) {
							continue
						}
						sl := sl
						// the loop variables the lower bound is computed from (n itself; `room` in b[len(b)-room:])
						vars := map[ssa.Value]bool{}
						c09dependsOn(sl.Low, func(v ssa.Value) bool {
							if p, ok := v.(*ssa.Phi); ok && inBody(p) {
								vars[v] = true
							}
							return false
						})
						level = func(v ssa.Value) bool {
							return v == sl.Low || v == ssa.Value(sl) || vars[v] || (phi != nil && v == ssa.Value(phi))
						}
						what = "a window buf[n:] whose lower bound advances in the loop"
						if rest {
							what = "a buffer that is re-sliced to its rest in the loop"
						}
					}
					if level == nil {
						continue
					}
					isCount := func(v ssa.Value) bool {
						e, ok := v.(*ssa.Extract)
						return ok && e.Tuple == ssa.Value(rd) && e.Index == 0
					}
					guarded := false
					for b := range l.Body {
						if len(b.Instrs) == 0 || len(b.Succs) != 2 || (l.Body[b.Succs[0]] && l.Body[b.Succs[1]]) {
							continue
						}
						iff, ok := b.Instrs[len(b.Instrs)-1].(*ssa.If)
						if !ok {
							continue
						}
						if c09levelTest(iff.Cond, !l.Body[b.Succs[0]], level, isCount, 0) {
							guarded = true
						}
					}
					name := fnKey(g)
					if g == t.entry {
						name = t.label
					}
					seenRd[i] = true
					c.check("C09.P1", name+"|read loop over a fixed buffer ends when the buffer is full", rd.Pos(), guarded,
						"this Read fills "+what+" and no exit of the loop compares the fill level (or the room that is left) with a bound: when the message does not end within the buffer the window becomes empty, Read returns (0, nil) at once - net.Conn and tls.Conn do so before they look at the read deadline - and the loop spins forever; the handshake response and everything behind it is never delivered to the peer, in either direction. Leave the loop when the buffer is full (n < len(buf)) and forward what has been read")
				}
				seenRd[i] = true
				nFills++
				if inLoop || c09inLoop(i, 0) {
					nReads++
				}
			})
		}
	}
	c.atLeast("C09.P1", "reads into a byte buffer in the tunnels' regions", nFills, 1)
	c.ob("C09.P1", "proxy, proxy/tcp|read loops over a fixed buffer are bounded by the buffer", token.NoPos, OK, "examined "+itoa(nFills)+" reads into a byte buffer, "+itoa(nReads)+" of them in loops")
}
