package main

// What "the access rules of a target" are, independent of their representation (round 2 of the hardening): the field
// of route.Target that Target.ProcessAccessRules fills (today `accessRules`), any value of the named type that field
// has (a typed rule set with methods: `func (rs ruleSet) denies(ip net.IP) bool`), and any parameter / captured
// variable that is handed exactly that. A list of the rule set "is present" by a comma-ok lookup with the constant tag,
// by `rules[tag] != nil`, by `rules.allow != nil` or by a bool member (`rules.hasAllow`); never by its length (an empty
// allow list is the deny-all rule set that a failed rule parse installs).

import (
	"go/token"
	"go/types"
	"strings"

	"golang.org/x/tools/go/ssa"
)

type c12RulesInfo struct {
	fields map[string]bool          // fields of route.Target that hold access rules
	named  map[*types.TypeName]bool // the named repository types of those fields
	parts  []string                 // rule set given as a struct: its members that can be absent (nil-able or bool)
	flags  map[string]bool          // ... those of them that are bool
}

var c12RI = &c12RulesInfo{fields: map[string]bool{"accessRules": true}, named: map[*types.TypeName]bool{}}

// c12InitRules finds the rule fields by role: the fields of route.Target that the region of the exported
// Target.ProcessAccessRules writes (assigns, updates as a map, appends to, hands to a method by address).
func c12InitRules(c *Ctx) {
	ri := &c12RulesInfo{fields: map[string]bool{"accessRules": true}, named: map[*types.TypeName]bool{}}
	c12RI = ri
	sp := c.spkg("route")
	if sp == nil {
		return
	}
	if par := c.method("route", "Target", "ProcessAccessRules"); par != nil {
		eachInstrOf(c12Region(c, par), func(_ *ssa.Function, i ssa.Instruction) {
			fa, ok := i.(*ssa.FieldAddr)
			if !ok || !namedIs(fa.X.Type(), "route.Target") || fa.Referrers() == nil {
				return
			}
			written := false
			for _, r := range *fa.Referrers() {
				switch x := r.(type) {
				case *ssa.Store:
					written = written || x.Addr == ssa.Value(fa)
				case *ssa.FieldAddr, *ssa.IndexAddr:
					written = true // a member of the field is addressed
				case *ssa.Call:
					written = true // handed to a method by address
				case *ssa.UnOp:
					if x.Referrers() != nil {
						for _, r2 := range *x.Referrers() {
							if mu, isMU := r2.(*ssa.MapUpdate); isMU && mu.Map == ssa.Value(x) {
								written = true
							}
						}
					}
				}
			}
			if written {
				ri.fields[fieldName(fa.X.Type(), fa.Field)] = true
			}
		})
	}
	obj := sp.Pkg.Scope().Lookup("Target")
	if obj == nil {
		return
	}
	st, ok := obj.Type().Underlying().(*types.Struct)
	if !ok {
		return
	}
	for k := 0; k < st.NumFields(); k++ {
		if !ri.fields[st.Field(k).Name()] {
			continue
		}
		t := st.Field(k).Type()
		if p, isP := t.(*types.Pointer); isP {
			t = p.Elem()
		}
		if n, isN := types.Unalias(t).(*types.Named); isN && n.Obj().Pkg() != nil && strings.HasPrefix(n.Obj().Pkg().Path(), repoMod) {
			ri.named[n.Obj()] = true
			if rs, isS := n.Underlying().(*types.Struct); isS {
				for j := 0; j < rs.NumFields(); j++ {
					switch u := rs.Field(j).Type().Underlying().(type) {
					case *types.Slice, *types.Map, *types.Pointer:
						ri.parts = append(ri.parts, rs.Field(j).Name())
					case *types.Basic:
						if u.Kind() == types.Bool {
							ri.parts = append(ri.parts, rs.Field(j).Name())
							if ri.flags == nil {
								ri.flags = map[string]bool{}
							}
							ri.flags[rs.Field(j).Name()] = true
						}
					}
				}
			}
		}
	}
}

// c12IsTargetRulesField: v is (a load of) the rules field of a route.Target.
func c12IsTargetRulesField(v ssa.Value) bool {
	for f := range c12RI.fields {
		if _, ok := fieldOf(v, "route.Target", f); ok {
			return true
		}
	}
	return false
}

// c12IsRulesType: t (through one pointer) is the named type of the rules field.
func c12IsRulesType(t types.Type) bool {
	if p, ok := t.Underlying().(*types.Pointer); ok {
		t = p.Elem()
	}
	n, ok := types.Unalias(t).(*types.Named)
	return ok && c12RI.named[n.Obj()]
}

// c12IsRulesField: v is the rule set of a target: the field itself, a value of its named type, or an alias of the
// field (a parameter that every caller feeds with it, a captured variable, a local copy).
func c12IsRulesField(v ssa.Value) bool {
	is := func(x ssa.Value) bool { return c12IsTargetRulesField(x) || c12IsRulesType(x.Type()) }
	return c12AliasIs(v, is)
}

// c12AliasIs: v is, on every way it can get its value, a value satisfying is - looking only through steps that keep
// the value (parameter <- argument at every static call site, captured variable <- binding, cell <- every store,
// phi <- every edge, type change). Taking a member, an element or a length is NOT such a step.
func c12AliasIs(v ssa.Value, is func(ssa.Value) bool) bool {
	seen := map[ssa.Value]bool{}
	var walk func(v ssa.Value, depth int) bool
	walk = func(v ssa.Value, depth int) bool {
		if v == nil || depth > 6 {
			return false
		}
		if is(v) {
			return true
		}
		if seen[v] {
			return true // a cycle adds no other source
		}
		seen[v] = true
		switch x := v.(type) {
		case *ssa.Parameter:
			fn := x.Parent()
			if fn == nil {
				return false
			}
			idx := -1
			for k, p := range fn.Params {
				if p == x {
					idx = k
				}
			}
			n := 0
			for _, s := range gSites[fn] {
				cc := s.Common()
				if idx < 0 || idx >= len(cc.Args) || !walk(cc.Args[idx], depth+1) {
					return false
				}
				n++
			}
			return n > 0
		case *ssa.FreeVar:
			fn := x.Parent()
			if fn == nil || fn.Parent() == nil {
				return false
			}
			idx := -1
			for k, fv := range fn.FreeVars {
				if fv == x {
					idx = k
				}
			}
			n, ok := 0, true
			eachInstr(fn.Parent(), func(i ssa.Instruction) {
				if mc, isMC := i.(*ssa.MakeClosure); isMC && mc.Fn == ssa.Value(fn) && idx >= 0 && idx < len(mc.Bindings) {
					n++
					ok = ok && walk(mc.Bindings[idx], depth+1)
				}
			})
			return ok && n > 0
		case *ssa.UnOp:
			if x.Op != token.MUL {
				return false
			}
			switch a := x.X.(type) {
			case *ssa.Alloc:
				n := 0
				for _, r := range *a.Referrers() {
					if st, isSt := r.(*ssa.Store); isSt && st.Addr == ssa.Value(a) {
						if !walk(st.Val, depth+1) {
							return false
						}
						n++
					}
				}
				return n > 0
			case *ssa.FreeVar:
				return walk(a, depth+1)
			}
		case *ssa.Alloc:
			// the cell of a captured parameter, handed to a closure by address
			n := 0
			for _, r := range *x.Referrers() {
				if st, isSt := r.(*ssa.Store); isSt && st.Addr == ssa.Value(x) {
					if !walk(st.Val, depth+1) {
						return false
					}
					n++
				}
			}
			return n > 0
		case *ssa.Phi:
			for _, e := range x.Edges {
				if !walk(e, depth+1) {
					return false
				}
			}
			return len(x.Edges) > 0
		case *ssa.ChangeType:
			return walk(x.X, depth+1)
		case *ssa.Convert:
			return walk(x.X, depth+1)
		}
		return false
	}
	return walk(v, 0)
}

// c12Member: v is (a load of) a member of the rule set, given as a struct: returns the member's name.
func c12Member(v ssa.Value) (string, bool) {
	if u, ok := v.(*ssa.UnOp); ok && u.Op == token.MUL {
		v = u.X
	}
	switch x := v.(type) {
	case *ssa.FieldAddr:
		if c12IsRulesBase(x.X) {
			return fieldName(x.X.Type(), x.Field), true
		}
	case *ssa.Field:
		if c12IsRulesBase(x.X) {
			return fieldName(x.X.Type(), x.Field), true
		}
	}
	return "", false
}

// c12IsRulesBase: v is the rule set or its address (&t.accessRules, a *ruleSet receiver).
func c12IsRulesBase(v ssa.Value) bool {
	if c12IsRulesType(v.Type()) {
		return true
	}
	if fa, ok := v.(*ssa.FieldAddr); ok && namedIs(fa.X.Type(), "route.Target") && c12RI.fields[fieldName(fa.X.Type(), fa.Field)] {
		return true
	}
	return c12IsRulesField(v)
}

// c12TagFact: cond == truth states whether the list of the rule set named by the returned tag is PRESENT.
func c12TagFact(cond ssa.Value, truth bool) (tag string, present bool, ok bool) {
	switch x := cond.(type) {
	case *ssa.Extract:
		// _, ok := rules[tag]
		if lk, isLk := x.Tuple.(*ssa.Lookup); isLk && x.Index == 1 && lk.CommaOk && c12IsRulesField(lk.X) {
			if k, isK := constString(lk.Index); isK {
				return k, truth, true
			}
		}
	case *ssa.BinOp:
		if x.Op != token.EQL && x.Op != token.NEQ {
			return "", false, false
		}
		v := x.X
		switch {
		case isNilConst(x.Y):
		case isNilConst(x.X):
			v = x.Y
		default:
			return "", false, false
		}
		pres := (x.Op == token.NEQ) == truth
		// rules[tag] != nil
		if lk, isLk := v.(*ssa.Lookup); isLk && !lk.CommaOk && c12IsRulesField(lk.X) {
			if k, isK := constString(lk.Index); isK {
				return k, pres, true
			}
		}
		// rules.allow != nil
		if name, isM := c12Member(v); isM {
			return name, pres, true
		}
	case *ssa.UnOp, *ssa.Field:
		// rules.hasAllow
		if bt, isB := cond.Type().Underlying().(*types.Basic); isB && bt.Kind() == types.Bool {
			if name, isM := c12Member(cond); isM {
				return name, truth, true
			}
		}
	}
	return "", false, false
}

// c12ListPresent: cond == truth states that the list of the given kind ("allow" / "deny") is present. A rule set that
// is EITHER an allow list OR a deny list (`struct{ allowList bool; blocks []*net.IPNet }`, both on one route being
// rejected by the parser) says "deny list" by its allow flag being false.
func c12ListPresent(cond ssa.Value, truth bool, kind string) bool {
	k, present, ok := c12TagFact(cond, truth)
	if !ok {
		return false
	}
	if present {
		return c12TagKind(k) == kind
	}
	if kind == "deny" && c12RI.flags[k] && c12TagKind(k) == "allow" {
		for _, p := range c12RI.parts {
			if c12TagKind(p) == "deny" {
				return false
			}
		}
		return true
	}
	return false
}

// c12TagKind: "allow" / "deny" for the name of a tag or member.
func c12TagKind(tag string) string {
	l := strings.ToLower(tag)
	switch {
	case strings.Contains(l, "allow") || strings.Contains(l, "white") || strings.Contains(l, "permit"):
		return "allow"
	case strings.Contains(l, "deny") || strings.Contains(l, "black") || strings.Contains(l, "reject"):
		return "deny"
	}
	return ""
}

// c12TagSource: the instruction reads one list of the rule set by its constant tag / member name.
func c12TagSource(i ssa.Instruction) bool {
	switch x := i.(type) {
	case *ssa.Lookup:
		if c12IsRulesField(x.X) {
			k, isK := constString(x.Index)
			return isK && c12TagKind(k) != ""
		}
	case *ssa.FieldAddr:
		if c12IsRulesBase(x.X) {
			return c12TagKind(fieldName(x.X.Type(), x.Field)) != ""
		}
	case *ssa.Field:
		if c12IsRulesBase(x.X) {
			return c12TagKind(fieldName(x.X.Type(), x.Field)) != ""
		}
	}
	return false
}

// c12NoRules decides "no access rules are configured here": len(rules) == 0 / rules == nil, or - the rule set given
// as a struct - every member that can be absent is absent (`allow == nil && deny == nil`, also behind a helper such
// as rules.empty()). One absent member is not enough: the other list may be configured.
type c12NoRules struct {
	simple *c12Eng
	parts  []*c12Eng
}

func c12NoRulesLeaf(cond ssa.Value, truth bool) (ssa.Value, bool) {
	if c12LenZero(cond, truth, c12IsRulesField) {
		return nil, true
	}
	if b, ok := cond.(*ssa.BinOp); ok && (b.Op == token.EQL || b.Op == token.NEQ) && (b.Op == token.EQL) == truth {
		switch {
		case isNilConst(b.Y) && c12IsRulesField(b.X):
			return nil, true
		case isNilConst(b.X) && c12IsRulesField(b.Y):
			return nil, true
		}
	}
	return nil, false
}

func newC12NoRules() *c12NoRules {
	nr := &c12NoRules{simple: &c12Eng{leaf: c12NoRulesLeaf}}
	for _, name := range c12RI.parts {
		name := name
		nr.parts = append(nr.parts, &c12Eng{leaf: func(cond ssa.Value, truth bool) (ssa.Value, bool) {
			k, present, ok := c12TagFact(cond, truth)
			return nil, ok && !present && k == name
		}})
	}
	return nr
}

func (nr *c12NoRules) holds(vr c12VRet) bool {
	if _, ok := nr.simple.holds(vr); ok {
		return true
	}
	for _, e := range nr.parts {
		if _, ok := e.holds(vr); !ok {
			return false
		}
	}
	return len(nr.parts) > 0
}

func (nr *c12NoRules) fromFact(cond ssa.Value, truth bool) bool {
	if _, ok := nr.simple.fromFact(cond, truth, 0); ok {
		return true
	}
	for _, e := range nr.parts {
		if _, ok := e.fromFact(cond, truth, 0); !ok {
			return false
		}
	}
	return len(nr.parts) > 0
}
