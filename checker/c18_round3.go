package main

// Rules of C18 added after the third round of independently authored breaking changes (DESIGN 11.10); wired in zzz_round3.go.

import (
	"go/token"
	"strings"

	"golang.org/x/tools/go/ssa"
)

// ---- C18.D3 / C18.L2 -------------------------------------------------------------------------------------------------

// runC18D3: the forced stop is not serialised behind the graceful stop.
func runC18D3(c *Ctx) {
	c18Use(c)
	unbounded := func(fn *ssa.Function) bool {
		if fn == nil {
			return false
		}
		if strings.HasSuffix(funcName(fn), "grpc.Server).GracefulStop") || strings.HasSuffix(funcName(fn), "sync.WaitGroup).Wait") {
			return true
		}
		return isRepoFn(fn) && c18MayExec(fn, func(i ssa.Instruction) bool {
			if _, isGo := i.(*ssa.Go); isGo {
				return false
			}
			cc := callCommon(i)
			if cc == nil {
				return false
			}
			for _, n := range append(c18DynNames(cc), calleeName(cc)) {
				if strings.HasSuffix(n, "grpc.Server).GracefulStop") || strings.HasSuffix(n, "sync.WaitGroup).Wait") {
					return true
				}
			}
			return false
		}, 0)
	}
	n := 0
	for _, f := range c.fnsWhere("", func(fn *ssa.Function) bool {
		return rootPkg(fn) == c.spkg("proxy") || rootPkg(fn) == c.spkg("proxy/tcp")
	}) {
		eachInstr(f, func(i ssa.Instruction) {
			cc := callCommon(i)
			if cc == nil || calleeName(cc) != "(*sync.Once).Do" || len(cc.Args) != 2 {
				return
			}
			n++
			bad := false
			for _, fn := range c18FuncsOfAny(cc.Args[1]) {
				if unbounded(fn) {
					bad = true
				}
			}
			// a bound method value of a library type: the $bound wrapper's callee
			if mc, ok := cc.Args[1].(*ssa.MakeClosure); ok {
				if fn, ok := mc.Fn.(*ssa.Function); ok {
					eachInstr(fn, func(j ssa.Instruction) {
						if jc := callCommon(j); jc != nil && unbounded(jc.StaticCallee()) {
							bad = true
						}
					})
				}
			}
			c.check("C18.D3", fnKey(f)+"|no unbounded wait inside sync.Once.Do", i.Pos(), !bad,
				"sync.Once.Do makes every other caller of the same Once wait until the first call returns: with a graceful stop (or another unbounded wait) inside Do, the forced stop issued when the deadline fires blocks behind it instead of interrupting it — Shutdown no longer returns within the configured wait while a stream stays open")
		})
	}
	c.ob("C18.D3", "proxy, proxy/tcp|Once.Do bodies are bounded", token.NoPos, OK, "checked "+itoa(n)+" Once.Do call(s)")
}

// runC18L2: no draining call while the server registry's lock is held.
func runC18L2(c *Ctx) {
	c18Use(c)
	n := 0
	for _, f := range c.fnsWhere("proxy", func(*ssa.Function) bool { return true }) {
		eachInstr(f, func(i ssa.Instruction) {
			cc := callCommon(i)
			if cc == nil || !cc.IsInvoke() || cc.Method.Name() != "Shutdown" || len(cc.Args) != 1 || typeStr(cc.Args[0].Type()) != "context.Context" {
				return
			}
			if _, isGo := i.(*ssa.Go); isGo {
				return
			}
			n++
			held := c18HeldAround(i, 0)
			c.check("C18.L2", fnKey(f)+"|no Shutdown(ctx) of a server while a lock is held", i.Pos(), len(held) == 0,
				"a server is drained (Shutdown(ctx) blocks for up to its deadline) while "+strings.Join(held, ", ")+" is held: proxy.Shutdown begins by taking the registry lock, so it waits out that drain before its own deadline even starts (shutdown takes up to twice the configured wait) and the other listeners keep accepting meanwhile")
		})
	}
	c.atLeast("C18.L2", "Shutdown(ctx) invocations on servers in package proxy", n, 1)
}

// c18HeldAround: the locks held at instruction i: in its function, or - when nothing is held there - at a synchronous
// static call site of the helper / closure i sits in (the lock taken by a caller is held in the callee).
func c18HeldAround(i ssa.Instruction, depth int) []string {
	if h := heldAt(i, false); len(h) > 0 {
		return h
	}
	f := i.Parent()
	if depth >= 2 || f == nil || !c18OnlyStatic(f) {
		return nil
	}
	for _, s := range gSites[f] {
		if _, isCall := s.(*ssa.Call); !isCall || s.Parent() == f {
			continue
		}
		if h := c18HeldAround(s, depth+1); len(h) > 0 {
			return h
		}
	}
	return nil
}
