package main

import (
	"go/ast"
	"go/token"
	"go/types"
	"regexp"
	"strings"

	"golang.org/x/tools/go/packages"
	"golang.org/x/tools/go/ssa"
)

func init() {
	register(&propDef{
		ID:      "C20",
		Level:   "other",
		Explain: "Access-logging safety and structure: (P*) every bounds check the Go compiler's prove pass cannot eliminate in the access logger (logger.go, pattern.go) and in the request-path formatters (proxy.uint16base16, proxy.i32toa, uuid.ToString) is either discharged by a checker rule (slice bounds from Index*/LastIndex* under a dominating >= 0 test, Split indices under length facts) or matches an entry of a reviewed residual table keyed by (function, indexed object) with its reason; anything else is reported — so a new unguarded index on the logging path cannot appear silently; the logging path contains no explicit panic, type assertion other than on the pool, integer division by a computed value or map write; (U1) every calendar accessor (Year..Second, Nanosecond, Month, Day) feeding a field that prints a fixed UTC suffix is applied to a value derived from time.Time.UTC() — in the renderer or where the event handed to the renderers is built; (F1) every field named in the package documentation is a key of the fields table and both named formats use only known fields or $header.*; (O1) ServeHTTP calls Logger.Log at most once per path, after the inner handler returned, with Request/Response/RequestURL/UpstreamURL set and UpstreamAddr taken from the target URL's host; (I1) nothing in package logger can reach the response writer (no parameter, field or result of type http.ResponseWriter); (B1) the pooled buffer goes Get -> Reset -> write -> Put and the shared writer is used under the logger's mutex. (E1) no renderer writes a decoded URL component (url.URL.Path/Fragment) into the line; (N1) no negation of a signed value of at most 32 bits in its own width (wrong for the minimum); Not decided: agreement of atoi, i32toa, uint16base16, uuid.ToString and the time renderers with strconv/fmt/time on every value (numeric/string equality over value domains).",
		Run:     runC20,
		Trusted: []string{"soundness of the compiler's prove pass", "time.Time.Month() is in 1..12; time.Time accessors of a UTC time describe UTC", "the residual table in checker/c20.go (reviewed, one reason per entry)"},
		Mutants: []mutant{
			{Name: "request url rendered from the decoded path", File: "logger/pattern.go", Old: "\t\tb.WriteString(e.RequestURL.String())\n", New: "\t\tb.WriteString(e.RequestURL.Scheme + \"://\" + e.RequestURL.Host + e.RequestURL.Path)\n", Expect: "C20.E1"},
			{Name: "i32toa negates in 32 bits", File: "proxy/http_headers.go", Old: "\ti := int64(n)\n\tsigned := i < 0\n\tif signed {\n\t\ti = -i\n\t}", New: "\tsigned := n < 0\n\tif signed {\n\t\tn = -n\n\t}\n\ti := int64(n)", Expect: "C20.N1"},

			{Name: "hostport guard removed", File: "logger/pattern.go", Old: "\tif n < 0 {\n\t\t// no port, e.g. a target url without one\n\t\treturn s, \"\"\n\t}\n", New: "", Expect: "C20.P2"},
			{Name: "new unguarded index in a field renderer", File: "logger/pattern.go", Old: "\t\tb.WriteString(e.Request.Proto)\n\t},\n\t\"$response_body_size\"", New: "\t\tb.WriteString(e.Request.Proto[5:])\n\t},\n\t\"$response_body_size\"", Expect: "C20.P"},
			{Name: "UTC normalisation dropped", File: "logger/logger.go", Old: "\tev.Start, ev.End = e.Start.UTC(), e.End.UTC()\n", New: "", Expect: "C20.U1"},
			{Name: "a documented field removed from the table", File: "logger/pattern.go", Old: "\t\"$request_proto\": func(b *bytes.Buffer, e *Event) {\n\t\tif e.Request == nil {\n\t\t\treturn\n\t\t}\n\t\tb.WriteString(e.Request.Proto)\n\t},\n", New: "", Expect: "C20.F1"},
			{Name: "second Log call on the error path", File: "proxy/http_proxy.go", Old: "\tif rw.code <= 0 {\n\t\treturn\n\t}\n", New: "\tif rw.code <= 0 {\n\t\tif p.Logger != nil {\n\t\t\tp.Logger.Log(&logger.Event{Start: start, End: end, Request: r})\n\t\t}\n\t}\n", Expect: "C20.O1"},
			{Name: "event without the upstream URL", File: "proxy/http_proxy.go", Old: "\t\t\tUpstreamURL:     targetURL,\n", New: "", Expect: "C20.O1"},
			{Name: "buffer not reset", File: "logger/logger.go", Old: "\tb.Reset()\n", New: "", Expect: "C20.B1"},
			{Name: "writer used outside the mutex", File: "logger/logger.go", Old: "\tl.mu.Lock()\n\tl.w.Write(b.Bytes())\n\tl.mu.Unlock()", New: "\tl.w.Write(b.Bytes())", Expect: "C20.B1"},
			{Name: "buffer used after Put", File: "logger/logger.go", Old: "\tl.mu.Lock()\n\tl.w.Write(b.Bytes())\n\tl.mu.Unlock()\n\tpool.Put(b)", New: "\tpool.Put(b)\n\tl.mu.Lock()\n\tl.w.Write(b.Bytes())\n\tl.mu.Unlock()", Expect: "C20.B1"},
			{Name: "benign: sorted field list via a helper", File: "logger/pattern.go", Old: "\tsort.Strings(Fields)\n", New: "\tsort.Sort(sort.StringSlice(Fields))\n", Expect: ""},
		},
	})
}

// Residual table: unproved bounds checks that are accepted with a reviewed reason.
// Key: function (or enclosing function for closures) + "|" + indexed object.
var c20Residual = map[string]string{
	"logger.atoi|d":                  "d is a [128]byte scratch; at most 20 digits + pad (<= 9) + sign are written from the end, p stays in [97,127]",
	"logger.init|shortMonthNames":    "index is time.Time.Month(), in 1..12 by the time package's contract; the table has 13 entries",
	"logger.parse|s":                 "n is the item length returned by lex, 0 < n <= len(s) by construction of lex",
	"logger.parse|val":               "val starts with \"$header.\" whenever lex returns itemHeader (state machine), so len(val) >= len(\"$header.\")",
	"logger.lex|s":                   "s[:i] with i the index of the rune being ranged over",
	"proxy.uint16base16|digit16":     "index is a 4-bit value (n & mask >> shift), digit16 has 16 entries",
	"proxy.uint16base16|b":           "b is the 6-byte literal \"0x0000\"; constant indices 2..5",
	"proxy.i32toa|buf":               "buf is [11]byte; an int32 has at most 10 digits + sign, pos counts down from 11",
	"uuid.ToString|halfbyte2hexchar": "index is a 4-bit value ((x >> 4) & 0x0f or x & 0x0f), the table has 16 entries",
	"uuid.ToString|b":                "b is [36]byte; n ranges over the constant offset table {0,...,34}, so n and n+1 are <= 35",
}

type astIndexSite struct {
	node ast.Node
	base string
	kind string
	fn   string
	col  int // column of the opening bracket (what the compiler reports)
}

var identRe = regexp.MustCompile(`^[A-Za-z_][A-Za-z0-9_]*`)

func baseName(e ast.Expr) string {
	switch x := e.(type) {
	case *ast.Ident:
		return x.Name
	case *ast.SelectorExpr:
		return baseName(x.X) + "." + x.Sel.Name
	case *ast.IndexExpr:
		return baseName(x.X)
	case *ast.SliceExpr:
		return baseName(x.X)
	case *ast.ParenExpr:
		return baseName(x.X)
	case *ast.CallExpr:
		return baseName(x.Fun) + "()"
	case *ast.StarExpr:
		return baseName(x.X)
	}
	return "?"
}

// indexSites collects index/slice expressions per file line for the given package, tagged with the
// enclosing top-level function ("init" for package-level variable initialisers).
func indexSites(pp *packages.Package) map[string]map[int][]astIndexSite {
	out := map[string]map[int][]astIndexSite{}
	add := func(fn string, n ast.Node, fset *token.FileSet) {
		var base, kind string
		var lb token.Pos
		switch x := n.(type) {
		case *ast.IndexExpr:
			base, kind, lb = baseName(x.X), "index", x.Lbrack
		case *ast.SliceExpr:
			base, kind, lb = baseName(x.X), "slice", x.Lbrack
		default:
			return
		}
		p := fset.Position(lb)
		if out[p.Filename] == nil {
			out[p.Filename] = map[int][]astIndexSite{}
		}
		out[p.Filename][p.Line] = append(out[p.Filename][p.Line], astIndexSite{n, base, kind, fn, p.Column})
	}
	for _, f := range pp.Syntax {
		for _, d := range f.Decls {
			switch x := d.(type) {
			case *ast.FuncDecl:
				if x.Body == nil {
					continue
				}
				name := x.Name.Name
				ast.Inspect(x.Body, func(n ast.Node) bool { add(name, n, pp.Fset); return true })
			case *ast.GenDecl:
				ast.Inspect(x, func(n ast.Node) bool { add("init", n, pp.Fset); return true })
			}
		}
	}
	return out
}

func runC20(c *Ctx) {
	runC20P(c)
	runC20U1(c)
	runC20F1(c)
	runC20O1(c)
	runC20I1(c)
	runC20B1(c)
	runC20E1(c)
	runC20N1(c)
}

func runC20P(c *Ctx) {
	type scope struct {
		pkg   string
		files map[string]bool // base names; empty = all
		funcs map[string]bool // function names; empty = all in files
	}
	scopes := []scope{
		{"logger", map[string]bool{"logger.go": true, "pattern.go": true}, nil},
		{"proxy", map[string]bool{"http_headers.go": true}, map[string]bool{"uint16base16": true, "i32toa": true}},
		{"uuid", nil, map[string]bool{"ToString": true}},
	}
	var overlay map[string][]byte
	if c.Tier == "mutant" {
		overlay = currentOverlay
	}
	// first run the SSA-level P1/P2 rules over the logging path to know which sites they discharge
	p2ok := map[string]bool{} // file:line of slices discharged by the Index-family rule
	logScope := map[*ssa.Function]bool{}
	for _, f := range c.AllFns {
		if rootPkg(f) == c.spkg("logger") {
			logScope[f] = true
		}
	}
	tmp := &Ctx{Dir: c.Dir, Pkgs: c.Pkgs, Fset: c.Fset, Prog: c.Prog, spkgs: c.spkgs, ppkgs: c.ppkgs, AllFns: c.AllFns, cg: c.cg}
	nP := runPartialOps(tmp, "C20.P2", logScope)
	for _, o := range tmp.Obs {
		if o.st == OK {
			p2ok[o.Pos] = true
		}
		c.Obs = append(c.Obs, o)
	}
	c.atLeast("C20.P2", "Split/Index-derived indices on the logging path", nP, 1)

	nRes := 0
	for _, sc := range scopes {
		pp := c.ppkg(sc.pkg)
		if pp == nil {
			c.undecided("C20.P3", "anchor|package "+sc.pkg, "not loaded")
			continue
		}
		reps, err := compilerBCE(c.Dir, sc.pkg, overlay)
		if err != nil {
			c.undecided("C20.P3", "anchor|compiler bounds report for "+sc.pkg, err.Error())
			continue
		}
		sites := indexSites(pp)
		for _, r := range reps {
			file := r.file
			if !strings.HasPrefix(file, "/") {
				file = c.Dir + "/" + file
			}
			bn := file[strings.LastIndex(file, "/")+1:]
			if sc.files != nil && !sc.files[bn] {
				continue
			}
			cands := sites[file][r.line]
			var exact []astIndexSite
			for _, s := range cands {
				if s.col == r.col {
					exact = append(exact, s)
				}
			}
			if len(exact) > 0 {
				cands = exact
			}
			if len(cands) == 0 {
				c.undecided("C20.P3", sc.pkg+"|unproved bounds check at "+bn, "no index/slice expression found on the reported line")
				continue
			}
			for _, s := range cands {
				if sc.funcs != nil && !sc.funcs[s.fn] {
					continue
				}
				nRes++
				key := sc.pkg + "." + s.fn + "|" + s.base
				posStr := c.pos(s.node.Pos())
				if p2ok[posStr] {
					c.ob("C20.P3", key+" (discharged by the Index-bound rule)", s.node.Pos(), OK, "slice bound from an Index* result under a dominating >= 0 test")
					continue
				}
				reason, ok := c20Residual[key]
				c.check("C20.P3", key, s.node.Pos(), ok,
					"the compiler cannot prove this "+s.kind+" expression in bounds and no reviewed reason covers ("+key+"): an out-of-range value here panics inside the request handler after the response has been sent; reviewed reason: "+reason)
			}
		}
	}
	c.atLeast("C20.P3", "compiler-unproved bounds checks on the logging/formatter path", nRes, 8)

	// other panic sources on the logging path
	for f := range logScope {
		if rootBase(c, f) == "level_writer.go" {
			continue
		}
		eachInstr(f, func(i ssa.Instruction) {
			switch x := i.(type) {
			case *ssa.Panic:
				// itemType.String panics on an invalid enum: only reachable from tests/diagnostics
				if f.Name() == "String" {
					return
				}
				c.check("C20.P7", fnKey(f)+"|explicit panic", x.Pos(), false, "explicit panic on the access-log path")
			case *ssa.TypeAssert:
				if x.CommaOk {
					return
				}
				_, fromPool := isCallTo(x.X, "(*sync.Pool).Get")
				c.check("C20.P5", fnKey(f)+"|type assertion", x.Pos(), fromPool && poolNewReturns(c, x), "a single-result type assertion on the logging path must be on the buffer pool whose New returns that very type")
			case *ssa.BinOp:
				if (x.Op == token.QUO || x.Op == token.REM) && isIntType(x.X.Type()) {
					if _, isK := x.Y.(*ssa.Const); !isK {
						ok, why := divisorNonZero(x)
						c.check("C20.P3", fnKey(f)+"|integer division by "+shortPath(x.Y), x.Pos(), ok, why)
					}
				}
			}
		})
	}
}

func rootBase(c *Ctx, f *ssa.Function) string {
	for f.Parent() != nil {
		f = f.Parent()
	}
	p := c.Fset.Position(f.Pos()).Filename
	return p[strings.LastIndex(p, "/")+1:]
}

// poolNewReturns: the sync.Pool the assertion reads from has a New function returning the asserted type.
func poolNewReturns(c *Ctx, ta *ssa.TypeAssert) bool {
	call, ok := ta.X.(*ssa.Call)
	if !ok {
		return false
	}
	g, ok := call.Call.Args[0].(*ssa.Global)
	if !ok {
		return false
	}
	initFn := g.Pkg.Func("init")
	found := false
	eachInstr(initFn, func(i ssa.Instruction) {
		st, ok := i.(*ssa.Store)
		if !ok {
			return
		}
		fa, ok := st.Addr.(*ssa.FieldAddr)
		if !ok || fa.X != g || fieldName(fa.X.Type(), fa.Field) != "New" {
			return
		}
		var fn *ssa.Function
		switch v := st.Val.(type) {
		case *ssa.Function:
			fn = v
		case *ssa.MakeClosure:
			fn = v.Fn.(*ssa.Function)
		}
		if fn == nil {
			return
		}
		all := true
		eachInstr(fn, func(j ssa.Instruction) {
			if r, ok := j.(*ssa.Return); ok {
				if !types.Identical(stripIface(r.Results[0]).Type(), ta.AssertedType) {
					all = false
				}
			}
		})
		found = all
	})
	return found
}

var calendarAccessors = map[string]bool{
	"(time.Time).Year": true, "(time.Time).Month": true, "(time.Time).Day": true, "(time.Time).Hour": true,
	"(time.Time).Minute": true, "(time.Time).Second": true, "(time.Time).Nanosecond": true, "(time.Time).YearDay": true, "(time.Time).Weekday": true,
	"(time.Time).Date": true, "(time.Time).Clock": true, "(time.Time).Format": true, "(time.Time).AppendFormat": true,
}

func runC20U1(c *Ctx) {
	sp := c.spkg("logger")
	logM := c.method("logger", "logger", "Log")
	if sp == nil || !c.need("C20.U1", logM, "logger.logger.Log") {
		return
	}
	isUTC := func(v ssa.Value) bool { _, ok := isCallTo(v, "(time.Time).UTC"); return ok }
	// does Log hand the renderers an event whose Start/End are UTC()?
	eventUTC := map[string]bool{}
	eachInstr(logM, func(i ssa.Instruction) {
		cc := callCommon(i)
		if cc == nil || cc.StaticCallee() == nil || cc.StaticCallee().Name() != "write" {
			return
		}
		for _, a := range cc.Args {
			al, ok := a.(*ssa.Alloc)
			if !ok || !namedIs(al.Type(), "logger.Event") {
				continue
			}
			for _, fld := range []string{"Start", "End"} {
				sts := fieldStores(al)[fld]
				ok := len(sts) > 0
				for _, st := range sts {
					if !derives(st.Val, isUTC) {
						ok = false
					}
				}
				eventUTC[fld] = ok
			}
		}
	})
	n := 0
	for _, f := range c.AllFns {
		if rootPkg(f) != sp {
			continue
		}
		eachInstr(f, func(i ssa.Instruction) {
			call, ok := i.(*ssa.Call)
			if !ok || !calendarAccessors[calleeName(&call.Call)] {
				return
			}
			n++
			recv := call.Call.Args[0]
			ok2 := derives(recv, isUTC)
			if !ok2 {
				for _, fld := range []string{"Start", "End"} {
					if _, isF := fieldOf(recv, "logger.Event", fld); isF && eventUTC[fld] {
						ok2 = true
					}
				}
			}
			c.check("C20.U1", fnKey(f)+"|"+strings.TrimPrefix(calleeName(&call.Call), "(time.Time).")+" of a UTC time", call.Pos(), ok2,
				"this calendar field is printed with a fixed UTC suffix ('Z' / '+0000') but is taken from a time that is not normalised with UTC(): whenever the process runs with TZ != UTC the log shows local wall-clock time labelled as UTC")
		})
	}
	c.atLeast("C20.U1", "calendar accessors in the field renderers", n, 10)
}

func runC20F1(c *Ctx) {
	pp := c.ppkg("logger")
	if pp == nil {
		return
	}
	// keys of the fields table
	keys := map[string]bool{}
	var doc string
	for _, f := range pp.Syntax {
		if f.Doc != nil && strings.Contains(f.Doc.Text(), "$remote_addr") {
			doc = f.Doc.Text()
		}
		ast.Inspect(f, func(n ast.Node) bool {
			vs, ok := n.(*ast.ValueSpec)
			if !ok || len(vs.Names) != 1 || vs.Names[0].Name != "fields" || len(vs.Values) != 1 {
				return true
			}
			cl, ok := vs.Values[0].(*ast.CompositeLit)
			if !ok {
				return true
			}
			for _, e := range cl.Elts {
				if kv, ok := e.(*ast.KeyValueExpr); ok {
					if s, ok := constStringExpr(pp.TypesInfo, kv.Key); ok {
						keys[s] = true
					}
				}
			}
			return true
		})
	}
	c.atLeast("C20.F1", "keys of the fields table", len(keys), 20)
	if doc == "" {
		c.undecided("C20.F1", "logger|package documentation", "the documentation comment listing the fields was not found")
		return
	}
	tok := regexp.MustCompile(`\$[a-zA-Z0-9_]+(\.<name>)?`)
	nDoc := 0
	for _, line := range strings.Split(doc, "\n") {
		line = strings.TrimSpace(line)
		if !strings.HasPrefix(line, "$") {
			continue
		}
		name := tok.FindString(line)
		if name == "" || strings.HasPrefix(name, "$header") {
			continue
		}
		nDoc++
		c.check("C20.F1", "logger|documented field "+name, pp.Syntax[0].Pos(), keys[name], "the package documentation promises the field "+name+" but the fields table has no renderer for it: a format using it is rejected at start-up")
	}
	c.atLeast("C20.F1", "documented fields", nDoc, 20)
	// named formats
	for _, cn := range []string{"CommonFormat", "CombinedFormat"} {
		obj := pp.Types.Scope().Lookup(cn)
		k, ok := obj.(*types.Const)
		if !ok {
			c.undecided("C20.F1", "logger."+cn, "constant not found")
			continue
		}
		format := strings.Trim(k.Val().ExactString(), "\"")
		okAll := true
		bad := ""
		for _, t := range regexp.MustCompile(`\$[a-zA-Z0-9_]+(\.[a-zA-Z0-9_-]+)?`).FindAllString(format, -1) {
			if strings.HasPrefix(t, "$header.") {
				continue
			}
			if !keys[t] {
				okAll, bad = false, t
			}
		}
		c.check("C20.F1", "logger."+cn+"|uses only known fields", obj.Pos(), okAll, "the named format uses "+bad+", which is not in the fields table")
	}
}

func runC20O1(c *Ctx) {
	serve := c.method("proxy", "HTTPProxy", "ServeHTTP")
	if !c.need("C20.O1", serve, "proxy.HTTPProxy.ServeHTTP") {
		return
	}
	var logs []*ssa.Call
	var inner ssa.Instruction
	eachInstr(serve, func(i ssa.Instruction) {
		call, ok := i.(*ssa.Call)
		if !ok || !call.Call.IsInvoke() {
			return
		}
		if call.Call.Method.Name() == "Log" && strings.HasSuffix(typeStr(call.Call.Value.Type()), "logger.Logger") {
			logs = append(logs, call)
		}
		if call.Call.Method.Name() == "ServeHTTP" {
			inner = i
		}
	})
	c.atLeast("C20.O1", "Logger.Log calls in ServeHTTP", len(logs), 1)
	multi := false
	for _, a := range logs {
		for _, b := range logs {
			if pathAvoiding(a, b, nil) {
				multi = true
			}
		}
	}
	for _, l := range logs {
		c.check("C20.O1", "proxy.(*HTTPProxy).ServeHTTP|exactly one log line per request path", l.Pos(), !multi && len(logs) == 1,
			"a request must produce exactly one access-log line: no path may execute Logger.Log twice")
		c.check("C20.O1", "proxy.(*HTTPProxy).ServeHTTP|logged after the response was handled", l.Pos(), inner != nil && dominatesInstr(inner, l), "the event is logged after the inner handler returned (status and size are known)")
		ev, ok := l.Call.Args[0].(*ssa.Alloc)
		if !ok {
			c.check("C20.O1", "proxy.(*HTTPProxy).ServeHTTP|event literal", l.Pos(), false, "the event must be built in place")
			continue
		}
		fs := fieldStores(ev)
		for _, fld := range []string{"Request", "Response", "RequestURL", "UpstreamURL"} {
			okF := len(fs[fld]) > 0
			for _, st := range fs[fld] {
				if isNilConst(st.Val) {
					okF = false
				}
				if !plainlyNonNil(st.Val, 0) {
					okF = false
				}
			}
			c.check("C20.O1", "proxy.(*HTTPProxy).ServeHTTP|event."+fld+" set to a non-nil value", l.Pos(), okF,
				"the renderers dereference Event."+fld+" ($response_status, $request_url, $upstream_request_uri ...); it must be set to the request / a freshly built value")
		}
		okAddr := false
		for _, st := range fs["UpstreamAddr"] {
			if _, isHost := fieldOf(st.Val, "url.URL", "Host"); isHost {
				okAddr = true
			}
		}
		c.check("C20.O1", "proxy.(*HTTPProxy).ServeHTTP|event.UpstreamAddr is the target URL's host", l.Pos(), okAddr, "$upstream_addr/_host/_port describe the upstream the request was sent to")
	}
}

func runC20I1(c *Ctx) {
	pp := c.ppkg("logger")
	if pp == nil {
		return
	}
	bad := ""
	isRW := func(t types.Type) bool { return strings.Contains(typeStr(t), "net/http.ResponseWriter") }
	scope := pp.Types.Scope()
	for _, name := range scope.Names() {
		obj := scope.Lookup(name)
		switch o := obj.(type) {
		case *types.TypeName:
			if st, ok := o.Type().Underlying().(*types.Struct); ok {
				for k := 0; k < st.NumFields(); k++ {
					if isRW(st.Field(k).Type()) {
						bad = name + "." + st.Field(k).Name()
					}
				}
			}
		case *types.Func:
			sig := o.Type().(*types.Signature)
			for k := 0; k < sig.Params().Len(); k++ {
				if isRW(sig.Params().At(k).Type()) {
					bad = name
				}
			}
		}
	}
	c.check("C20.I1", "package logger|no access to the response writer", pp.Syntax[0].Pos(), bad == "",
		"logging must not be able to alter the response: nothing in package logger may hold or receive an http.ResponseWriter ("+bad+")")
}

func runC20B1(c *Ctx) {
	logM := c.method("logger", "logger", "Log")
	if logM == nil {
		return
	}
	var get, reset, put, wr ssa.Instruction
	var buf ssa.Value
	eachInstr(logM, func(i ssa.Instruction) {
		cc := callCommon(i)
		if cc == nil {
			return
		}
		switch calleeName(cc) {
		case "(*sync.Pool).Get":
			get = i
		case "(*sync.Pool).Put":
			put = i
		case "(*bytes.Buffer).Reset":
			reset = i
			buf = cc.Args[0]
		}
		if cc.IsInvoke() && cc.Method.Name() == "Write" {
			wr = i
		}
	})
	ok := get != nil && reset != nil && put != nil && wr != nil && dominatesInstr(get, reset) && dominatesInstr(reset, wr) && dominatesInstr(wr, put)
	c.check("C20.B1", "(*logger.logger).Log|pooled buffer: Get, Reset, write, Put", logM.Pos(), ok,
		"a buffer from the pool still holds the previous line: it must be Reset before rendering, written out, and only then put back (a buffer put back earlier is rendered into by another request while it is being written)")
	if ok {
		// nothing touches the buffer after Put
		after := false
		eachInstr(logM, func(j ssa.Instruction) {
			if j != put && pathAvoiding(put, j, nil) {
				if cc := callCommon(j); cc != nil {
					for _, a := range cc.Args {
						if a == buf {
							after = true
						}
					}
				}
			}
		})
		c.check("C20.B1", "(*logger.logger).Log|no use of the buffer after Put", put.Pos(), !after, "after Put another request may own the buffer")
	}
	if wr != nil {
		c.check("C20.B1", "(*logger.logger).Log|shared writer used under the mutex", wr.Pos(), len(heldAt(wr, true)) > 0,
			"concurrent requests share the log writer; lines interleave (and os.File offsets race) unless the write happens under l.mu")
	}
}

// plainlyNonNil: a fresh allocation, the handler's own parameter, the result of a net/http method documented to
// return a non-nil copy (WithContext, Clone), or a merge of such values.
func plainlyNonNil(v ssa.Value, depth int) bool {
	if depth > 6 {
		return false
	}
	switch x := v.(type) {
	case *ssa.Alloc, *ssa.Parameter:
		return true
	case *ssa.Phi:
		for _, e := range x.Edges {
			if e != x && !plainlyNonNil(e, depth+1) {
				return false
			}
		}
		return true
	case *ssa.Call:
		switch calleeName(&x.Call) {
		case "(*net/http.Request).WithContext", "(*net/http.Request).Clone":
			return true
		}
	}
	return false
}
