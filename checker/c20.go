package main

import (
	"fmt"
	"go/ast"
	"go/token"
	"go/types"
	"os"
	"path/filepath"
	"strings"

	"golang.org/x/tools/go/packages"
	"golang.org/x/tools/go/ssa"
)

func init() {
	register(&propDef{
		ID:      "C20",
		Level:   "other",
		Explain: "Access-logging safety and structure: (P*) every bounds check the Go compiler's prove pass cannot eliminate in the access logger (package logger: everything reachable from the implementations of the Logger interface, the functions returning a Logger and the package initialisers - not the levelled writer) and in the request-path value formatters of packages proxy and uuid (functions from integers / byte arrays to string or []byte, e.g. uint16base16, i32toa, uuid.ToString, and their helpers) must be PROVED by the checker: an interval analysis of the SSA form (constants, arithmetic, masks and shifts, branch conditions dominating the use, loop counters with delayed widening and narrowing, digit loops q = q/k bounded by log_k, parameters from the constant arguments at all call sites, captured variables from the values stored in their cells, callee results, lengths of arrays / constant strings / make / package-level slices that are only assigned values of known length, contents of constant tables, members of local structs and of the elements of tables of structs that only receive values of known range (table-driven registration), time.Time.Month() in 1..12, strings.Index* in -1..len-1, symbolic bounds n <= len(s) from conditions and callee summaries, low <= high for bounds that are the same multiple of one value plus ordered constants, two loads of one struct field with no possible write in between as one value; the result does not depend on the order in which functions are analysed: a failed proof is retried from scratch with the function first and with its callees first), or by the Index-bound rule (slice bounds from Index*/LastIndex* under a dominating >= 0 test); the single reviewed residual (the header name sliced out of a lexer token under the token-type test) is recognised by structure; anything else is reported - so a new unguarded index on the logging path, a scratch buffer that became too small, a table that lost an entry or a pad width that outgrew the buffer cannot appear silently; the logging path contains no explicit panic, no type assertion other than on the pool whose New returns that type, no integer division whose divisor is not proved non-zero (from the constants at the call sites or a dominating test); (U1) every calendar accessor (Year..Second, Nanosecond, Month, Day) feeding a field that prints a fixed UTC suffix is applied to a value derived from time.Time.UTC() (or In(time.UTC)) - in the renderer, or because every dynamic call of package logger (function value or interface method: renderers, their decorators and selector functions) that passes an event (an *Event or a small struct around it) passes, on every way the value can come from, a copy whose Start/End were assigned from UTC() (in the Logger implementation, a helper of it, or at every caller of Logger.Log), a plain copy of such an event, or the own parameter of a function that is itself only entered through such calls (induction over the dispatch depth; some call must pass a normalised copy to start from); times handed on through dynamic calls are treated the same way; (F1) every field named in the package documentation is a key of the table of renderers (any map whose elements render an event: functions taking an *Event or a struct around it, interfaces with such a method; constant keys, or keys read from the name member of a table of structs) and both named formats use only known fields or $header.*; (O1) ServeHTTP (or the helpers it calls) calls Logger.Log exactly once per path, after the inner handler returned, with Request/Response/RequestURL/UpstreamURL set to non-nil values and UpstreamAddr taken from the target URL's host; (I1) nothing in package logger can reach the response writer (no parameter, field or result of type http.ResponseWriter); (B1) in the Logger implementation that uses the pool the buffer goes Get -> Reset (before any other use) -> write to the shared writer -> Put (also deferred), in that order on every path and across helpers, is not used after Put, and every use of the shared writer happens under a mutex. (E1) nothing hands a decoded URL component (url.URL.Path/Fragment) to the line buffer, also not as the result of a function value given to a decorator; (N1) no negation of a signed value of at most 32 bits in its own width (wrong for the minimum); Not decided: agreement of atoi, i32toa, uint16base16, uuid.ToString and the time renderers with strconv/fmt/time on every value (numeric/string equality over value domains).",
		Run:     runC20,
		Trusted: []string{"soundness of the compiler's prove pass", "the checker's interval analysis (checker/c20_prove.go): over-approximating, wrap-around gives the whole type", "time.Time.Month() is in 1..12 (Day 1..31, Hour 0..23, ...); strings.Index* return -1..len(s)-1; time.Time accessors of a UTC time describe UTC", "one reviewed residual, recognised by structure: the header name sliced from a lexer token under the token-type test (c20TokenResidual)", "test files are not loaded: a call site in a _test.go file does not widen a parameter's range"},
		Mutants: c20SelectMutants(append([]mutant{
			{Name: "request url rendered from the decoded path", File: "logger/pattern.go", Old: "\t\tb.WriteString(e.RequestURL.String())\n", New: "\t\tb.WriteString(e.RequestURL.Scheme + \"://\" + e.RequestURL.Host + e.RequestURL.Path)\n", Expect: "C20.E1"},
			{Name: "i32toa negates in 32 bits", File: "proxy/http_headers.go", Old: "\ti := int64(n)\n\tsigned := i < 0\n\tif signed {\n\t\ti = -i\n\t}", New: "\tsigned := n < 0\n\tif signed {\n\t\tn = -n\n\t}\n\ti := int64(n)", Expect: "C20.N1"},

			{Name: "hostport guard removed", File: "logger/pattern.go", Old: "\tif n < 0 {\n\t\t// no port, e.g. a target url without one\n\t\treturn s, \"\"\n\t}\n", New: "", Expect: "C20.P2"},
			{Name: "new unguarded index in a field renderer", File: "logger/pattern.go", Old: "\t\tb.WriteString(e.Request.Proto)\n\t},\n\t\"$response_body_size\"", New: "\t\tb.WriteString(e.Request.Proto[5:])\n\t},\n\t\"$response_body_size\"", Expect: "C20.P"},
			{Name: "UTC normalisation dropped", File: "logger/logger.go", Old: "\tev.Start, ev.End = e.Start.UTC(), e.End.UTC()\n", New: "", Expect: "C20.U1"},
			{Name: "a documented field removed from the table", File: "logger/pattern.go", Old: "\t\"$request_proto\": func(b *bytes.Buffer, e *Event) {\n\t\tif e.Request == nil {\n\t\t\treturn\n\t\t}\n\t\tb.WriteString(e.Request.Proto)\n\t},\n", New: "", Expect: "C20.F1"},
			{Name: "second Log call on the error path", File: "proxy/http_proxy.go", Old: "\tif rw.code <= 0 {\n\t\treturn\n\t}\n", New: "\tif rw.code <= 0 {\n\t\tif p.Logger != nil {\n\t\t\tp.Logger.Log(&logger.Event{Start: start, End: end, Request: r})\n\t\t}\n\t}\n", Expect: "C20.O1"},
			{Name: "event without the upstream URL", File: "proxy/http_proxy.go", Old: "\t\t\tUpstreamURL:     targetURL,\n", New: "", Expect: "C20.O1"},
			{Name: "buffer not reset", File: "logger/logger.go", Old: "\tb.Reset()\n", New: "", Expect: "C20.B1"},
			{Name: "writer used outside the mutex", File: "logger/logger.go", Old: "\tl.mu.Lock()\n\tl.w.Write(b.Bytes())\n\tl.mu.Unlock()", New: "\tl.w.Write(b.Bytes())", Expect: "C20.B1"},
			{Name: "buffer used after Put", File: "logger/logger.go", Old: "\tl.mu.Lock()\n\tl.w.Write(b.Bytes())\n\tl.mu.Unlock()\n\tpool.Put(b)", New: "\tpool.Put(b)\n\tl.mu.Lock()\n\tl.w.Write(b.Bytes())\n\tl.mu.Unlock()", Expect: "C20.B1"},
			{Name: "benign: sorted field list via a helper", File: "logger/pattern.go", Old: "\tsort.Strings(Fields)\n", New: "\tsort.Sort(sort.StringSlice(Fields))\n", Expect: ""},

			// ---- breaks the bounds prover must report (none of them was visible to the former per-function table) ----
			{Name: "atoi scratch too small for 19 digits, padding and sign", File: "logger/pattern.go", Old: "var d [128]byte", New: "var d [16]byte", Expect: "C20.P3"},
			{Name: "a renderer pads wider than the scratch", File: "logger/pattern.go", Old: "\t\tatoi(b, int64(e.End.Nanosecond()), 9)\n", New: "\t\tatoi(b, int64(e.End.Nanosecond()), 200)\n", Expect: "C20.P3"},
			{Name: "division by a value that may be zero", File: "logger/pattern.go", Old: "d%int64(time.Second)/int64(time.Millisecond)", New: "d%int64(time.Second)/int64(e.Response.StatusCode)", Expect: "C20.P3"},
			{Name: "month table lost an entry", File: "logger/pattern.go", Old: "\t\"Dec\",\n", New: "", Expect: "C20.P3"},
			{Name: "hex digit table too short", File: "proxy/http_headers.go", Old: "[]byte(\"0123456789abcdef\")", New: "[]byte(\"0123456789abcde\")", Expect: "C20.P3"},
			{Name: "i32toa buffer too small", File: "proxy/http_headers.go", Old: "buf := [11]byte{}", New: "buf := [10]byte{}", Expect: "C20.P3"},
			{Name: "uuid buffer too small", File: "uuid/format.go", Old: "b := [36]byte{}", New: "b := [35]byte{}", Expect: "C20.P3"},
			{Name: "lexer may return more than it was given", File: "logger/pattern.go", Old: "\tcase stateField:\n\t\treturn itemField, len(s)\n", New: "\tcase stateField:\n\t\treturn itemField, len(s) + 1\n", Expect: "C20.P3"},
			{Name: "header name sliced beyond the matched prefix", File: "logger/pattern.go", Old: "val[len(\"$header.\"):]", New: "val[len(\"$header.\")+2:]", Expect: "C20.P3"},
			{Name: "pool.New returns another type than the one asserted", File: "logger/logger.go", Old: "\t\treturn bytes.NewBuffer(make([]byte, 0, bufSize))\n", New: "\t\treturn make([]byte, 0, bufSize)\n", Expect: "C20.P5"},
			{Name: "un-normalised event handed to the renderers", File: "logger/logger.go", Old: "\tl.p.write(b, &ev)\n", New: "\tl.p.write(b, e)\n", Expect: "C20.U1"},
			{Name: "buffer rendered before it is reset", File: "logger/logger.go", Old: "\tb.Reset()\n\tl.p.write(b, &ev)\n", New: "\tl.p.write(b, &ev)\n\tb.Reset()\n", Expect: "C20.B1"},
			{Name: "decoded path written through fmt.Fprint", File: "logger/pattern.go", Old: "\t\tb.WriteString(e.RequestURL.RawQuery)\n", New: "\t\tfmt.Fprint(b, e.RequestURL.Path)\n", Expect: "C20.E1"},
			{Name: "helper that logs is called twice", File: "proxy/http_proxy.go",
				Old: "\t// write access log\n\tif p.Logger != nil {\n\t\tp.Logger.Log(&logger.Event{\n\t\t\tStart:   start,\n\t\t\tEnd:     end,\n\t\t\tRequest: r,\n\t\t\tResponse: &http.Response{\n\t\t\t\tStatusCode:    rw.code,\n\t\t\t\tContentLength: int64(rw.size),\n\t\t\t},\n\t\t\tRequestURL:      requestURL,\n\t\t\tUpstreamAddr:    targetURL.Host,\n\t\t\tUpstreamService: t.Service,\n\t\t\tUpstreamURL:     targetURL,\n\t\t})\n\t}\n}\n",
				New: "\tp.accessLog(start, end, r, rw.code, rw.size, requestURL, targetURL, t.Service)\n\tif rw.code >= 500 {\n\t\tp.accessLog(start, end, r, rw.code, rw.size, requestURL, targetURL, t.Service)\n\t}\n}\n\nfunc (p *HTTPProxy) accessLog(start, end time.Time, r *http.Request, code, size int, requestURL, targetURL *url.URL, service string) {\n\tif p.Logger == nil {\n\t\treturn\n\t}\n\tp.Logger.Log(&logger.Event{\n\t\tStart:           start,\n\t\tEnd:             end,\n\t\tRequest:         r,\n\t\tResponse:        &http.Response{StatusCode: code, ContentLength: int64(size)},\n\t\tRequestURL:      requestURL,\n\t\tUpstreamAddr:    targetURL.Host,\n\t\tUpstreamService: service,\n\t\tUpstreamURL:     targetURL,\n\t})\n}\n", Expect: "C20.O1"},

			// ---- behaviour-preserving rewrites that must stay silent ----
			{Name: "benign: atoi and its scratch renamed", File: "logger/pattern.go", All: true, Old: "atoi(", New: "formatInt(", Expect: "",
				More: []repl{{"\tvar d [128]byte\n\tn, p := len(d), len(d)-1\n", "\tvar scratch [128]byte\n\tn, p := len(scratch), len(scratch)-1\n"}, {"\t\td[p] = byte('0') + byte(i%10)\n", "\t\tscratch[p] = byte('0') + byte(i%10)\n"}, {"\t\td[p] = byte('0')\n", "\t\tscratch[p] = byte('0')\n"}, {"\t\td[p] = '-'\n", "\t\tscratch[p] = '-'\n"}, {"\tb.Write(d[p+1:])\n", "\tb.Write(scratch[p+1:])\n"}}},
			{Name: "benign: scratch made with make", File: "logger/pattern.go", Old: "\tvar d [128]byte\n", New: "\td := make([]byte, 128)\n", Expect: ""},
			{Name: "benign: digit loop of atoi extracted into a helper", File: "logger/pattern.go",
				Old:    "\tfor i >= 0 {\n\t\td[p] = byte('0') + byte(i%10)\n\t\ti /= 10\n\t\tp--\n\t\tif i == 0 {\n\t\t\tbreak\n\t\t}\n\t}\n",
				New:    "\tp = digits(&d, i, p)\n",
				More:   []repl{{"// parse parses a format string into a pattern", "func digits(d *[128]byte, i int64, p int) int {\n\tfor i >= 0 {\n\t\td[p] = byte('0') + byte(i%10)\n\t\ti /= 10\n\t\tp--\n\t\tif i == 0 {\n\t\t\tbreak\n\t\t}\n\t}\n\treturn p\n}\n\n// parse parses a format string into a pattern"}},
				Expect: ""},
			{Name: "benign: hostport tests n == -1", File: "logger/pattern.go", Old: "\tif n < 0 {\n\t\t// no port, e.g. a target url without one\n\t\treturn s, \"\"\n\t}\n", New: "\tif n == -1 {\n\t\treturn s, \"\"\n\t}\n", Expect: ""},
			{Name: "benign: month table as an array", File: "logger/pattern.go", Old: "var shortMonthNames = []string{", New: "var shortMonthNames = [...]string{", Expect: ""},
			{Name: "benign: UTC normalisation in a helper that takes the copy's address", File: "logger/logger.go", Old: "\tev.Start, ev.End = e.Start.UTC(), e.End.UTC()\n", New: "\ttoUTC(&ev)\n",
				More: []repl{{"// Log writes a log line", "func toUTC(ev *Event) {\n\tev.Start, ev.End = ev.Start.UTC(), ev.End.UTC()\n}\n\n// Log writes a log line"}}, Expect: ""},
			{Name: "benign: deferred Put and deferred Unlock", File: "logger/logger.go",
				Old:    "\tb := pool.Get().(*bytes.Buffer)\n\tb.Reset()\n\tl.p.write(b, &ev)\n\tl.mu.Lock()\n\tl.w.Write(b.Bytes())\n\tl.mu.Unlock()\n\tpool.Put(b)\n",
				New:    "\tb := pool.Get().(*bytes.Buffer)\n\tdefer pool.Put(b)\n\tb.Reset()\n\tl.p.write(b, &ev)\n\tl.mu.Lock()\n\tdefer l.mu.Unlock()\n\tl.w.Write(b.Bytes())\n",
				Expect: ""},
			{Name: "benign: Truncate(0) and WriteTo instead of Reset and Write(Bytes())", File: "logger/logger.go", Old: "\tb.Reset()\n", New: "\tb.Truncate(0)\n", More: []repl{{"\tl.w.Write(b.Bytes())\n", "\tb.WriteTo(l.w)\n"}}, Expect: ""},
			{Name: "benign: pool.New is a named function", File: "logger/logger.go", Old: "var pool = sync.Pool{\n\tNew: func() interface{} {\n\t\treturn bytes.NewBuffer(make([]byte, 0, bufSize))\n\t},\n}", New: "var pool = sync.Pool{New: newBuffer}\n\nfunc newBuffer() interface{} {\n\treturn bytes.NewBuffer(make([]byte, 0, bufSize))\n}", Expect: ""},
			{Name: "benign: a date helper shared by a time renderer", File: "logger/pattern.go",
				Old:    "\t\tatoi(b, int64(e.End.Year()), 4)\n\t\tb.WriteRune('-')\n\t\tatoi(b, int64(e.End.Month()), 2)\n\t\tb.WriteRune('-')\n\t\tatoi(b, int64(e.End.Day()), 2)\n\t\tb.WriteRune('T')\n",
				New:    "\t\twriteDate(b, e.End)\n\t\tb.WriteRune('T')\n",
				More:   []repl{{"var shortMonthNames = ", "func writeDate(b *bytes.Buffer, t time.Time) {\n\tatoi(b, int64(t.Year()), 4)\n\tb.WriteRune('-')\n\tatoi(b, int64(t.Month()), 2)\n\tb.WriteRune('-')\n\tatoi(b, int64(t.Day()), 2)\n}\n\nvar shortMonthNames = "}},
				Expect: ""},
			{Name: "benign: lexer renamed, token and rest kept in locals", File: "logger/pattern.go",
				Old:    "\t\ttyp, n := lex(s)\n\t\tval := string(s[:n])\n\t\ts = s[n:]\n",
				New:    "\t\tkind, width := scan(s)\n\t\ttok, rest := s[:width], s[width:]\n\t\tval := string(tok)\n\t\ts = rest\n\t\ttyp := kind\n",
				More:   []repl{{"func lex(s []rune) (typ itemType, n int) {", "func scan(s []rune) (typ itemType, n int) {"}},
				Expect: ""},
			{Name: "benign: a renderer writes through a string helper", File: "logger/pattern.go", Old: "\t\tb.WriteString(e.Request.RemoteAddr)\n", New: "\t\twriteStr(b, e.Request.RemoteAddr)\n",
				More: []repl{{"var shortMonthNames = ", "func writeStr(b *bytes.Buffer, s string) { b.WriteString(s) }\n\nvar shortMonthNames = "}}, Expect: ""},
			{Name: "benign: access log written by a helper method of the proxy", File: "proxy/http_proxy.go",
				Old:    "\t// write access log\n\tif p.Logger != nil {\n\t\tp.Logger.Log(&logger.Event{\n\t\t\tStart:   start,\n\t\t\tEnd:     end,\n\t\t\tRequest: r,\n\t\t\tResponse: &http.Response{\n\t\t\t\tStatusCode:    rw.code,\n\t\t\t\tContentLength: int64(rw.size),\n\t\t\t},\n\t\t\tRequestURL:      requestURL,\n\t\t\tUpstreamAddr:    targetURL.Host,\n\t\t\tUpstreamService: t.Service,\n\t\t\tUpstreamURL:     targetURL,\n\t\t})\n\t}\n}\n",
				New:    "\tp.accessLog(start, end, r, rw.code, rw.size, requestURL, targetURL, t.Service)\n}\n\nfunc (p *HTTPProxy) accessLog(start, end time.Time, r *http.Request, code, size int, requestURL, targetURL *url.URL, service string) {\n\tif p.Logger == nil {\n\t\treturn\n\t}\n\taddr := targetURL.Host\n\tp.Logger.Log(&logger.Event{\n\t\tStart:           start,\n\t\tEnd:             end,\n\t\tRequest:         r,\n\t\tResponse:        &http.Response{StatusCode: code, ContentLength: int64(size)},\n\t\tRequestURL:      requestURL,\n\t\tUpstreamAddr:    addr,\n\t\tUpstreamService: service,\n\t\tUpstreamURL:     targetURL,\n\t})\n}\n",
				Expect: ""},
			{Name: "benign: the colon index comes through a helper", File: "logger/pattern.go", Old: "\tn := strings.LastIndexByte(s, ':')\n", New: "\tn := lastColon(s)\n",
				More: []repl{{"// atoi is a replacement", "func lastColon(s string) int { return strings.LastIndexByte(s, ':') }\n\n// atoi is a replacement"}}, Expect: ""},
			{Name: "benign: token cut and header name sliced by helpers, loop on len(s) > 0, index-based lexer loop", File: "logger/pattern.go",
				Old: "\t\tval := string(s[:n])\n\t\ts = s[n:]\n",
				New: "\t\ttok, rest := cut(s, n)\n\t\tval := string(tok)\n\t\ts = rest\n",
				More: []repl{{"type itemType int", "func cut(s []rune, n int) (head, tail []rune) {\n\treturn s[:n], s[n:]\n}\n\nfunc headerName(tok string) string {\n\treturn tok[len(\"$header.\"):]\n}\n\ntype itemType int"},
					{"\t\t\tp = append(p, header(val[len(\"$header.\"):]))", "\t\t\tp = append(p, header(headerName(val)))"},
					{"\tfor {\n\t\tif len(s) == 0 {\n\t\t\tbreak\n\t\t}\n\t\ttyp, n := lex(s)", "\tfor len(s) > 0 {\n\t\ttyp, n := lex(s)"},
					{"\tfor i, r := range s {\n\t\tswitch state {", "\tfor i := 0; i < len(s); i++ {\n\t\tr := s[i]\n\t\tswitch state {"}},
				Expect: ""},
			{Name: "benign: month abbreviation cut from Month().String()", File: "logger/pattern.go", Old: "b.WriteString(shortMonthNames[e.End.Month()])", New: "b.WriteString(e.End.Month().String()[:3])", Expect: ""},
			{Name: "benign: the pool is a field of the logger, New set in the constructor", File: "logger/logger.go", Old: "\treturn &logger{p: p, w: w}, nil\n", New: "\tl := &logger{p: p, w: w}\n\tl.bufs.New = func() interface{} {\n\t\treturn bytes.NewBuffer(make([]byte, 0, bufSize))\n\t}\n\treturn l, nil\n",
				More: []repl{{"\tmu sync.Mutex\n\tw  io.Writer\n}", "\tmu sync.Mutex\n\tw  io.Writer\n\n\tbufs sync.Pool\n}"}, {"\tb := pool.Get().(*bytes.Buffer)\n", "\tb := l.bufs.Get().(*bytes.Buffer)\n"}, {"\tpool.Put(b)\n", "\tl.bufs.Put(b)\n"}}, Expect: ""},
			{Name: "benign: i32toa counts down from a constant and names the digit", File: "proxy/http_headers.go", Old: "\tpos := len(buf)\n", New: "\tpos := 11\n", More: []repl{{"\t\tbuf[pos], i = '0'+byte(i%10), i/10\n", "\t\tdigit := byte(i % 10)\n\t\tbuf[pos] = '0' + digit\n\t\ti = i / 10\n"}}, Expect: ""},
		}, append(append([]mutant{}, c20MutantsRound2...), c20MutantsRound5...)...)),
	})
}

type astIndexSite struct {
	node ast.Node
	base string
	kind string
	fn   string
	col  int // column of the opening bracket (what the compiler reports)
}

func baseName(e ast.Expr) string {
	switch x := e.(type) {
	case *ast.Ident:
		return x.Name
	case *ast.SelectorExpr:
		return baseName(x.X) + "." + x.Sel.Name
	case *ast.IndexExpr:
		return baseName(x.X)
	case *ast.SliceExpr:
		return baseName(x.X)
	case *ast.ParenExpr:
		return baseName(x.X)
	case *ast.CallExpr:
		return baseName(x.Fun) + "()"
	case *ast.StarExpr:
		return baseName(x.X)
	}
	return "?"
}

// indexSites collects index/slice expressions per file line for the given package, tagged with the
// enclosing top-level function ("init" for package-level variable initialisers). Only used to name the obligations.
func indexSites(pp *packages.Package) map[string]map[int][]astIndexSite {
	out := map[string]map[int][]astIndexSite{}
	add := func(fn string, n ast.Node, fset *token.FileSet) {
		var base, kind string
		var lb token.Pos
		switch x := n.(type) {
		case *ast.IndexExpr:
			base, kind, lb = baseName(x.X), "index", x.Lbrack
		case *ast.SliceExpr:
			base, kind, lb = baseName(x.X), "slice", x.Lbrack
		default:
			return
		}
		p := fset.Position(lb)
		if out[p.Filename] == nil {
			out[p.Filename] = map[int][]astIndexSite{}
		}
		out[p.Filename][p.Line] = append(out[p.Filename][p.Line], astIndexSite{n, base, kind, fn, p.Column})
	}
	for _, f := range pp.Syntax {
		for _, d := range f.Decls {
			switch x := d.(type) {
			case *ast.FuncDecl:
				if x.Body == nil {
					continue
				}
				name := x.Name.Name
				ast.Inspect(x.Body, func(n ast.Node) bool { add(name, n, pp.Fset); return true })
			case *ast.GenDecl:
				ast.Inspect(x, func(n ast.Node) bool { add("init", n, pp.Fset); return true })
			}
		}
	}
	return out
}

func runC20(c *Ctx) {
	c20Idx(c) // call sites and function values of THIS load (c20FuncsOf / c20Derives read it)
	runC20P(c)
	runC20U1(c)
	runC20F1(c)
	runC20O1(c)
	runC20I1(c)
	runC20B1(c)
	runC20E1(c)
	runC20N1(c)
	if pre := os.Getenv("C20_OBS"); pre != "" {
		for _, o := range c.Obs {
			if strings.HasPrefix(o.Rule, pre) {
				fmt.Fprintf(os.Stderr, "C20OBS %s %s [%s] %s: %s\n", o.Status, o.Rule, o.Construct, o.Pos, o.Detail)
			}
		}
	}
}

// c20LoggerScope: the access logger, found by role: everything in package logger that is reachable (statically, through
// closures and function values) from the implementations of the exported Logger interface, from the functions that
// return a Logger, and from the package initialisers (which build the table of field renderers). The levelled writer
// for the standard library's log package lives in the same package and is not part of it. Independent of file and
// function names.
func c20LoggerScope(c *Ctx) (map[*ssa.Function]bool, []*ssa.Function) {
	sp := c.spkg("logger")
	if sp == nil {
		return nil, nil
	}
	var iface *types.Interface
	var ifaceT types.Type
	if t := sp.Type("Logger"); t != nil {
		iface, _ = t.Type().Underlying().(*types.Interface)
		ifaceT = t.Type()
	}
	var roots, logs []*ssa.Function
	if f := sp.Func("init"); f != nil {
		roots = append(roots, f) // the synthetic initialiser: package-level variables (the table of renderers)
	}
	for _, f := range c.AllFns {
		if rootPkg(f) != sp || f.Parent() != nil {
			continue
		}
		switch {
		case isInitFn(f):
			roots = append(roots, f)
		case iface == nil:
			roots = append(roots, f)
		case f.Signature.Recv() != nil:
			if iface.NumMethods() > 0 && types.Implements(f.Signature.Recv().Type(), iface) {
				for k := 0; k < iface.NumMethods(); k++ {
					if iface.Method(k).Name() == f.Name() {
						roots = append(roots, f)
						logs = append(logs, f)
					}
				}
			}
		default:
			res := f.Signature.Results()
			for k := 0; k < res.Len(); k++ {
				if types.Identical(res.At(k).Type(), ifaceT) {
					roots = append(roots, f)
				}
			}
		}
	}
	scope := map[*ssa.Function]bool{}
	for _, f := range c.regionDepth(10, roots...) {
		scope[f] = true
	}
	return scope, logs
}

// c20Formatters: the hand-written value formatters of a package, by role: package-level functions that take only
// integers / byte arrays (and possibly a destination []byte) and return a string or []byte, plus the helpers they call.
func c20Formatters(c *Ctx, pkg string) map[*ssa.Function]bool {
	sp := c.spkg(pkg)
	if sp == nil {
		return nil
	}
	isBytes := func(t types.Type, array bool) bool {
		var e types.Type
		switch u := t.Underlying().(type) {
		case *types.Array:
			if !array {
				return false
			}
			e = u.Elem()
		case *types.Slice:
			if array {
				return false
			}
			e = u.Elem()
		default:
			return false
		}
		b, ok := e.Underlying().(*types.Basic)
		return ok && b.Kind() == types.Uint8
	}
	var roots []*ssa.Function
	for _, f := range c.AllFns {
		if rootPkg(f) != sp || f.Parent() != nil || f.Signature.Recv() != nil || isInitFn(f) {
			continue
		}
		sig := f.Signature
		if sig.Results().Len() != 1 || sig.Params().Len() == 0 || sig.Variadic() {
			continue
		}
		rt := sig.Results().At(0).Type()
		if b, ok := rt.Underlying().(*types.Basic); !(ok && b.Info()&types.IsString != 0) && !isBytes(rt, false) {
			continue
		}
		values, ok := 0, true
		for k := 0; k < sig.Params().Len(); k++ {
			pt := sig.Params().At(k).Type()
			switch {
			case isIntType(pt), isBytes(pt, true):
				values++
			case isBytes(pt, false):
			default:
				ok = false
			}
		}
		if ok && values > 0 {
			roots = append(roots, f)
		}
	}
	scope := map[*ssa.Function]bool{}
	for _, f := range c.regionDepth(6, roots...) {
		scope[f] = true
	}
	return scope
}

// c20TokenResidual: the one reviewed residual that is not proved: the text of a lexer token sliced at a constant
// offset under a test of the token's type. Recognised by structure, not by names: the slice is dominated by a
// condition `typ == const` where typ is one result of a call of a repository function (the lexer; the conditions at
// the single call site of a helper count), the sliced string is cut from the very input that call was given (or both are cut from the same text), and the
// offset is at most one more than the longest string constant the lexer compares its input with (its state machine
// only yields that type after matching the constant and one more character).
func c20TokenResidual(sl *ssa.Slice) (bool, string) {
	if sl.High != nil || sl.Max != nil || sl.Low == nil {
		return false, ""
	}
	k, isK := constInt(sl.Low)
	if !isK || k <= 0 {
		return false, ""
	}
	if b, ok := sl.X.Type().Underlying().(*types.Basic); !ok || b.Info()&types.IsString == 0 {
		return false, ""
	}
	for _, f := range factsAt(sl.Block()) { // includes the conditions at the single call site of a helper
		cmp, ok := f.Cond.(*ssa.BinOp)
		if !ok || cmp.Op != token.EQL || !f.Truth {
			continue
		}
		if _, isConst := cmp.Y.(*ssa.Const); !isConst {
			continue
		}
		// the calls of repository functions the tested value comes from: typ of `typ, n := lex(s)`, tok.typ of
		// `tok := next(s)` or of `tok, rest := next(s)` (a field of a struct result, possibly kept in a local)
		var calls []*ssa.Call
		derives(cmp.X, func(v ssa.Value) bool {
			if call, isCall := v.(*ssa.Call); isCall && len(calls) < 4 {
				if sc := call.Call.StaticCallee(); sc != nil && isRepoFn(sc) && len(sc.Blocks) > 0 && len(call.Call.Args) > 0 {
					calls = append(calls, call)
				}
			}
			return false
		})
		for _, call := range calls {
			sc := call.Call.StaticCallee()
			fromInput := false
			for _, input := range call.Call.Args {
				in := input
				if derives(sl.X, func(v ssa.Value) bool { return v == in }) {
					fromInput = true
				}
				// a parser that walks the text with a cursor hands the lexer text[pos:] and cuts the token out of the
				// text itself (text[pos:pos+n]): token and input are views of one text, not one derived from the other
				if !fromInput && c20textUnit(in.Type()) != c20unitNone && c20sameText(sl.X, in) {
					fromInput = true
				}
			}
			if !fromInput {
				continue
			}
			// the longest string constant the lexer (or a helper of it) compares its input with
			longest := ""
			note := func(v ssa.Value) {
				if s, ok := c20constText(v, 0); ok && len(s) > len(longest) {
					longest = s
				}
			}
			var scan func(g *ssa.Function, d int)
			seen := map[*ssa.Function]bool{}
			scan = func(g *ssa.Function, d int) {
				if g == nil || seen[g] || d > 2 {
					return
				}
				seen[g] = true
				for _, h := range withAnon(g) {
					eachInstr(h, func(i ssa.Instruction) {
						if c2, ok := i.(*ssa.BinOp); ok && c2.Op == token.EQL {
							note(c2.X)
							note(c2.Y)
						}
						if cc := callCommon(i); cc != nil {
							switch stripTypeArgs(calleeName(cc)) {
							case "strings.HasPrefix", "strings.EqualFold", "strings.Compare", "strings.CutPrefix",
								"bytes.Equal", "bytes.HasPrefix", "bytes.EqualFold", "bytes.Compare", "bytes.CutPrefix",
								"slices.Equal", "slices.Compare":
								for _, a := range cc.Args {
									note(a)
								}
							}
							if g2 := cc.StaticCallee(); g2 != nil && isRepoFn(g2) && rootPkg(g2) == rootPkg(sc) {
								scan(g2, d+1)
							}
						}
					})
				}
			}
			scan(sc, 0)
			if longest == "" || k > int64(len(longest))+1 {
				continue
			}
			// the tested token type must be one the lexer only yields after the match - where its state machine is understood
			wrongType := false
			if kc, isK := cmp.Y.(*ssa.Const); isK {
				for g := range seen {
					if understood, guaranteed := c20TokenTypeAfterMatch(g, kc, int(k)-1); understood && !guaranteed {
						wrongType = true
					}
				}
			}
			if wrongType {
				continue
			}
			return true, "reviewed residual: the token text is sliced at offset " + itoa(int(k)) + " under a test of the token type returned by " + fnKey(sc) + ", whose state machine yields that type only after matching " + strconvQuote(longest) + " and at least one more character"
		}
	}
	return false, ""
}

// c20constText: the constant text a comparison operand stands for: a string constant, its conversion to []rune /
// []byte (and back), or a package-level variable whose only assignment is its initialiser with such a value
// (var headerRunes = []rune("$header")).
func c20constText(v ssa.Value, depth int) (string, bool) {
	if s, ok := constString(v); ok {
		return s, true
	}
	if depth > 3 {
		return "", false
	}
	switch x := v.(type) {
	case *ssa.Convert:
		return c20constText(x.X, depth+1)
	case *ssa.ChangeType:
		return c20constText(x.X, depth+1)
	case *ssa.UnOp:
		g, ok := x.X.(*ssa.Global)
		if !ok || x.Op != token.MUL || g.Pkg == nil {
			return "", false
		}
		var val ssa.Value
		n := 0
		for _, m := range g.Pkg.Members {
			f, isF := m.(*ssa.Function)
			if !isF {
				continue
			}
			for _, h := range withAnon(f) {
				eachInstr(h, func(i ssa.Instruction) {
					for _, op := range i.Operands(nil) {
						if op == nil || *op != ssa.Value(g) {
							continue
						}
						switch y := i.(type) {
						case *ssa.Store:
							if y.Addr == ssa.Value(g) && isInitFn(h) && h.Synthetic != "" {
								val = y.Val
								n++
							} else {
								n += 2
							}
						case *ssa.UnOp:
							if y.Op != token.MUL {
								n += 2
							}
						default:
							n += 2 // the address goes somewhere
						}
					}
				})
			}
		}
		if n == 1 && val != nil {
			return c20constText(val, depth+1)
		}
	}
	return "", false
}

func strconvQuote(s string) string { return "\"" + s + "\"" }

func runC20P(c *Ctx) {
	logScope, _ := c20LoggerScope(c)
	if len(logScope) == 0 {
		c.undecided("C20.P3", "anchor|access logger", "package logger / its Logger implementations do not resolve")
		return
	}
	type scope struct {
		pkg string
		fns map[*ssa.Function]bool
	}
	scopes := []scope{{"logger", logScope}}
	nFmt := 0
	for _, pkg := range []string{"proxy", "uuid"} {
		fs := c20Formatters(c, pkg)
		nFmt += len(fs)
		scopes = append(scopes, scope{pkg, fs})
	}
	c.atLeast("C20.P3", "hand-written value formatters on the request path (packages proxy, uuid)", nFmt, 1)
	if os.Getenv("C20_STRESS") != "" {
		sp := newC20Prover(c)
		nOK, nAll := 0, 0
		for _, f := range sp.allFns() {
			eachInstr(f, func(i ssa.Instruction) {
				switch x := i.(type) {
				case *ssa.IndexAddr, *ssa.Slice, *ssa.Index:
					nAll++
					if ok, why := sp.proveBounds(i); ok {
						nOK++
						trivial := false
						switch y := i.(type) {
						case *ssa.IndexAddr:
							_, trivial = y.Index.(*ssa.Const)
						case *ssa.Slice:
							trivial = y.Low == nil && y.High == nil
						}
						if !trivial && os.Getenv("C20_STRESS") == "v" {
							fmt.Fprintf(os.Stderr, "C20PROVED %s %s: %s\n", c.pos(i.Pos()), f, why)
						}
					}
				case *ssa.BinOp:
					if (x.Op == token.QUO || x.Op == token.REM) && isIntType(x.X.Type()) {
						sp.nonZero(x.Y, x.Block())
					}
				}
			})
		}
		fmt.Fprintf(os.Stderr, "C20STRESS %d of %d index/slice expressions of the repository proved\n", nOK, nAll)
	}
	if os.Getenv("C20_OBS") == "scope" {
		for _, sc := range scopes {
			for f := range sc.fns {
				fmt.Fprintf(os.Stderr, "C20SCOPE %s %s\n", sc.pkg, f)
			}
		}
	}

	var overlay map[string][]byte
	if c.Tier == "mutant" {
		overlay = currentOverlay
	}
	// first run the SSA-level P1/P2 rules over the logging path to know which sites they discharge
	p2ok := map[string]bool{} // file:line of slices discharged by the Index-family rule
	tmp := &Ctx{Dir: c.Dir, Pkgs: c.Pkgs, Fset: c.Fset, Prog: c.Prog, spkgs: c.spkgs, ppkgs: c.ppkgs, AllFns: c.AllFns, cg: c.cg}
	nP := runPartialOps(tmp, "C20.P2", logScope)
	pr := newC20Prover(c)
	// The Index-bound rule wants the >= 0 test on the very result of strings.Index*; when the index comes through a
	// helper (i := lastColon(s); if i < 0 ...) it does not see the test. Such a report is withdrawn only if the
	// interval analysis proves every slice expression at that place in bounds.
	slicesAt := map[string][]*ssa.Slice{}
	for f := range logScope {
		eachInstr(f, func(i ssa.Instruction) {
			if sl, ok := i.(*ssa.Slice); ok && sl.Pos().IsValid() {
				slicesAt[c.pos(sl.Pos())] = append(slicesAt[c.pos(sl.Pos())], sl)
			}
		})
	}
	for _, o := range tmp.Obs {
		if o.st == Viol && strings.Contains(o.Construct, "slice bound from") && len(slicesAt[o.Pos]) > 0 {
			all := true
			for _, sl := range slicesAt[o.Pos] {
				if ok, _ := pr.proveBounds(sl); !ok {
					all = false
				}
			}
			if all {
				o.st, o.Status = OK, OK.String()
				o.Detail = "proved in bounds by the interval analysis (the index reaches the slice through a helper): " + o.Detail
			}
		}
		if o.st == OK {
			p2ok[o.Pos] = true
		}
		c.Obs = append(c.Obs, o)
	}
	nRes, nRaw := 0, 0
	for _, sc := range scopes {
		pp, sp := c.ppkg(sc.pkg), c.spkg(sc.pkg)
		if pp == nil || sp == nil {
			c.undecided("C20.P3", "anchor|package "+sc.pkg, "not loaded")
			continue
		}
		if len(sc.fns) == 0 {
			continue
		}
		reps, err := compilerBCE(c.Dir, sc.pkg, overlay)
		if err != nil {
			c.undecided("C20.P3", "anchor|compiler bounds report for "+sc.pkg, err.Error())
			continue
		}
		nRaw += len(reps)
		// SSA instructions of the package by the position of their opening bracket
		type posKey struct {
			file      string
			line, col int
		}
		byPos := map[posKey][]ssa.Instruction{}
		var pkgFns []*ssa.Function
		for _, f := range c.AllFns {
			if rootPkg(f) != sp {
				continue
			}
			pkgFns = append(pkgFns, f)
			eachInstr(f, func(i ssa.Instruction) {
				switch i.(type) {
				case *ssa.IndexAddr, *ssa.Index, *ssa.Slice, *ssa.Lookup:
					if i.Pos().IsValid() {
						ps := c.Fset.Position(i.Pos())
						k := posKey{ps.Filename, ps.Line, ps.Column}
						byPos[k] = append(byPos[k], i)
					}
				}
			})
		}
		sites := indexSites(pp)
		// the directories that hold the package's own source files
		ownDir := map[string]bool{}
		for _, gf := range append(append([]string{}, pp.GoFiles...), pp.CompiledGoFiles...) {
			ownDir[filepath.Dir(gf)] = true
		}
		for _, r := range reps {
			file := r.file
			if !strings.HasPrefix(file, "/") {
				file = c.Dir + "/" + file
			}
			if len(ownDir) > 0 && !ownDir[filepath.Dir(file)] {
				// The body of a generic function of another package (slices.Sorted, slices.SortFunc, maps.Keys ...) that the
				// compiler instantiates while it compiles this package: the report is about the library's code, not about
				// an index expression of this package. Like the body of every other library function the logger calls, it
				// is outside the rule; what this package hands to it is still examined at the call.
				nRaw--
				continue
			}
			bn := file[strings.LastIndex(file, "/")+1:]
			instrs := byPos[posKey{file, r.line, r.col}]
			if len(instrs) == 0 {
				// the compiler's column is not a bracket the SSA form records: take the line's only candidate, if there is just one
				var onLine []ssa.Instruction
				for k, is := range byPos {
					if k.file == file && k.line == r.line {
						onLine = append(onLine, is...)
					}
				}
				if len(onLine) == 1 {
					instrs = onLine
				}
			}
			var site *astIndexSite
			for k, s := range sites[file][r.line] {
				if s.col == r.col {
					site = &sites[file][r.line][k]
				}
			}
			inScope := false
			var owner *ssa.Function
			if len(instrs) > 0 {
				for _, i := range instrs {
					if sc.fns[i.Parent()] {
						inScope, owner = true, i.Parent()
					}
				}
			} else {
				// no SSA instruction carries this position: decide by the source extent of the scope's functions
				inAny := false
				for _, f := range pkgFns {
					n := f.Syntax()
					if n == nil {
						continue
					}
					a, b := c.Fset.Position(n.Pos()), c.Fset.Position(n.End())
					if a.Filename == file && a.Line <= r.line && r.line <= b.Line {
						inAny = true
						if sc.fns[f] {
							inScope, owner = true, f
						}
					}
				}
				if !inAny {
					// a package-level initialiser: belongs to the package initialiser
					for f := range sc.fns {
						if isInitFn(f) && f.Parent() == nil && f.Synthetic != "" {
							inScope, owner = true, f
						}
					}
				}
			}
			if !inScope {
				continue
			}
			nRes++
			root := owner
			for root.Parent() != nil {
				root = root.Parent()
			}
			base, kind, pos := "?", "index", token.NoPos
			if site != nil {
				base, kind, pos = site.base, site.kind, site.node.Pos()
			} else if len(instrs) > 0 {
				pos = instrs[0].Pos()
			}
			key := sc.pkg + "." + root.Name() + "|" + base
			if len(instrs) == 0 {
				c.check("C20.P3", key, pos, false, "the compiler cannot prove a bounds check at "+bn+":"+itoa(r.line)+" in bounds and the checker finds no index/slice instruction there to reason about")
				continue
			}
			if pos.IsValid() && p2ok[c.pos(pos)] {
				c.ob("C20.P3", key+" (discharged by the Index-bound rule)", pos, OK, "slice bound from an Index* result under a dominating >= 0 test")
				continue
			}
			okAll, why := true, ""
			for _, i := range instrs {
				if !sc.fns[i.Parent()] {
					continue
				}
				ok, w := pr.proveBounds(i)
				if !ok {
					if sl, isSl := i.(*ssa.Slice); isSl {
						ok, w = c20TokenResidual(sl)
					}
				}
				if !ok {
					okAll = false
					_, w = pr.proveBounds(i)
				}
				why = w
			}
			c.check("C20.P3", key, pos, okAll,
				"the compiler cannot prove this "+kind+" expression in bounds, so the checker must: "+why+". An out-of-range value here panics inside the request handler after the response has been sent")
		}
	}
	c.atLeast("C20.P2", "Split/Index-derived indices and compiler-unproved bounds checks on the logging path", nP+nRes, 1)
	c.atLeast("C20.P3", "bounds checks reported by the compiler for packages logger, proxy, uuid (is the report alive?)", nRaw, 1)
	c.atLeast("C20.P3", "compiler-unproved bounds checks on the logging/formatter path", nRes, 1)

	// other panic sources on the logging path
	for _, f := range c.AllFns {
		if !logScope[f] {
			continue
		}
		eachInstr(f, func(i ssa.Instruction) {
			switch x := i.(type) {
			case *ssa.Panic:
				c.check("C20.P7", fnKey(f)+"|explicit panic", x.Pos(), false, "explicit panic on the access-log path")
			case *ssa.TypeAssert:
				if x.CommaOk {
					return
				}
				_, fromPool := isCallTo(x.X, "(*sync.Pool).Get")
				c.check("C20.P5", fnKey(f)+"|type assertion", x.Pos(), fromPool && poolNewReturns(c, x), "a single-result type assertion on the logging path must be on the buffer pool whose New returns that very type")
			case *ssa.BinOp:
				if (x.Op == token.QUO || x.Op == token.REM) && isIntType(x.X.Type()) {
					if _, isK := x.Y.(*ssa.Const); !isK {
						ok, why := pr.nonZero(x.Y, x.Block())
						if !ok {
							if ok2, _ := divisorNonZero(x); ok2 {
								ok = true
							}
						}
						c.check("C20.P3", fnKey(f)+"|integer division by "+shortPath(x.Y), x.Pos(), ok,
							"an integer division on the logging path needs a divisor that cannot be zero (from the constants at the call sites or a dominating test): "+why)
					}
				}
			}
		})
	}
}

func runC20I1(c *Ctx) {
	pp := c.ppkg("logger")
	if pp == nil {
		return
	}
	bad := ""
	isRW := func(t types.Type) bool { return strings.Contains(typeStr(t), "net/http.ResponseWriter") }
	scope := pp.Types.Scope()
	for _, name := range scope.Names() {
		obj := scope.Lookup(name)
		switch o := obj.(type) {
		case *types.TypeName:
			if st, ok := o.Type().Underlying().(*types.Struct); ok {
				for k := 0; k < st.NumFields(); k++ {
					if isRW(st.Field(k).Type()) {
						bad = name + "." + st.Field(k).Name()
					}
				}
			}
		case *types.Func:
			sig := o.Type().(*types.Signature)
			for k := 0; k < sig.Params().Len(); k++ {
				if isRW(sig.Params().At(k).Type()) {
					bad = name
				}
			}
		}
	}
	c.check("C20.I1", "package logger|no access to the response writer", pp.Syntax[0].Pos(), bad == "",
		"logging must not be able to alter the response: nothing in package logger may hold or receive an http.ResponseWriter ("+bad+")")
}
