package main

// Overlay mutants of C08 added in the third hardening round: tables of {name, value} rows that are not one literal
// (grown with append, built without a literal, a map, returned by a helper, handed to the looping helper, rows that are
// small arrays, a pointer loop variable), and the guards of the round-4 rules spelled as predicate helpers. Each benign
// shape comes with a break of the same shape that the rule concerned must still report.

func init() {
	p := props["C08"]
	if p == nil {
		return
	}
	const headers = "proxy/http_headers.go"
	const tail = "var tlsver = map[uint16]string{"

	// ---- the X-Forwarded-Port / X-Forwarded-Host defaults driven by a table (A2 per row)
	const portHost = "\tif r.Header.Get(\"X-Forwarded-Port\") == \"\" {\n\t\tr.Header.Set(\"X-Forwarded-Port\", localPort(r))\n\t}\n\n\tif r.Header.Get(\"X-Forwarded-Host\") == \"\" && r.Host != \"\" {\n\t\tr.Header.Set(\"X-Forwarded-Host\", r.Host)\n\t}\n"
	const rowType = "type hdrRow struct{ key, val string }\n\n"
	loop := func(test string) string {
		return "\tfor _, d := range rows {\n\t\tif " + test + " {\n\t\t\tr.Header.Set(d.key, d.val)\n\t\t}\n\t}\n"
	}
	const absent = "r.Header.Get(d.key) == \"\""
	grown := func(port, host string) string {
		return "\trows := []hdrRow{{\"X-Forwarded-Port\", " + port + "}}\n\tif r.Host != \"\" {\n\t\trows = append(rows, hdrRow{\"X-Forwarded-Host\", " + host + "})\n\t}\n"
	}
	withType := []repl{{tail, rowType + tail}}
	p.Mutants = append(p.Mutants,
		mutant{Name: "benign: defaults table grown with append under a condition", File: headers, Old: portHost, New: grown("localPort(r)", "r.Host") + loop(absent), Expect: "", More: withType},
		mutant{Name: "grown table: the appended X-Forwarded-Host row holds the upstream host", File: headers, Old: portHost, New: grown("localPort(r)", "r.URL.Host") + loop(absent), Expect: "C08.A2", More: withType},
		mutant{Name: "grown table: the values of the two rows are swapped", File: headers, Old: portHost, New: grown("r.Host", "localPort(r)") + loop(absent), Expect: "C08.A2", More: withType},
		mutant{Name: "grown table: rows written without the absent test", File: headers, Old: portHost, New: grown("localPort(r)", "r.Host") + loop("d.val != \"\""), Expect: "C08.A2", More: withType},
		mutant{Name: "benign: defaults table built with append only (no literal)", File: headers, Old: portHost,
			New: "\tvar rows []hdrRow\n\trows = append(rows, hdrRow{\"X-Forwarded-Port\", localPort(r)})\n\tif r.Host != \"\" {\n\t\trows = append(rows, hdrRow{key: \"X-Forwarded-Host\", val: r.Host})\n\t}\n" + loop(absent), Expect: "", More: withType},
		mutant{Name: "benign: defaults table walked through a pointer to the row", File: headers, Old: portHost,
			New: grown("localPort(r)", "r.Host") + "\tfor i := range rows {\n\t\td := &rows[i]\n\t\tif r.Header.Get(d.key) == \"\" {\n\t\t\tr.Header.Set(d.key, d.val)\n\t\t}\n\t}\n", Expect: "", More: withType},
	)

	p.Mutants = append(p.Mutants,
		mutant{Name: "benign: defaults table walked with an index loop", File: headers, Old: portHost,
			New: grown("localPort(r)", "r.Host") + "\tfor i := 0; i < len(rows); i++ {\n\t\tif r.Header.Get(rows[i].key) == \"\" {\n\t\t\tr.Header.Set(rows[i].key, rows[i].val)\n\t\t}\n\t}\n", Expect: "", More: withType},
		mutant{Name: "index loop: the value is taken from the next row", File: headers, Old: portHost,
			New: grown("localPort(r)", "r.Host") + "\tfor i := 0; i < len(rows); i++ {\n\t\tif r.Header.Get(rows[i].key) == \"\" {\n\t\t\tr.Header.Set(rows[i].key, rows[(i+1)%len(rows)].val)\n\t\t}\n\t}\n", Expect: "C08.A2", More: withType},
		mutant{Name: "benign: defaults in an array literal ranged over by value", File: headers, Old: portHost,
			New: "\tfor _, d := range [...]hdrRow{{\"X-Forwarded-Port\", localPort(r)}, {\"X-Forwarded-Host\", r.Host}} {\n\t\tif d.val != \"\" && r.Header.Get(d.key) == \"\" {\n\t\t\tr.Header.Set(d.key, d.val)\n\t\t}\n\t}\n", Expect: "", More: withType},
	)

	// a map instead of a slice of rows
	mapTable := func(host, test string) string {
		return "\tdefaults := map[string]string{\"X-Forwarded-Port\": localPort(r)}\n\tif r.Host != \"\" {\n\t\tdefaults[\"X-Forwarded-Host\"] = " + host + "\n\t}\n\tfor key, val := range defaults {\n\t\tif " + test + " {\n\t\t\tr.Header.Set(key, val)\n\t\t}\n\t}\n"
	}
	p.Mutants = append(p.Mutants,
		mutant{Name: "benign: defaults kept in a map and applied by a range over it", File: headers, Old: portHost, New: mapTable("r.Host", "r.Header.Get(key) == \"\""), Expect: ""},
		mutant{Name: "defaults map: the X-Forwarded-Host entry holds the upstream host", File: headers, Old: portHost, New: mapTable("r.URL.Host", "r.Header.Get(key) == \"\""), Expect: "C08.A2"},
		mutant{Name: "defaults map: absent test on the value", File: headers, Old: portHost, New: mapTable("r.Host", "r.Header.Get(val) == \"\""), Expect: "C08.A2"},
	)

	// the table built by a helper; the loop in a helper that is handed the table
	rowsHelper := func(port, host string) string {
		return "func defaultRows(r *http.Request) []hdrRow {\n" + grown(port, host) + "\treturn rows\n}\n\n"
	}
	const supply = "func supply(h http.Header, rows []hdrRow) {\n\tfor _, d := range rows {\n\t\tif h.Get(d.key) == \"\" {\n\t\t\th.Set(d.key, d.val)\n\t\t}\n\t}\n}\n\n"
	p.Mutants = append(p.Mutants,
		mutant{Name: "benign: defaults table returned by a helper", File: headers, Old: portHost, New: "\trows := defaultRows(r)\n" + loop(absent), Expect: "",
			More: []repl{{tail, rowType + rowsHelper("localPort(r)", "r.Host") + tail}}},
		mutant{Name: "table helper: the port row is taken from the upstream URL", File: headers, Old: portHost, New: "\trows := defaultRows(r)\n" + loop(absent), Expect: "C08.A2",
			More: []repl{{tail, rowType + rowsHelper("r.URL.Port()", "r.Host") + tail}}},
		mutant{Name: "benign: defaults table handed to a helper that loops over it", File: headers, Old: portHost, New: grown("localPort(r)", "r.Host") + "\tsupply(r.Header, rows)\n", Expect: "",
			More: []repl{{tail, rowType + supply + tail}}},
		mutant{Name: "looping helper is handed a table whose host row holds the upstream host", File: headers, Old: portHost, New: grown("localPort(r)", "r.URL.Host") + "\tsupply(r.Header, rows)\n", Expect: "C08.A2",
			More: []repl{{tail, rowType + supply + tail}}},
	)

	// rows that are [2]string
	pairs := func(test string) string {
		return "\tfor _, d := range [][2]string{\n\t\t{\"X-Forwarded-Port\", localPort(r)},\n\t\t{\"X-Forwarded-Host\", r.Host},\n\t} {\n\t\tif " + test + " {\n\t\t\tr.Header.Set(d[0], d[1])\n\t\t}\n\t}\n"
	}
	p.Mutants = append(p.Mutants,
		mutant{Name: "benign: defaults table of [2]string pairs", File: headers, Old: portHost, New: pairs("d[1] != \"\" && r.Header.Get(d[0]) == \"\""), Expect: ""},
		mutant{Name: "pairs table: absent test on the value column", File: headers, Old: portHost, New: pairs("d[1] != \"\" && r.Header.Get(d[1]) == \"\""), Expect: "C08.A2"},
	)

	// ---- X4: the non-nil guard spelled as a predicate helper; a loop over all headers that skips X-Forwarded-For
	const xffAnchor = "\t// set the X-Forwarded-For header for websocket\n"
	const nonBlankNil = "func nonBlank(vals []string) []string {\n\tvar res []string\n\tfor _, v := range vals {\n\t\tif strings.TrimSpace(v) != \"\" {\n\t\t\tres = append(res, v)\n\t\t}\n\t}\n\treturn res\n}\n\n"
	const hasValues = "func hasValues(vals []string) bool {\n\treturn len(vals) > 0\n}\n\n"
	guarded := func(subject string) string {
		return "\tif xff, ok := r.Header[\"X-Forwarded-For\"]; ok {\n\t\tif clean := nonBlank(xff); hasValues(" + subject + ") {\n\t\t\tr.Header[\"X-Forwarded-For\"] = clean\n\t\t} else {\n\t\t\tr.Header.Del(\"X-Forwarded-For\")\n\t\t}\n\t}\n\n" + xffAnchor
	}
	skipLoop := func(skip string) string {
		return "\tfor k, vv := range r.Header {\n\t\tif k == \"" + skip + "\" {\n\t\t\tcontinue\n\t\t}\n\t\tr.Header[k] = nonBlank(vv)\n\t}\n\n" + xffAnchor
	}
	p.Mutants = append(p.Mutants,
		mutant{Name: "benign: nil-returning filter, stored only when a predicate helper says something is left", File: headers, Old: xffAnchor, New: guarded("clean"), Expect: "",
			More: []repl{{tail, nonBlankNil + hasValues + tail}}},
		mutant{Name: "nil-returning filter: the predicate helper is asked about the unfiltered list", File: headers, Old: xffAnchor, New: guarded("xff"), Expect: "C08.X4",
			More: []repl{{tail, nonBlankNil + hasValues + tail}}},
		mutant{Name: "benign: every header but X-Forwarded-For cleaned in a loop", File: headers, Old: xffAnchor, New: skipLoop("X-Forwarded-For"), Expect: "",
			More: []repl{{tail, nonBlankNil + tail}}},
		mutant{Name: "every header but X-Forwarded-Host cleaned in a loop", File: headers, Old: xffAnchor, New: skipLoop("X-Forwarded-Host"), Expect: "C08.X4",
			More: []repl{{tail, nonBlankNil + tail}}},
	)

	// ---- A4: the "not found" sentinel tested through a predicate helper
	const schemeOld = `func scheme(r *http.Request) string {
	xfp := r.Header.Get("X-Forwarded-Proto")
	fwd := r.Header.Get("Forwarded")
	switch {
	case xfp != "" && fwd == "":
		return xfp

	case fwd != "" && xfp == "":
		p := strings.SplitAfterN(fwd, "proto=", 2)
		if len(p) == 1 {
			break
		}
		n := strings.IndexRune(p[1], ';')
		if n >= 0 {
			return p[1][:n]
		}
		return p[1]
	}

	ws := isWebsocketUpgrade(r)
	switch {
	case ws && r.TLS != nil:
		return "wss"
	case ws && r.TLS == nil:
		return "ws"
	case r.TLS != nil:
		return "https"
	default:
		return "http"
	}
}
`
	const helpers = `
func known(s string) bool {
	return s != ""
}

func headerScheme(h http.Header) string {
	xfp := h.Get("X-Forwarded-Proto")
	fwd := h.Get("Forwarded")
	switch {
	case xfp != "" && fwd == "":
		return xfp
	case fwd != "" && xfp == "":
		if _, params, found := strings.Cut(fwd, "proto="); found {
			proto, _, _ := strings.Cut(params, ";")
			return proto
		}
	}
	return ""
}

func connScheme(websocket, secure bool) string {
	switch {
	case websocket && secure:
		return "wss"
	case websocket:
		return "ws"
	case secure:
		return "https"
	default:
		return "http"
	}
}
`
	caller := func(subject string) string {
		return "func scheme(r *http.Request) string {\n\tif proto := headerScheme(r.Header); known(" + subject + ") {\n\t\treturn proto\n\t}\n\treturn connScheme(isWebsocketUpgrade(r), r.TLS != nil)\n}\n"
	}
	p.Mutants = append(p.Mutants,
		mutant{Name: "benign: headerScheme returns \"\" for not found, the caller asks a predicate helper", File: headers, Old: schemeOld, New: caller("proto") + helpers, Expect: ""},
		mutant{Name: "\"\" sentinel: the predicate helper is asked about the Forwarded header instead", File: headers, Old: schemeOld, New: caller("r.Header.Get(\"Forwarded\")") + helpers, Expect: "C08.A4"},
	)
}
