package main

import (
	"golang.org/x/tools/go/ssa"
)

func init() {
	register(&propDef{
		ID:      "C17",
		Level:   "other",
		Explain: "Compression decision and typestate rules on the CFG of proxy/gzip. All sites are found by role inside the package (the struct type that declares Write and WriteHeader; the decided writer = the writer-typed interface field - io.Writer, io.WriteCloser, a package-local interface - through which its Write sends the body, in the type itself or in a state struct it keeps; any field holding a *gzip.Writer, also inside a small wrapper type that the decided writer can be; its http.ResponseWriter field; calls of ServeHTTP, sync.Pool.Get/Put, gzip.Writer.Reset/Close, Header.Set/Del; calls through package-local interfaces and through function values kept in fields are resolved to the package's implementations), conditions are branch FACTS that may be spelled inline, as a boolean helper, as a && b or as a guard clause, and order rules are evaluated on the paths of the response writer's methods with same-package helpers inlined. (D1) the compressing response writer is created/served only where, on every path to that verdict, a string cut out of the request's Accept-Encoding is found to name gzip (strings.Contains/Index of the header, or a token ==, EqualFold, a switch case against a constant containing gzip) or to be the wildcard * with a weight parsed from the header found positive - another coding, or a wildcard whose q-value is not examined (*;q=0 refuses), is not acceptance - and the plain serve is not on that edge; a *gzip.Writer becomes the active writer only where the configured expression's MatchString(Content-Type) == true (called directly, through an interface, as a bound method value or a closure over the expression) and Content-Encoding == \"\" are both established; (H1) on every path Del(Content-Length) and Set(Content-Encoding, gzip) precede the wrapped WriteHeader when the gzip writer is installed, the decision is not taken after the headers were sent, Content-Length/Content-Encoding are touched (Set/Add/Del/map) only on the compress edge, the wrapped WriteHeader receives exactly WriteHeader's code parameter and is reached on every path of WriteHeader; (T1) decide-once: the writer field is stored only under writer == nil, only with the gzip writer or the wrapped writer, WriteHeader leaves it decided on every path, and every use of it is after a decision; (T2) pooled gzip.Writer typestate, evaluated from the methods that code outside the package can call and from the handler, whose deferred calls are replayed last-in-first-out (a method that only the package calls is evaluated in the context of its callers): the active gzip writer comes from sync.Pool.Get, is Reset to the wrapped ResponseWriter before it is written to, Close before Put, nothing after Put, Close under gzipWriter != nil, and the handler defers the release between creating the writer and serving; (T3) every Pool.Put is reached through exactly one chain of static call sites with one deferred link, or the release clears the field; (W1) Write hands its parameter unchanged to the decided writer and returns its results, and so does the Write of every package-local wrapper type the decided writer can be; (V1) Vary: Accept-Encoding precedes every serve on every path. Representations: a verdict may be a bool or one of several constants (a negotiated coding, a mode; compared with ==, != or a switch; returned by a helper, handed down as a parameter or kept in a field); undecided / decided may be the nil-ness of the writer field, a boolean or the zero / non-zero value of an enumeration into which only constants are stored; gzipWriter != nil may be spelled with a boolean or an enumeration value that is set exactly where a writer is taken; and the writer field may be absent altogether: then the destination of the body is SELECTED where it is written (the gzip writer only where the field is known to be set, the wrapped writer only where it is known to be nil, and only after the decision). Not decided: that compress/gzip round-trips the bytes (library behaviour).",
		Run:     runC17,
		Trusted: []string{"compress/gzip.Writer produces a stream that decompresses to the bytes written", "sync.Pool hands an object to one user at a time"},
		Mutants: c17filterMutants(append([]mutant{
			{Name: "drop Del(Content-Length)", File: "proxy/gzip/gzip_handler.go", Old: "\t\t\tgrw.Header().Del(headerContentLength)\n", New: "", Expect: "C17.H1"},
			{Name: "set headers after WriteHeader", File: "proxy/gzip/gzip_handler.go", Old: "\t\t\tgrw.Header().Set(headerContentEncoding, encodingGzip)\n", New: "\t\t\tdefer grw.Header().Set(headerContentEncoding, encodingGzip)\n", Expect: "C17.H1"},
			{Name: "status code replaced", File: "proxy/gzip/gzip_handler.go", Old: "\tgrw.ResponseWriter.WriteHeader(code)", New: "\tgrw.ResponseWriter.WriteHeader(http.StatusOK)", Expect: "C17.H1"},
			{Name: "compress regardless of Content-Encoding", File: "proxy/gzip/gzip_handler.go", Old: "\tif header.Get(headerContentEncoding) != \"\" {\n\t\treturn false\n\t}\n", New: "", Expect: "C17.D1"},
			{Name: "compress although the client does not accept gzip", File: "proxy/gzip/gzip_handler.go", Old: "\t\tif acceptsGzip(r) {", New: "\t\tif acceptsGzip(r) || true {", Expect: "C17.D1"},
			{Name: "gzip writer without the content-type test", File: "proxy/gzip/gzip_handler.go", Old: "if isCompressable(grw.Header(), grw.contentTypes) {", New: "if isCompressable(grw.Header(), grw.contentTypes) || grw.contentTypes != nil {", Expect: "C17.D1"},
			{Name: "Put without Close", File: "proxy/gzip/gzip_handler.go", Old: "\t\tgrw.gzipWriter.Close()\n\t\tgzipWriterPool.Put(grw.gzipWriter)", New: "\t\tgzipWriterPool.Put(grw.gzipWriter)", Expect: "C17.T2"},
			{Name: "no Reset after Get", File: "proxy/gzip/gzip_handler.go", Old: "\t\t\tgrw.gzipWriter.Reset(grw.ResponseWriter)\n", New: "", Expect: "C17.T2"},
			{Name: "use after Put", File: "proxy/gzip/gzip_handler.go", Old: "\t\tgrw.gzipWriter.Close()\n\t\tgzipWriterPool.Put(grw.gzipWriter)", New: "\t\tgzipWriterPool.Put(grw.gzipWriter)\n\t\tgrw.gzipWriter.Close()", Expect: "C17.T2"},
			{Name: "Close not deferred in the handler", File: "proxy/gzip/gzip_handler.go", Old: "\t\t\tdefer gzWriter.Close()\n\t\t\th.ServeHTTP(gzWriter, r)", New: "\t\t\th.ServeHTTP(gzWriter, r)\n\t\t\tgzWriter.Close()", Expect: "C17.T2"},
			{Name: "Close called early on a write error", File: "proxy/gzip/gzip_handler.go", Old: "\treturn grw.writer.Write(b)\n}", New: "\tn, err := grw.writer.Write(b)\n\tif err != nil {\n\t\tgrw.Close()\n\t}\n\treturn n, err\n}", Expect: "C17."},
			{Name: "writer decided twice", File: "proxy/gzip/gzip_handler.go", Old: "func (grw *GzipResponseWriter) WriteHeader(code int) {\n\tif grw.writer == nil {", New: "func (grw *GzipResponseWriter) WriteHeader(code int) {\n\tif grw.writer == nil || code >= 500 {", Expect: "C17.T1"},
			{Name: "Write uses the undecided writer", File: "proxy/gzip/gzip_handler.go", Old: "\t\tgrw.WriteHeader(http.StatusOK)\n\t}\n\treturn grw.writer.Write(b)", New: "\t}\n\treturn grw.writer.Write(b)", Expect: "C17.T1"},
			{Name: "Write drops the last byte", File: "proxy/gzip/gzip_handler.go", Old: "\treturn grw.writer.Write(b)", New: "\treturn grw.writer.Write(b[:len(b)-1])", Expect: "C17.W1"},
			{Name: "Vary only when compressing", File: "proxy/gzip/gzip_handler.go", Old: "\t\tw.Header().Add(headerVary, headerAcceptEncoding)\n\n\t\tif acceptsGzip(r) {", New: "\t\tif acceptsGzip(r) {\n\t\t\tw.Header().Add(headerVary, headerAcceptEncoding)", Expect: "C17.V1"},
			{Name: "benign: explicit else branch order swapped", File: "proxy/gzip/gzip_handler.go", Old: "\t\tif acceptsGzip(r) {\n\t\t\tgzWriter := NewGzipResponseWriter(w, contentTypes)\n\t\t\tdefer gzWriter.Close()\n\t\t\th.ServeHTTP(gzWriter, r)\n\t\t} else {\n\t\t\th.ServeHTTP(w, r)\n\t\t}", New: "\t\tif !acceptsGzip(r) {\n\t\t\th.ServeHTTP(w, r)\n\t\t\treturn\n\t\t}\n\t\tgzWriter := NewGzipResponseWriter(w, contentTypes)\n\t\tdefer gzWriter.Close()\n\t\th.ServeHTTP(gzWriter, r)", Expect: ""},
		}, append(append(append(c17moreMutants(), c17round2Mutants()...), c17round4Mutants()...), c17round5Mutants()...)...)),
	})
}

// headerCall: i is a call of http.Header.<method> with a constant key; returns key.
func headerCall(i ssa.Instruction, method string) (string, *ssa.CallCommon, bool) {
	cc := callCommon(i)
	if cc == nil || calleeName(cc) != "(net/http.Header)."+method || len(cc.Args) < 2 {
		return "", nil, false
	}
	k, ok := constString(cc.Args[1])
	return k, cc, ok
}

// pathAvoidingFromBlock: path from the start of block b to instruction target avoiding instructions matched by avoid.
func pathAvoidingFromBlock(b *ssa.BasicBlock, target ssa.Instruction, avoid func(ssa.Instruction) bool) bool {
	avoid = liftMust(avoid, 1) // a helper that does it on all of its paths counts
	type item struct {
		b   *ssa.BasicBlock
		idx int
	}
	seen := map[*ssa.BasicBlock]bool{b: true}
	stack := []item{{b, 0}}
	for len(stack) > 0 {
		it := stack[len(stack)-1]
		stack = stack[:len(stack)-1]
		blocked := false
		for k := it.idx; k < len(it.b.Instrs); k++ {
			in := it.b.Instrs[k]
			if in == target {
				return true
			}
			if avoid != nil && avoid(in) {
				blocked = true
				break
			}
		}
		if blocked {
			continue
		}
		for _, s := range it.b.Succs {
			if !seen[s] {
				seen[s] = true
				stack = append(stack, item{s, 0})
			}
		}
	}
	return false
}

func exitReachableAvoidingFromBlock(b *ssa.BasicBlock, pass func(ssa.Instruction) bool) (ssa.Instruction, bool) {
	pass = liftMust(pass, 1) // a helper that does it on all of its paths counts
	type item struct {
		b   *ssa.BasicBlock
		idx int
	}
	seen := map[*ssa.BasicBlock]bool{b: true}
	stack := []item{{b, 0}}
	for len(stack) > 0 {
		it := stack[len(stack)-1]
		stack = stack[:len(stack)-1]
		blocked := false
		for k := it.idx; k < len(it.b.Instrs); k++ {
			in := it.b.Instrs[k]
			if pass(in) {
				blocked = true
				break
			}
			if r, ok := in.(*ssa.Return); ok {
				return r, true
			}
		}
		if blocked {
			continue
		}
		for _, s := range it.b.Succs {
			if !seen[s] {
				seen[s] = true
				stack = append(stack, item{s, 0})
			}
		}
	}
	return nil, false
}
