package main

import (
	"go/token"
	"strings"

	"golang.org/x/tools/go/ssa"
)

func init() {
	register(&propDef{
		ID:      "C17",
		Level:   "other",
		Explain: "Compression decision and typestate rules on the CFG of proxy/gzip: (D1) the gzip response writer is installed only on the acceptsGzip()==true edge, the gzip writer only on the isCompressable()==true edge; isCompressable returns false on the Content-Encoding != \"\" edge and otherwise the content-type regexp's verdict; acceptsGzip only returns false or Contains(Accept-Encoding, gzip); (H1) on the compress edge Del(Content-Length) and Set(Content-Encoding, gzip) both lie on every path to the underlying WriteHeader, no other path touches those headers, and the status code parameter is forwarded unchanged on all paths; (T1) decide-once: the writer field is stored only under writer == nil, the deciding method assigns it on every path of that edge, and every use of it is either under writer != nil or after the deciding call on the nil edge; (T2) pooled gzip.Writer typestate: Get -> Reset(underlying ResponseWriter) -> use -> Close -> Put, Close before Put and nothing after Put, and the handler defers the response writer's Close before serving; (W1) Write hands its argument unchanged to the decided writer and returns its results; (V1) Vary: Accept-Encoding is added before any branching. (T3) the pooled writer is returned at most once per response. Not decided: that compress/gzip round-trips the bytes (library behaviour).",
		Run:     runC17,
		Trusted: []string{"compress/gzip.Writer produces a stream that decompresses to the bytes written", "sync.Pool hands an object to one user at a time"},
		Mutants: []mutant{
			{Name: "drop Del(Content-Length)", File: "proxy/gzip/gzip_handler.go", Old: "\t\t\tgrw.Header().Del(headerContentLength)\n", New: "", Expect: "C17.H1"},
			{Name: "set headers after WriteHeader", File: "proxy/gzip/gzip_handler.go", Old: "\t\t\tgrw.Header().Set(headerContentEncoding, encodingGzip)\n", New: "\t\t\tdefer grw.Header().Set(headerContentEncoding, encodingGzip)\n", Expect: "C17.H1"},
			{Name: "status code replaced", File: "proxy/gzip/gzip_handler.go", Old: "\tgrw.ResponseWriter.WriteHeader(code)", New: "\tgrw.ResponseWriter.WriteHeader(http.StatusOK)", Expect: "C17.H1"},
			{Name: "compress regardless of Content-Encoding", File: "proxy/gzip/gzip_handler.go", Old: "\tif header.Get(headerContentEncoding) != \"\" {\n\t\treturn false\n\t}\n", New: "", Expect: "C17.D1"},
			{Name: "compress although the client does not accept gzip", File: "proxy/gzip/gzip_handler.go", Old: "\t\tif acceptsGzip(r) {", New: "\t\tif acceptsGzip(r) || true {", Expect: "C17.D1"},
			{Name: "gzip writer without the content-type test", File: "proxy/gzip/gzip_handler.go", Old: "if isCompressable(grw.Header(), grw.contentTypes) {", New: "if isCompressable(grw.Header(), grw.contentTypes) || grw.contentTypes != nil {", Expect: "C17.D1"},
			{Name: "Put without Close", File: "proxy/gzip/gzip_handler.go", Old: "\t\tgrw.gzipWriter.Close()\n\t\tgzipWriterPool.Put(grw.gzipWriter)", New: "\t\tgzipWriterPool.Put(grw.gzipWriter)", Expect: "C17.T2"},
			{Name: "no Reset after Get", File: "proxy/gzip/gzip_handler.go", Old: "\t\t\tgrw.gzipWriter.Reset(grw.ResponseWriter)\n", New: "", Expect: "C17.T2"},
			{Name: "use after Put", File: "proxy/gzip/gzip_handler.go", Old: "\t\tgrw.gzipWriter.Close()\n\t\tgzipWriterPool.Put(grw.gzipWriter)", New: "\t\tgzipWriterPool.Put(grw.gzipWriter)\n\t\tgrw.gzipWriter.Close()", Expect: "C17.T2"},
			{Name: "Close not deferred in the handler", File: "proxy/gzip/gzip_handler.go", Old: "\t\t\tdefer gzWriter.Close()\n\t\t\th.ServeHTTP(gzWriter, r)", New: "\t\t\th.ServeHTTP(gzWriter, r)\n\t\t\tgzWriter.Close()", Expect: "C17.T2"},
			{Name: "Close called early on a write error", File: "proxy/gzip/gzip_handler.go", Old: "\treturn grw.writer.Write(b)\n}", New: "\tn, err := grw.writer.Write(b)\n\tif err != nil {\n\t\tgrw.Close()\n\t}\n\treturn n, err\n}", Expect: "C17."},
			{Name: "writer decided twice", File: "proxy/gzip/gzip_handler.go", Old: "func (grw *GzipResponseWriter) WriteHeader(code int) {\n\tif grw.writer == nil {", New: "func (grw *GzipResponseWriter) WriteHeader(code int) {\n\tif grw.writer == nil || code >= 500 {", Expect: "C17.T1"},
			{Name: "Write uses the undecided writer", File: "proxy/gzip/gzip_handler.go", Old: "\t\tgrw.WriteHeader(http.StatusOK)\n\t}\n\treturn grw.writer.Write(b)", New: "\t}\n\treturn grw.writer.Write(b)", Expect: "C17.T1"},
			{Name: "Write drops the last byte", File: "proxy/gzip/gzip_handler.go", Old: "\treturn grw.writer.Write(b)", New: "\treturn grw.writer.Write(b[:len(b)-1])", Expect: "C17.W1"},
			{Name: "Vary only when compressing", File: "proxy/gzip/gzip_handler.go", Old: "\t\tw.Header().Add(headerVary, headerAcceptEncoding)\n\n\t\tif acceptsGzip(r) {", New: "\t\tif acceptsGzip(r) {\n\t\t\tw.Header().Add(headerVary, headerAcceptEncoding)", Expect: "C17.V1"},
			{Name: "benign: explicit else branch order swapped", File: "proxy/gzip/gzip_handler.go", Old: "\t\tif acceptsGzip(r) {\n\t\t\tgzWriter := NewGzipResponseWriter(w, contentTypes)\n\t\t\tdefer gzWriter.Close()\n\t\t\th.ServeHTTP(gzWriter, r)\n\t\t} else {\n\t\t\th.ServeHTTP(w, r)\n\t\t}", New: "\t\tif !acceptsGzip(r) {\n\t\t\th.ServeHTTP(w, r)\n\t\t\treturn\n\t\t}\n\t\tgzWriter := NewGzipResponseWriter(w, contentTypes)\n\t\tdefer gzWriter.Close()\n\t\th.ServeHTTP(gzWriter, r)", Expect: ""},
		},
	})
}

// headerCall: i is a call of http.Header.<method> with a constant key; returns key.
func headerCall(i ssa.Instruction, method string) (string, *ssa.CallCommon, bool) {
	cc := callCommon(i)
	if cc == nil || calleeName(cc) != "(net/http.Header)."+method || len(cc.Args) < 2 {
		return "", nil, false
	}
	k, ok := constString(cc.Args[1])
	return k, cc, ok
}

func runC17(c *Ctx) {
	const G = "proxy/gzip"
	wh := c.method(G, "GzipResponseWriter", "WriteHeader")
	wr := c.method(G, "GzipResponseWriter", "Write")
	cl := c.method(G, "GzipResponseWriter", "Close")
	isComp := c.fn(G, "isCompressable")
	accepts := c.fn(G, "acceptsGzip")
	newH := c.fn(G, "NewGzipHandler")
	for _, x := range []struct {
		f *ssa.Function
		n string
	}{{wh, "WriteHeader"}, {wr, "Write"}, {cl, "Close"}, {isComp, "isCompressable"}, {accepts, "acceptsGzip"}, {newH, "NewGzipHandler"}} {
		if !c.need("C17.D1", x.f, "gzip."+x.n) {
			return
		}
	}
	isWriterField := func(v ssa.Value) bool { _, ok := fieldOf(v, "gzip.GzipResponseWriter", "writer"); return ok }
	isGzField := func(v ssa.Value) bool { _, ok := fieldOf(v, "gzip.GzipResponseWriter", "gzipWriter"); return ok }

	// ---- D1: handler
	var handler *ssa.Function
	for _, f := range newH.AnonFuncs {
		if f.Signature.Params().Len() == 2 {
			handler = f
		}
	}
	if handler == nil {
		c.undecided("C17.D1", "gzip.NewGzipHandler|handler closure", "not found")
		return
	}
	newW := c.fn(G, "NewGzipResponseWriter")
	nNew := 0
	eachInstr(handler, func(i ssa.Instruction) {
		if newW != nil && staticCalleeIs(i, newW) {
			nNew++
			c.check("C17.D1", "gzip.NewGzipHandler$1|gzip response writer only when the client accepts gzip", i.Pos(), factCallTo(i.Block(), accepts, true) != nil,
				"the compressing response writer must be created only on the acceptsGzip(r) == true edge; otherwise a client that did not ask for gzip receives a compressed body")
		}
	})
	c.atLeast("C17.D1", "NewGzipResponseWriter calls in the handler", nNew, 1)
	// the other edge serves with the original writer
	nServe := 0
	eachInstr(handler, func(i ssa.Instruction) {
		cc := callCommon(i)
		if cc == nil || !cc.IsInvoke() || cc.Method.Name() != "ServeHTTP" {
			return
		}
		nServe++
		if _, isParam := stripIface(cc.Args[0]).(*ssa.Parameter); isParam {
			c.check("C17.D1", "gzip.NewGzipHandler$1|pass-through serve on the non-gzip edge", i.Pos(), factCallTo(i.Block(), accepts, false) != nil || factCallTo(i.Block(), accepts, true) == nil,
				"the original ResponseWriter is used when the client does not accept gzip")
		} else {
			c.check("C17.D1", "gzip.NewGzipHandler$1|gzip serve on the gzip edge", i.Pos(), factCallTo(i.Block(), accepts, true) != nil, "the wrapped writer may be served only on the acceptsGzip edge")
		}
	})
	c.atLeast("C17.D1", "ServeHTTP calls in the handler", nServe, 2)

	// acceptsGzip returns
	eachInstr(accepts, func(i ssa.Instruction) {
		r, ok := i.(*ssa.Return)
		if !ok {
			return
		}
		if bv, isK := constBool(r.Results[0]); isK {
			c.check("C17.D1", "gzip.acceptsGzip|constant verdict", r.Pos(), !bv, "acceptsGzip may only refuse unconditionally")
			return
		}
		call, isCall := r.Results[0].(*ssa.Call)
		ok2 := isCall && calleeName(&call.Call) == "strings.Contains"
		if ok2 {
			s, _ := constString(call.Call.Args[1])
			hdr := derives(call.Call.Args[0], func(v ssa.Value) bool {
				hc, isC := v.(*ssa.Call)
				if !isC {
					return false
				}
				k, _, isH := headerCall(hc, "Get")
				return isH && k == "Accept-Encoding"
			})
			ok2 = s == "gzip" && hdr
		}
		c.check("C17.D1", "gzip.acceptsGzip|verdict from Accept-Encoding", r.Pos(), ok2, "the positive verdict must be strings.Contains(Header.Get(\"Accept-Encoding\"), \"gzip\")")
	})
	// isCompressable
	nRet := 0
	sawEncGuard := false
	eachInstr(isComp, func(i ssa.Instruction) {
		r, ok := i.(*ssa.Return)
		if !ok {
			return
		}
		nRet++
		encNonEmpty := false
		for _, f := range factsAt(r.Block()) {
			if b, isB := f.Cond.(*ssa.BinOp); isB && (b.Op == token.NEQ || b.Op == token.EQL) {
				if hc, isC := b.X.(*ssa.Call); isC {
					if k, _, isH := headerCall(hc, "Get"); isH && k == "Content-Encoding" {
						if s, isS := constString(b.Y); isS && s == "" {
							if (b.Op == token.NEQ) == f.Truth {
								encNonEmpty = true
							}
						}
					}
				}
			}
		}
		if bv, isK := constBool(r.Results[0]); isK {
			if encNonEmpty {
				sawEncGuard = true
			}
			c.check("C17.D1", "gzip.isCompressable|constant verdict", r.Pos(), !bv, "isCompressable may only refuse unconditionally")
			return
		}
		call, isCall := r.Results[0].(*ssa.Call)
		ok2 := isCall && calleeName(&call.Call) == "(*regexp.Regexp).MatchString" && derives(call.Call.Args[1], func(v ssa.Value) bool {
			hc, isC := v.(*ssa.Call)
			if !isC {
				return false
			}
			k, _, isH := headerCall(hc, "Get")
			return isH && k == "Content-Type"
		})
		c.check("C17.D1", "gzip.isCompressable|verdict from the content-type expression", r.Pos(), ok2 && !encNonEmpty, "the positive verdict must be contentTypes.MatchString(Header.Get(\"Content-Type\")) on the path where no Content-Encoding is set")
	})
	c.check("C17.D1", "gzip.isCompressable|already encoded responses are refused", isComp.Pos(), sawEncGuard, "a response that already carries a Content-Encoding must not be compressed again (return false on the Content-Encoding != \"\" edge)")

	// ---- WriteHeader: D1/H1/T1/T2
	var underlying []ssa.Instruction // calls of the embedded ResponseWriter.WriteHeader
	eachInstr(wh, func(i ssa.Instruction) {
		cc := callCommon(i)
		if cc != nil && cc.IsInvoke() && cc.Method.Name() == "WriteHeader" {
			underlying = append(underlying, i)
		}
	})
	c.atLeast("C17.H1", "underlying WriteHeader calls", len(underlying), 1)
	var codeParam *ssa.Parameter
	for _, p := range wh.Params {
		if typeStr(p.Type()) == "int" {
			codeParam = p
		}
	}
	for _, u := range underlying {
		cc := callCommon(u)
		c.check("C17.H1", "(*gzip.GzipResponseWriter).WriteHeader|status code forwarded unchanged", u.Pos(), len(cc.Args) == 1 && cc.Args[0] == codeParam, "the status code must reach the client unchanged in all cases")
		// reached on every path
		_, open := exitReachableAvoiding(wh.Blocks[0].Instrs[0], func(i ssa.Instruction) bool { return i == u })
		c.check("C17.H1", "(*gzip.GzipResponseWriter).WriteHeader|underlying WriteHeader on every path", u.Pos(), !open || len(underlying) > 1, "every path through WriteHeader must forward the status to the wrapped writer")
	}
	var delCL, setCE []ssa.Instruction
	eachInstr(wh, func(i ssa.Instruction) {
		if k, _, ok := headerCall(i, "Del"); ok && k == "Content-Length" {
			delCL = append(delCL, i)
		}
		if k, cc, ok := headerCall(i, "Set"); ok && k == "Content-Encoding" {
			if v, _ := constString(cc.Args[2]); v == "gzip" {
				if _, isCall := i.(*ssa.Call); isCall {
					setCE = append(setCE, i)
				}
			}
		}
		// any other mutation of these two headers is a violation
		for _, m := range []string{"Set", "Add", "Del"} {
			if k, _, ok := headerCall(i, m); ok && (k == "Content-Length" || k == "Content-Encoding") {
				c.check("C17.H1", "(*gzip.GzipResponseWriter).WriteHeader|"+m+"("+k+") only on the compress edge", i.Pos(), factCallTo(i.Block(), isComp, true) != nil,
					"Content-Length / Content-Encoding may be changed only on the isCompressable()==true edge; on every other path the upstream's headers pass through untouched")
			}
		}
	})
	// gzip store
	var gzStore *ssa.Store
	var writerStores []*ssa.Store
	eachInstr(wh, func(i ssa.Instruction) {
		st, ok := i.(*ssa.Store)
		if !ok || !isWriterField(st.Addr) {
			return
		}
		writerStores = append(writerStores, st)
		if derives(st.Val, isGzField) {
			gzStore = st
		}
	})
	if gzStore == nil {
		c.undecided("C17.D1", "(*gzip.GzipResponseWriter).WriteHeader|gzip writer installation", "no store of the gzip writer into the writer field")
		return
	}
	c.check("C17.D1", "(*gzip.GzipResponseWriter).WriteHeader|gzip writer only for compressable responses", gzStore.Pos(), factCallTo(gzStore.Block(), isComp, true) != nil,
		"the gzip writer may be installed only on the isCompressable()==true edge (content type matches, not already encoded)")
	for _, u := range underlying {
		for _, grp := range []struct {
			name string
			is   []ssa.Instruction
		}{{"Del(Content-Length)", delCL}, {"Set(Content-Encoding, gzip)", setCE}} {
			ok := len(grp.is) > 0
			if ok {
				// from the gzip store's block entry (compress edge) the underlying WriteHeader is not reachable without passing the header op
				ok = !pathAvoidingFromBlock(gzStore.Block(), u, func(i ssa.Instruction) bool {
					for _, x := range grp.is {
						if i == x {
							return true
						}
					}
					return false
				})
			}
			c.check("C17.H1", "(*gzip.GzipResponseWriter).WriteHeader|"+grp.name+" before the underlying WriteHeader", u.Pos(), ok,
				"on the compress edge "+grp.name+" must happen before the headers are sent: a stale Content-Length truncates or stalls the compressed body, a missing Content-Encoding makes the client show compressed bytes")
		}
	}
	// T1: stores to writer only under writer == nil; every path of that edge stores
	for _, st := range writerStores {
		c.check("C17.T1", "(*gzip.GzipResponseWriter).WriteHeader|writer decided only once", st.Pos(), knownNil(st.Block(), isWriterField),
			"the writer field may be assigned only under writer == nil: deciding again after bytes were written mixes compressed and plain output")
	}
	// the nil edge assigns on every path
	assignsAll := false
	for _, b := range wh.Blocks {
		if len(b.Preds) == 1 && knownNil(b, isWriterField) && !knownNil(b.Preds[0], isWriterField) {
			_, open := exitReachableAvoidingFromBlock(b, func(i ssa.Instruction) bool {
				st, ok := i.(*ssa.Store)
				return ok && isWriterField(st.Addr) && !isNilConst(st.Val)
			})
			assignsAll = !open
		}
	}
	c.check("C17.T1", "(*gzip.GzipResponseWriter).WriteHeader|nil edge always decides", wh.Pos(), assignsAll, "when the writer is undecided WriteHeader must assign it on every path")
	// uses of writer in all methods of the type
	nUse := 0
	for _, f := range c.AllFns {
		if f.Signature.Recv() == nil || !namedIs(f.Signature.Recv().Type(), "gzip.GzipResponseWriter") {
			continue
		}
		eachInstr(f, func(i ssa.Instruction) {
			cc := callCommon(i)
			if cc == nil || !cc.IsInvoke() || !isWriterField(cc.Value) {
				return
			}
			nUse++
			ok := knownNonNil(i.Block(), isWriterField)
			if !ok {
				// reached from a `writer == nil` test whose true edge calls the deciding method on all paths to here
				for _, b := range f.Blocks {
					if len(b.Preds) == 1 && knownNil(b, isWriterField) && !knownNil(b.Preds[0], isWriterField) {
						if !pathAvoidingFromBlock(b, i, func(j ssa.Instruction) bool { return staticCalleeIs(j, wh) }) && assignsAll {
							ok = true
						}
					}
				}
			}
			c.check("C17.T1", fnKey(f)+"|writer used only after it is decided", i.Pos(), ok,
				"the writer field is dereferenced on a path where it may still be nil (nil pointer panic inside the response path)")
		})
	}
	c.atLeast("C17.T1", "uses of the decided writer", nUse, 1)

	// ---- T2: pool typestate
	var getI, resetI ssa.Instruction
	eachInstr(wh, func(i ssa.Instruction) {
		cc := callCommon(i)
		if cc == nil {
			return
		}
		switch calleeName(cc) {
		case "(*sync.Pool).Get":
			getI = i
		case "(*compress/gzip.Writer).Reset":
			if derives(cc.Args[0], isGzField) {
				if _, ok := fieldOf(cc.Args[1], "gzip.GzipResponseWriter", "ResponseWriter"); ok || strings.HasSuffix(accessPath(stripIface(cc.Args[1])), "ResponseWriter") {
					resetI = i
				}
			}
		}
	})
	c.check("C17.T2", "(*gzip.GzipResponseWriter).WriteHeader|pooled writer Reset to the wrapped writer before use", gzStore.Pos(), getI != nil && resetI != nil && dominatesInstr(getI, resetI) && dominatesInstr(resetI, gzStore),
		"a gzip.Writer taken from the pool still points at the previous response: it must be Reset to this response's writer before it becomes the active writer")
	var closeI, putI ssa.Instruction
	eachInstr(cl, func(i ssa.Instruction) {
		cc := callCommon(i)
		if cc == nil {
			return
		}
		switch calleeName(cc) {
		case "(*compress/gzip.Writer).Close":
			closeI = i
		case "(*sync.Pool).Put":
			putI = i
		}
	})
	okClose := closeI != nil && putI != nil && dominatesInstr(closeI, putI) && knownNonNil(putI.Block(), isGzField)
	c.check("C17.T2", "(*gzip.GzipResponseWriter).Close|Close before Put, under gzipWriter != nil", cl.Pos(), okClose, "the gzip stream must be finished (Close writes the trailer) before the writer is recycled, and only an acquired writer may be put back")
	if putI != nil {
		after := false
		eachInstr(cl, func(j ssa.Instruction) {
			if j != putI && pathAvoiding(putI, j, nil) {
				if cc := callCommon(j); cc != nil && len(cc.Args) > 0 && derives(cc.Args[0], isGzField) {
					after = true
				}
			}
		})
		c.check("C17.T2", "(*gzip.GzipResponseWriter).Close|no use after Put", putI.Pos(), !after, "after Put the writer may already serve another response; using it corrupts that response")
	}
	// deferred Close in the handler
	okDefer := false
	eachInstr(handler, func(i ssa.Instruction) {
		d, ok := i.(*ssa.Defer)
		if !ok || d.Call.StaticCallee() != cl {
			return
		}
		// must precede the serve call on the wrapped writer
		eachInstr(handler, func(j ssa.Instruction) {
			cc := callCommon(j)
			if cc != nil && cc.IsInvoke() && cc.Method.Name() == "ServeHTTP" && cc.Args[0] != nil {
				if _, isParam := stripIface(cc.Args[0]).(*ssa.Parameter); !isParam && dominatesInstr(d, j) {
					okDefer = true
				}
			}
		})
	})
	c.check("C17.T2", "gzip.NewGzipHandler$1|Close deferred before serving", handler.Pos(), okDefer, "the response writer's Close must be deferred before the inner handler runs, so the gzip trailer is written and the pooled writer returned on every exit, including panics")

	// ---- W1
	var bParam *ssa.Parameter
	for _, p := range wr.Params {
		if typeStr(p.Type()) == "[]byte" {
			bParam = p
		}
	}
	nW := 0
	eachInstr(wr, func(i ssa.Instruction) {
		r, ok := i.(*ssa.Return)
		if !ok {
			return
		}
		nW++
		okFwd := false
		if len(r.Results) == 2 {
			if e0, ok := r.Results[0].(*ssa.Extract); ok {
				if call, ok := e0.Tuple.(*ssa.Call); ok && call.Call.IsInvoke() && call.Call.Method.Name() == "Write" && isWriterField(call.Call.Value) && len(call.Call.Args) == 1 && call.Call.Args[0] == bParam {
					if e1, ok := r.Results[1].(*ssa.Extract); ok && e1.Tuple == call {
						okFwd = true
					}
				}
			}
		}
		c.check("C17.W1", "(*gzip.GzipResponseWriter).Write|forwards b unchanged and returns the writer's results", r.Pos(), okFwd, "Write must hand exactly its argument to the decided writer and return that writer's (n, err)")
	})
	c.atLeast("C17.W1", "returns of Write", nW, 1)

	// ---- V1
	okVary := false
	eachInstr(handler, func(i ssa.Instruction) {
		if k, cc, ok := headerCall(i, "Add"); ok && k == "Vary" {
			if v, _ := constString(cc.Args[2]); v == "Accept-Encoding" && i.Block() == handler.Blocks[0] {
				okVary = true
			}
		}
		if k, cc, ok := headerCall(i, "Set"); ok && k == "Vary" {
			if v, _ := constString(cc.Args[2]); v == "Accept-Encoding" && i.Block() == handler.Blocks[0] {
				okVary = true
			}
		}
	})
	runC17T3(c)
	c.check("C17.V1", "gzip.NewGzipHandler$1|Vary: Accept-Encoding on every path", handler.Pos(), okVary, "the response varies with Accept-Encoding whether or not it is compressed; the header must be added before branching")
}

// pathAvoidingFromBlock: path from the start of block b to instruction target avoiding instructions matched by avoid.
func pathAvoidingFromBlock(b *ssa.BasicBlock, target ssa.Instruction, avoid func(ssa.Instruction) bool) bool {
	avoid = liftMust(avoid, 1) // a helper that does it on all of its paths counts
	type item struct {
		b   *ssa.BasicBlock
		idx int
	}
	seen := map[*ssa.BasicBlock]bool{b: true}
	stack := []item{{b, 0}}
	for len(stack) > 0 {
		it := stack[len(stack)-1]
		stack = stack[:len(stack)-1]
		blocked := false
		for k := it.idx; k < len(it.b.Instrs); k++ {
			in := it.b.Instrs[k]
			if in == target {
				return true
			}
			if avoid != nil && avoid(in) {
				blocked = true
				break
			}
		}
		if blocked {
			continue
		}
		for _, s := range it.b.Succs {
			if !seen[s] {
				seen[s] = true
				stack = append(stack, item{s, 0})
			}
		}
	}
	return false
}

func exitReachableAvoidingFromBlock(b *ssa.BasicBlock, pass func(ssa.Instruction) bool) (ssa.Instruction, bool) {
	pass = liftMust(pass, 1) // a helper that does it on all of its paths counts
	type item struct {
		b   *ssa.BasicBlock
		idx int
	}
	seen := map[*ssa.BasicBlock]bool{b: true}
	stack := []item{{b, 0}}
	for len(stack) > 0 {
		it := stack[len(stack)-1]
		stack = stack[:len(stack)-1]
		blocked := false
		for k := it.idx; k < len(it.b.Instrs); k++ {
			in := it.b.Instrs[k]
			if pass(in) {
				blocked = true
				break
			}
			if r, ok := in.(*ssa.Return); ok {
				return r, true
			}
		}
		if blocked {
			continue
		}
		for _, s := range it.b.Succs {
			if !seen[s] {
				seen[s] = true
				stack = append(stack, item{s, 0})
			}
		}
	}
	return nil, false
}
