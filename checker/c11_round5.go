package main

// C11, third hardening round: the watch loops of package cert found by role also when they carry a condition.
//
// L1 (pacing) and L5 (lower bound of the computed waits) looked at condition-less loops only (`for { ... }`, range over a
// channel). A watcher whose cycle was moved into a step method (`for !w.step() {}`), or that got a stop flag
// (`for !stopped.Load() { ... }`), is the same loop: it counts when its header is that of a `for cond` statement (not a
// range over a collection, not a select/switch artefact) and its body may deliver certificates or certificate material
// on a channel, directly or through the helpers, function values and methods it calls.

import "golang.org/x/tools/go/ssa"

// c11delivers: the instruction sends certificates or certificate material on a channel.
func c11delivers(i ssa.Instruction) bool {
	snd, ok := i.(*ssa.Send)
	return ok && (c11isCertSlice(snd.X.Type()) || c11isMaterial(snd.X.Type(), 0))
}

// c11condWatchLoops: the loops of f written with a condition whose body may deliver certificates or material.
func c11condWatchLoops(f *ssa.Function) []*loop {
	var out []*loop
	mayDeliver := c11liftMay(c11delivers)
	for _, l := range loopsOf(f) {
		if l.Head.Comment != "for.loop" {
			continue
		}
		hit := false
		for _, b := range f.Blocks { // in block order: deterministic
			if !l.Body[b] || hit {
				continue
			}
			for _, in := range b.Instrs {
				if mayDeliver(in) {
					hit = true
					break
				}
			}
		}
		if hit {
			out = append(out, l)
		}
	}
	return out
}

// c11watchLoops: the condition-less loops of f and its conditional loops that deliver.
func c11watchLoops(f *ssa.Function) []*loop {
	return append(condLessLoops(f), c11condWatchLoops(f)...)
}

// c11runCondLoopPacing: runLoopPacing's check for the conditional watch loops of package cert (runLoopPacing, shared,
// iterates the condition-less ones).
func c11runCondLoopPacing(c *Ctx, rule string) {
	for _, f := range c.fnsWhere("cert", func(*ssa.Function) bool { return true }) {
		for _, l := range c11condWatchLoops(f) {
			b := spinCycle(l)
			pos := l.Head.Instrs[0].Pos()
			detail := "every cycle of this reload/watch loop sleeps, blocks on a channel or issues an advancing blocking query"
			if b != nil {
				for k := len(b.Instrs) - 1; k >= 0; k-- {
					if b.Instrs[k].Pos().IsValid() {
						pos = b.Instrs[k].Pos()
						break
					}
				}
				detail = "a cycle of this loop returns to its head without sleeping, blocking on a channel or issuing an advancing blocking query (the edge back to the head from here): when that path is taken persistently (e.g. unusable material that does not change) the loop spins at full speed"
			}
			if !pos.IsValid() {
				pos = f.Pos()
			}
			c.check(rule, fnKey(f)+"|every cycle of the loop is paced", pos, b == nil, detail)
		}
	}
}
